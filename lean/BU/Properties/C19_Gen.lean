import BU.Gen.Codec
import BU.Properties.C19
import BU.Properties.C09_GenInit
/-!
# C19, continuation — the `HDWallet` wrapper as *generated* code (tier T)

`hdwallet.py` is re-translated from the working tree on every run.  The third-party `hdwallet` object is an abstract state, each of
its methods the wrapper calls (`from_mnemonic`, `from_xprivate_key`, `from_derivation`, `clean_derivation`, `wif`) a parameter that
returns the new state; the translator accepts nothing else in these methods.  What the wrapper itself decides — the library network
from `is_mainnet()`, which methods run for which arguments and in which order, **clean-then-derive** on a path change, the WIF
hand-over to `PrivateKey` — is then a statement about the translated code for *every* behaviour of the library; instantiated with the
parameter model of the library (`Model.HD.ExtHDW`: root and current key, derivation from the current key) it gives the C19 theorems
for the translated wrapper.  `pp` stands for the library's parser of a path string (`CustomDerivation`).
-/
namespace C19Gen
open Py Spec Model Model.HD Secp C09Gen C09GenInit

/-- `from_path`, for every library: `clean_derivation()` first, then `from_derivation(path)` on the cleaned object -/
theorem gen_from_path {S : Type} (clean : S → S) (fd : S → String → Except PyErr S) (w : S) (path : String) :
    Gen.hd_from_path S clean fd w path = fd (clean w) path := by
  unfold Gen.hd_from_path
  cases fd (clean w) path <;> rfl

/-- … hence, on the parameter model, the model's `fromPath` -/
theorem gen_from_path_model (hmac : Bytes → Bytes → Bytes) (pp : String → List Nat) (w : ExtHDW) (path : String) :
    Gen.hd_from_path ExtHDW ExtHDW.clean (fun w s => ExtHDW.fromDerivation hmac w (pp s)) w path = fromPath hmac w (pp path) := by
  rw [gen_from_path]; rfl

/-- **setting a new path derives from the root again** (translated `from_path`): after any sequence of path changes the current key is
the BIP32 private child derivation of the ROOT along the last path, and the root never changes -/
theorem gen_from_path_resets (hmac : Bytes → Bytes → Bytes) (pp : String → List Nat) (w : ExtHDW) (paths : List String) (p : String)
    (w' : ExtHDW)
    (h : (paths ++ [p]).foldlM (Gen.hd_from_path ExtHDW ExtHDW.clean (fun w s => ExtHDW.fromDerivation hmac w (pp s))) w = .ok w') :
    w'.root = w.root ∧ derivePath hmac w.root (pp p) = some w'.cur := by
  have e : (Gen.hd_from_path ExtHDW ExtHDW.clean (fun w s => ExtHDW.fromDerivation hmac w (pp s))) =
      fun w s => fromPath hmac w (pp s) := by
    funext w s; exact gen_from_path_model hmac pp w s
  rw [e] at h
  have h' : ((paths.map pp) ++ [pp p]).foldlM (fromPath hmac) w = .ok w' := by
    rw [← List.map_singleton, ← List.map_append, List.foldlM_map]; exact h
  exact C19.from_path_resets hmac w (paths.map pp) (pp p) w' h'

/-- the constructor, for every library: the library object is created for the library's mainnet exactly when `is_mainnet()`; a
non-empty mnemonic is loaded; an extended key is loaded and its path derived only when both are given and non-empty, in that order -/
theorem gen_init_mnemonic {S : Type} (nw : Bool → S) (fm fx fd : S → String → Except PyErr S) (mainnet : Bool) (mn : String)
    (hmn : mn.isEmpty = false) :
    Gen.hd_init S nw fm fx fd mainnet none none (some mn) = fm (nw mainnet) mn := by
  unfold Gen.hd_init
  simp only [hmn, Bool.not_false, if_true]
  cases fm (nw mainnet) mn <;> rfl

theorem gen_init_xprv {S : Type} (nw : Bool → S) (fm fx fd : S → String → Except PyErr S) (mainnet : Bool) (xk path : String)
    (hx : xk.isEmpty = false) (hp : path.isEmpty = false) :
    Gen.hd_init S nw fm fx fd mainnet (some xk) (some path) none = (fx (nw mainnet) xk >>= fun w => fd w path) := by
  unfold Gen.hd_init
  simp only [hx, hp, Bool.not_false, Bool.and_self, if_true]
  cases fx (nw mainnet) xk with
  | error e => rfl
  | ok w => simp only [ok_bind]; cases fd w path <;> rfl

/-- `get_private_key`, for every library: the WIF the library exports is imported by the translated `PrivateKey.__init__` (as its
first positional argument) under the configured network's prefix -/
theorem gen_get_private_key {S : Type} (wif : S → String) (sha256 : Bytes → Bytes) (pfx : Bytes) (w : S)
    (hl : ∀ d, B58.decode (wif w) = some d → d.length < 2 ^ 62) :
    Gen.hd_get_private_key S wif sha256 decP sfsP sfeP pfx w =
      ((fromWif (fun x => sha256 (sha256 x)) pfx (wif w)).map fun (k : Nat) => some (k : Int)) := by
  unfold Gen.hd_get_private_key
  rw [gen_privkey_init sha256 pfx (some (wif w)) none none (fun s d hs hd => by cases hs; exact hl d hd)]
  show (do let t1 ← Except.map (Option.map fun (n : Nat) => (n : Int)) (Except.map some (fromWif (fun x => sha256 (sha256 x)) pfx (wif w))); pure t1) = _
  cases fromWif (fun x => sha256 (sha256 x)) pfx (wif w) <;> rfl

/-- **the key handed back is exactly the derived key** (translated hand-over, parameter model of the library's `wif()`): on every
generated network, for every wallet state whose current key is a valid secret -/
theorem gen_get_private_key_exact (sha256 : Bytes → Bytes) (hd : ∀ x, (sha256 x).length = 32)
    (e : String × Bytes) (he : e ∈ Gen.NETWORK_WIF_PREFIXES) (w : ExtHDW) (hk : 1 ≤ w.cur.key ∧ w.cur.key < n)
    (wifOf : ExtHDW → String)
    (hw : wifOf w = toWif (fun x => sha256 (sha256 x)) (extWifPrefix (e.1 == "mainnet")) w.cur.key true)
    (hl : ∀ d, B58.decode (wifOf w) = some d → d.length < 2 ^ 62) :
    Gen.hd_get_private_key ExtHDW wifOf sha256 decP sfsP sfeP e.2 w = .ok (some (w.cur.key : Int)) := by
  rw [gen_get_private_key wifOf sha256 e.2 w hl, hw]
  have := C19.get_private_key_exact (fun x => sha256 (sha256 x)) (fun x => hd _) e he w hk
  unfold getPrivateKey at this
  rw [this]; rfl

end C19Gen
