import BU.Proofs.GenTapSign
import BU.Properties.C07
/-!
# C07, continuation — `PrivateKey._sign_taproot_input` as *generated* code (tier T)

The signing method is re-translated from the working tree on every run (the key object as its 32 secret bytes, the public-key
object as its 64 bytes): tweak or not, `calculate_tweak`, `tweak_taproot_privkey`, the auxiliary randomness `SHA256(digest ‖ key)`,
`schnorr_sign`, the hash-type byte unless it is the default.  Everything it calls is translated and proved as well, so for every
key, digest, hash type, script tree and flag it returns what `Model.signTaproot` returns — and the key-path theorem of C07 becomes
a statement about the translated code: the signature verifies (BIP340) under the output key the address commits to.
-/
namespace C07GenSign
open Py Secp Model Spec GenTapSign SchnorrLemmas

theorem gen_sign_taproot_input (sha256 : Bytes → Bytes) (T : Tables) (priv pub digest : Bytes) (sighash : Nat) (s : Model.Scripts)
    (tweak : Bool) (hs : SmallScripts T s) :
    Gen.sign_taproot_input sha256 T.opCodes priv pub digest (sighash : Int) (toPyScripts s) tweak =
      signTaproot sha256 T priv pub digest sighash s tweak :=
  GenTapSign.gen_sign_taproot_input sha256 T priv pub digest sighash s tweak hs

/-- **key-path signatures verify, end to end** (translated signer, no curve hypothesis): for every secret in [1, n-1], script tree,
digest and hash type, what the translated `_sign_taproot_input` returns verifies under the output key of the address -/
theorem gen_keypath_sig_verifies (sha256 : Bytes → Bytes) (hlen : ∀ b, (sha256 b).length = 32)
    (T : Tables) (d : Nat) (hd : 1 ≤ d ∧ d < n) (x y : Nat) (hP : mul G d = some (x, y))
    (s : Scripts) (hsm : SmallScripts T s) (digest : Bytes) (ht : Nat) (sig : Bytes) (q : Bytes) (odd : Bool)
    (hq : toTaproot sha256 T (beBytes 32 x ++ beBytes 32 y) s = .ok (q, odd))
    (hs : Gen.sign_taproot_input sha256 T.opCodes (beBytes 32 d) (beBytes 32 x ++ beBytes 32 y) digest (ht : Int) (toPyScripts s) true
      = .ok sig) :
    bip340Verify sha256 digest q (sig.take 64) = true := by
  rw [gen_sign_taproot_input sha256 T _ _ digest ht s true hsm] at hs
  exact C07.keypath_sig_verifies_unconditional sha256 hlen T d hd x y hP s digest ht sig q odd hq hs

end C07GenSign
