import BU.Properties.C01
#print axioms C01.encode_eq_wire
#print axioms C01.parse_encode
#print axioms C01.reencode
#print axioms C01.txid_wtxid
