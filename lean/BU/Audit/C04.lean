import BU.Properties.C04
import BU.Properties.C04_Gen
#print axioms C04.segwit_digest_eq_bip143
#print axioms C04.ignores_scriptsigs_witnesses
#print axioms C04Gen.loop_prevouts
#print axioms C04Gen.loop_sequences
#print axioms C04Gen.outBody_spec
#print axioms C04Gen.loop_outputs4
#print axioms C04Gen.listGet_map
#print axioms C04Gen.tail_eq
#print axioms C04Gen.beq_cast
#print axioms C04Gen.bne_cast
#print axioms C04Gen.land31
#print axioms C04Gen.land240
#print axioms C04Gen.zeros_eq
#print axioms C04Gen.map_bind
#print axioms C04Gen.gen_segwit_digest
#print axioms C04Gen.gen_segwit_digest_eq_bip143
