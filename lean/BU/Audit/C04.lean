import BU.Properties.C04
#print axioms C04.segwit_digest_eq_bip143
#print axioms C04.ignores_scriptsigs_witnesses
