import BU.Properties.C02
import BU.Properties.C02_Gen
#print axioms C02.tables_ok
#print axioms C02.op_push_data_eq_spec
#print axioms C02.push_integer_eq_spec
#print axioms C02.opCodes_byte
#print axioms C02.codeOps_inverse
#print axioms C02.codeOps_direct
#print axioms C02.codeOps_pushdata
#print axioms C02.opCodes_small
#print axioms C02.not_push_byte
#print axioms C02.tok_op_facts
#print axioms C02.ofNat_small_toNat
#print axioms C02.tok_facts
#print axioms C02.scriptBytes_cons_ok
#print axioms C02.scriptBytes_cons_of_ok
#print axioms C02.assemble
#print axioms C02.disasm_assemble
#print axioms C02.reassemble
#print axioms C02.assemble_disasm_reassemble_gen
#print axioms C02Gen.forIn_append
#print axioms C02Gen.accum_eq_scriptBytes
#print axioms C02Gen.body_eq
#print axioms C02Gen.gen_script_to_bytes
#print axioms C02Gen.gen_assemble
