import BU.Properties.C02
#print axioms C02.tables_ok
#print axioms C02.op_push_data_eq_spec
#print axioms C02.push_integer_eq_spec
#print axioms C02.assemble
#print axioms C02.disasm_assemble
#print axioms C02.reassemble
#print axioms C02.assemble_disasm_reassemble_gen
