import BU.Properties.C05
#print axioms C05.assembleSpent_eq
#print axioms C05.taproot_digest_eq_bip341
#print axioms C05.ignores_scriptsigs_witnesses
