import BU.Properties.C12
