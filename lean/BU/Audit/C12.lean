import BU.Properties.C12
#print axioms C12.lk_dup
#print axioms C12.lk_hash160
#print axioms C12.lk_equalverify
#print axioms C12.lk_checksig
#print axioms C12.lk_equal
#print axioms C12.lk_0
#print axioms C12.lk_1
#print axioms C12.push_direct
#print axioms C12.p2pkh_bytes
#print axioms C12.p2sh_bytes
#print axioms C12.p2wpkh_bytes
#print axioms C12.p2wsh_bytes
#print axioms C12.p2tr_bytes
#print axioms C12.p2sh_commits
#print axioms C12.p2wsh_commits
#print axioms C12.helpers_eq_address_script
