import BU.Properties.C12
import BU.Properties.C12_Gen
import BU.Properties.C12_GenPub
#print axioms C12.lk_dup
#print axioms C12.lk_hash160
#print axioms C12.lk_equalverify
#print axioms C12.lk_checksig
#print axioms C12.lk_equal
#print axioms C12.lk_0
#print axioms C12.lk_1
#print axioms C12.push_direct
#print axioms C12.p2pkh_bytes
#print axioms C12.p2sh_bytes
#print axioms C12.p2wpkh_bytes
#print axioms C12.p2wsh_bytes
#print axioms C12.p2tr_bytes
#print axioms C12.p2sh_commits
#print axioms C12.p2wsh_commits
#print axioms C12.helpers_eq_address_script
#print axioms C12Gen.gen_p2pkh
#print axioms C12Gen.gen_p2sh
#print axioms C12Gen.gen_p2wpkh
#print axioms C12Gen.gen_p2wsh
#print axioms C12Gen.gen_p2tr
#print axioms C12Gen.gen_p2pkh_bytes
#print axioms C12Gen.gen_p2sh_bytes
#print axioms C12Gen.gen_p2wpkh_bytes
#print axioms C12Gen.gen_p2wsh_bytes
#print axioms C12Gen.gen_p2tr_bytes
#print axioms C12Gen.gen_to_p2sh
#print axioms C12Gen.gen_to_p2wsh
#print axioms C12Gen.gen_address_script_to_hash160
#print axioms C12Gen.gen_segwit_script_to_hash
#print axioms C12GenPub.gen_p2pkh_of_pubkey
#print axioms C12GenPub.gen_p2wpkh_of_pubkey
#print axioms C12GenPub.gen_address_init_script
