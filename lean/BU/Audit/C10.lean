import BU.Properties.C10
import BU.Properties.C10_Gen
import BU.Properties.C10_GenPub
#print axioms C10.prefixes
#print axioms C10.to_string_eq
#print axioms C10.accept_sound
#print axioms C10.roundtrip
#print axioms C10.from_hash160
#print axioms C10.pubkey_address
#print axioms C10Gen.any_not_all
#print axioms C10Gen.slice1
#print axioms C10Gen.slice4
#print axioms C10Gen.gen_is_address_valid
#print axioms C10Gen.sliceL_1_m4
#print axioms C10Gen.gen_address_to_hash160
#print axioms C10Gen.gen_address_to_string
#print axioms C10Gen.genAccept_eq
#print axioms C10Gen.gen_accept_sound
#print axioms C10Gen.gen_roundtrip
#print axioms C10GenPub.rmd_length
#print axioms C10GenPub.gen_is_hash160_valid
#print axioms C10GenPub.gen_is_hash160_valid_len
#print axioms C10GenPub.gen_address_init_hash160
#print axioms C10GenPub.gen_pubkey_get_address
#print axioms C10GenPub.gen_pubkey_address_commits
#print axioms C10GenPub.gen_address_init_address
#print axioms C10GenPub.gen_ctor_accept_sound
