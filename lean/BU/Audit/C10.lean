import BU.Properties.C10
