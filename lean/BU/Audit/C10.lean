import BU.Properties.C10
#print axioms C10.prefixes
#print axioms C10.to_string_eq
#print axioms C10.accept_sound
#print axioms C10.roundtrip
#print axioms C10.from_hash160
#print axioms C10.pubkey_address
