import BU.Properties.C08
import BU.Properties.C08_Gen
import BU.Properties.C08_GenAddr
import BU.Properties.C08_GenTree
import BU.Properties.C08_GenTweak
import BU.Properties.C08_Key
#print axioms C08.WFTree.one
#print axioms C08.WFTree.two
#print axioms C08.root_eq_spec
#print axioms C08.merkleRoot_ok
#print axioms C08.merkleRoot_length
#print axioms C08.traverse_miss
#print axioms C08.traverse_hit
#print axioms C08.path_folds_to_root
#print axioms C08.address_commits
#print axioms C08.control_block_verifies
#print axioms C08Gen.bytesLt_eq
#print axioms C08Gen.gen_tagged_hash
#print axioms C08Gen.tag_branch
#print axioms C08Gen.tag_leaf
#print axioms C08Gen.gen_tapbranch
#print axioms C08Gen.gen_tapleaf
#print axioms C08GenAddr.gen_to_taproot_hex
#print axioms C08GenAddr.gen_address_commits
#print axioms C08GenAddr.gen_get_taproot_address
#print axioms C08GenTree.gen_merkle_root
#print axioms C08GenTree.gen_merkle_root_edge
#print axioms C08GenTree.gen_calculate_tweak
#print axioms C08GenTree.gen_root_eq_spec
#print axioms C08GenTree.gen_traverse
#print axioms C08GenTree.gen_merkle_path
#print axioms C08GenTree.gen_control_block
#print axioms C08GenTree.gen_control_block_verifies
#print axioms C08GenTweak.gen_tweak_taproot_pubkey
#print axioms C08.control_block_verifies_for_key
