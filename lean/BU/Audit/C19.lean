import BU.Properties.C19
import BU.Properties.C19_Gen
#print axioms C19.fromPath_spec
#print axioms C19.foldl_root
#print axioms C19.from_path_resets
#print axioms C19.from_mnemonic_spec
#print axioms C19.from_xprv_spec
#print axioms C19.network_ok
#print axioms C19.get_private_key_exact
#print axioms C19.derived_key_valid
#print axioms C19Gen.gen_from_path
#print axioms C19Gen.gen_from_path_model
#print axioms C19Gen.gen_from_path_resets
#print axioms C19Gen.gen_init_mnemonic
#print axioms C19Gen.gen_init_xprv
#print axioms C19Gen.gen_get_private_key
#print axioms C19Gen.gen_get_private_key_exact
