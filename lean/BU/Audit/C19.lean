import BU.Properties.C19
#print axioms C19.fromPath_spec
#print axioms C19.foldl_root
#print axioms C19.from_path_resets
#print axioms C19.from_mnemonic_spec
#print axioms C19.from_xprv_spec
#print axioms C19.network_ok
#print axioms C19.get_private_key_exact
#print axioms C19.derived_key_valid
