import BU.Properties.C14
