import BU.Properties.C14
import BU.Properties.C14_Gen
import BU.Properties.C14_GenMsg
import BU.Properties.C14_Witness
#print axioms C14.magic_tie
#print axioms C14.digest_eq_core
#print axioms C14.verify_true_implies
#print axioms C14.verify_header_window
#print axioms C14.sign_verifies
#print axioms C14.sign_verifies_unconditional
#print axioms C14Gen.gen_add_magic_prefix
#print axioms C14Gen.gen_prefix_eq_core
#print axioms C14GenMsg.okb
#print axioms C14GenMsg.thb
#print axioms C14GenMsg.gen_pubkey_verify
#print axioms C14GenMsg.gen_pubkey_recover
#print axioms C14GenMsg.gen_pubkey_recover_rejects
#print axioms C14GenMsg.gen_recover_sound
#print axioms C14.mulG_6
#print axioms C14.mulG_1
#print axioms C14.hinf_witness
