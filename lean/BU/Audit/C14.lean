import BU.Properties.C14
#print axioms C14.magic_tie
#print axioms C14.digest_eq_core
#print axioms C14.verify_true_implies
#print axioms C14.verify_header_window
#print axioms C14.sign_verifies
