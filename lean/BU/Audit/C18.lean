import BU.Properties.C18
#print axioms C18.lor_flag
#print axioms C18.lor_flag'
#print axioms C18.lor_zero_flag
#print axioms C18.relative_ok
#print axioms C18.relative_bits
#print axioms C18.relative_rejects
#print axioms C18.csv_self
#print axioms C18.bip112_satisfied
#print axioms C18.nonfinal_sequences
#print axioms C18.locktime_le32
#print axioms C18.locktime_rejects
#print axioms C18.byteLen_pos
#print axioms C18.push_integer_scriptnum
#print axioms C18.push_integer_zero
#print axioms C18.scriptnum_roundtrip
