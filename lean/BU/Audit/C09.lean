import BU.Properties.C09
