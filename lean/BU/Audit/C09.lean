import BU.Properties.C09
import BU.Properties.C09_Gen
import BU.Properties.C09_GenInit
import BU.Properties.C09_GenPub
#print axioms C09.wif_prefixes
#print axioms C09.wif_roundtrip
#print axioms C09.wif_standard_form
#print axioms C09.wif_rejects
#print axioms C09.explicit_secret
#print axioms C09.pub_is_dG
#print axioms C09.sec_standard_form
#print axioms C09.sec_roundtrip
#print axioms C09.offcurve_rejected
#print axioms C09.sec_roundtrip_unconditional
#print axioms C09Gen.sliceL_dropLast
#print axioms C09Gen.sliceFromL_last
#print axioms C09Gen.slice_take
#print axioms C09Gen.slice_from1
#print axioms C09Gen.gen_from_wif
#print axioms C09Gen.gen_to_wif
#print axioms C09Gen.gen_wif_roundtrip
#print axioms C09Gen.gen_wif_rejects
#print axioms C09GenInit.gen_privkey_from_bytes
#print axioms C09GenInit.gen_privkey_init
#print axioms C09GenInit.gen_explicit_secret
#print axioms C09GenPub.gen_to_hex
#print axioms C09GenPub.gen_to_x_only_hex
#print axioms C09GenPub.gen_is_y_even
#print axioms C09GenPub.gen_to_hash160
#print axioms C09GenPub.gen_from_hex
#print axioms C09GenPub.gen_from_hex_ok
#print axioms C09GenPub.gen_from_hex_rejects
#print axioms C09GenPub.pubToBytes_len
#print axioms C09GenPub.gen_sec_roundtrip
#print axioms C09GenPub.gen_offcurve_rejected
