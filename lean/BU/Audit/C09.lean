import BU.Properties.C09
#print axioms C09.wif_prefixes
#print axioms C09.wif_roundtrip
#print axioms C09.wif_standard_form
#print axioms C09.wif_rejects
#print axioms C09.explicit_secret
#print axioms C09.pub_is_dG
#print axioms C09.sec_standard_form
#print axioms C09.sec_roundtrip
#print axioms C09.offcurve_rejected
#print axioms C09.sec_roundtrip_unconditional
