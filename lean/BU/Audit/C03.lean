import BU.Properties.C03
import BU.Properties.C03_Gen
#print axioms C03.legacy_eq
#print axioms C03.single_refuses
#print axioms C03.legacy_ignores_scriptsigs
#print axioms C03Gen.listSet_map
#print axioms C03Gen.blank_map
#print axioms C03Gen.set_code
#print axioms C03Gen.zero_fold_get
#print axioms C03Gen.zero_fold
#print axioms C03Gen.zero_fold_length
#print axioms C03Gen.set_eq_modify
#print axioms C03Gen.zero_loop
#print axioms C03Gen.pad_loop
#print axioms C03Gen.gen_transaction_to_bytes_false
#print axioms C03Gen.inScript_small
#print axioms C03Gen.blankish_zero
#print axioms C03Gen.zero_length
#print axioms C03Gen.ser_eq
#print axioms C03Gen.bne_cast0
#print axioms C03Gen.gen_legacy_digest
#print axioms C03Gen.gen_legacy_digest_eq_core
#print axioms C03Gen.gen_single_refuses
