import BU.Properties.C03
#print axioms C03.legacy_eq
#print axioms C03.single_refuses
#print axioms C03.legacy_ignores_scriptsigs
