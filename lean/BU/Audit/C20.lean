import BU.Properties.C20
import BU.Properties.C20_Gen
import BU.Properties.C20_GenCurve
#print axioms C20.ripemd_tables
#print axioms C20.curve_constants
#print axioms C20.compress_eq_spec
#print axioms C20.ripemd_eq_spec
#print axioms C20.tagged_hash_def
#print axioms C20.verify_eq_spec
#print axioms C20.verify_rejects_lengths
#print axioms C20.verify_rejects
#print axioms C20.sign_eq_spec
#print axioms C20.sign_ok_verifies
#print axioms C20.sign_never_fails
#print axioms C20.sign_never_fails_unconditional
#print axioms C20Gen.gen_rol
#print axioms C20Gen.gen_fi
#print axioms C20Gen.gen_fi_rejects
#print axioms C20Gen.gen_compress
#print axioms C20Gen.gen_ripemd160
#print axioms C20Gen.gen_point_add
#print axioms C20Gen.gen_point_mul
#print axioms C20Gen.gen_lift_x
#print axioms C20Gen.gen_has_even_y
#print axioms C20Gen.gen_schnorr_verify
#print axioms C20Gen.gen_schnorr_sign
#print axioms C20GenCurve.gen_mulG_add
#print axioms C20GenCurve.gen_order
#print axioms C20GenCurve.gen_ripemd160_eq_spec
#print axioms C20GenCurve.gen_verify_eq_spec
#print axioms C20GenCurve.gen_sign_ok
