import BU.Properties.C20
#print axioms C20.ripemd_tables
#print axioms C20.curve_constants
#print axioms C20.compress_eq_spec
#print axioms C20.ripemd_eq_spec
#print axioms C20.tagged_hash_def
#print axioms C20.verify_eq_spec
#print axioms C20.verify_rejects_lengths
#print axioms C20.verify_rejects
#print axioms C20.sign_eq_spec
#print axioms C20.sign_ok_verifies
#print axioms C20.sign_never_fails
#print axioms C20.sign_never_fails_unconditional
