import BU.Properties.C11
import BU.Properties.C11_Detect
import BU.Properties.C11_Gen
#print axioms C11.consts_tie
#print axioms C11.segwit_prefixes
#print axioms C11.hrp_cases
#print axioms C11.core
#print axioms C11.roundtrip
#print axioms C11.recreate
#print axioms C11.accept_sound
#print axioms C11.predicate_valid
#print axioms C11.predicate_rejects
#print axioms C11.syndrome_eq
#print axioms C11.foldl_xorWord
#print axioms C11.polymod_xor
#print axioms C11.weight_cons
#print axioms C11.fold_weight_zero
#print axioms C11.fold_weight_one
#print axioms C11.fold_weight_two
#print axioms C11.syndrome_visible
#print axioms C11.detects_up_to_two
#print axioms C11Gen.gen_polymod
#print axioms C11Gen.gen_hrp_expand
#print axioms C11Gen.gen_verify_checksum
#print axioms C11Gen.gen_create_checksum
#print axioms C11Gen.gen_convertbits
