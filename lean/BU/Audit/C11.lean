import BU.Properties.C11
import BU.Properties.C11_Detect
import BU.Properties.C11_Gen
import BU.Properties.C11_GenAddr
import BU.Properties.C11_GenInit
import BU.Properties.C11_GenTop
#print axioms C11.consts_tie
#print axioms C11.segwit_prefixes
#print axioms C11.hrp_cases
#print axioms C11.core
#print axioms C11.roundtrip
#print axioms C11.recreate
#print axioms C11.accept_sound
#print axioms C11.predicate_valid
#print axioms C11.predicate_rejects
#print axioms C11.syndrome_eq
#print axioms C11.foldl_xorWord
#print axioms C11.polymod_xor
#print axioms C11.weight_cons
#print axioms C11.fold_weight_zero
#print axioms C11.fold_weight_one
#print axioms C11.fold_weight_two
#print axioms C11.syndrome_visible
#print axioms C11.detects_up_to_two
#print axioms C11Gen.gen_polymod
#print axioms C11Gen.gen_hrp_expand
#print axioms C11Gen.gen_verify_checksum
#print axioms C11Gen.gen_create_checksum
#print axioms C11Gen.gen_convertbits
#print axioms C11GenAddr.ints_of_bytes
#print axioms C11GenAddr.gen_segwit_to_string
#print axioms C11GenAddr.bytesOfInts_nat
#print axioms C11GenAddr.gen_segwit_address_to_hash
#print axioms C11GenAddr.gen_segwit_roundtrip
#print axioms C11GenAddr.gen_segwit_accept_sound
#print axioms C11GenInit.ver_cases
#print axioms C11GenInit.gen_segwit_init_program
#print axioms C11GenInit.gen_segwit_init_address
#print axioms C11GenInit.gen_segwit_init_rejects
#print axioms C11GenInit.gen_segwit_recreate
#print axioms C11GenInit.gen_get_segwit_address
#print axioms C11GenInit.gen_is_address_bech32
#print axioms C11GenInit.gen_predicate
#print axioms C11GenInit.gen_segwit_init_script
#print axioms C11GenTop.lowerA_eq
#print axioms C11GenTop.upperA_eq
#print axioms C11GenTop.any_eq
#print axioms C11GenTop.printable_ascii
#print axioms C11GenTop.sliceL_drop
#print axioms C11GenTop.sliceL_take
#print axioms C11GenTop.sliceL_drop_last6
#print axioms C11GenTop.gen_bech32_decode
#print axioms C11GenTop.decode_len
#print axioms C11GenTop.ok_bind_p
#print axioms C11GenTop.gen_segwit_decode
#print axioms C11GenTop.checksum_lt
#print axioms C11GenTop.listGet_nat
#print axioms C11GenTop.charset_get
#print axioms C11GenTop.gen_bech32_encode
#print axioms C11GenTop.gen_segwit_encode
#print axioms C11GenTop.gen_decode_encode
#print axioms C11GenTop.gen_decode_sound
