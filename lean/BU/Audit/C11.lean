import BU.Properties.C11
#print axioms C11.consts_tie
#print axioms C11.segwit_prefixes
#print axioms C11.hrp_cases
#print axioms C11.core
#print axioms C11.roundtrip
#print axioms C11.recreate
#print axioms C11.accept_sound
#print axioms C11.predicate_valid
#print axioms C11.predicate_rejects
