import BU.Properties.C11
