import BU.Properties.C06
#print axioms C06.normalise_strict_lowS
#print axioms C06.grind_first_lowR
#print axioms C06.sign_input_spec
#print axioms C06.lowS_preserves_validity
#print axioms C06.lowS_preserves_validity_unconditional
