import BU.Properties.C06
