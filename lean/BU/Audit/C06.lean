import BU.Properties.C06
import BU.Properties.C06_Gen
import BU.Properties.C06_GenWrap
#print axioms C06.normalise_strict_lowS
#print axioms C06.grind_first_lowR
#print axioms C06.sign_input_spec
#print axioms C06.lowS_preserves_validity
#print axioms C06.lowS_preserves_validity_unconditional
#print axioms C06Gen.index3
#print axioms C06Gen.i_to_b32_nat
#print axioms C06Gen.grind_loop
#print axioms C06Gen.gen_sign_input
#print axioms C06Gen.gen_sign_input_spec
#print axioms C06GenWrap.gen_pk_sign_input
#print axioms C06GenWrap.gen_pk_sign_segwit_input
#print axioms C06GenWrap.gen_pk_sign_taproot_input
#print axioms C06GenWrap.gen_pk_sign_input_spec
