import BU.Properties.C13
import BU.Properties.C13_Gen
#print axioms C13.copyTx_fresh
#print axioms C13.copyTxIn_fresh
#print axioms C13.copyTxOut_fresh
#print axioms C13.copyWit_fresh
#print axioms C13.copyScript_fresh
#print axioms C13.newTxIn_default_fresh
#print axioms C13.frame
#print axioms C13.reach_old
#print axioms C13.copy_isolated
#print axioms C13.legacy_digest_pure
#print axioms C13.legacy_digest_value
#print axioms C13.digests_depend_on_skeleton
#print axioms C13.order_independent
#print axioms C13Gen.gen_digests_depend_on_skeleton
#print axioms C13Gen.gen_sign_depends_on_skeleton
#print axioms C13Gen.gen_sign_taproot_depends_on_skeleton
