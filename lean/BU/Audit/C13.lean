import BU.Properties.C13
