import BU.Properties.C15
import BU.Properties.C15_Gen
import BU.Properties.C15_GenBlock
import BU.Properties.C15_GenHeader
#print axioms C15.header_roundtrip
#print axioms C15.header_fields
#print axioms C15.header_rejects
#print axioms C15.block_hash
#print axioms C15.target_eq
#print axioms C15.scanner_agrees
#print axioms C15.block_parse
#print axioms C15Gen.gen_tx_length
#print axioms C15GenBlock.gen_block_from_raw
#print axioms C15GenBlock.gen_block_ok
#print axioms C15GenBlock.gen_block_parse
#print axioms C15GenHeader.gen_header_from_raw
#print axioms C15GenHeader.gen_header_serialize
#print axioms C15GenHeader.gen_header_hash
#print axioms C15GenHeader.gen_header_roundtrip
#print axioms C15GenHeader.gen_header_rejects
#print axioms C15GenHeader.gen_header_target
#print axioms C15GenHeader.gen_header_target_rejects
