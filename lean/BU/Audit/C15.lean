import BU.Properties.C15
import BU.Properties.C15_Gen
#print axioms C15.header_roundtrip
#print axioms C15.header_fields
#print axioms C15.header_rejects
#print axioms C15.block_hash
#print axioms C15.target_eq
#print axioms C15.scanner_agrees
#print axioms C15.block_parse
#print axioms C15Gen.gen_tx_length
