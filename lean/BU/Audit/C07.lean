import BU.Properties.C07
import BU.Properties.C07_GenSign
import BU.Properties.C07_GenTweak
#print axioms C07.take32_append
#print axioms C07.drop32_append
#print axioms C07.tweakPubkey_inv
#print axioms C07.fullPubkeyGen_ok
#print axioms C07.tweakPrivkey_ok
#print axioms C07.keypath_key_matches
#print axioms C07.calculateTweak_lt
#print axioms C07.signTaproot_inv
#print axioms C07.take64
#print axioms C07.keypath_sig_verifies
#print axioms C07.scriptpath_sig_verifies
#print axioms C07.sig_length
#print axioms C07.keypath_key_matches_unconditional
#print axioms C07.keypath_sig_verifies_unconditional
#print axioms C07GenSign.gen_sign_taproot_input
#print axioms C07GenSign.gen_keypath_sig_verifies
#print axioms C07GenTweak.gen_full_pubkey_gen
#print axioms C07GenTweak.gen_negate_privkey
#print axioms C07GenTweak.gen_tweak_taproot_privkey
#print axioms C07GenTweak.gen_keypath_key_matches
