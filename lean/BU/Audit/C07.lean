import BU.Properties.C07
#print axioms C07.keypath_key_matches
#print axioms C07.keypath_sig_verifies
#print axioms C07.scriptpath_sig_verifies
#print axioms C07.sig_length
