import BU.Properties.C16
#print axioms C16.toBytes_shape'
#print axioms C16.toBytes_shape
#print axioms C16.size_eq
#print axioms C16.vsize_eq
#print axioms C16.vsize_legacy
