import BU.Properties.C16
import BU.Properties.C16_Gen
#print axioms C16.toBytes_shape'
#print axioms C16.toBytes_shape
#print axioms C16.size_eq
#print axioms C16.vsize_eq
#print axioms C16.vsize_legacy
#print axioms C16Gen.gen_get_size
#print axioms C16Gen.ceil_quarter
#print axioms C16Gen.size_ge
#print axioms C16Gen.gen_get_vsize
#print axioms C16Gen.gen_vsize_bip141
