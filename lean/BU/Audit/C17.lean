import BU.Properties.C17
import BU.Properties.C17_Float
#print axioms C17.compactSize_length
#print axioms C17.decode_encode
#print axioms C17.compactSize_shortest
#print axioms C17.encode_varint_eq_spec
#print axioms C17.encode_varint_rejects
#print axioms C17.parse_compact_size_encode
#print axioms C17.parse_compact_size_eq_spec
#print axioms C17.vi_to_int_encode
#print axioms C17.prepend_eq_spec
#print axioms C17.prepend_consistent
#print axioms C17.to_satoshis_exact
#print axioms C17.sat_float_within_half
#print axioms C17.sat_float_exact
