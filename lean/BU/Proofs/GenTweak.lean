import BU.Proofs.GenSchnorr
import BU.Proofs.SchnorrLemmas
import BU.Proofs.TaprootLemmas
import BU.Model.Taproot
/-! Proofs for `Properties/C07_GenTweak`, `C08_GenTweak`: the *generated* `full_pubkey_gen` (schnorr.py) and taproot key tweaks of
utils.py (`negate_privkey`, `tweak_taproot_pubkey`, `tweak_taproot_privkey`) equal the hand models.  Hex strings of an even number
of digits are the bytes they denote; `f"{v:064x}"` of a value in [0, 2^256) is its 32-byte big-endian encoding.  Mathlib-free. -/
set_option linter.unusedSimpArgs false
namespace GenTweak
open Py Secp Model Loop GenSchnorr SchnorrLemmas TaprootLemmas

theorem be32_length (x : Nat) : (beBytes 32 x).length = 32 := by
  unfold beBytes; rw [List.length_reverse]
  simp [Py.leBytes]

theorem hToI_be32 (x : Nat) (h : x < 2 ^ 256) : Py.hToI (beBytes 32 x) = .ok (x : Int) := by
  unfold Py.hToI
  have : (beBytes 32 x).isEmpty = false := by
    rw [List.isEmpty_eq_false_iff]; intro hh; have := be32_length x; rw [hh] at this; cases this
  rw [this, ofBE_beBytes32 x h]; rfl

theorem hToI_nonempty (b : Bytes) (h : 1 ≤ ofBE b) : Py.hToI b = .ok ((ofBE b : Nat) : Int) := by
  unfold Py.hToI
  cases b with
  | nil => simp [Py.ofBE, Py.ofLE] at h
  | cons x xs => rfl

theorem slice_32_end (b : Bytes) (h : b.length = 64) : Py.slice b 32 Py.slEnd = b.drop 32 := by
  unfold Py.slice Py.slEnd
  apply List.take_of_length_le
  rw [List.length_drop]
  have : (0x7fffffffffffffff : Int).toNat = 0x7fffffffffffffff := rfl
  have e32 : (32 : Int).toNat = 32 := rfl
  omega

theorem fromhex64_one (v : Nat) (h : v < 2 ^ 256) : Py.fromhexFmt64 [(v : Int)] = .ok (beBytes 32 v) := by
  unfold Py.fromhexFmt64
  have a : ([(v : Int)].any (· < 0)) = false := by simp
  have b : ([(v : Int)].all (· < 2 ^ 256)) = true := by
    simp only [List.all_cons, List.all_nil, Bool.and_true, decide_eq_true_eq]
    have : ((2 : Int) ^ 256) = ((2 ^ 256 : Nat) : Int) := by norm_cast
    omega
  rw [a, b]
  simp [beBytes]

theorem hexStr64_one (v : Nat) (h : v < 2 ^ 256) : Py.hexStrFmt64 [(v : Int)] = .ok (beBytes 32 v) := by
  unfold Py.hexStrFmt64
  have a : ([(v : Int)].any (· < 0)) = false := by simp
  have b : ([(v : Int)].all (· < 2 ^ 256)) = true := by
    simp only [List.all_cons, List.all_nil, Bool.and_true, decide_eq_true_eq]
    have : ((2 : Int) ^ 256) = ((2 ^ 256 : Nat) : Int) := by norm_cast
    omega
  rw [a, b]
  simp [beBytes]

theorem fromhex64_two (v w : Nat) (h : v < 2 ^ 256) (hw : w < 2 ^ 256) :
    Py.fromhexFmt64 [(v : Int), (w : Int)] = .ok (beBytes 32 v ++ beBytes 32 w) := by
  unfold Py.fromhexFmt64
  have a : ([(v : Int), (w : Int)].any (· < 0)) = false := by simp
  have b : ([(v : Int), (w : Int)].all (· < 2 ^ 256)) = true := by
    simp only [List.all_cons, List.all_nil, Bool.and_true, Bool.and_eq_true, decide_eq_true_eq]
    have : ((2 : Int) ^ 256) = ((2 ^ 256 : Nat) : Int) := by norm_cast
    omega
  rw [a, b]
  simp [beBytes]

/-- what a successful `full_pubkey_gen` returns -/
theorem fullPub_inv (sk pub : Bytes) (h : fullPubkeyGen sk = .ok pub) :
    ∃ x y, 1 ≤ ofBE sk ∧ ofBE sk ≤ n - 1 ∧ mul G (ofBE sk) = some (x, y) ∧ x < 2 ^ 256 ∧ y < 2 ^ 256 ∧
      pub = beBytes 32 x ++ beBytes 32 y := by
  unfold fullPubkeyGen at h
  simp -zeta only [throw_eq_error, error_bind] at h
  by_cases hr : 1 ≤ ofBE sk ∧ ofBE sk ≤ n - 1
  · simp only [hr, and_self, decide_true, Bool.not_true, Bool.false_eq_true, if_false] at h
    cases hm : mul G (ofBE sk) with
    | none => rw [hm] at h; cases h
    | some q =>
      obtain ⟨x, y⟩ := q
      rw [hm] at h
      simp only [] at h
      cases ha : bytesFromInt x with
      | error e => rw [ha, error_bind] at h; cases h
      | ok a =>
        rw [ha, ok_bind] at h
        cases hb : bytesFromInt y with
        | error e => rw [hb, error_bind] at h; cases h
        | ok b =>
          rw [hb, ok_bind] at h
          obtain ⟨hx, rfl⟩ := bytesFromInt_eq_ok x a ha
          obtain ⟨hy, rfl⟩ := bytesFromInt_eq_ok y b hb
          exact ⟨x, y, hr.1, hr.2, rfl, hx, hy, (Except.ok.inj h).symm⟩
  · simp only [hr, decide_false, Bool.not_false, if_true] at h
    cases h

theorem gen_full_pubkey_gen (sk : Bytes) : Gen.schnorr_full_pubkey_gen sk = fullPubkeyGen sk := by
  unfold Gen.schnorr_full_pubkey_gen fullPubkeyGen
  simp -zeta only [throw_eq_error, error_bind]
  simp only [gen_int_from_bytes, ok_bind]
  generalize ofBE sk = d0
  rw [nI, GI]
  have hr : ((!(decide ((1 : Int) ≤ (d0 : Int)) && decide ((d0 : Int) ≤ ((n : Nat) : Int) - 1))) = true) ↔
      ((!decide (1 ≤ d0 ∧ d0 ≤ n - 1)) = true) := by
    have hn := SchnorrLemmas.n_pos
    have : ((1 : Int) ≤ (d0 : Int) ∧ (d0 : Int) ≤ ((n : Nat) : Int) - 1) ↔ (1 ≤ d0 ∧ d0 ≤ n - 1) := by omega
    by_cases hh : 1 ≤ d0 ∧ d0 ≤ n - 1
    · have h' := this.2 hh; simp [hh, h'.1, h'.2]
    · have h' : ¬ ((1 : Int) ≤ (d0 : Int) ∧ (d0 : Int) ≤ ((n : Nat) : Int) - 1) := fun x => hh (this.1 x)
      simp only [hh, decide_false, Bool.not_false, iff_true, Bool.not_eq_true', Bool.and_eq_false_iff, decide_eq_false_iff_not]
      by_cases a : (1 : Int) ≤ (d0 : Int)
      · right; exact fun b => h' ⟨a, b⟩
      · left; exact a
  by_cases h2 : (!decide (1 ≤ d0 ∧ d0 ≤ n - 1)) = true
  · rw [if_pos (hr.2 h2), if_pos h2]
  rw [if_neg (fun h => h2 (hr.1 h)), if_neg h2, gen_point_mul, ok_bind]
  cases hP : mul G d0 with
  | none => rfl
  | some a =>
    obtain ⟨px, py⟩ := a
    simp only [castP_some, Option.isSome_some, Bool.not_true, Bool.false_eq_true, if_false]
    show (Py.ptX (some ((px : Int), (py : Int))) >>= _) = _
    rw [show Py.ptX (some ((px : Int), (py : Int))) = .ok (px : Int) from rfl, ok_bind, gen_bytes_from_int,
      show Py.ptY (some ((px : Int), (py : Int))) = .ok (py : Int) from rfl]
    cases bytesFromInt px with
    | error e => rfl
    | ok a => rw [ok_bind, ok_bind, ok_bind, gen_bytes_from_int]


theorem par_cast (y : Nat) : ((((y : Int) % 2) == 0)) = (y % 2 == 0) := by
  have h : ((y : Int) % 2) = ((y % 2 : Nat) : Int) := by omega
  rw [h]
  by_cases h0 : y % 2 = 0
  · rw [h0]; rfl
  · have : y % 2 = 1 := by omega
    rw [this]; rfl

/-- `negate_privkey` on a key whose public key exists -/
theorem gen_negate_privkey (key pub : Bytes) (h : fullPubkeyGen key = .ok pub) :
    Gen.negate_privkey key =
      .ok (beBytes 32 (if ofBE (pub.drop 32) % 2 = 0 then ofBE key else n - ofBE key)) := by
  obtain ⟨x, y, h1, h2, hm, hx, hy, rfl⟩ := fullPub_inv key pub h
  unfold Gen.negate_privkey
  simp only []
  rw [gen_full_pubkey_gen, h, ok_bind, slice_32_end _ (by simp [be32_length]), pub_drop, hToI_be32 y hy, ok_bind,
    ofBE_beBytes32 y hy, par_cast]
  have hn := n_lt
  by_cases hev : y % 2 = 0
  · simp only [hev, beq_self_eq_true, if_true]
    rw [hToI_nonempty key h1, ok_bind, hexStr64_one _ (by omega)]
  · have hb : (y % 2 == 0) = false := by simpa using hev
    simp only [hb, hev, Bool.false_eq_true, if_false]
    rw [hToI_nonempty key h1, ok_bind, nI, show (((n : Nat) : Int) - ((ofBE key : Nat) : Int)) = ((n - ofBE key : Nat) : Int) by omega, hexStr64_one _ (by omega)]

theorem gen_tweak_taproot_privkey (priv : Bytes) (tweak : Nat) :
    Gen.tweak_taproot_privkey priv (tweak : Int) = tweakPrivkey priv tweak := by
  unfold Gen.tweak_taproot_privkey tweakPrivkey
  simp only []
  rw [gen_full_pubkey_gen]
  cases h : fullPubkeyGen priv with
  | error e => rw [error_bind, error_bind]
  | ok pub =>
    have hneg := gen_negate_privkey priv pub h
    obtain ⟨x, y, h1, h2, hm, hx, hy, rfl⟩ := fullPub_inv priv pub h
    rw [ok_bind, ok_bind, slice_32_end _ (by simp [be32_length]), pub_drop, hToI_be32 y hy, ok_bind, par_cast]
    rw [pub_drop, ofBE_beBytes32 y hy] at hneg
    simp only [pub_drop, ofBE_beBytes32 y hy]
    have hn := n_lt
    have hn0 := SchnorrLemmas.n_pos
    by_cases hev : y % 2 = 0
    · simp only [hev, beq_self_eq_true, if_true]
      rw [hToI_nonempty priv h1, ok_bind, nI, show ((((ofBE priv : Nat) : Int) + (tweak : Int)) % ((n : Nat) : Int)) = (((ofBE priv + tweak) % n : Nat) : Int) by
        rw [← Int.natCast_add, natCast_emod_self], fromhex64_one _ (by have := Nat.mod_lt (ofBE priv + tweak) hn0; omega),
        toBytes32_ok _ (by have := Nat.mod_lt (ofBE priv + tweak) hn0; omega)]
    · have hb : (y % 2 == 0) = false := by simpa using hev
      simp only [hb, hev, Bool.false_eq_true, if_false] at hneg ⊢
      rw [hneg, ok_bind, hToI_be32 _ (by omega), ok_bind, nI, show ((((n - ofBE priv : Nat) : Int) + (tweak : Int)) % ((n : Nat) : Int)) = (((n - ofBE priv + tweak) % n : Nat) : Int) by
        rw [← Int.natCast_add, natCast_emod_self], fromhex64_one _ (by have := Nat.mod_lt (n - ofBE priv + tweak) hn0; omega),
        toBytes32_ok _ (by have := Nat.mod_lt (n - ofBE priv + tweak) hn0; omega)]

theorem subMod_lt' (a b : Nat) : subMod a b p < p := Nat.mod_lt _ (by decide)

theorem add_some_cases (x y : Nat) (P2 : Point) (qx qy : Nat) (h : add (some (x, y)) P2 = some (qx, qy)) :
    (P2 = none ∧ qx = x ∧ qy = y) ∨ (qx < p ∧ qy < p) := by
  cases P2 with
  | none =>
    left
    have : add (some (x, y)) none = some (x, y) := rfl
    rw [this] at h
    have := Option.some.inj h
    simp only [Prod.mk.injEq] at this
    exact ⟨rfl, this.1.symm, this.2.symm⟩
  | some q =>
    right
    obtain ⟨x2, y2⟩ := q
    unfold add at h
    simp only [] at h
    split at h
    · cases h
    · have := Option.some.inj h
      simp only [Prod.mk.injEq] at this
      rw [← this.1, ← this.2]
      exact ⟨subMod_lt' _ _, subMod_lt' _ _⟩

theorem slice_0_32' (b : Bytes) : Py.slice b 0 32 = b.take 32 := slice_0_32 b

theorem hToI_len (b : Bytes) (h : 0 < b.length) : Py.hToI b = .ok ((ofBE b : Nat) : Int) := by
  unfold Py.hToI
  cases b with
  | nil => simp at h
  | cons x xs => rfl

theorem par_ne_cast (y : Nat) : ((((y : Int) % 2) != 0)) = (y % 2 != 0) := by
  unfold bne; rw [par_cast]

/-- the body of `tweak_taproot_pubkey` after the internal key has been made even -/
theorem tweak_core (x y tweak : Nat) (hx : x < 2 ^ 256) (hy : y < 2 ^ 256) (hev : y % 2 = 0) :
    (do
      let t3 ← Gen.schnorr_point_mul (castP G) (tweak : Int)
      let t4 ← Gen.schnorr_point_add (some ((x : Int), (y : Int))) t3
      let t5 ← Py.ptIdx t4 1
      if (t5 % 2 != 0) = true then do
          let t6 ← Py.ptIdx t4 0
          let t7 ← Py.ptIdx t4 1
          let t8 ← Py.ptIdx (some (t6, 115792089237316195423570985008687907853269984665640564039457584007908834671663 - t7)) 0
          let t9 ← Py.ptIdx (some (t6, 115792089237316195423570985008687907853269984665640564039457584007908834671663 - t7)) 1
          let t10 ← Py.fromhexFmt64 [t8, t9]
          (pure (t10, true) : Except PyErr (Bytes × Bool))
        else do
          let t8 ← Py.ptIdx t4 0
          let t9 ← Py.ptIdx t4 1
          let t10 ← Py.fromhexFmt64 [t8, t9]
          pure (t10, false)) =
    (match add (some (x, y)) (mul G tweak) with
      | none => throw PyErr.typeError
      | some (qx, qy) => do
        let odd := qy % 2 ≠ 0
        let qy' := if odd then p - qy else qy
        let a ← Py.toBytes qx 32 .big
        let b ← Py.toBytes qy' 32 .big
        pure (a ++ b, decide odd)) := by
  have hp := p_lt
  rw [gen_point_mul, ok_bind, show (some ((x : Int), (y : Int)) : Option (Int × Int)) = castP (some (x, y)) from rfl,
    gen_point_add, ok_bind]
  cases hq : add (some (x, y)) (mul G tweak) with
  | none => rfl
  | some q =>
    obtain ⟨qx, qy⟩ := q
    simp only [castP_some]
    rw [show Py.ptIdx (some ((qx : Int), (qy : Int))) 1 = .ok (qy : Int) from rfl, ok_bind, par_ne_cast,
      show Py.ptIdx (some ((qx : Int), (qy : Int))) 0 = .ok (qx : Int) from rfl]
    have hb : (qx < 2 ^ 256 ∧ qy < 2 ^ 256) ∧ (qy % 2 ≠ 0 → qy < p) := by
      rcases add_some_cases x y _ qx qy hq with ⟨_, h1, h2⟩ | ⟨h1, h2⟩
      · subst h1; subst h2; exact ⟨⟨hx, hy⟩, fun h => absurd hev h⟩
      · exact ⟨⟨by omega, by omega⟩, fun _ => h2⟩
    by_cases hodd : qy % 2 = 0
    · have c : (qy % 2 != 0) = false := by simp [hodd]
      simp only [c, Bool.false_eq_true, if_false]
      simp only [hodd, ne_eq, not_true_eq_false, decide_false, if_false]
      rw [ok_bind, ok_bind, fromhex64_two qx qy hb.1.1 hb.1.2, ok_bind, toBytes32_ok qx hb.1.1, ok_bind, toBytes32_ok qy hb.1.2, ok_bind]
    · have h1 : qy % 2 = 1 := by omega
      have c : (qy % 2 != 0) = true := by rw [h1]; rfl
      have hlt := hb.2 hodd
      simp only [c, if_true]
      simp only [hodd, ne_eq, not_false_eq_true, decide_true, if_true]
      rw [ok_bind, ok_bind, pI, show (((p : Nat) : Int) - (qy : Int)) = ((p - qy : Nat) : Int) by omega]
      rw [show Py.ptIdx (some ((qx : Int), ((p - qy : Nat) : Int))) 0 = .ok (qx : Int) from rfl, ok_bind,
        show Py.ptIdx (some ((qx : Int), ((p - qy : Nat) : Int))) 1 = .ok ((p - qy : Nat) : Int) from rfl, ok_bind,
        fromhex64_two qx (p - qy) hb.1.1 (by omega), ok_bind, toBytes32_ok qx hb.1.1, ok_bind, toBytes32_ok (p - qy) (by omega), ok_bind]

theorem gen_tweak_taproot_pubkey (pub : Bytes) (tweak : Nat) (hlen : pub.length = 64) (hy0 : ofBE (pub.drop 32) < p) :
    Gen.tweak_taproot_pubkey pub (tweak : Int) = (tweakPubkey pub tweak) := by
  unfold Gen.tweak_taproot_pubkey tweakPubkey
  simp only []
  have hp := p_lt
  have hpo := p_odd
  have hx : ofBE (pub.take 32) < 2 ^ 256 := ofBE_lt32 _ (by rw [List.length_take]; omega)
  rw [slice_0_32', hToI_len _ (by rw [List.length_take]; omega), ok_bind, slice_32_end pub hlen,
    hToI_len _ (by rw [List.length_drop]; omega), ok_bind, par_ne_cast, GI]
  generalize ofBE (pub.take 32) = x at hx ⊢
  generalize ofBE (pub.drop 32) = y0 at hy0 ⊢
  by_cases hev : y0 % 2 = 0
  · have c : (y0 % 2 != 0) = false := by simp [hev]
    simp only [c, Bool.false_eq_true, if_false]
    simp only [hev, ne_eq, not_true_eq_false, if_false]
    exact tweak_core x y0 tweak hx (by omega) hev
  · have h1 : y0 % 2 = 1 := by omega
    have c : (y0 % 2 != 0) = true := by rw [h1]; rfl
    simp only [c, if_true]
    simp only [hev, ne_eq, not_false_eq_true, if_true]
    rw [pI, show (((p : Nat) : Int) - (y0 : Int)) = ((p - y0 : Nat) : Int) by omega]
    exact tweak_core x (p - y0) tweak hx (by omega) (by omega)

end GenTweak
