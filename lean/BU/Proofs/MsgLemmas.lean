import BU.Py
import BU.Spec.Ecdsa
import BU.Spec.CurveLaws
import BU.Model.Msg
import BU.Proofs.KeyLemmas
import Mathlib.Data.ZMod.Basic
import Mathlib.Tactic.Ring
/-! Helper lemmas for C14 (signed messages): an if/match normal form of `Model.verifyMessage`, the modular
arithmetic of public-key recovery, and the group-law steps of sign-then-verify. -/
namespace MsgLemmas
open Py Spec Model Secp

theorem bind_throw {α β : Type} (e : PyErr) (f : α → Except PyErr β) : ((throw e : Except PyErr α) >>= f) = Except.error e := rfl
theorem bind_pure' {α β : Type} (a : α) (f : α → Except PyErr β) : ((pure a : Except PyErr α) >>= f) = f a := rfl
theorem bind_ok {α β : Type} (a : α) (f : α → Except PyErr β) : ((Except.ok a : Except PyErr α) >>= f) = f a := rfl
theorem bind_err {α β : Type} (e : PyErr) (f : α → Except PyErr β) : ((Except.error e : Except PyErr α) >>= f) = Except.error e := rfl
theorem pure_ok {α : Type} (a : α) : (pure a : Except PyErr α) = Except.ok a := rfl
theorem throw_err {α : Type} (e : PyErr) : (throw e : Except PyErr α) = Except.error e := rfl

theorem verifyMessage_eq (sha256 : Bytes → Bytes) (magic : Bytes) (addrOf : Nat × Nat → Bool → String)
    (address : String) (sig msg : Bytes) :
    verifyMessage sha256 magic addrOf address sig msg =
      verifyN sqrtAll onCurve mul add G invN ecdsaVerifyDigest n p (ofBE (msgDigest sha256 magic msg))
        addrOf address sig := rfl

/-! ### consequences of the normal form (all primitives abstract) -/
section abstract
variable (sq : Nat → List Nat) (oc : Point → Bool) (mulF : Point → Nat → Point) (addF : Point → Point → Point)
    (g : Point) (inv : Nat → Nat) (verD : Nat × Nat → Nat → Nat → Nat → Except PyErr Bool) (nn pp : Nat)
    (z : Nat) (addrOf : Nat × Nat → Bool → String) (address : String) (sig : Bytes)

theorem verifyN_true (h : verifyN sq oc mulF addF g inv verD nn pp z addrOf address sig = .ok true) :
    sig.length = 65 ∧ 27 ≤ (sig.getD 0 0).toNat ∧ (sig.getD 0 0).toNat ≤ 35 ∧
    ∃ q : Nat × Nat,
      verD q z (ofBE ((sig.drop 1).take 32)) (ofBE ((sig.drop 33).take 32)) = .ok true ∧
      addrOf q (decide ((sig.getD 0 0).toNat ≥ 31)) = address := by
  unfold verifyN at h
  by_cases hlen : sig.length ≠ 65
  · rw [if_pos hlen] at h; cases h
  rw [if_neg hlen] at h
  simp only at h
  by_cases hw : (sig.getD 0 0).toNat < 27 ∨ (sig.getD 0 0).toNat > 35
  · rw [if_pos hw] at h; cases h
  rw [if_neg hw] at h
  generalize (if (sig.getD 0 0).toNat ≥ 31 then _ else _) = recid at h
  generalize ofBE ((sig.drop 1).take 32) = r at h ⊢
  generalize ofBE ((sig.drop 33).take 32) = s at h ⊢
  generalize pickRoot _ _ = pr at h
  cases pr with
  | error e => cases h
  | ok y =>
    simp only at h
    generalize oc _ = ocv at h
    generalize mulF _ _ = Q at h
    cases ocv with
    | false => simp at h
    | true =>
      by_cases hrn : r % nn = 0
      · simp [hrn] at h
      · cases Q with
        | none => simp [hrn] at h
        | some q =>
          simp only [hrn, if_false, Bool.true_eq_false] at h
          cases hv : verD q z r s with
          | error e => rw [hv] at h; cases h
          | ok v =>
            rw [hv] at h
            cases v with
            | false => simp at h
            | true =>
              simp only [Bool.true_eq_false, if_false] at h
              by_cases ha : addrOf q (decide ((sig.getD 0 0).toNat ≥ 31)) = address
              · exact ⟨by omega, by omega, by omega, q, hv, ha⟩
              · rw [if_neg ha] at h; cases h

theorem verifyN_window :
    (sig.length ≠ 65 → verifyN sq oc mulF addF g inv verD nn pp z addrOf address sig = .error .valueError) ∧
    (sig.length = 65 → ((sig.getD 0 0).toNat < 27 ∨ (sig.getD 0 0).toNat > 35) →
      verifyN sq oc mulF addF g inv verD nn pp z addrOf address sig = .ok false) := by
  constructor
  · intro h
    unfold verifyN
    rw [if_pos h]
  · intro h hw
    unfold verifyN
    rw [if_neg (by omega)]
    simp only
    rw [if_pos hw]

/-- evaluation of the normal form along the successful path -/
theorem verifyN_eval (hlen : sig.length = 65)
    (hw : ¬ ((sig.getD 0 0).toNat < 27 ∨ (sig.getD 0 0).toNat > 35))
    (recid : Nat) (hrec : (if (sig.getD 0 0).toNat ≥ 31 then (sig.getD 0 0).toNat - 31 else (sig.getD 0 0).toNat - 27) = recid)
    (r s : Nat) (hr : ofBE ((sig.drop 1).take 32) = r) (hs : ofBE ((sig.drop 33).take 32) = s)
    (y : Nat) (hy : pickRoot (sq (((r + recid / 2 * nn) ^ 3 + 7) % pp)) recid = .ok y)
    (hoc : oc (some ((r + recid / 2 * nn) % pp, y)) = true) (hrn : r % nn ≠ 0)
    (q : Nat × Nat)
    (hq : mulF (addF (mulF (some ((r + recid / 2 * nn) % pp, y)) s) (mulF g ((nn - z % nn) % nn))) (inv (r % nn)) = some q)
    (hv : verD q z r s = .ok true) :
    verifyN sq oc mulF addF g inv verD nn pp z addrOf address sig =
      if addrOf q (decide ((sig.getD 0 0).toNat ≥ 31)) = address then .ok true else .ok false := by
  unfold verifyN
  rw [if_neg (by omega)]
  simp only
  rw [if_neg hw, hrec, hr, hs, hy]
  simp only
  rw [hoc, if_neg (by simp), if_neg hrn, hq]
  simp only
  rw [hv]
  simp only [Bool.true_eq_false, if_false]

end abstract

theorem verifyDigest_ok_iff (q : Nat × Nat) (z r s : Nat) :
    ecdsaVerifyDigest q z r s = .ok true ↔ ecdsaVerify (some q) z r s = true := by
  unfold ecdsaVerifyDigest
  generalize ecdsaVerify (some q) z r s = b
  cases b <;> simp

/-! ### modular arithmetic of key recovery (in `ZMod m`, using only the inverse equations) -/

private theorem cast_eq_one {m a b : Nat} (h : a * b % m = 1) : ((a : ZMod m)) * (b : ZMod m) = 1 := by
  have h' := congrArg (Nat.cast : Nat → ZMod m) h
  rw [ZMod.natCast_mod] at h'
  push_cast at h'
  exact h'

private theorem cast_negmod (m z : Nat) (hm : 0 < m) : (((m - z % m) % m : Nat) : ZMod m) = -(z : ZMod m) := by
  have : z % m ≤ m := Nat.le_of_lt (Nat.mod_lt _ hm)
  rw [ZMod.natCast_mod, Nat.cast_sub this, ZMod.natCast_self, ZMod.natCast_mod, zero_sub]

/-- the verification scalar of the candidate key built from `κ·G` is `κ` -/
theorem scalar_id (m κ s z r w ri : Nat) (hκ : κ < m) (hsw : s * w % m = 1) (hrr : r * ri % m = 1) :
    (z % m * w % m + (((κ * s % m + (m - z % m) % m) % m) * ri % m) * (r * w % m) % m) % m = κ := by
  have hm : 0 < m := by omega
  have : NeZero m := ⟨by omega⟩
  have e1 := cast_eq_one hsw
  have e2 := cast_eq_one hrr
  have e3 := cast_negmod m z hm
  have goal : (((z % m * w % m + (((κ * s % m + (m - z % m) % m) % m) * ri % m) * (r * w % m) % m) % m : Nat) : ZMod m)
      = (κ : ZMod m) := by
    simp only [ZMod.natCast_mod, Nat.cast_add, Nat.cast_mul]
    rw [← ZMod.natCast_mod (m - z % m) m, e3]
    calc (z : ZMod m) * w + (κ * s + -z) * ri * (r * w)
        = (z : ZMod m) * w + (κ * s + -z) * w * ((r : ZMod m) * ri) := by ring
      _ = κ * ((s : ZMod m) * w) := by rw [e2]; ring
      _ = κ := by rw [e1, mul_one]
  rw [ZMod.natCast_eq_natCast_iff'] at goal
  rw [Nat.mod_mod] at goal
  rw [goal, Nat.mod_eq_of_lt hκ]


/-- the candidate built from the signer's own `R = k·G` is the signer's key -/
theorem scalar_k (m k d z r s ki ri : Nat) (hd : d < m) (hkk : k * ki % m = 1) (hrr : r * ri % m = 1)
    (hs : s = ki * ((z % m + r * d) % m) % m) :
    ((k * s % m + (m - z % m) % m) % m) * ri % m = d := by
  have hm : 0 < m := by omega
  have : NeZero m := ⟨by omega⟩
  have e1 := cast_eq_one hkk
  have e2 := cast_eq_one hrr
  have e3 := cast_negmod m z hm
  have goal : ((((k * s % m + (m - z % m) % m) % m) * ri % m : Nat) : ZMod m) = (d : ZMod m) := by
    simp only [ZMod.natCast_mod, Nat.cast_add, Nat.cast_mul]
    rw [← ZMod.natCast_mod (m - z % m) m, e3, hs]
    simp only [ZMod.natCast_mod, Nat.cast_add, Nat.cast_mul]
    calc ((k : ZMod m) * (ki * (z + r * d)) + -z) * ri
        = (((k : ZMod m) * ki) * (z + r * d) + -z) * ri := by ring
      _ = d * ((r : ZMod m) * ri) := by rw [e1]; ring
      _ = d := by rw [e2, mul_one]
  rw [ZMod.natCast_eq_natCast_iff', Nat.mod_mod] at goal
  rw [goal, Nat.mod_eq_of_lt hd]

/-- the candidate built from `−R = (m−k)·G`: its scalar `e'` satisfies `e'·r ≡ −(2z + r d)` -/
theorem scalar_negk (m k d z r s ki ri : Nat) (hm : 0 < m) (hk : k ≤ m) (hkk : k * ki % m = 1) (hrr : r * ri % m = 1)
    (hs : s = ki * ((z % m + r * d) % m) % m) :
    (((((m - k) * s % m + (m - z % m) % m) % m) * ri % m : Nat) : ZMod m) * (r : ZMod m) =
      -(2 * (z : ZMod m) + r * d) := by
  have : NeZero m := ⟨by omega⟩
  have e1 := cast_eq_one hkk
  have e2 := cast_eq_one hrr
  have e3 := cast_negmod m z hm
  simp only [ZMod.natCast_mod, Nat.cast_add, Nat.cast_mul]
  rw [← ZMod.natCast_mod (m - z % m) m, e3, hs, Nat.cast_sub hk, ZMod.natCast_self]
  simp only [ZMod.natCast_mod, Nat.cast_add, Nat.cast_mul]
  calc ((0 - (k : ZMod m)) * (ki * (z + r * d)) + -z) * ri * r
      = (-(((k : ZMod m) * ki) * (z + r * d)) + -z) * ((r : ZMod m) * ri) := by ring
    _ = -(2 * (z : ZMod m) + r * d) := by rw [e1, e2]; ring

theorem negk_ne_zero (m k d z r s ki ri : Nat) (hm : 0 < m) (hk : k ≤ m) (hkk : k * ki % m = 1) (hrr : r * ri % m = 1)
    (hs : s = ki * ((z % m + r * d) % m) % m) (hinf : (2 * z + r * d) % m ≠ 0) :
    ((((m - k) * s % m + (m - z % m) % m) % m) * ri % m) ≠ 0 := by
  intro h0
  have h := scalar_negk m k d z r s ki ri hm hk hkk hrr hs
  rw [h0, Nat.cast_zero, zero_mul] at h
  apply hinf
  have : (((2 * z + r * d : Nat)) : ZMod m) = 0 := by
    push_cast
    rw [← neg_eq_zero]; exact h.symm
  rwa [ZMod.natCast_eq_zero_iff, Nat.dvd_iff_mod_eq_zero] at this

theorem negk_ne_d (m k d z r s ki ri : Nat) (hodd : m % 2 = 1) (hk : k ≤ m) (hkk : k * ki % m = 1)
    (hrr : r * ri % m = 1) (hs : s = ki * ((z % m + r * d) % m) % m) (hs0 : s ≠ 0) :
    ((((m - k) * s % m + (m - z % m) % m) % m) * ri % m) ≠ d := by
  intro hd
  have hm : 0 < m := by omega
  have : NeZero m := ⟨by omega⟩
  have h := scalar_negk m k d z r s ki ri hm hk hkk hrr hs
  rw [hd] at h
  -- 2 (z + r d) = 0
  have h2 : (2 : ZMod m) * ((z : ZMod m) + r * d) = 0 := by
    have : (2 : ZMod m) * ((z : ZMod m) + r * d) = (d : ZMod m) * r + (2 * (z : ZMod m) + r * d) := by ring
    rw [this, h]; ring
  -- 2 is invertible modulo the odd m
  have hinv : (((m + 1) / 2 : Nat) : ZMod m) * 2 = 1 := by
    have : ((((m + 1) / 2) * 2 : Nat) : ZMod m) = ((m + 1 : Nat) : ZMod m) := by
      congr 1; omega
    rw [Nat.cast_mul, Nat.cast_add, ZMod.natCast_self, zero_add] at this
    simpa using this
  have h3 : ((z : ZMod m) + r * d) = 0 := by
    calc ((z : ZMod m) + r * d) = ((((m + 1) / 2 : Nat) : ZMod m) * 2) * ((z : ZMod m) + r * d) := by
          rw [hinv, one_mul]
      _ = (((m + 1) / 2 : Nat) : ZMod m) * (2 * ((z : ZMod m) + r * d)) := by ring
      _ = 0 := by rw [h2, mul_zero]
  have hsz : ((s : Nat) : ZMod m) = 0 := by
    rw [hs]
    simp only [ZMod.natCast_mod, Nat.cast_add, Nat.cast_mul]
    rw [h3, mul_zero]
  rw [ZMod.natCast_eq_zero_iff] at hsz
  have hslt : s < m := by rw [hs]; exact Nat.mod_lt _ hm
  exact hs0 (Nat.eq_zero_of_dvd_of_lt hsz hslt)


end MsgLemmas
