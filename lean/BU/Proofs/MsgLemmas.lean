import BU.Py
import BU.Spec.Ecdsa
import BU.Spec.CurveLaws
import BU.Model.Msg
namespace MsgLemmas
open Py Spec Model Secp

/-- root selection of `verify_message` -/
def pickRoot (ys : List Nat) (recid : Nat) : Except PyErr Nat :=
  match ys.head? with
  | none => .error .indexError
  | some y0 =>
    if (y0 + recid) % 2 = 0 then .ok y0
    else match ys[1]? with
      | some y1 => .ok y1
      | none => .error .indexError

/-- `verify_message` in if/match normal form, with the arithmetic primitives as parameters (so that proofs
about the control flow never make the kernel evaluate curve arithmetic) -/
def verifyN (sq : Nat → List Nat) (oc : Point → Bool) (mulF : Point → Nat → Point) (addF : Point → Point → Point)
    (g : Point) (inv : Nat → Nat) (verD : Nat × Nat → Nat → Nat → Nat → Except PyErr Bool) (nn pp : Nat)
    (z : Nat) (addrOf : Nat × Nat → Bool → String) (address : String) (sig : Bytes) : Except PyErr Bool :=
  if sig.length ≠ 65 then .error .valueError
  else
    let h := (sig.getD 0 0).toNat
    if h < 27 ∨ h > 35 then .ok false
    else
      let recid := if h ≥ 31 then h - 31 else h - 27
      let r := ofBE ((sig.drop 1).take 32)
      let s := ofBE ((sig.drop 33).take 32)
      let x := r + (recid / 2) * nn
      match pickRoot (sq ((x ^ 3 + 7) % pp)) recid with
      | .error e => .error e
      | .ok y =>
        if oc (some (x % pp, y)) = false then .error .assertion
        else if r % nn = 0 then .error .other
        else
          match mulF (addF (mulF (some (x % pp, y)) s) (mulF g ((nn - z % nn) % nn))) (inv (r % nn)) with
          | none => .error .other
          | some q =>
            match verD q z r s with
            | .error e => .error e
            | .ok v =>
              if v = false then .ok false
              else if addrOf q (decide (h ≥ 31)) = address then .ok true else .ok false

theorem bind_throw {α β : Type} (e : PyErr) (f : α → Except PyErr β) : ((throw e : Except PyErr α) >>= f) = Except.error e := rfl
theorem bind_pure' {α β : Type} (a : α) (f : α → Except PyErr β) : ((pure a : Except PyErr α) >>= f) = f a := rfl
theorem bind_ok {α β : Type} (a : α) (f : α → Except PyErr β) : ((Except.ok a : Except PyErr α) >>= f) = f a := rfl
theorem bind_err {α β : Type} (e : PyErr) (f : α → Except PyErr β) : ((Except.error e : Except PyErr α) >>= f) = Except.error e := rfl
theorem pure_ok {α : Type} (a : α) : (pure a : Except PyErr α) = Except.ok a := rfl
theorem throw_err {α : Type} (e : PyErr) : (throw e : Except PyErr α) = Except.error e := rfl

set_option hygiene false in
local macro "tailtac" : tactic => `(tactic| (
  try simp -implicitDefEqProofs only [bind_ok]
  generalize oc _ = ocv
  generalize mulF (addF _ _) _ = Q
  cases ocv
  · simp
  · by_cases hr : r % nn = 0
    · simp [hr]
    · cases Q with
      | none => simp [hr]
      | some q =>
        simp only [hr, if_false]
        generalize verD q z r s = res
        cases res with
        | error e => simp [bind_err]
        | ok v => cases v <;> simp [bind_ok]))

theorem verifyMessage_eq (sha256 : Bytes → Bytes) (magic : Bytes) (addrOf : Nat × Nat → Bool → String)
    (address : String) (sig msg : Bytes) :
    verifyMessage sha256 magic addrOf address sig msg =
      verifyN sqrtAll onCurve mul add G invN ecdsaVerifyDigest n p (ofBE (msgDigest sha256 magic msg))
        addrOf address sig := by
  unfold verifyMessage verifyN
  generalize sqrtAll = sq
  generalize onCurve = oc
  generalize mul = mulF
  generalize add = addF
  generalize G = g
  generalize invN = inv
  generalize ecdsaVerifyDigest = verD
  generalize n = nn
  generalize p = pp
  generalize ofBE (msgDigest sha256 magic msg) = z
  simp -implicitDefEqProofs only [throw_err, pure_ok, bind_ok, bind_err]
  by_cases hlen : sig.length ≠ 65
  · rw [if_pos hlen, if_pos hlen]
  rw [if_neg hlen, if_neg hlen]
  by_cases hw : (List.getD sig 0 0).toNat < 27 ∨ (List.getD sig 0 0).toNat > 35
  · rw [if_pos hw, if_pos hw]
  rw [if_neg hw, if_neg hw]
  generalize (sq _) = ys
  generalize (if (List.getD sig 0 0).toNat ≥ 31 then _ else _) = recid
  generalize ofBE (List.take 32 (List.drop 1 sig)) = r
  generalize ofBE (List.take 32 (List.drop 33 sig)) = s
  generalize decide ((List.getD sig 0 0).toNat ≥ 31) = c
  rw [pickRoot]
  cases ys.head? with
  | none => rfl
  | some y0 =>
    simp -implicitDefEqProofs only []
    by_cases hp : (y0 + recid) % 2 = 0
    · rw [if_pos hp, if_pos hp]
      tailtac
    · rw [if_neg hp, if_neg hp]
      cases ys[1]? with
      | none => rfl
      | some y1 =>
        tailtac

/-! ### consequences of the normal form (all primitives abstract) -/
section abstract
variable (sq : Nat → List Nat) (oc : Point → Bool) (mulF : Point → Nat → Point) (addF : Point → Point → Point)
    (g : Point) (inv : Nat → Nat) (verD : Nat × Nat → Nat → Nat → Nat → Except PyErr Bool) (nn pp : Nat)
    (z : Nat) (addrOf : Nat × Nat → Bool → String) (address : String) (sig : Bytes)

theorem verifyN_true (h : verifyN sq oc mulF addF g inv verD nn pp z addrOf address sig = .ok true) :
    sig.length = 65 ∧ 27 ≤ (sig.getD 0 0).toNat ∧ (sig.getD 0 0).toNat ≤ 35 ∧
    ∃ q : Nat × Nat,
      verD q z (ofBE ((sig.drop 1).take 32)) (ofBE ((sig.drop 33).take 32)) = .ok true ∧
      addrOf q (decide ((sig.getD 0 0).toNat ≥ 31)) = address := by
  unfold verifyN at h
  split at h
  · cases h
  rename_i hlen
  simp only at h
  split at h
  · cases h
  rename_i hw
  split at h
  · cases h
  split at h
  · cases h
  split at h
  · cases h
  split at h
  · cases h
  rename_i q hq
  split at h
  · cases h
  rename_i v hv
  split at h
  · cases h
  rename_i hvf
  split at h
  · rename_i ha
    refine ⟨by omega, by omega, by omega, q, ?_, ha⟩
    rw [hv]
    cases v
    · exact absurd rfl hvf
    · rfl
  · cases h

theorem verifyN_window :
    (sig.length ≠ 65 → verifyN sq oc mulF addF g inv verD nn pp z addrOf address sig = .error .valueError) ∧
    (sig.length = 65 → ((sig.getD 0 0).toNat < 27 ∨ (sig.getD 0 0).toNat > 35) →
      verifyN sq oc mulF addF g inv verD nn pp z addrOf address sig = .ok false) := by
  constructor
  · intro h
    unfold verifyN
    rw [if_pos h]
  · intro h hw
    unfold verifyN
    rw [if_neg (by omega)]
    simp only
    rw [if_pos hw]

/-- evaluation of the normal form along the successful path -/
theorem verifyN_eval (hlen : sig.length = 65)
    (hw : ¬ ((sig.getD 0 0).toNat < 27 ∨ (sig.getD 0 0).toNat > 35))
    (recid : Nat) (hrec : (if (sig.getD 0 0).toNat ≥ 31 then (sig.getD 0 0).toNat - 31 else (sig.getD 0 0).toNat - 27) = recid)
    (r s : Nat) (hr : ofBE ((sig.drop 1).take 32) = r) (hs : ofBE ((sig.drop 33).take 32) = s)
    (y : Nat) (hy : pickRoot (sq (((r + recid / 2 * nn) ^ 3 + 7) % pp)) recid = .ok y)
    (hoc : oc (some ((r + recid / 2 * nn) % pp, y)) = true) (hrn : r % nn ≠ 0)
    (q : Nat × Nat)
    (hq : mulF (addF (mulF (some ((r + recid / 2 * nn) % pp, y)) s) (mulF g ((nn - z % nn) % nn))) (inv (r % nn)) = some q)
    (hv : verD q z r s = .ok true) :
    verifyN sq oc mulF addF g inv verD nn pp z addrOf address sig =
      if addrOf q (decide ((sig.getD 0 0).toNat ≥ 31)) = address then .ok true else .ok false := by
  unfold verifyN
  rw [if_neg (by omega)]
  simp only
  rw [if_neg hw, hrec, hr, hs, hy]
  simp only
  rw [hoc, if_neg (by simp), if_neg hrn, hq]
  simp only
  rw [hv]
  simp only [Bool.true_eq_false, if_false]

end abstract

end MsgLemmas
