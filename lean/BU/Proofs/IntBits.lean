import BU.Py
import BU.PyList
/-! Bit-level semantics of PyRT's operators on unbounded (two's-complement) ints: `tb x j` is bit `j` of `x`; every
operator is characterised bit by bit, and truncation `x % 2^k` keeps exactly the low `k` bits.  Used to relate the
generated RIPEMD-160 leaves (Python ints) to the word-level model (`UInt32`).  Mathlib-free. -/
namespace IntBits
open Py

/-- bit `j` of a two's-complement integer -/
def tb : Int → Nat → Bool
  | .ofNat a, j => a.testBit j
  | .negSucc a, j => !a.testBit j

@[simp] theorem tb_ofNat (a j : Nat) : tb (a : Int) j = a.testBit j := rfl
@[simp] theorem tb_negSucc (a j : Nat) : tb (Int.negSucc a) j = !a.testBit j := rfl

theorem tb_land (x y : Int) (j : Nat) : tb (land x y) j = (tb x j && tb y j) := by
  cases x <;> cases y <;> simp [land, tb, Nat.testBit_and, Nat.testBit_or, Nat.testBit_xor] <;>
    (rename_i a b; cases a.testBit j <;> cases b.testBit j <;> rfl)

theorem tb_lor (x y : Int) (j : Nat) : tb (lor x y) j = (tb x j || tb y j) := by
  cases x <;> cases y <;> simp [lor, tb, Nat.testBit_and, Nat.testBit_or, Nat.testBit_xor] <;>
    (rename_i a b; cases a.testBit j <;> cases b.testBit j <;> rfl)

theorem tb_lxor (x y : Int) (j : Nat) : tb (lxor x y) j = (tb x j ^^ tb y j) := by
  cases x <;> cases y <;> simp [lxor, tb, Nat.testBit_xor] <;>
    (rename_i a b; cases a.testBit j <;> cases b.testBit j <;> rfl)

theorem lnot_ofNat (a : Nat) : lnot (a : Int) = Int.negSucc a := by
  unfold lnot; omega
theorem lnot_negSucc (a : Nat) : lnot (Int.negSucc a) = (a : Int) := by
  unfold lnot; omega

theorem tb_lnot (x : Int) (j : Nat) : tb (lnot x) j = !tb x j := by
  cases x with
  | ofNat a => rw [show Int.ofNat a = (a : Int) from rfl, lnot_ofNat]; simp
  | negSucc a => rw [lnot_negSucc]; simp

/-- a non-negative integer is determined by its bits -/
theorem natCast_eq_of_tb {x : Int} {n : Nat} (hx : 0 ≤ x) (h : ∀ j, tb x j = n.testBit j) : x = (n : Int) := by
  cases x with
  | ofNat a => rw [Nat.eq_of_testBit_eq (x := a) (y := n) h]; rfl
  | negSucc a => omega

/-- truncation keeps the low `k` bits (for negative numbers too) -/
theorem emod_two_pow (x : Int) (k : Nat) :
    ∃ m : Nat, x % (2 ^ k : Int) = (m : Int) ∧ m < 2 ^ k ∧ ∀ j, m.testBit j = (decide (j < k) && tb x j) := by
  cases x with
  | ofNat a =>
    refine ⟨a % 2 ^ k, ?_, Nat.mod_lt _ (Nat.two_pow_pos k), ?_⟩
    · show ((a : Int)) % (2 ^ k : Int) = _
      norm_cast
    · intro j; simp [Nat.testBit_mod_two_pow]
  | negSucc a =>
    refine ⟨2 ^ k - (a % 2 ^ k + 1), ?_, ?_, ?_⟩
    · have hpos : 0 < 2 ^ k := Nat.two_pow_pos k
      have hlt : a % 2 ^ k < 2 ^ k := Nat.mod_lt _ hpos
      have hc : ((2 : Int) ^ k) = ((2 ^ k : Nat) : Int) := by push_cast; rfl
      rw [hc, Int.negSucc_emod a (by exact_mod_cast hpos)]
      have : ((a : Int) % ((2 ^ k : Nat) : Int)) = ((a % 2 ^ k : Nat) : Int) := by norm_cast
      rw [this]
      generalize 2 ^ k = P at *
      omega
    · have hpos : 0 < 2 ^ k := Nat.two_pow_pos k
      omega
    · intro j
      rw [Nat.testBit_two_pow_sub_succ (Nat.mod_lt _ (Nat.two_pow_pos k))]
      simp [Nat.testBit_mod_two_pow]
      cases decide (j < k) <;> simp

end IntBits
