import BU.Py
import BU.PyList
import BU.Proofs.PyLemmas
/-! Generic lemmas for the loops that `gen/py2lean.py` emits (`for x in xs`, `for i in range(k)`, comprehensions as
`List.mapM`) and for Python's bit operators on non-negative ints.  Mathlib-free. -/
namespace Loop
open Py

/-- a `for` loop whose body always succeeds and continues is a left fold (state seen through an encoding `enc`,
elements through `c`) -/
theorem forIn_map_ok_foldl {α' α β σ : Type} (c : α' → α) (enc : σ → β) (g : σ → α' → σ)
    (f : α → β → Except PyErr (ForInStep β)) (xs : List α')
    (h : ∀ a ∈ xs, ∀ s, f (c a) (enc s) = .ok (.yield (enc (g s a)))) (s0 : σ) :
    forIn (xs.map c) (enc s0) f = .ok (enc (xs.foldl g s0)) := by
  induction xs generalizing s0 with
  | nil => rfl
  | cons x xs ih =>
    rw [List.map_cons, List.forIn_cons, h x (by simp) s0]
    simp only [List.foldl_cons]
    exact ih (fun a ha s => h a (by simp [ha]) s) _

theorem forIn_ok_foldl {α β σ : Type} (enc : σ → β) (g : σ → α → σ)
    (f : α → β → Except PyErr (ForInStep β)) (xs : List α)
    (h : ∀ a ∈ xs, ∀ s, f a (enc s) = .ok (.yield (enc (g s a)))) (s0 : σ) :
    forIn xs (enc s0) f = .ok (enc (xs.foldl g s0)) := by
  have := forIn_map_ok_foldl id enc g f xs h s0
  rwa [List.map_id] at this

/-- `for i in range(k)` -/
theorem forIn_range_ok_foldl {β σ : Type} (enc : σ → β) (g : σ → Nat → σ)
    (f : Nat → β → Except PyErr (ForInStep β)) (k : Nat)
    (h : ∀ i, i < k → ∀ s, f i (enc s) = .ok (.yield (enc (g s i)))) (s0 : σ) :
    forIn [:k] (enc s0) f = .ok (enc ((List.range k).foldl g s0)) := by
  rw [Std.Legacy.Range.forIn_eq_forIn_range']
  have e : List.range' (0 : Nat) (([:k] : Std.Legacy.Range)).size 1 = List.range k := by
    simp [Std.Legacy.Range.size, List.range_eq_range']
  show forIn (List.range' 0 (([:k] : Std.Legacy.Range)).size 1) (enc s0) f = _
  rw [e]
  exact forIn_ok_foldl enc g f _ (fun a ha s => h a (List.mem_range.mp ha) s) s0

/-- a `for` loop whose concrete state is only *related* to the model state (e.g. unbounded ints denoting machine words) -/
theorem forIn_list_rel {α β σ : Type} (R : β → σ → Prop) (g : σ → α → σ)
    (f : α → β → Except PyErr (ForInStep β)) (xs : List α)
    (h : ∀ a ∈ xs, ∀ b s, R b s → ∃ b', f a b = .ok (.yield b') ∧ R b' (g s a)) (b0 : β) (s0 : σ) (h0 : R b0 s0) :
    ∃ b, forIn xs b0 f = .ok b ∧ R b (xs.foldl g s0) := by
  induction xs generalizing b0 s0 with
  | nil => exact ⟨b0, rfl, h0⟩
  | cons x xs ih =>
    obtain ⟨b', hb', hR'⟩ := h x (by simp) b0 s0 h0
    rw [List.forIn_cons, hb']
    exact ih (fun a ha b s => h a (by simp [ha]) b s) b' _ hR'

theorem forIn_range_rel {β σ : Type} (R : β → σ → Prop) (g : σ → Nat → σ)
    (f : Nat → β → Except PyErr (ForInStep β)) (k : Nat)
    (h : ∀ i, i < k → ∀ b s, R b s → ∃ b', f i b = .ok (.yield b') ∧ R b' (g s i)) (b0 : β) (s0 : σ) (h0 : R b0 s0) :
    ∃ b, forIn [:k] b0 f = .ok b ∧ R b ((List.range k).foldl g s0) := by
  rw [Std.Legacy.Range.forIn_eq_forIn_range']
  have e : List.range' (0 : Nat) (([:k] : Std.Legacy.Range)).size 1 = List.range k := by
    simp [Std.Legacy.Range.size, List.range_eq_range']
  show ∃ b, forIn (List.range' 0 (([:k] : Std.Legacy.Range)).size 1) b0 f = _ ∧ _
  rw [e]
  exact forIn_list_rel R g f _ (fun a ha b s => h a (List.mem_range.mp ha) b s) b0 s0 h0

/-- a fold over pairs whose second component evolves independently of the first -/
theorem foldl_snd {α τ σ : Type} (g : τ × σ → α → τ × σ) (step : σ → α → σ)
    (h : ∀ t s a, (g (t, s) a).2 = step s a) (xs : List α) (t : τ) (s : σ) :
    (xs.foldl g (t, s)).2 = xs.foldl step s := by
  induction xs generalizing t s with
  | nil => rfl
  | cons x xs ih =>
    simp only [List.foldl_cons]
    rw [show g (t, s) x = ((g (t, s) x).1, (g (t, s) x).2) from rfl, ih, h]

/-- a comprehension whose element expression always succeeds -/
theorem mapM_ok {α β : Type} (f : α → Except PyErr β) (g : α → β) (xs : List α) (h : ∀ a ∈ xs, f a = .ok (g a)) :
    List.mapM f xs = .ok (xs.map g) := by
  induction xs with
  | nil => rfl
  | cons x xs ih =>
    rw [List.mapM_cons, h x (by simp), ih (fun a ha => h a (by simp [ha]))]
    rfl

/-- a `for` loop with an early `return`: the model step returns `none` at the exit, the loop then stops in a state
satisfying `isExit` -/
theorem forIn_map_exit {α' α β σ : Type} (c : α' → α) (enc : σ → β) (isExit : β → Prop) (g : σ → α' → Option σ)
    (f : α → β → Except PyErr (ForInStep β)) (xs : List α')
    (hsome : ∀ a ∈ xs, ∀ s s', g s a = some s' → f (c a) (enc s) = .ok (.yield (enc s')))
    (hnone : ∀ a ∈ xs, ∀ s, g s a = none → ∃ b, f (c a) (enc s) = .ok (.done b) ∧ isExit b) (s0 : σ) :
    ∃ b, forIn (xs.map c) (enc s0) f = .ok b ∧
      (∀ s', xs.foldlM g s0 = some s' → b = enc s') ∧ (xs.foldlM g s0 = none → isExit b) := by
  induction xs generalizing s0 with
  | nil => exact ⟨enc s0, rfl, fun s' h => by simp [List.foldlM_nil, pure] at h; rw [h], fun h => by simp [List.foldlM_nil, pure] at h⟩
  | cons x xs ih =>
    rw [List.map_cons, List.forIn_cons, List.foldlM_cons]
    cases hg : g s0 x with
    | none =>
      obtain ⟨b, hb, he⟩ := hnone x (by simp) s0 hg
      exact ⟨b, by rw [hb]; rfl, fun s' h => by simp [bind, Option.bind] at h, fun _ => he⟩
    | some s' =>
      rw [hsome x (by simp) s0 s' hg]
      exact ih (fun a ha s => hsome a (by simp [ha]) s) (fun a ha s => hnone a (by simp [ha]) s) s'

/-- a left fold with an absorbing `none` is `foldlM` in `Option` -/
theorem foldl_absorbing {α σ : Type} (step : Option σ → α → Option σ) (g : σ → α → Option σ)
    (hs : ∀ s a, step (some s) a = g s a) (hn : ∀ a, step none a = none) (xs : List α) (s0 : σ) :
    xs.foldl step (some s0) = xs.foldlM g s0 := by
  induction xs generalizing s0 with
  | nil => rfl
  | cons x xs ih =>
    rw [List.foldl_cons, List.foldlM_cons, hs]
    cases g s0 x with
    | none =>
      show List.foldl step none xs = none
      clear ih
      induction xs with
      | nil => rfl
      | cons y ys ih2 => rw [List.foldl_cons, hn]; exact ih2
    | some s' => exact ih s'

/-- the loop a bounded `while cond: body` is translated to -/
def whileFuel {σ : Type} (cond : σ → Bool) (step : σ → σ) : Nat → σ → σ
  | 0, s => s
  | f+1, s => if cond s then whileFuel cond step f (step s) else s

/-- bounded `while`: `for fuel in range(N+1): if not cond: break; if fuel == N: raise; body` with a measure that the
body decreases and that starts below `N` never raises, and computes `whileFuel N` -/
theorem forIn_range_while {β σ : Type} (enc : σ → β) (cond : σ → Bool) (step : σ → σ)
    (f : Nat → β → Except PyErr (ForInStep β)) (N : Nat) (measure : σ → Nat)
    (hstop : ∀ i s, cond s = false → f i (enc s) = .ok (.done (enc s)))
    (hgo : ∀ i s, i < N → cond s = true → f i (enc s) = .ok (.yield (enc (step s))))
    (hdec : ∀ s, cond s = true → measure (step s) < measure s)
    (s0 : σ) (hN : measure s0 < N) :
    forIn [:N+1] (enc s0) f = .ok (enc (whileFuel cond step N s0)) := by
  rw [Std.Legacy.Range.forIn_eq_forIn_range']
  have e : (([:N+1] : Std.Legacy.Range)).size = N + 1 := by simp [Std.Legacy.Range.size]
  show forIn (List.range' 0 (([:N+1] : Std.Legacy.Range)).size 1) (enc s0) f = _
  rw [e]
  suffices hk : ∀ k i s, i + k = N + 1 → measure s + i < N →
      forIn (List.range' i k 1) (enc s) f = .ok (enc (whileFuel cond step (N - i) s)) by
    have := hk (N + 1) 0 s0 (by omega) (by omega)
    simpa using this
  intro k
  induction k with
  | zero => intro i s h1 h2; omega
  | succ k ih =>
    intro i s h1 h2
    rw [List.range'_succ, List.forIn_cons]
    obtain ⟨m, hm⟩ : ∃ m, N - i = m + 1 := ⟨N - i - 1, by omega⟩
    rw [hm, whileFuel]
    cases hc : cond s with
    | false =>
      rw [hstop i s hc]
      rfl
    | true =>
      rw [hgo i s (by omega) hc]
      have hd := hdec s hc
      have := ih (i + 1) (step s) (by omega) (by omega)
      rw [show N - (i + 1) = m by omega] at this
      exact this

/-! ### loops whose body may raise: compared up to `toOption` (which exception is raised is not compared) -/

theorem toOption_bind {α β : Type} (x : Except PyErr α) (f : α → Except PyErr β) :
    (x >>= f).toOption = x.toOption.bind (fun a => (f a).toOption) := by
  cases x <;> rfl

theorem toOption_ok {α : Type} (a : α) : (Except.ok a : Except PyErr α).toOption = some a := rfl
theorem toOption_pure {α : Type} (a : α) : (pure a : Except PyErr α).toOption = some a := rfl
theorem toOption_error {α : Type} (e : PyErr) : (Except.error e : Except PyErr α).toOption = none := rfl

/-- `k`-fold iteration of a partial step -/
def iterOpt {σ : Type} (g : σ → Option σ) : Nat → σ → Option σ
  | 0, s => some s
  | n+1, s => (g s).bind (iterOpt g n)

theorem forIn_list_opt {α β σ : Type} (enc : σ → β) (g : σ → Option σ)
    (f : α → β → Except PyErr (ForInStep β)) (xs : List α)
    (h : ∀ a ∈ xs, ∀ s, (f a (enc s)).toOption = (g s).map (fun s' => ForInStep.yield (enc s'))) (s0 : σ) :
    (forIn xs (enc s0) f).toOption = (iterOpt g xs.length s0).map enc := by
  induction xs generalizing s0 with
  | nil => rfl
  | cons x xs ih =>
    rw [List.forIn_cons, List.length_cons, iterOpt]
    have hx := h x (by simp) s0
    cases hf : f x (enc s0) with
    | error e =>
      rw [hf] at hx
      cases hg : g s0 with
      | none => rfl
      | some s' => rw [hg] at hx; cases hx
    | ok v =>
      rw [hf] at hx
      cases hg : g s0 with
      | none => rw [hg] at hx; cases hx
      | some s' =>
        rw [hg] at hx
        have hv : v = ForInStep.yield (enc s') := by
          have := hx; simp only [Except.toOption, Option.map_some, Option.some.injEq] at this; exact this
        subst hv
        exact ih (fun a ha s => h a (by simp [ha]) s) s'

theorem forIn_range_opt {β σ : Type} (enc : σ → β) (g : σ → Option σ)
    (f : Nat → β → Except PyErr (ForInStep β)) (k : Nat)
    (h : ∀ i s, (f i (enc s)).toOption = (g s).map (fun s' => ForInStep.yield (enc s'))) (s0 : σ) :
    (forIn [:k] (enc s0) f).toOption = (iterOpt g k s0).map enc := by
  rw [Std.Legacy.Range.forIn_eq_forIn_range']
  have e : List.range' (0 : Nat) (([:k] : Std.Legacy.Range)).size 1 = List.range k := by
    simp [Std.Legacy.Range.size, List.range_eq_range']
  show (forIn (List.range' 0 (([:k] : Std.Legacy.Range)).size 1) (enc s0) f).toOption = _
  rw [e]
  have := forIn_list_opt enc g f (List.range k) (fun a _ s => h a s) s0
  rwa [List.length_range] at this

/-! ### Python's operators on non-negative ints -/

theorem shr_natCast (a b : Nat) : Py.shr (a : Int) (b : Int) = .ok ((a >>> b : Nat) : Int) := by
  unfold Py.shr
  rw [if_neg (by omega)]
  simp [Nat.shiftRight_eq_div_pow]

theorem shl_natCast_shift (a b : Nat) : Py.shl (a : Int) (b : Int) = .ok ((a <<< b : Nat) : Int) := by
  rw [Py.shl_natCast, Nat.shiftLeft_eq]

theorem ne_zero_natCast (a : Nat) : (((a : Int) != 0) = true) ↔ a ≠ 0 := by simp

theorem eq_natCast (a b : Nat) : (((a : Int) == (b : Int)) = true) ↔ a = b := by simp [Int.natCast_inj]

end Loop
