import BU.Py
import BU.Spec.TxWire
import BU.Model.Tx
import BU.Proofs.PyLemmas
import BU.Properties.C17
/-!
Generic lemmas for the transaction codec proofs (C01, C16): `struct.pack` on in-range values,
the rest-passing parser combinators of `BU/Model/Tx.lean` on well-formed input, `concatM`.
-/
namespace TxLemmas
open Py Spec Model

/-! ### `struct.pack` -/

theorem pack_L (i : Int) (h0 : 0 ≤ i) (h1 : i < 2 ^ 32) : Py.pack "<L" i = .ok (leBytes 4 i.toNat) := by
  have e : Py.pack "<L" i = packU 4 i := rfl
  rw [e]
  unfold packU
  have : 0 ≤ i ∧ i.toNat < 256 ^ 4 := by omega
  simp only [this, and_self, if_true]

theorem pack_q (i : Int) (h0 : 0 ≤ i) (h1 : i < 2 ^ 63) : Py.pack "<q" i = .ok (leBytes 8 i.toNat) := by
  have e : Py.pack "<q" i = packS 8 i := rfl
  rw [e]
  unfold packS
  have a : -((256 ^ 8 / 2 : Nat) : Int) ≤ i ∧ i < ((256 ^ 8 / 2 : Nat) : Int) := by
    constructor <;> omega
  have b : i % ((256 ^ 8 : Nat) : Int) = i := by
    apply Int.emod_eq_of_lt h0
    omega
  simp only [a, and_self, if_true, b]

theorem natCast_toNat_ofLE_leBytes4 (i : Int) (h0 : 0 ≤ i) (h1 : i < 2 ^ 32) :
    ((ofLE (leBytes 4 i.toNat) : Nat) : Int) = i := by
  rw [ofLE_leBytes 4 i.toNat (by omega)]
  omega

theorem natCast_toNat_ofLE_leBytes8 (i : Int) (h0 : 0 ≤ i) (h1 : i < 2 ^ 63) :
    ((ofLE (leBytes 8 i.toNat) : Nat) : Int) = i := by
  rw [ofLE_leBytes 8 i.toNat (by omega)]
  omega

/-! ### CompactSize -/

theorem compactSize_ne_nil (n : Nat) : compactSize n ≠ [] := by
  unfold compactSize
  split
  · simp
  · split
    · simp
    · split <;> simp

/-- the first byte of the count of a non-empty list is not the segwit marker -/
theorem compactSize_head_ne_zero (n : Nat) (h : 1 ≤ n) (rest : Bytes) :
    ((compactSize n ++ rest).take 2 == [0x00, 0x01]) = false := by
  unfold compactSize
  by_cases h1 : n < 253
  · have : UInt8.ofNat n ≠ 0 := by
      intro hc
      have := congrArg UInt8.toNat hc
      simp [UInt8.toNat_ofNat'] at this
      omega
    simp only [h1, if_true]
    cases rest with
    | nil => simp
    | cons x xs => simp [this]
  · simp only [h1, if_false]
    split
    · cases h2 : leBytes 2 n ++ rest <;> simp [h2]
    · split
      · cases h2 : leBytes 4 n ++ rest <;> simp [h2]
      · cases h2 : leBytes 8 n ++ rest <;> simp [h2]

/-! ### rest-passing parsers -/

theorem parseCS_compactSize (n : Nat) (h : n < 2 ^ 64) (rest : Bytes) :
    parseCS (compactSize n ++ rest) = .ok (n, rest) := by
  unfold parseCS
  rw [C17.decode_encode n h rest]
  simp

theorem takeN_append (k : Nat) (a rest : Bytes) (h : a.length = k) :
    takeN k (a ++ rest) = .ok (a, rest) := by
  unfold takeN
  have : ¬ ((a ++ rest).length < k) := by simp; omega
  simp only [this, if_false]
  rw [List.take_left' h, List.drop_left' h]

theorem parseMany_map {α β : Type} (p : Bytes → Except PyErr (β × Bytes)) (enc : α → Bytes) (f : α → β)
    (xs : List α) (hp : ∀ x ∈ xs, ∀ rest, p (enc x ++ rest) = .ok (f x, rest)) (rest : Bytes) :
    parseMany p xs.length (xs.flatMap enc ++ rest) = .ok (xs.map f, rest) := by
  induction xs with
  | nil => simp [parseMany]
  | cons x xs ih =>
    have h1 := hp x (by simp) (xs.flatMap enc ++ rest)
    have h2 := ih (fun y hy => hp y (by simp [hy]))
    simp only [List.length_cons, parseMany, List.flatMap_cons, List.append_assoc, h1, h2, bind, Except.bind,
      pure, Except.pure, List.map_cons]

theorem parseItem_withLen (it : Bytes) (h : it.length < 2 ^ 64) (rest : Bytes) :
    parseItem (withLen it ++ rest) = .ok (it, rest) := by
  unfold parseItem withLen
  rw [List.append_assoc, parseCS_compactSize _ h]
  simp only [bind, Except.bind, pure, Except.pure]
  rw [List.take_left' rfl, List.drop_left' rfl]

theorem parseStack_encStack (st : List Bytes) (h : st.length < 2 ^ 64) (hi : ∀ it ∈ st, it.length < 2 ^ 64)
    (rest : Bytes) : parseStack (encStack st ++ rest) = .ok (st, rest) := by
  unfold parseStack encStack
  rw [List.append_assoc, parseCS_compactSize _ h]
  simp only [bind, Except.bind]
  have := parseMany_map parseItem withLen id st (fun it hit r => parseItem_withLen it (hi it hit) r) rest
  simpa using this

/-! ### `concatM`, `mapM` -/

theorem concatM_map {α : Type} (f : α → Except PyErr Bytes) (g : α → Bytes) (xs : List α)
    (h : ∀ x ∈ xs, f x = .ok (g x)) : concatM (xs.map f) = .ok (xs.flatMap g) := by
  induction xs with
  | nil => simp [concatM]
  | cons x xs ih =>
    have h1 := h x (by simp)
    have h2 := ih (fun y hy => h y (by simp [hy]))
    simp only [List.map_cons, concatM, h1, h2, bind, Except.bind, pure, Except.pure, List.flatMap_cons]

theorem mapM_some {α β : Type} (f : α → Option β) (g : α → β) (xs : List α)
    (h : ∀ x ∈ xs, f x = some (g x)) : xs.mapM f = some (xs.map g) := by
  induction xs with
  | nil => simp
  | cons x xs ih =>
    have h1 := h x (by simp)
    have h2 := ih (fun y hy => h y (by simp [hy]))
    simp [List.mapM_cons, h1, h2]

end TxLemmas
