import BU.Proofs.GenTweak
import BU.Properties.C08_Gen
/-! Proofs for `Properties/C07_GenSign`, `C08_GenTree`: the *generated* `get_tag_hashed_merkle_root` (recursion under a depth bound
that is never exhausted), `calculate_tweak` and `PrivateKey._sign_taproot_input` equal the hand models.  Mathlib-free. -/
set_option linter.unusedSimpArgs false
namespace GenTapSign
open Py Secp Model Loop C02Gen

def toPyTree : Model.Tree → Py.PyTree
  | .leaf s => .leaf (s.map toPy)
  | .one t => .one (toPyTree t)
  | .two l r => .two (toPyTree l) (toPyTree r)

def toPyScripts : Model.Scripts → Py.PyScripts
  | .none => .none
  | .root b => .root b
  | .tree t => .tree (toPyTree t)

/-- every leaf script assembles to fewer than 2^64 bytes -/
def SmallTree (T : Tables) : Model.Tree → Prop
  | .leaf s => ∀ b, scriptBytes T s = .ok b → b.length < 2 ^ 64
  | .one t => SmallTree T t
  | .two l r => SmallTree T l ∧ SmallTree T r

theorem gen_merkle_fuel (sha256 : Bytes → Bytes) (T : Tables) (t : Model.Tree) (hs : SmallTree T t) (fuel : Nat)
    (hf : Py.treeDepth.go (toPyTree t) < fuel) :
    Gen.tag_hashed_merkle_root_fuel fuel sha256 T.opCodes (some (toPyTree t)) = merkleRoot sha256 T t := by
  induction t generalizing fuel with
  | leaf s =>
    cases fuel with
    | zero => omega
    | succ fuel =>
      unfold Gen.tag_hashed_merkle_root_fuel merkleRoot toPyTree
      simp only [Py.treeFalsy, Py.treeIsList, Py.treeLeafToks, Bool.false_eq_true, if_false, Bool.not_false, if_true, ok_bind]
      exact C08Gen.gen_tapleaf sha256 T s hs
  | one t ih =>
    cases fuel with
    | zero => omega
    | succ fuel =>
      have hd : Py.treeDepth.go (toPyTree t) < fuel := by
        have : Py.treeDepth.go (toPyTree (Tree.one t)) = Py.treeDepth.go (toPyTree t) + 1 := rfl
        omega
      unfold Gen.tag_hashed_merkle_root_fuel merkleRoot toPyTree
      simp only [Py.treeFalsy, Py.treeIsList, Py.treeLen, Py.treeChild, Bool.false_eq_true, if_false, Bool.not_true, ok_bind,
        show ((1 : Int) == 0) = false from rfl, show ((1 : Int) == 1) = true from rfl, if_true, true_or]
      rw [ih hs fuel hd]
  | two l r ihl ihr =>
    cases fuel with
    | zero => omega
    | succ fuel =>
      have hd : Py.treeDepth.go (toPyTree l) < fuel ∧ Py.treeDepth.go (toPyTree r) < fuel := by
        have : Py.treeDepth.go (toPyTree (Tree.two l r)) = max (Py.treeDepth.go (toPyTree l)) (Py.treeDepth.go (toPyTree r)) + 1 := rfl
        omega
      unfold Gen.tag_hashed_merkle_root_fuel merkleRoot toPyTree
      simp only [Py.treeFalsy, Py.treeIsList, Py.treeLen, Py.treeChild, Bool.false_eq_true, if_false, Bool.not_true, ok_bind,
        show ((2 : Int) == 0) = false from rfl, show ((2 : Int) == 1) = false from rfl, show ((2 : Int) == 2) = true from rfl,
        if_true, true_or, show ¬ ((1 : Int) = 0 ∨ (1 : Int) = -2) by decide, show ((1 : Int) = 1 ∨ (1 : Int) = -1) by decide]
      rw [ihl hs.1 fuel hd.1, ihr hs.2 fuel hd.2]
      cases merkleRoot sha256 T l with
      | error e => rfl
      | ok a =>
        rw [ok_bind, ok_bind]
        cases merkleRoot sha256 T r with
        | error e => rfl
        | ok b =>
          rw [ok_bind, ok_bind, C08Gen.gen_tapbranch]
          rfl

theorem gen_merkle_root (sha256 : Bytes → Bytes) (T : Tables) (t : Model.Tree) (hs : SmallTree T t) :
    Gen.tag_hashed_merkle_root sha256 T.opCodes (some (toPyTree t)) = merkleRoot sha256 T t := by
  unfold Gen.tag_hashed_merkle_root
  exact gen_merkle_fuel sha256 T t hs _ (by show Py.treeDepth.go (toPyTree t) < Py.treeDepth.go (toPyTree t) + 1; omega)

/-- no tree, the empty list: the empty string; a list of three or more: `ValueError` -/
theorem gen_merkle_root_edge (sha256 : Bytes → Bytes) (ops : List (String × Bytes)) :
    Gen.tag_hashed_merkle_root sha256 ops none = .ok [] ∧ Gen.tag_hashed_merkle_root sha256 ops (some .nil) = .ok [] ∧
    Gen.tag_hashed_merkle_root sha256 ops (some .many) = .error .valueError := ⟨rfl, rfl, rfl⟩

theorem tag_tweak : ([0x54, 0x61, 0x70, 0x54, 0x77, 0x65, 0x61, 0x6b] : Bytes) = "TapTweak".toUTF8.toList := by decide +kernel

def SmallScripts (T : Tables) : Model.Scripts → Prop
  | .tree t => SmallTree T t
  | _ => True

theorem treeFalsy_toPy (t : Model.Tree) : Py.treeFalsy (some (toPyTree t)) = false := by
  cases t <;> rfl

theorem gen_calculate_tweak (sha256 : Bytes → Bytes) (T : Tables) (pub : Bytes) (s : Model.Scripts) (hs : SmallScripts T s) :
    Gen.calculate_tweak sha256 T.opCodes pub (toPyScripts s) = (calculateTweak sha256 T pub s).map (fun (n : Nat) => (n : Int)) := by
  unfold Gen.calculate_tweak
  simp only []
  rw [SchnorrLemmas.slice_0_32, tag_tweak]
  cases s with
  | none =>
    simp only [toPyScripts, Py.scriptsFalsy, if_true, C08Gen.gen_tagged_hash, ok_bind, calculateTweak]
    rfl
  | root b =>
    simp only [toPyScripts, Py.scriptsFalsy, Py.scriptsIsBytes, Py.scriptsBytes, calculateTweak]
    by_cases hb : b.isEmpty = true
    · have : b = [] := List.isEmpty_iff.mp hb
      subst this
      simp only [List.isEmpty_nil, if_true, C08Gen.gen_tagged_hash, ok_bind, List.append_nil]
      rfl
    · simp only [hb, Bool.false_eq_true, if_false, if_true, ok_bind, C08Gen.gen_tagged_hash]
      rfl
  | tree t =>
    simp only [toPyScripts, Py.scriptsFalsy, treeFalsy_toPy, Py.scriptsIsBytes, Py.scriptsTree, Bool.false_eq_true, if_false,
      calculateTweak]
    rw [gen_merkle_root sha256 T t hs]
    cases merkleRoot sha256 T t with
    | error e => rfl
    | ok r =>
      simp only [ok_bind, C08Gen.gen_tagged_hash]
      rfl

theorem gen_sign_taproot_input (sha256 : Bytes → Bytes) (T : Tables) (priv pub digest : Bytes) (sighash : Nat) (s : Model.Scripts)
    (tweak : Bool) (hs : SmallScripts T s) :
    Gen.sign_taproot_input sha256 T.opCodes priv pub digest (sighash : Int) (toPyScripts s) tweak =
      signTaproot sha256 T priv pub digest sighash s tweak := by
  unfold Gen.sign_taproot_input signTaproot
  simp only []
  have hne : (((sighash : Int) != 0)) = (sighash != 0) := by
    by_cases h : sighash = 0
    · subst h; rfl
    · have : ¬ ((sighash : Int) = 0) := by omega
      rw [bne_iff_ne.mpr this, bne_iff_ne.mpr h]
  cases tweak with
  | false =>
    simp only [Bool.false_eq_true, if_false, pure_bind, GenSchnorr.gen_schnorr_sign]
    cases schnorrSign sha256 digest priv (sha256 (digest ++ priv)) with
    | error e => rfl
    | ok sig =>
      simp only [ok_bind, hne]
      by_cases h : sighash = 0
      · subst h; rfl
      · have c : (sighash != 0) = true := by simpa using h
        simp only [c, if_true, ne_eq, h, not_false_eq_true]
  | true =>
    simp only [if_true, gen_calculate_tweak sha256 T pub s hs]
    cases calculateTweak sha256 T pub s with
    | error e => rfl
    | ok tw =>
      simp only [Except.map, ok_bind, GenTweak.gen_tweak_taproot_privkey]
      cases tweakPrivkey priv tw with
      | error e => rfl
      | ok key =>
        simp only [ok_bind, GenSchnorr.gen_schnorr_sign]
        cases schnorrSign sha256 digest key (sha256 (digest ++ key)) with
        | error e => rfl
        | ok sig =>
          simp only [ok_bind, hne]
          by_cases h : sighash = 0
          · subst h; rfl
          · have c : (sighash != 0) = true := by simpa using h
            simp only [c, if_true, ne_eq, h, not_false_eq_true]

/-! ### the merkle path (nested function with a threaded `nonlocal` counter) and the control block -/

def castR (r : (Bytes × Bool) × Nat) : (Bytes × Bool) × Int := (r.1, (r.2 : Int))

theorem eq_cast (a b : Nat) : (((a : Int) == (b : Int))) = (a == b) := by
  by_cases h : a = b
  · subst h; rw [beq_self_eq_true, beq_self_eq_true]
  · rw [beq_eq_false_iff_ne.mpr h, beq_eq_false_iff_ne.mpr (by omega)]

theorem gen_traverse_fuel (sha256 : Bytes → Bytes) (T : Tables) (target : Nat) (t : Model.Tree) (hs : SmallTree T t) (fuel : Nat)
    (hf : Py.treeDepth.go (toPyTree t) < fuel) (tr : Nat) :
    Gen.traverse_level_fuel fuel sha256 T.opCodes (target : Int) (some (toPyTree t)) (tr : Int) =
      (traverse sha256 T target t tr).map castR := by
  induction t generalizing fuel tr with
  | leaf s =>
    cases fuel with
    | zero => omega
    | succ fuel =>
      unfold Gen.traverse_level_fuel traverse toPyTree
      simp only [Py.treeIsList, Bool.false_eq_true, if_false, eq_cast, Py.treeLeafToks, ok_bind]
      by_cases h : tr = target
      · subst h
        simp only [beq_self_eq_true, if_true]
        rfl
      · have c : (tr == target) = false := by simpa using h
        simp only [c, Bool.false_eq_true, if_false, h]
        rw [C08Gen.gen_tapleaf sha256 T s hs]
        cases tapleafHash sha256 T s <;> rfl
  | one t ih =>
    cases fuel with
    | zero => omega
    | succ fuel =>
      have hd : Py.treeDepth.go (toPyTree t) < fuel := by
        have : Py.treeDepth.go (toPyTree (Tree.one t)) = Py.treeDepth.go (toPyTree t) + 1 := rfl
        omega
      unfold Gen.traverse_level_fuel traverse toPyTree
      simp only [Py.treeIsList, Py.treeLen, Py.treeChild, if_true, ok_bind, show ((1 : Int) == 1) = true from rfl, true_or]
      rw [ih hs fuel hd tr]
      cases traverse sha256 T target t tr with
      | error e => rfl
      | ok r => rfl
  | two l r ihl ihr =>
    cases fuel with
    | zero => omega
    | succ fuel =>
      have hd : Py.treeDepth.go (toPyTree l) < fuel ∧ Py.treeDepth.go (toPyTree r) < fuel := by
        have : Py.treeDepth.go (toPyTree (Tree.two l r)) = max (Py.treeDepth.go (toPyTree l)) (Py.treeDepth.go (toPyTree r)) + 1 := rfl
        omega
      unfold Gen.traverse_level_fuel traverse toPyTree
      simp only [Py.treeIsList, Py.treeLen, Py.treeChild, if_true, ok_bind, show ((2 : Int) == 1) = false from rfl,
        show ((2 : Int) == 2) = true from rfl, Bool.false_eq_true, if_false, true_or,
        show ¬ ((1 : Int) = 0 ∨ (1 : Int) = -2) by decide, show ((1 : Int) = 1 ∨ (1 : Int) = -1) by decide]
      rw [ihl hs.1 fuel hd.1 tr]
      cases hl : traverse sha256 T target l tr with
      | error e => rfl
      | ok ra =>
        obtain ⟨⟨a, a1⟩, tr1⟩ := ra
        simp only [Except.map, castR, ok_bind]
        rw [ihr hs.2 fuel hd.2 tr1]
        cases hr : traverse sha256 T target r tr1 with
        | error e => rfl
        | ok rb =>
          obtain ⟨⟨b, b1⟩, tr2⟩ := rb
          simp only [Except.map, castR, ok_bind]
          cases a1 with
          | true => rfl
          | false =>
            cases b1 with
            | true => rfl
            | false =>
              simp only [Bool.false_eq_true, if_false]
              rw [C08Gen.gen_tapbranch, ok_bind]
              rfl

theorem gen_traverse (sha256 : Bytes → Bytes) (T : Tables) (target : Nat) (t : Model.Tree) (hs : SmallTree T t) (tr : Nat) :
    Gen.traverse_level sha256 T.opCodes (target : Int) (some (toPyTree t)) (tr : Int) = (traverse sha256 T target t tr).map castR := by
  unfold Gen.traverse_level
  exact gen_traverse_fuel sha256 T target t hs _ (by show Py.treeDepth.go (toPyTree t) < Py.treeDepth.go (toPyTree t) + 1; omega) tr

theorem gen_merkle_path (sha256 : Bytes → Bytes) (T : Tables) (t : Model.Tree) (hs : SmallTree T t) (target : Nat) :
    Gen.generate_merkle_path sha256 T.opCodes (some (toPyTree t)) (target : Int) = merklePath sha256 T t target := by
  unfold Gen.generate_merkle_path merklePath
  simp only []
  rw [show (0 : Int) = ((0 : Nat) : Int) from rfl, gen_traverse sha256 T target t hs 0]
  cases traverse sha256 T target t 0 with
  | error e => rfl
  | ok r => rfl

theorem gen_control_block (sha256 : Bytes → Bytes) (T : Tables) (pub : Bytes) (t : Model.Tree) (hs : SmallTree T t) (index : Nat)
    (isOdd : Bool) :
    (Gen.generate_merkle_path sha256 T.opCodes (some (toPyTree t)) (index : Int) >>= fun path =>
      Gen.control_block_to_bytes isOdd (pub.take 32) path) = controlBlock sha256 T pub t index isOdd := by
  rw [gen_merkle_path sha256 T t hs index]
  unfold controlBlock
  cases merklePath sha256 T t index with
  | error e => rfl
  | ok path =>
    rw [ok_bind, ok_bind]
    unfold Gen.control_block_to_bytes
    cases isOdd <;> rfl

end GenTapSign
