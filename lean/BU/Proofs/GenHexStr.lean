import BU.PyList
/-!
# Hex strings as real strings (`Py.hexOf`) under `bytes.fromhex`, `int(·, 16)`, `str.strip`, `str.lower().startswith("0x")`

Lemmas for the translated `PublicKey.__init__(hex_str)`: on the lower-case hex string of a byte string `b` the string functions of
PyRT return `b`, `ofBE b`, the string itself, and "no `0x` prefix".  Mathlib-free.
-/
namespace GenHexStr
open Py

theorem hexChar_facts : ∀ k, k < 16 →
    hexVal (hexChar k) = some k ∧ isSpaceC (hexChar k) = false ∧ isSpaceU (hexChar k) = false ∧
    (decide ((hexChar k).toNat ≥ 128)) = false ∧ (hexChar k = '_') = False ∧ (lowerA (hexChar k) == 'x') = false ∧
    (hexChar k == 'x') = false ∧ (hexChar k == 'X') = false ∧ (hexChar k == '-') = false ∧ (hexChar k == '+') = false ∧
    (hexChar k == '_') = false ∧ lowerA (hexChar k) = hexChar k := by
  decide +kernel

theorem hexOf_cons (u : UInt8) (b : Bytes) : hexOf (u :: b) = hexChar (u.toNat / 16) :: hexChar (u.toNat % 16) :: hexOf b := by
  simp [hexOf]

theorem hexOf_nil : hexOf [] = [] := rfl

theorem hi_lt (u : UInt8) : u.toNat / 16 < 16 := by have := u.toNat_lt; omega
theorem lo_lt (u : UInt8) : u.toNat % 16 < 16 := by omega

theorem byte_recompose (u : UInt8) : UInt8.ofNat (u.toNat / 16 * 16 + u.toNat % 16) = u := by
  have : u.toNat / 16 * 16 + u.toNat % 16 = u.toNat := by omega
  rw [this]; exact UInt8.ofNat_toNat

theorem hexOf_length (b : Bytes) : (hexOf b).length = 2 * b.length := by
  induction b with
  | nil => rfl
  | cons u b ih => rw [hexOf_cons]; simp only [List.length_cons, ih]; omega

/-- `bytes.fromhex(b.hex()) == b` -/
theorem bytesFromhex_hexOf (b : Bytes) : bytesFromhex (hexOf b) = .ok b := by
  induction b with
  | nil => rfl
  | cons u b ih =>
    rw [hexOf_cons]
    unfold bytesFromhex
    obtain ⟨h1, h2, -⟩ := hexChar_facts _ (hi_lt u)
    obtain ⟨l1, -⟩ := hexChar_facts _ (lo_lt u)
    simp only [h2, Bool.false_eq_true, if_false, h1, l1, ih, Except.map, byte_recompose]

theorem all_ascii (b : Bytes) : (hexOf b).any (fun c => decide (c.toNat ≥ 128)) = false := by
  induction b with
  | nil => rfl
  | cons u b ih =>
    rw [hexOf_cons]
    obtain ⟨-, -, -, h4, -⟩ := hexChar_facts _ (hi_lt u)
    obtain ⟨-, -, -, l4, -⟩ := hexChar_facts _ (lo_lt u)
    simp only [List.any_cons, h4, l4, ih, Bool.or_self]

theorem ofBE_cons (u : UInt8) (b : Bytes) : ofBE (u :: b) = u.toNat * 256 ^ b.length + ofBE b := by
  unfold ofBE
  rw [List.reverse_cons, ofLE_append]
  simp only [ofLE, List.length_reverse, Nat.mul_zero, Nat.add_zero]
  rw [Nat.mul_comm]; omega

theorem scan_hexOf (b : Bytes) (acc nd : Nat) :
    scanHex (hexOf b) false acc nd = some (acc * 256 ^ b.length + ofBE b, nd + 2 * b.length, []) := by
  induction b generalizing acc nd with
  | nil => simp [hexOf_nil, scanHex, ofBE, ofLE]
  | cons u b ih =>
    rw [hexOf_cons]
    obtain ⟨h1, -, -, -, h5, -⟩ := hexChar_facts _ (hi_lt u)
    obtain ⟨l1, -, -, -, l5, -⟩ := hexChar_facts _ (lo_lt u)
    unfold scanHex
    simp only [h5, if_false, h1]
    unfold scanHex
    simp only [l5, if_false, l1]
    rw [ih, ofBE_cons]
    have e2 : (acc * 16 + u.toNat / 16) * 16 + u.toNat % 16 = acc * 256 + u.toNat := by omega
    have e3 : (acc * 256 + u.toNat) * 256 ^ b.length + ofBE b =
        acc * 256 ^ (b.length + 1) + (u.toNat * 256 ^ b.length + ofBE b) := by
      rw [Nat.pow_succ, Nat.add_mul, Nat.mul_assoc, Nat.mul_comm 256 (256 ^ b.length), Nat.add_assoc]
    have e4 : nd + 1 + 1 + 2 * b.length = nd + 2 * (b.length + 1) := by omega
    rw [e2, e3, e4, List.length_cons]

/-- `int(b.hex(), 16) == int.from_bytes(b, "big")` for non-empty `b` -/
theorem intBase16_hexOf (b : Bytes) (hb : b ≠ []) : intBase16 (hexOf b) = .ok ((ofBE b : Nat) : Int) := by
  obtain ⟨u, b', rfl⟩ := List.exists_cons_of_ne_nil hb
  unfold intBase16
  rw [all_ascii]
  simp only [Bool.false_eq_true, if_false]
  have hs := scan_hexOf (u :: b') 0 0
  rw [hexOf_cons] at hs ⊢
  obtain ⟨-, h2, -, -, -, -, h7, h8, h9, h10, h11, -⟩ := hexChar_facts _ (hi_lt u)
  obtain ⟨-, -, -, -, -, -, l7, l8, -⟩ := hexChar_facts _ (lo_lt u)
  simp only [List.dropWhile_cons, h2, Bool.false_eq_true, if_false, List.head?_cons, Option.some_beq_some, h9, h10, h11, Bool.or_self,
    List.tail_cons, l7, l8, Bool.and_false, hs, Nat.zero_mul, Nat.zero_add, List.all_nil, if_true]
  have : ¬ (2 * (u :: b').length = 0) := by simp
  simp only [this, if_false]

/-- `b.hex().strip() == b.hex()` -/
theorem strStrip_hexOf (b : Bytes) : strStrip (hexOf b) = .ok (hexOf b) := by
  unfold strStrip
  rw [all_ascii]
  simp only [Bool.false_eq_true, if_false]
  have key : ∀ l : List Char, (∀ c ∈ l, isSpaceU c = false) → l.dropWhile isSpaceU = l := by
    intro l h
    cases l with
    | nil => rfl
    | cons c r => rw [List.dropWhile_cons, h c (List.mem_cons_self)]; rfl
  have hall : ∀ c ∈ hexOf b, isSpaceU c = false := by
    intro c hc
    simp only [hexOf, List.mem_flatMap, List.mem_cons, List.not_mem_nil, or_false] at hc
    obtain ⟨u, -, hu⟩ := hc
    rcases hu with rfl | rfl
    · exact (hexChar_facts _ (hi_lt u)).2.2.1
    · exact (hexChar_facts _ (lo_lt u)).2.2.1
  rw [key _ hall, key _ (fun c hc => hall c (List.mem_reverse.mp hc)), List.reverse_reverse]

/-- a hex string does not start with `0x` in any case -/
theorem no_0x_prefix (b : Bytes) : strLower (hexOf b) = .ok (hexOf b) ∧ strStartswith (hexOf b) ['0', 'x'] = false := by
  constructor
  · unfold strLower
    rw [all_ascii]
    simp only [Bool.false_eq_true, if_false]
    congr 1
    induction b with
    | nil => rfl
    | cons u b ih =>
      rw [hexOf_cons, List.map_cons, List.map_cons, ih, (hexChar_facts _ (hi_lt u)).2.2.2.2.2.2.2.2.2.2.2,
        (hexChar_facts _ (lo_lt u)).2.2.2.2.2.2.2.2.2.2.2]
  · cases b with
    | nil => rfl
    | cons u b =>
      rw [hexOf_cons]
      unfold strStartswith
      have := (hexChar_facts _ (lo_lt u)).2.2.2.2.2.2.1
      have e : ('x' == hexChar (u.toNat % 16)) = false := by rw [BEq.comm]; exact this
      rw [List.isPrefixOf_cons_cons, List.isPrefixOf_cons_cons, e]
      simp

end GenHexStr
