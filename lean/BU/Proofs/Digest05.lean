import BU.Py
import BU.Spec.Sighash
import BU.Model.Digest
import BU.Properties.C01
/-!
Helper lemmas for C05 (taproot digest = BIP341): the per-element serialisations used by
`Model.taprootDigest` on well-formed data, and list bookkeeping for the spent outputs.
-/
namespace Digest05
open Py Spec Model TxLemmas

/-! ### leaves -/

theorem pack_Q (i : Int) (h0 : 0 ≤ i) (h1 : i < 2 ^ 63) : Py.pack "<Q" i = .ok (leBytes 8 i.toNat) := by
  have e : Py.pack "<Q" i = packU 8 i := rfl
  rw [e]
  unfold packU
  have : 0 ≤ i ∧ i.toNat < 256 ^ 8 := by omega
  simp only [this, and_self, if_true]

theorem pack_I' (i : Int) (h0 : 0 ≤ i) (h1 : i < 2 ^ 32) : Py.pack "<I" i = .ok (leBytes 4 i.toNat) := by
  have e : Py.pack "<I" i = packU 4 i := rfl
  rw [e]
  unfold packU
  have : 0 ≤ i ∧ i.toNat < 256 ^ 4 := by omega
  simp only [this, and_self, if_true]

theorem le8_spec (a : Int) (h0 : 0 ≤ a) (h1 : a < 2 ^ 63) : le8 a = .ok (leBytes 8 a.toNat) := by
  unfold le8
  exact toBytes_little_of_nonneg a 8 h0 (by omega) (by
    have : (8 : Int).toNat = 8 := rfl
    rw [this]; omega)

theorem toBytes4 (i : Nat) (h : i < 2 ^ 32) : Py.toBytes (i : Int) 4 .little = .ok (leBytes 4 i) :=
  toBytes_little_natCast i 4 (by omega)

theorem bytesOfInts_single (n : Nat) (h : n < 256) :
    Py.bytesOfInts [(n : Int)] = .ok [UInt8.ofNat n] := by
  have : (0 : Int) ≤ (n : Int) ∧ (n : Int) < 256 := by omega
  simp [bytesOfInts, this, List.mapM_cons, pure, Except.pure, bind, Except.bind]

/-- the bytes of a script (`[]` if it does not assemble) -/
def rawScript (T : Tables) (s : List Tok) : Bytes :=
  match scriptBytes T s with | .ok b => b | .error _ => []

theorem script_spec (T : Tables) (hT : C02.TablesOK T = true) (s : List Tok) (h : C01.WFScript T s = true) :
    scriptBytes T s = .ok (rawScript T s) ∧ encToks s = some (rawScript T s) := by
  obtain ⟨bs, hb, he, _, _⟩ := C01.wfScript_elim T hT s h
  have hr : rawScript T s = bs := by simp [rawScript, hb]
  rw [hr]
  exact ⟨hb, he⟩

theorem spk_spec (T : Tables) (hT : C02.TablesOK T = true) (s : List Tok) (h : C01.WFScript T s = true) :
    spkBytes T s = .ok (withLen (rawScript T s)) := by
  unfold spkBytes
  rw [(script_spec T hT s h).1]
  rfl

theorem outpoint_spec (T : Tables) (x : TxIn) (h : C01.WFIn T x = true) :
    outpointBytes x = .ok (outpoint (C01.rawIn T x)) := by
  obtain ⟨_, _, h0, h1, _⟩ := C01.wfIn_elim T x h
  unfold outpointBytes
  rw [pack_I' x.index h0 h1]
  rfl

theorem tapOut_spec (T : Tables) (hT : C02.TablesOK T = true) (o : TxOut) (h : C01.WFOut T o = true) :
    tapOutBytes T o = .ok (encOut (C01.rawOut T o)) := by
  obtain ⟨h0, h1, hs⟩ := C01.wfOut_elim T o h
  obtain ⟨bs, hb, he, hl, _⟩ := C01.wfScript_elim T hT _ hs
  have hr : C01.outScriptRaw T o = bs := by simp [C01.outScriptRaw, hb]
  unfold tapOutBytes
  rw [pack_Q o.amount h0 h1]
  simp [hb, encOut, C01.rawOut, hr, withLen, bind, Except.bind, pure, Except.pure]

/-! ### the spent outputs -/

def spentOf (T : Tables) (p : List Tok × Int) : Spent := { amount := p.2.toNat, spk := rawScript T p.1 }

def spentList (T : Tables) (spks : List (List Tok)) (amounts : List Int) : List Spent :=
  (spks.zip amounts).map (spentOf T)

theorem spent_amounts (T : Tables) (spks : List (List Tok)) (amounts : List Int)
    (hl : spks.length = amounts.length) :
    (spentList T spks amounts).flatMap (fun s => leBytes 8 s.amount) =
      amounts.flatMap (fun a => leBytes 8 a.toNat) := by
  unfold spentList
  rw [List.flatMap_map]
  conv => rhs; rw [← List.map_snd_zip (l₁ := spks) (l₂ := amounts) (by omega), List.flatMap_map]
  rfl

theorem spent_spks (T : Tables) (spks : List (List Tok)) (amounts : List Int)
    (hl : spks.length = amounts.length) :
    (spentList T spks amounts).flatMap (fun s => withLen s.spk) =
      spks.flatMap (fun s => withLen (rawScript T s)) := by
  unfold spentList
  rw [List.flatMap_map]
  conv => rhs; rw [← List.map_fst_zip (l₁ := spks) (l₂ := amounts) (by omega), List.flatMap_map]
  rfl

theorem spent_getD (T : Tables) (spks : List (List Tok)) (amounts : List Int) (i : Nat)
    (s : List Tok) (a : Int) (hs : spks[i]? = some s) (ha : amounts[i]? = some a) :
    (spentList T spks amounts).getD i default = { amount := a.toNat, spk := rawScript T s } := by
  unfold spentList
  have : (spks.zip amounts)[i]? = some (s, a) := List.getElem?_zip_eq_some.mpr ⟨hs, ha⟩
  simp [List.getD_eq_getElem?_getD, List.getElem?_map, this, spentOf]

/-! ### the four list hashes -/

theorem prevouts_spec (T : Tables) (ins : List TxIn) (h : ∀ x ∈ ins, C01.WFIn T x = true) :
    concatM (ins.map outpointBytes) = .ok ((ins.map (C01.rawIn T)).flatMap outpoint) := by
  rw [List.flatMap_map]
  exact concatM_map _ _ _ (fun x hx => outpoint_spec T x (h x hx))

theorem amounts_spec (amounts : List Int) (h : ∀ a ∈ amounts, 0 ≤ a ∧ a < 2 ^ 63) :
    concatM (amounts.map le8) = .ok (amounts.flatMap (fun a => leBytes 8 a.toNat)) :=
  concatM_map _ _ _ (fun a ha => le8_spec a (h a ha).1 (h a ha).2)

theorem spks_spec (T : Tables) (hT : C02.TablesOK T = true) (spks : List (List Tok))
    (h : ∀ s ∈ spks, C01.WFScript T s = true) :
    concatM (spks.map (spkBytes T)) = .ok (spks.flatMap (fun s => withLen (rawScript T s))) :=
  concatM_map _ _ _ (fun s hs => spk_spec T hT s (h s hs))

theorem outs_spec (T : Tables) (hT : C02.TablesOK T = true) (outs : List TxOut)
    (h : ∀ o ∈ outs, C01.WFOut T o = true) :
    concatM (outs.map (tapOutBytes T)) = .ok ((outs.map (C01.rawOut T)).flatMap encOut) := by
  rw [List.flatMap_map]
  exact concatM_map _ _ _ (fun o ho => tapOut_spec T hT o (h o ho))

theorem seqs_spec (T : Tables) (ins : List TxIn) :
    (ins.map (C01.rawIn T)).flatMap (·.sequence) = ins.flatMap (·.sequence) := by
  rw [List.flatMap_map]
  rfl

end Digest05
