import BU.Py
import BU.Spec.Sighash
import BU.Model.Digest
import BU.Properties.C01
/-! Helper lemmas for C04 (segwit v0 digest = BIP143). -/
namespace Digest04
open Py Spec Model TxLemmas

theorem pack_I (i : Int) (h0 : 0 ≤ i) (h1 : i < 2 ^ 32) : Py.pack "<I" i = .ok (leBytes 4 i.toNat) := by
  have e : Py.pack "<I" i = packU 4 i := rfl
  rw [e]
  unfold packU
  have : 0 ≤ i ∧ i.toNat < 256 ^ 4 := by omega
  simp only [this, and_self, if_true]

theorem pack_i_nat (n : Nat) (h : n < 2 ^ 31) : Py.pack "<i" (n : Int) = .ok (leBytes 4 n) := by
  have e : Py.pack "<i" (n : Int) = packS 4 n := rfl
  rw [e]
  unfold packS
  have a : -((256 ^ 4 / 2 : Nat) : Int) ≤ (n : Int) ∧ (n : Int) < ((256 ^ 4 / 2 : Nat) : Int) := by
    constructor <;> omega
  have b : (n : Int) % ((256 ^ 4 : Nat) : Int) = n := by
    apply Int.emod_eq_of_lt (by omega)
    omega
  simp only [a, and_self, if_true, b, Int.toNat_natCast]

theorem pack_q_nat (n : Nat) (h : n < 2 ^ 63) : Py.pack "<q" (n : Int) = .ok (leBytes 8 n) := by
  have := pack_q (n : Int) (by omega) (by omega)
  simpa using this

/-- under `ht &&& 0x70 = 0` the code's ANYONECANPAY test agrees with BIP143's -/
theorem bits_fin : ∀ ht : Fin 256, ht.val &&& 0x70 = 0 →
    ((ht.val &&& 0xf0) == 0x80) = decide (ht.val &&& 0x80 ≠ 0) := by
  decide +kernel

theorem bits (ht : Nat) (h : ht < 256) (h70 : ht &&& 0x70 = 0) :
    ((ht &&& 0xf0) == 0x80) = decide (ht &&& 0x80 ≠ 0) :=
  bits_fin ⟨ht, h⟩ h70

theorem outpointBytes_spec (T : Tables) (x : TxIn) (h : C01.WFIn T x = true) :
    outpointBytes x = .ok (outpoint (C01.rawIn T x)) := by
  obtain ⟨_, _, h0, h1, _⟩ := C01.wfIn_elim T x h
  unfold outpointBytes
  rw [pack_I x.index h0 h1]
  simp only [bind, Except.bind, pure, Except.pure, outpoint, C01.rawIn]

theorem rawIn_sequence (T : Tables) (x : TxIn) : (C01.rawIn T x).sequence = x.sequence := rfl

/-- the part of an input the segwit digest reads -/
def proj (x : TxIn) : Bytes × Int × Bytes := (x.txid, x.index, x.sequence)

def opOf (p : Bytes × Int × Bytes) : Except PyErr Bytes := do
  let ix ← Py.pack "<I" p.2.1
  pure (p.1.reverse ++ ix)

theorem outpointBytes_eq (x : TxIn) : outpointBytes x = opOf (proj x) := rfl

theorem map_outpointBytes (l : List TxIn) : l.map outpointBytes = (l.map proj).map opOf := by
  simp [List.map_map, Function.comp_def, outpointBytes_eq]

theorem flatMap_sequence (l : List TxIn) : l.flatMap (·.sequence) = (l.map proj).flatMap (·.2.2) := by
  simp [List.flatMap_map, proj]

theorem getElem?_proj (l l' : List TxIn) (h : l'.map proj = l.map proj) (i : Nat) :
    (l'[i]?).map proj = (l[i]?).map proj := by
  rw [← List.getElem?_map, ← List.getElem?_map, h]

theorem sequence_of_proj {x x' : TxIn} (h : proj x' = proj x) : x'.sequence = x.sequence :=
  congrArg (·.2.2) h

theorem outpointBytes_of_proj {x x' : TxIn} (h : proj x' = proj x) : outpointBytes x' = outpointBytes x := by
  rw [outpointBytes_eq, outpointBytes_eq, h]

end Digest04
