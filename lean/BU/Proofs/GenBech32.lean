import BU.Gen.Codec
import BU.Model.Bech32
/-! helper lemmas and proofs for `BU/Properties/C11_Gen.lean` (generated bech32 leaves = hand model) -/
namespace GenBech32
open Model.Bech32

def ofN (l : List Nat) : List Int := l.map Int.ofNat
def encCode : Enc → Int | .bech32 => 1 | .bech32m => 2

theorem gen_polymod (vals : List Nat) :
    Gen.bech32_polymod (vals.map Int.ofNat) = .ok ((polymod specConsts vals : Nat) : Int) := by sorry

theorem gen_hrp_expand (hrp : List Char) :
    Gen.bech32_hrp_expand hrp = .ok ((hrpExpand hrp).map Int.ofNat) := by sorry

theorem gen_verify_checksum (hrp : List Char) (data : List Nat) :
    Gen.bech32_verify_checksum hrp (data.map Int.ofNat) =
      .ok ((verifyChecksum specConsts hrp data).map (fun e => match e with | .bech32 => (1 : Int) | .bech32m => 2)) := by sorry

theorem gen_create_checksum (hrp : List Char) (data : List Nat) (spec : Enc) :
    Gen.bech32_create_checksum hrp (data.map Int.ofNat) (match spec with | .bech32 => (1 : Int) | .bech32m => 2) =
      .ok ((createChecksum specConsts hrp data spec).map Int.ofNat) := by sorry

theorem gen_convertbits (data : List Nat) (frombits tobits : Nat) (pad : Bool) (htb : 0 < tobits) :
    Gen.convertbits (data.map Int.ofNat) (frombits : Int) (tobits : Int) pad =
      .ok ((convertbits data frombits tobits pad).map (fun l => l.map Int.ofNat)) := by sorry

end GenBech32
