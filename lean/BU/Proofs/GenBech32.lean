import BU.Gen.Codec
import BU.Model.Bech32
import BU.Proofs.LoopLemmas
/-! Proofs for `BU/Properties/C11_Gen.lean`: the *generated* bech32 leaves (`bech32_polymod`, `bech32_hrp_expand`,
`bech32_verify_checksum`, `bech32_create_checksum`, `convertbits` — re-translated from /repo on every run) compute on
natural-number arguments exactly what the hand model `Model.Bech32` computes.  Loops are handled by the generic lemmas of
`BU/Proofs/LoopLemmas.lean` (fold, early exit, bounded while).  Mathlib-free. -/
namespace GenBech32
open Model.Bech32 Py Loop

def genN : List Nat := [0x3b6a57b2, 0x26508e6d, 0x1ea119fa, 0x3d4233dd, 0x2a1462b3]

theorem inner_step (top s i : Nat) (hi : i < 5) :
    (do let t3 ← shr (top : Int) (Int.ofNat i)
        (fun a => ForInStep.yield (lxor (s : Int) a)) <$>
          (if (land t3 1 != 0) = true then
            indexL [996825010, 642813549, 513874426, 1027748829, 705979059] (Int.ofNat i)
           else pure 0) : Except PyErr (ForInStep Int)) =
      .ok (ForInStep.yield ((s ^^^ (if (top >>> i) &&& 1 ≠ 0 then genN.getD i 0 else 0) : Nat) : Int)) := by
  rw [show (Int.ofNat i) = (i : Int) from rfl, shr_natCast]
  simp only [ok_bind]
  rw [show ((1 : Int)) = ((1 : Nat) : Int) from rfl, land_natCast]
  by_cases h : (top >>> i) &&& 1 ≠ 0
  · rw [if_pos ((ne_zero_natCast _).2 h), if_pos h]
    have : i = 0 ∨ i = 1 ∨ i = 2 ∨ i = 3 ∨ i = 4 := by omega
    rcases this with rfl | rfl | rfl | rfl | rfl <;> rfl
  · rw [if_neg (fun hh => h ((ne_zero_natCast _).1 hh)), if_neg h]
    rfl

/-- one round of the model's fold -/
def pmStep (chk value : Nat) : Nat :=
  (List.range 5).foldl (fun chk i => chk ^^^ (if ((chk0 >>> 25) >>> i) &&& 1 ≠ 0 then genN.getD i 0 else 0))
    (((chk &&& 0x1FFFFFF) <<< 5) ^^^ value)
where chk0 := chk

theorem gen_polymod (vals : List Nat) :
    Gen.bech32_polymod (vals.map Int.ofNat) = .ok ((polymod specConsts vals : Nat) : Int) := by
  unfold Gen.bech32_polymod
  simp only [bind_pure_comp]
  have key := forIn_map_ok_foldl (α' := Nat) Int.ofNat (fun (p : Nat × Nat) => ((p.1 : Int), (p.2 : Int)))
    (fun p value => (p.2 >>> 25, pmStep p.2 value))
    (fun value __s => do
        let t1 ← shr __s.snd 25
        let t2 ← shl (land __s.snd 33554431) 5
        (fun a => ForInStep.yield (t1, a)) <$>
            forIn [:Int.toNat 5] (lxor t2 value) fun i_ __s => do
              let t3 ← shr t1 (Int.ofNat i_)
              (fun a => ForInStep.yield (lxor __s a)) <$>
                  if (land t3 1 != 0) = true then
                    indexL [996825010, 642813549, 513874426, 1027748829, 705979059] (Int.ofNat i_)
                  else pure 0) vals
    (by
      intro a _ s
      simp only
      rw [show (25 : Int) = ((25 : Nat) : Int) from rfl, shr_natCast, ok_bind,
        show (33554431 : Int) = ((33554431 : Nat) : Int) from rfl, land_natCast,
        show (5 : Int) = ((5 : Nat) : Int) from rfl, shl_natCast_shift, ok_bind]
      rw [show Int.ofNat a = (a : Int) from rfl, lxor_ofNat]
      have := forIn_range_ok_foldl (fun (c : Nat) => (c : Int))
        (fun chk i => chk ^^^ (if ((s.2 >>> 25) >>> i) &&& 1 ≠ 0 then genN.getD i 0 else 0))
        (fun i_ __s => do
              let t3 ← shr ((s.2 >>> 25 : Nat) : Int) (Int.ofNat i_)
              (fun a => ForInStep.yield (lxor __s a)) <$>
                  if (land t3 1 != 0) = true then
                    indexL [996825010, 642813549, 513874426, 1027748829, 705979059] (Int.ofNat i_)
                  else pure 0) 5 (fun i hi c => inner_step _ c i hi) (((s.2 &&& 33554431) <<< 5) ^^^ a)
      rw [show Int.toNat ((5 : Nat) : Int) = 5 from rfl, this]
      rfl) (0, 1)
  rw [show ((0 : Int), (1 : Int)) = (fun (p : Nat × Nat) => ((p.1 : Int), (p.2 : Int))) (0, 1) from rfl, key]
  simp only [map_ok]
  congr 2
  rw [foldl_snd _ pmStep (fun _ _ _ => rfl)]
  rfl


theorem gen_hrp_expand (hrp : List Char) :
    Gen.bech32_hrp_expand hrp = .ok ((hrpExpand hrp).map Int.ofNat) := by
  unfold Gen.bech32_hrp_expand
  rw [mapM_ok _ (fun x => ((x.toNat >>> 5 : Nat) : Int)) hrp (by
        intro a _
        show (do let t1 ← Py.shr ((a.toNat : Nat) : Int) ((5 : Nat) : Int); pure t1) = _
        rw [shr_natCast]),
      ok_bind,
      mapM_ok _ (fun x => ((x.toNat &&& 31 : Nat) : Int)) hrp (by
        intro a _
        show (pure (Py.land ((a.toNat : Nat) : Int) ((31 : Nat) : Int)) : Except PyErr Int) = _
        rw [land_natCast]; rfl),
      ok_bind]
  simp [hrpExpand, pure, Except.pure, Function.comp_def]

theorem gen_verify_checksum (hrp : List Char) (data : List Nat) :
    Gen.bech32_verify_checksum hrp (data.map Int.ofNat) =
      .ok ((verifyChecksum specConsts hrp data).map (fun e => match e with | .bech32 => (1 : Int) | .bech32m => 2)) := by
  unfold Gen.bech32_verify_checksum
  rw [gen_hrp_expand, ok_bind, ← List.map_append, gen_polymod, ok_bind]
  unfold verifyChecksum
  simp only
  by_cases h1 : polymod specConsts (hrpExpand hrp ++ data) = 1
  · rw [h1]; rfl
  · by_cases h2 : polymod specConsts (hrpExpand hrp ++ data) = specConsts.m
    · rw [h2]; rfl
    · rw [if_neg h1, if_neg h2]
      have e1 : ((((polymod specConsts (hrpExpand hrp ++ data) : Nat) : Int) == (1 : Int)) = true) = False := by
        simp only [eq_iff_iff, iff_false]
        exact fun hh => h1 ((eq_natCast _ 1).1 hh)
      have e2 : ((((polymod specConsts (hrpExpand hrp ++ data) : Nat) : Int) == (734539939 : Int)) = true) = False := by
        simp only [eq_iff_iff, iff_false]
        exact fun hh => h2 ((eq_natCast _ 734539939).1 hh)
      simp only [e1, e2, if_false]
      rfl


theorem gen_create_checksum (hrp : List Char) (data : List Nat) (spec : Enc) :
    Gen.bech32_create_checksum hrp (data.map Int.ofNat) (match spec with | .bech32 => (1 : Int) | .bech32m => 2) =
      .ok ((createChecksum specConsts hrp data spec).map Int.ofNat) := by
  unfold Gen.bech32_create_checksum
  rw [gen_hrp_expand, ok_bind]
  have e0 : ([(0 : Int), 0, 0, 0, 0, 0]) = ([0, 0, 0, 0, 0, 0] : List Nat).map Int.ofNat := rfl
  rw [← List.map_append, e0]
  simp only []
  rw [← List.map_append, gen_polymod, ok_bind]
  have ec : (if ((match spec with | .bech32 => (1 : Int) | .bech32m => 2) == (2 : Int)) = true then (734539939 : Int) else 1)
      = (((if spec = .bech32m then specConsts.m else 1 : Nat)) : Int) := by
    cases spec <;> rfl
  rw [ec, lxor_ofNat, show Py.range (6 : Int) = (List.range 6).map Int.ofNat from range_ofNat 6, List.mapM_map]
  rw [mapM_ok _ (fun i => (((polymod specConsts (hrpExpand hrp ++ data ++ [0, 0, 0, 0, 0, 0]) ^^^
        (if spec = .bech32m then specConsts.m else 1)) >>> (5 * (5 - i)) &&& 31 : Nat) : Int)) (List.range 6) (by
      intro i hi
      have hi' : i < 6 := List.mem_range.mp hi
      have e5 : ((5 : Int) * ((5 : Int) - Int.ofNat i)) = ((5 * (5 - i) : Nat) : Int) := by
        show ((5 : Int) * ((5 : Int) - (i : Int))) = _
        omega
      simp only [Function.comp]
      rw [e5, shr_natCast, ok_bind]
      show (pure (Py.land _ ((31 : Nat) : Int)) : Except PyErr Int) = _
      rw [land_natCast]; rfl)]
  simp [createChecksum, Function.comp_def]


/-! ### convertbits -/

/-- the inner `while bits >= tobits` of the model as `whileFuel` -/
theorem emit_eq_whileFuel (acc maxv tobits : Nat) (fuel bits : Nat) (ret : List Nat) :
    convertbits.emit tobits maxv acc fuel bits ret =
      whileFuel (fun (s : Nat × List Nat) => decide (s.1 ≥ tobits))
        (fun s => (s.1 - tobits, s.2 ++ [(acc >>> (s.1 - tobits)) &&& maxv])) fuel (bits, ret) := by
  induction fuel generalizing bits ret with
  | zero => rfl
  | succ f ih =>
    rw [convertbits.emit, whileFuel]
    by_cases h : bits ≥ tobits
    · simp only [h, if_true, decide_true]; exact ih _ _
    · simp only [h, if_false, decide_false]; rfl


theorem whileFuel_stops {σ : Type} (cond : σ → Bool) (step : σ → σ) (measure : σ → Nat)
    (hdec : ∀ s, cond s = true → measure (step s) < measure s) (N : Nat) (s : σ) (h : measure s < N) :
    cond (whileFuel cond step N s) = false := by
  induction N generalizing s with
  | zero => omega
  | succ N ih =>
    rw [whileFuel]
    cases hc : cond s with
    | false => simp [hc]
    | true =>
      simp only [if_true]
      have := hdec s hc
      exact ih _ (by omega)

theorem foldlM_inv {α σ : Type} (g : σ → α → Option σ) (Inv : σ → Prop)
    (hstep : ∀ s a s', Inv s → g s a = some s' → Inv s') (xs : List α) (s0 s' : σ) (h0 : Inv s0)
    (h : xs.foldlM g s0 = some s') : Inv s' := by
  induction xs generalizing s0 with
  | nil => simp [List.foldlM_nil, pure] at h; exact h ▸ h0
  | cons x xs ih =>
    rw [List.foldlM_cons] at h
    cases hg : g s0 x with
    | none => rw [hg] at h; simp [bind, Option.bind] at h
    | some s1 => rw [hg] at h; exact ih s1 (hstep _ _ _ h0 hg) h

/-- one step of the model's fold, on a live state -/
def cbStep (frombits tobits : Nat) (s : Nat × Nat × List Nat) (value : Nat) : Option (Nat × Nat × List Nat) :=
  if value >>> frombits ≠ 0 then none
  else
    let acc := ((s.1 <<< frombits) ||| value) &&& ((1 <<< (frombits + tobits - 1)) - 1)
    let w := whileFuel (fun (s : Nat × List Nat) => decide (s.1 ≥ tobits))
        (fun s => (s.1 - tobits, s.2 ++ [(acc >>> (s.1 - tobits)) &&& ((1 <<< tobits) - 1)]))
        (s.2.1 + frombits + 1) (s.2.1 + frombits, s.2.2)
    some (acc, w.1, w.2)

abbrev St := Option (Option (List Int)) × Int × Int × List Int
def enc (s : Nat × Nat × List Nat) : St := (none, (s.1 : Int), (s.2.1 : Int), s.2.2.map Int.ofNat)

theorem pow_cast_sub_one (k : Nat) : (((1 <<< k : Nat) : Int) - 1) = (((1 <<< k) - 1 : Nat) : Int) := by
  have : 1 ≤ 1 <<< k := by rw [Nat.one_shiftLeft]; exact Nat.one_le_two_pow
  omega

/-- the body of the outer loop of the generated `convertbits` (with `maxv`, `max_acc` already evaluated) -/
def cbF (frombits tobits : Nat) : Int → St → Except PyErr (ForInStep St) :=
      fun (value : Int) (__s : St) =>
          have __s := __s.snd;
          have acc := __s.fst;
          have __s := __s.snd;
          have bits := __s.fst;
          have ret := __s.snd;
          do
          let t4 ←
            (if decide (value < 0) = true then pure true
              else (do
                let t3 ← shr value ↑frombits
                pure (t3 != 0)))
          if t4 = true then pure (ForInStep.done (some none, acc, bits, ret))
            else do
              let t5 ← shl acc ↑frombits
              have acc : Int := land (lor t5 value) ((((1 <<< (frombits + tobits - 1)) - 1 : Nat) : Int))
              have bits : Int := bits + ↑frombits
              have bound6 : Nat := bits.toNat + 1
              let __s ←
                forIn [:bound6 + 1] (bits, ret) fun fuel_ __s =>
                    have bits := __s.fst;
                    have ret := __s.snd;
                    if (!decide (bits ≥ ↑tobits)) = true then pure (ForInStep.done (bits, ret))
                    else
                      have __do_jp := fun (__r : Unit) =>
                        have bits := bits - ↑tobits;
                        do
                        let t7 ← shr acc bits
                        have ret : List Int := ret ++ [land t7 ((((1 <<< tobits) - 1 : Nat) : Int))]
                        pure (ForInStep.yield (bits, ret));
                      if (fuel_ == bound6) = true then do
                        let __r ← throw PyErr.fellThrough
                        __do_jp __r
                      else __do_jp ()
              have bits : Int := __s.fst
              have ret : List Int := __s.snd
              pure (ForInStep.yield (none, acc, bits, ret))

theorem cb_body (frombits tobits : Nat) (htb : 0 < tobits) (a : Nat) (s : Nat × Nat × List Nat) :
    (∀ s', cbStep frombits tobits s a = some s' →
      cbF frombits tobits (Int.ofNat a) (enc s) = Except.ok (ForInStep.yield (enc s'))) ∧
    (cbStep frombits tobits s a = none →
      ∃ b, cbF frombits tobits (Int.ofNat a) (enc s) = Except.ok (ForInStep.done b) ∧ b.1 = some none) := by
  unfold cbStep cbF
  by_cases hv : a >>> frombits ≠ 0
  · rw [if_pos hv]
    refine ⟨fun s' h => (by cases h), fun _ => ?_⟩
    obtain ⟨acc0, bits0, ret0⟩ := s
    simp only [enc]
    have hneg : decide ((Int.ofNat a) < 0) = false := by simp
    rw [hneg]
    simp only [Bool.false_eq_true, if_false]
    rw [show Int.ofNat a = (a : Int) from rfl, shr_natCast, ok_bind]
    have hz : (((a >>> frombits : Nat) : Int) != 0) = true := by
      simp only [bne_iff_ne, ne_eq]; omega
    simp only [pure, Except.pure, ok_bind, hz, if_true]
    exact ⟨_, rfl, rfl⟩
  rw [if_neg hv]
  refine ⟨fun s' h => ?_, fun h => (by cases h)⟩
  simp only [Option.some.injEq] at h
  subst h
  obtain ⟨acc0, bits0, ret0⟩ := s
  simp only [enc]
  have hneg : decide ((Int.ofNat a) < 0) = false := by simp
  rw [hneg]
  simp only [Bool.false_eq_true, if_false]
  rw [show Int.ofNat a = (a : Int) from rfl, shr_natCast, ok_bind]
  have hz : (((a >>> frombits : Nat) : Int) != 0) = false := by
    have : a >>> frombits = 0 := Classical.not_not.mp hv
    rw [this]; rfl
  simp only [pure, Except.pure, ok_bind, hz, Bool.false_eq_true, if_false]
  rw [shl_natCast_shift, ok_bind, lor_natCast, land_natCast]
  have hb : ((bits0 : Int) + (frombits : Int)) = ((bits0 + frombits : Nat) : Int) := by omega
  simp only [hb, Int.toNat_natCast]
  -- the inner bounded while
  have hin := forIn_range_while
    (fun (s : Nat × List Nat) => (((s.1 : Nat) : Int), s.2.map Int.ofNat))
    (fun (s : Nat × List Nat) => decide (s.1 ≥ tobits))
    (fun s => (s.1 - tobits, s.2 ++ [((((acc0 <<< frombits) ||| a) &&& ((1 <<< (frombits + tobits - 1)) - 1)) >>> (s.1 - tobits)) &&& ((1 <<< tobits) - 1)]))
    (fun fuel_ (__s : Int × List Int) =>
            if (!decide (__s.fst ≥ ↑tobits)) = true then Except.ok (ForInStep.done (__s.fst, __s.snd))
            else
              if (fuel_ == bits0 + frombits + 1) = true then do
                throw PyErr.fellThrough
                let t7 ← shr (↑((acc0 <<< frombits ||| a) &&& 1 <<< (frombits + tobits - 1) - 1)) (__s.fst - ↑tobits)
                Except.ok (ForInStep.yield (__s.fst - ↑tobits, __s.snd ++ [land t7 ↑(1 <<< tobits - 1)]))
              else do
                let t7 ← shr (↑((acc0 <<< frombits ||| a) &&& 1 <<< (frombits + tobits - 1) - 1)) (__s.fst - ↑tobits)
                Except.ok (ForInStep.yield (__s.fst - ↑tobits, __s.snd ++ [land t7 ↑(1 <<< tobits - 1)])))
    (bits0 + frombits + 1) (fun s => s.1)
    (by
      intro i s hc
      have : ¬ (s.1 ≥ tobits) := by simpa using hc
      have h2 : decide (((s.1 : Nat) : Int) ≥ (tobits : Int)) = false := by
        simp only [decide_eq_false_iff_not]; omega
      simp only [h2, Bool.not_false, if_true])
    (by
      intro i s hi hc
      have h1 : s.1 ≥ tobits := by simpa using hc
      have h2 : decide (((s.1 : Nat) : Int) ≥ (tobits : Int)) = true := by
        simp only [decide_eq_true_eq]; omega
      have h3 : (i == bits0 + frombits + 1) = false := by
        simp only [beq_eq_false_iff_ne]; omega
      simp only [h2, Bool.not_true, Bool.false_eq_true, if_false, h3]
      have h4 : ((s.1 : Int) - (tobits : Int)) = ((s.1 - tobits : Nat) : Int) := by omega
      rw [h4, shr_natCast, ok_bind, land_natCast]
      simp)
    (by
      intro s hc
      have h1 : s.1 ≥ tobits := by simpa using hc
      show s.1 - tobits < s.1
      omega)
    (bits0 + frombits, ret0) (by show bits0 + frombits < bits0 + frombits + 1; omega)
  simp only at hin
  rw [hin, ok_bind]


/-- the model's fold is `foldlM cbStep` -/
theorem model_fold (data : List Nat) (frombits tobits : Nat) (pad : Bool) :
    convertbits data frombits tobits pad =
      match data.foldlM (cbStep frombits tobits) (0, 0, []) with
      | none => none
      | some (acc, bits, ret) =>
        if pad then
          if bits ≠ 0 then some (ret ++ [(acc <<< (tobits - bits)) &&& ((1 <<< tobits) - 1)]) else some ret
        else if bits ≥ frombits ∨ ((acc <<< (tobits - bits)) &&& ((1 <<< tobits) - 1)) ≠ 0 then none
        else some ret := by
  unfold convertbits
  simp only
  rw [foldl_absorbing _ (cbStep frombits tobits) _ (fun a => rfl)]
  · rfl
  intro s a
  obtain ⟨acc, bits, ret⟩ := s
  simp only [cbStep]
  rw [emit_eq_whileFuel]

/-- after every step fewer than `tobits` bits are pending -/
theorem cbStep_inv (frombits tobits : Nat) (htb : 0 < tobits) (s : Nat × Nat × List Nat) (a : Nat)
    (s' : Nat × Nat × List Nat) (h : cbStep frombits tobits s a = some s') : s'.2.1 < tobits := by
  unfold cbStep at h
  split at h
  · cases h
  · simp only [Option.some.injEq] at h
    subst h
    have := whileFuel_stops (fun (s : Nat × List Nat) => decide (s.1 ≥ tobits))
      (fun s' => (s'.1 - tobits, s'.2 ++ [((((s.1 <<< frombits) ||| a) &&& ((1 <<< (frombits + tobits - 1)) - 1)) >>> (s'.1 - tobits)) &&& ((1 <<< tobits) - 1)]))
      (fun s => s.1)
      (by intro s hc; have h1 : s.1 ≥ tobits := by simpa using hc
          show s.1 - tobits < s.1; omega)
      (s.2.1 + frombits + 1) (s.2.1 + frombits, s.2.2) (by show s.2.1 + frombits < _; omega)
    simpa using this

theorem gen_convertbits (data : List Nat) (frombits tobits : Nat) (pad : Bool) (htb : 0 < tobits) :
    Gen.convertbits (data.map Int.ofNat) (frombits : Int) (tobits : Int) pad =
      .ok ((convertbits data frombits tobits pad).map (fun l => l.map Int.ofNat)) := by
  unfold Gen.convertbits
  simp only []
  rw [show (1 : Int) = ((1 : Nat) : Int) from rfl, shl_natCast_shift, ok_bind]
  have e1 : ((frombits : Int) + (tobits : Int) - ((1 : Nat) : Int)) = ((frombits + tobits - 1 : Nat) : Int) := by omega
  rw [e1, shl_natCast_shift, ok_bind, pow_cast_sub_one, pow_cast_sub_one]
  obtain ⟨b, hb, hm1, hm2⟩ := forIn_map_exit Int.ofNat enc (fun (b : St) => b.1 = some none) (cbStep frombits tobits)
    (cbF frombits tobits) data (fun a _ s => (cb_body frombits tobits htb a s).1)
    (fun a _ s => (cb_body frombits tobits htb a s).2) (0, 0, [])
  conv => lhs; arg 1; arg 3; change cbF frombits tobits
  conv => lhs; arg 1; arg 2; change enc (0, 0, [])
  rw [hb, ok_bind, model_fold]
  cases hf : data.foldlM (cbStep frombits tobits) (0, 0, []) with
  | none =>
    simp only [hm2 hf]
    rfl
  | some s' =>
    have hinv : s'.2.1 < tobits :=
      foldlM_inv (cbStep frombits tobits) (fun s => s.2.1 < tobits)
        (fun s a s' _ h => cbStep_inv frombits tobits htb s a s' h) data (0, 0, []) s' htb hf
    obtain ⟨acc, bits, ret⟩ := s'
    have hbb : b = (none, (acc : Int), (bits : Int), ret.map Int.ofNat) := hm1 _ hf
    subst hbb
    simp only []
    have hinv' : bits < tobits := hinv
    have hsub : ((tobits : Int) - (bits : Int)) = ((tobits - bits : Nat) : Int) := by omega
    rw [hsub, shl_natCast_shift]
    simp only [ok_bind, land_natCast, pure, Except.pure]
    cases pad with
    | true =>
      simp only [if_true]
      by_cases hb0 : bits = 0
      · subst hb0; simp
      · have : (((bits : Int) != 0) = true) := by simp [hb0]
        simp [this, hb0]
    | false =>
      simp only [Bool.false_eq_true, if_false]
      by_cases hge : bits ≥ frombits
      · have : decide ((bits : Int) ≥ (frombits : Int)) = true := by simp only [decide_eq_true_eq]; omega
        simp [hge, ok_bind]
      · have : decide ((bits : Int) ≥ (frombits : Int)) = false := by simp only [decide_eq_false_iff_not]; omega
        simp only [this, Bool.false_eq_true, if_false, ok_bind]
        by_cases hnz : (acc <<< (tobits - bits)) &&& ((1 <<< tobits) - 1) = 0
        · simp [hnz, hge]
        · have h2 : ((((acc <<< (tobits - bits)) &&& ((1 <<< tobits) - 1) : Nat) : Int) != 0) = true := by
            simp only [bne_iff_ne, ne_eq]; omega
          simp [h2, hnz]

end GenBech32
