import BU.Py
import BU.Model.Digest
import BU.Model.Order
import BU.Properties.C03
import BU.Properties.C04
import BU.Properties.C05
/-! Proofs for the order-independence part of C13 (pure model `Model.Order`). -/
namespace OrderLemmas
open Py Spec Model Model.Order

/-! ## digests only depend on the skeleton -/

theorem digests_depend_on_skeleton (sha256 : Bytes → Bytes) (T : Tables) (t t' : Tx) (hsk : skeleton t = skeleton t')
    (i : Nat) (code : List Tok) (ht : Nat) (amount : Int) (spks : List (List Tok)) (amounts : List Int) (ext : Nat) (leaf : List Tok) :
    legacyDigest sha256 T t i code ht = legacyDigest sha256 T t' i code ht ∧
    segwitDigest sha256 T t i code amount ht = segwitDigest sha256 T t' i code amount ht ∧
    taprootDigest sha256 T t i spks amounts ext leaf ht = taprootDigest sha256 T t' i spks amounts ext leaf ht := by
  unfold skeleton at hsk
  simp only [Prod.mk.injEq] at hsk
  obtain ⟨hv, hl, ho, hi⟩ := hsk
  exact ⟨C03.legacy_ignores_scriptsigs sha256 T t' t i code ht hv hl ho hi,
    C04.ignores_scriptsigs_witnesses sha256 T t' t i code amount ht hv hl ho hi,
    C05.ignores_scriptsigs_witnesses sha256 T t' t i spks amounts ext leaf ht hv hl ho hi⟩

/-! ## applying an op keeps the skeleton -/

theorem map_mapIdx_of_inv {α β γ : Type} (g : β → γ) (g' : α → γ) (f : Nat → α → β) (l : List α)
    (h : ∀ k x, g (f k x) = g' x) : (l.mapIdx f).map g = l.map g' := by
  apply List.ext_getElem
  · simp only [List.length_map, List.length_mapIdx]
  · intro n h1 h2
    simp only [List.getElem_map, List.getElem_mapIdx, h]

theorem skeleton_apply (o : Op) (t : Tx) : skeleton (o.apply t) = skeleton t := by
  unfold Op.apply skeleton
  split
  · rfl
  · simp only [Prod.mk.injEq, true_and]
    apply map_mapIdx_of_inv
    intro k x
    split <;> rfl

/-! ## ops on different slots commute -/

theorem apply_comm (a b : Op) (ha : a.SkeletonOnly) (hb : b.SkeletonOnly)
    (hne : (a.slot, a.isWitness) ≠ (b.slot, b.isWitness)) (t : Tx) :
    a.apply (b.apply t) = b.apply (a.apply t) := by
  have ea := ha (b.apply t) t (skeleton_apply b t)
  have eb := hb (a.apply t) t (skeleton_apply a t)
  obtain ⟨ea1, ea2⟩ := ea
  obtain ⟨eb1, eb2⟩ := eb
  unfold Op.apply at ea1 ea2 eb1 eb2 ⊢
  by_cases hwa : a.isWitness = true <;> by_cases hwb : b.isWitness = true
  · -- both witness
    simp only [hwa, hwb, if_true] at ea2 eb2 ⊢
    have hslot : b.slot ≠ a.slot := by
      intro h; apply hne; rw [h, hwa, hwb]
    rw [ea2, eb2, List.set_comm _ _ hslot]
  · simp only [hwa, hwb, if_true, if_false, Bool.false_eq_true] at ea2 eb1 ⊢
    rw [ea2, eb1]
  · simp only [hwa, hwb, if_true, if_false, Bool.false_eq_true] at ea1 eb2 ⊢
    rw [ea1, eb2]
  · simp only [hwa, hwb, if_false, Bool.false_eq_true] at ea1 eb1 ⊢
    have hslot : a.slot ≠ b.slot := by
      intro h; apply hne
      have h1 : a.isWitness = false := by simpa using hwa
      have h2 : b.isWitness = false := by simpa using hwb
      rw [h, h1, h2]
    rw [ea1, eb1]
    simp only [List.mapIdx_mapIdx]
    congr 1
    apply List.mapIdx_eq_mapIdx_iff.mpr
    intro k hk
    simp only [Function.comp]
    by_cases h1 : k = a.slot <;> by_cases h2 : k = b.slot
    · exact absurd (h1.symm.trans h2) hslot
    · simp only [h1, hslot, if_true, if_false]
    · simp only [h2, Ne.symm hslot, if_true, if_false]
    · simp only [h1, h2, if_false]

/-! ## any permutation -/

theorem run_cons (o : Op) (ops : List Op) (t : Tx) : run (o :: ops) t = run ops (o.apply t) := by
  unfold run; rw [List.foldl_cons]

theorem order_independent (ops ops' : List Op) (hp : ops.Perm ops') (hs : ∀ o ∈ ops, o.SkeletonOnly)
    (hd : ops.Pairwise fun a b => (a.slot, a.isWitness) ≠ (b.slot, b.isWitness)) (t : Tx) :
    run ops t = run ops' t := by
  induction hp generalizing t with
  | nil => rfl
  | cons x _ ih =>
    rw [run_cons, run_cons]
    exact ih (fun o ho => hs o (List.mem_cons_of_mem _ ho)) (List.pairwise_cons.mp hd).2 _
  | swap x y l =>
    rw [run_cons, run_cons, run_cons, run_cons]
    have hxy := (List.pairwise_cons.mp hd).1 x (List.mem_cons_self ..)
    rw [apply_comm x y (hs x (by simp)) (hs y (by simp)) (Ne.symm hxy)]
  | trans p₁ _ ih₁ ih₂ =>
    rw [ih₁ hs hd t]
    apply ih₂
    · intro o ho; exact hs o (p₁.mem_iff.mpr ho)
    · exact (p₁.pairwise_iff (fun h => Ne.symm h)).mp hd
