import BU.Crypto.Secp256k1
/-! Kernel-evaluated facts about the executable secp256k1 arithmetic (Mathlib-free, `decide +kernel`):
`n·G = 0`, and `-7` is not a cube modulo `p` (Euler's criterion), i.e. the curve has no point with `y = 0`.
Used by `BU/Proofs/CurveLawsProof.lean`. -/
namespace CurveLawsProof
open Secp

/-- `n·G` is the point at infinity (256 doublings + 199 additions, each with a 256-step `powMod`). -/
theorem mul_G_n : mul G n = none := by decide +kernel

/-- `(-7)^((p-1)/3) ≠ 1 (mod p)`: `-7` is not a cube modulo `p`. -/
theorem neg7_not_cube : powMod (p - 7) ((p - 1) / 3) p ≠ 1 := by decide +kernel

theorem onCurve_G : onCurve G = true := by decide +kernel

end CurveLawsProof
