import BU.Py
import BU.Model.Address
import BU.Model.Bech32
/-! Small helper lemmas for C11 (segwit addresses): byte/Nat list conversions, and consequences of a
successful `Bech32.decode` (non-empty string, `bech32Decode` succeeded). -/
namespace SegwitLemmas
open Py Model Model.Bech32

theorem map_ofNat_toNat (prog : Bytes) : (prog.map (·.toNat)).map UInt8.ofNat = prog := by
  rw [List.map_map]
  conv => rhs; rw [← List.map_id prog]
  apply List.map_congr_left
  intro b _
  simp

theorem bech32Decode_nil (c : Consts) : bech32Decode c [] = none := by
  simp [bech32Decode, rfind1]

theorem decode_nil (c : Consts) (hrp : List Char) : decode c hrp [] = none := by
  unfold decode
  rw [bech32Decode_nil]

theorem isEmpty_false_of_decode (c : Consts) (hrp : List Char) (s : String) (r)
    (h : decode c hrp s.toList = some r) : s.isEmpty = false := by
  cases hE : s.isEmpty with
  | false => rfl
  | true =>
    rw [String.isEmpty_iff] at hE
    subst hE
    rw [show "".toList = [] from rfl, decode_nil] at h
    cases h

theorem isSome_of_decode (c : Consts) (hrp l : List Char) (r)
    (h : decode c hrp l = some r) : (bech32Decode c l).isSome = true := by
  unfold decode at h
  split at h
  · cases h
  · rename_i hbd
    rw [hbd]; rfl

end SegwitLemmas
