import BU.Gen.Codec
import BU.Model.Block
import BU.Proofs.LoopLemmas
import BU.Properties.C17
/-! Proof for `BU/Properties/C15_Gen.lean`: the *generated* `get_transaction_length` (four `for` loops, one nested, re-translated
from /repo on every run) and the hand model `Model.txLength` succeed on the same byte strings with the same length.  Both
sides are brought to one Option-level program (`tailO`); loops through `Loop.forIn_range_opt`, the CompactSize reader through
the tier-T theorem `C17.parse_compact_size_eq_spec`.  Mathlib-free. -/
namespace GenTxLen
open Model Py Loop Spec

/-- `data[off:]` for an int offset (the translated slice has an explicit huge upper bound) -/
theorem slice_from (data : Bytes) (hlen : data.length < 2 ^ 63) (off : Nat) :
    slice data (off : Int) slEnd = data.drop off := by
  unfold slice slEnd
  rw [Int.toNat_natCast]
  apply List.take_of_length_le
  rw [List.length_drop]
  have : (0x7fffffffffffffff : Int).toNat = 2 ^ 63 - 1 := by decide
  rw [this]
  omega

/-- CompactSize at an offset: (value, bytes consumed) -/
def cs (data : Bytes) (off : Nat) : Option (Nat × Nat) := decodeCompactSize (data.drop off)

theorem pcs (data : Bytes) (hlen : data.length < 2 ^ 63) (off : Nat) :
    (Gen.parse_compact_size (slice data (off : Int) slEnd)).toOption =
      (cs data off).map (fun p => ((p.1 : Int), (p.2 : Int))) := by
  rw [slice_from data hlen, cs, ← C17.parse_compact_size_eq_spec]
  cases Gen.parse_compact_size (data.drop off) with
  | error e => rfl
  | ok v => rfl

theorem skipCS_opt (data : Bytes) (off : Nat) :
    (skipCS data off).toOption = (cs data off).map (fun p => (p.1, off + p.2)) := by
  unfold skipCS cs
  cases decodeCompactSize (data.drop off) with
  | none => rfl
  | some p => rfl

/-! ### the four loops as partial steps on (size, length, offset) -/

def gIn (data : Bytes) (s : Nat × Nat × Nat) : Option (Nat × Nat × Nat) :=
  (cs data (s.2.2 + 36)).map (fun p => (p.2, p.1, s.2.2 + 36 + p.2 + (p.1 + 4)))
def gOut (data : Bytes) (s : Nat × Nat × Nat) : Option (Nat × Nat × Nat) :=
  (cs data (s.2.2 + 8)).map (fun p => (p.2, p.1, s.2.2 + 8 + p.2 + p.1))
def gItem (data : Bytes) (s : Nat × Nat × Nat) : Option (Nat × Nat × Nat) :=
  (cs data s.2.2).map (fun p => (p.2, p.1, s.2.2 + (p.2 + p.1)))
def gStack (data : Bytes) (s : Nat × Nat × Nat × Nat) : Option (Nat × Nat × Nat × Nat) :=
  (cs data s.2.2.2).bind (fun p =>
    (iterOpt (gItem data) p.1 (p.2, s.2.2.1, s.2.2.2 + p.2)).map (fun t => (t.1, p.1, t.2.1, t.2.2)))

theorem scanInputs_opt (data : Bytes) (n : Nat) (s : Nat × Nat × Nat) :
    (scanInputs data n s.2.2).toOption = (iterOpt (gIn data) n s).map (·.2.2) := by
  induction n generalizing s with
  | zero => rfl
  | succ n ih =>
    rw [scanInputs, iterOpt, toOption_bind, skipCS_opt, gIn]
    cases cs data (s.2.2 + 36) with
    | none => rfl
    | some p =>
      simp only [Option.map_some, Option.bind_some]
      have := ih (p.2, p.1, s.2.2 + 36 + p.2 + (p.1 + 4))
      simp only at this
      rw [← this]
      congr 2

theorem scanOutputs_opt (data : Bytes) (n : Nat) (s : Nat × Nat × Nat) :
    (scanOutputs data n s.2.2).toOption = (iterOpt (gOut data) n s).map (·.2.2) := by
  induction n generalizing s with
  | zero => rfl
  | succ n ih =>
    rw [scanOutputs, iterOpt, toOption_bind, skipCS_opt, gOut]
    cases cs data (s.2.2 + 8) with
    | none => rfl
    | some p =>
      simp only [Option.map_some, Option.bind_some]
      have := ih (p.2, p.1, s.2.2 + 8 + p.2 + p.1)
      simp only at this
      rw [← this]

theorem scanItems_opt (data : Bytes) (n : Nat) (s : Nat × Nat × Nat) :
    (scanItems data n s.2.2).toOption = (iterOpt (gItem data) n s).map (·.2.2) := by
  induction n generalizing s with
  | zero => rfl
  | succ n ih =>
    rw [scanItems, iterOpt, toOption_bind, skipCS_opt, gItem]
    cases cs data s.2.2 with
    | none => rfl
    | some p =>
      simp only [Option.map_some, Option.bind_some]
      have := ih (p.2, p.1, s.2.2 + (p.2 + p.1))
      simp only at this
      rw [← this]
      congr 2
      omega

theorem scanStacks_opt (data : Bytes) (n : Nat) (s : Nat × Nat × Nat × Nat) :
    (scanStacks data n s.2.2.2).toOption = (iterOpt (gStack data) n s).map (·.2.2.2) := by
  induction n generalizing s with
  | zero => rfl
  | succ n ih =>
    rw [scanStacks, iterOpt, toOption_bind, skipCS_opt, gStack]
    cases cs data s.2.2.2 with
    | none => rfl
    | some p =>
      simp only [Option.map_some, Option.bind_some]
      rw [toOption_bind]
      have hi := scanItems_opt data p.1 (p.2, s.2.2.1, s.2.2.2 + p.2)
      simp only at hi
      rw [hi]
      cases iterOpt (gItem data) p.1 (p.2, s.2.2.1, s.2.2.2 + p.2) with
      | none => rfl
      | some t =>
        simp only [Option.map_some, Option.bind_some]
        have := ih (t.1, p.1, t.2.1, t.2.2)
        simp only at this
        exact this

abbrev enc3 (s : Nat × Nat × Nat) : Int × Int × Int := ((s.1 : Int), (s.2.1 : Int), (s.2.2 : Int))
abbrev enc4 (s : Nat × Nat × Nat × Nat) : Int × Int × Int × Int := ((s.1 : Int), (s.2.1 : Int), (s.2.2.1 : Int), (s.2.2.2 : Int))

/-- everything after the marker test, at the Option level -/
def tailO (data : Bytes) (off : Nat) (seg : Bool) : Option Nat :=
  (cs data off).bind fun p =>
  (iterOpt (gIn data) p.1 (p.2, 0, off + p.2)).bind fun s1 =>
  (cs data s1.2.2).bind fun q =>
  (iterOpt (gOut data) q.1 (q.2, s1.2.1, s1.2.2 + q.2)).bind fun s2 =>
  if seg then (iterOpt (gStack data) p.1 (s2.1, 0, 0, s2.2.2)).map (fun s3 => s3.2.2.2 + 4)
  else some (s2.2.2 + 4)

theorem loopIn (data : Bytes) (hlen : data.length < 2 ^ 63) (k : Nat) (s0 : Nat × Nat × Nat) :
    (forIn [:k] (enc3 s0) fun (__ : Nat) (__s : Int × Int × Int) => do
        let t4 ← Gen.parse_compact_size (slice data (__s.snd.snd + 36) slEnd)
        pure (ForInStep.yield (t4.snd, t4.fst, __s.snd.snd + 36 + t4.snd + (t4.fst + 4)))).toOption =
      (iterOpt (gIn data) k s0).map enc3 := by
  apply forIn_range_opt enc3 (gIn data)
  intro i s
  have e : ((s.2.2 : Int) + 36) = ((s.2.2 + 36 : Nat) : Int) := by omega
  simp only [enc3]
  rw [toOption_bind, e, pcs data hlen, gIn]
  cases cs data (s.2.2 + 36) with
  | none => rfl
  | some p =>
    simp only [Option.map_some, Option.bind_some, toOption_pure]
    congr 3

theorem loopOut (data : Bytes) (hlen : data.length < 2 ^ 63) (k : Nat) (s0 : Nat × Nat × Nat) :
    (forIn [:k] (enc3 s0) fun (__ : Nat) (__s : Int × Int × Int) => do
        let t6 ← Gen.parse_compact_size (slice data (__s.snd.snd + 8) slEnd)
        pure (ForInStep.yield (t6.snd, t6.fst, __s.snd.snd + 8 + t6.snd + t6.fst))).toOption =
      (iterOpt (gOut data) k s0).map enc3 := by
  apply forIn_range_opt enc3 (gOut data)
  intro i s
  have e : ((s.2.2 : Int) + 8) = ((s.2.2 + 8 : Nat) : Int) := by omega
  simp only [enc3]
  rw [toOption_bind, e, pcs data hlen, gOut]
  cases cs data (s.2.2 + 8) with
  | none => rfl
  | some p =>
    simp only [Option.map_some, Option.bind_some, toOption_pure]
    congr 3

theorem loopItem (data : Bytes) (hlen : data.length < 2 ^ 63) (k : Nat) (s0 : Nat × Nat × Nat) :
    (forIn [:k] (enc3 s0) fun (___ : Nat) (__s : Int × Int × Int) => do
        let t8 ← Gen.parse_compact_size (slice data __s.snd.snd slEnd)
        pure (ForInStep.yield (t8.snd, t8.fst, __s.snd.snd + (t8.snd + t8.fst)))).toOption =
      (iterOpt (gItem data) k s0).map enc3 := by
  apply forIn_range_opt enc3 (gItem data)
  intro i s
  simp only [enc3]
  rw [toOption_bind, pcs data hlen, gItem]
  cases cs data s.2.2 with
  | none => rfl
  | some p =>
    simp only [Option.map_some, Option.bind_some, toOption_pure]
    congr 3

theorem loopStack (data : Bytes) (hlen : data.length < 2 ^ 63) (k : Nat) (s0 : Nat × Nat × Nat × Nat) :
    (forIn [:k] (enc4 s0) fun (__ : Nat) (__s : Int × Int × Int × Int) => do
        let t7 ← Gen.parse_compact_size (slice data __s.snd.snd.snd slEnd)
        let __s ←
          forIn [:t7.fst.toNat] (t7.snd, __s.snd.snd.fst, __s.snd.snd.snd + t7.snd) fun (___ : Nat) (__s : Int × Int × Int) => do
              let t8 ← Gen.parse_compact_size (slice data __s.snd.snd slEnd)
              pure (ForInStep.yield (t8.snd, t8.fst, __s.snd.snd + (t8.snd + t8.fst)))
        pure (ForInStep.yield (__s.fst, t7.fst, __s.snd.fst, __s.snd.snd))).toOption =
      (iterOpt (gStack data) k s0).map enc4 := by
  apply forIn_range_opt enc4 (gStack data)
  intro i s
  simp only [enc4]
  rw [toOption_bind, pcs data hlen, gStack]
  cases cs data s.2.2.2 with
  | none => rfl
  | some p =>
    simp only [Option.map_some, Option.bind_some, Int.toNat_natCast]
    rw [toOption_bind]
    have e : ((s.2.2.2 : Int) + (p.2 : Int)) = ((s.2.2.2 + p.2 : Nat) : Int) := by omega
    rw [e]
    have := loopItem data hlen p.1 (p.2, s.2.2.1, s.2.2.2 + p.2)
    simp only [enc3] at this
    rw [this]
    cases iterOpt (gItem data) p.1 (p.2, s.2.2.1, s.2.2.2 + p.2) with
    | none => rfl
    | some t => rfl

theorem tail_lemma (data : Bytes) (hlen : data.length < 2 ^ 63) (off : Nat) (seg : Bool) :
    (do
      let t3 ← Gen.parse_compact_size (slice data (off : Int) slEnd)
      let __s ←
        forIn [:t3.fst.toNat] (t3.snd, 0, (off : Int) + t3.snd) fun (__ : Nat) (__s : Int × Int × Int) => do
            let t4 ← Gen.parse_compact_size (slice data (__s.snd.snd + 36) slEnd)
            pure (ForInStep.yield (t4.snd, t4.fst, __s.snd.snd + 36 + t4.snd + (t4.fst + 4)))
      let t5 ← Gen.parse_compact_size (slice data __s.snd.snd slEnd)
      let __s ←
        forIn [:t5.fst.toNat] (t5.snd, __s.snd.fst, __s.snd.snd + t5.snd) fun (__ : Nat) (__s : Int × Int × Int) => do
            let t6 ← Gen.parse_compact_size (slice data (__s.snd.snd + 8) slEnd)
            pure (ForInStep.yield (t6.snd, t6.fst, __s.snd.snd + 8 + t6.snd + t6.fst))
      if seg = true then do
          let __s ←
            forIn [:t3.fst.toNat] (__s.fst, 0, 0, __s.snd.snd) fun (__ : Nat) (__s : Int × Int × Int × Int) => do
                let t7 ← Gen.parse_compact_size (slice data __s.snd.snd.snd slEnd)
                let __s ←
                  forIn [:t7.fst.toNat] (t7.snd, __s.snd.snd.fst, __s.snd.snd.snd + t7.snd) fun (___ : Nat) (__s : Int × Int × Int) => do
                      let t8 ← Gen.parse_compact_size (slice data __s.snd.snd slEnd)
                      pure (ForInStep.yield (t8.snd, t8.fst, __s.snd.snd + (t8.snd + t8.fst)))
                pure (ForInStep.yield (__s.fst, t7.fst, __s.snd.fst, __s.snd.snd))
          pure (__s.snd.snd.snd + 4)
        else pure (__s.snd.snd + 4) : Except PyErr Int).toOption = (tailO data off seg).map Int.ofNat := by
  rw [toOption_bind, pcs data hlen, tailO]
  cases cs data off with
  | none => rfl
  | some p =>
    simp only [Option.map_some, Option.bind_some, Int.toNat_natCast]
    rw [toOption_bind]
    have e1 : ((off : Int) + (p.2 : Int)) = ((off + p.2 : Nat) : Int) := by omega
    rw [e1]
    have h1 := loopIn data hlen p.1 (p.2, 0, off + p.2)
    simp only [enc3] at h1
    rw [show ((0 : Int)) = ((0 : Nat) : Int) from rfl, h1]
    cases iterOpt (gIn data) p.1 (p.2, 0, off + p.2) with
    | none => rfl
    | some s1 =>
      simp only [Option.map_some, Option.bind_some]
      rw [toOption_bind, pcs data hlen]
      cases cs data s1.2.2 with
      | none => rfl
      | some q =>
        simp only [Option.map_some, Option.bind_some, Int.toNat_natCast]
        rw [toOption_bind]
        have e2 : ((s1.2.2 : Int) + (q.2 : Int)) = ((s1.2.2 + q.2 : Nat) : Int) := by omega
        rw [e2]
        have h2 := loopOut data hlen q.1 (q.2, s1.2.1, s1.2.2 + q.2)
        simp only [enc3] at h2
        rw [h2]
        cases iterOpt (gOut data) q.1 (q.2, s1.2.1, s1.2.2 + q.2) with
        | none => rfl
        | some s2 =>
          simp only [Option.map_some, Option.bind_some]
          cases seg with
          | false => rfl
          | true =>
            simp only [if_true]
            rw [toOption_bind]
            have h3 := loopStack data hlen p.1 (s2.1, 0, 0, s2.2.2)
            simp only [enc4] at h3
            rw [h3]
            cases iterOpt (gStack data) p.1 (s2.1, 0, 0, s2.2.2) with
            | none => rfl
            | some s3 => rfl

theorem beq_zero_cast (n : Nat) : ((n : Int) == 0) = (n == 0) := by cases n <;> rfl
theorem bne_zero_cast (n : Nat) : ((n : Int) != 0) = (n != 0) := by cases n <;> rfl

theorem index_opt (data : Bytes) (i : Nat) :
    (Py.index data (i : Int)).toOption = (data[i]?).map (fun x => (x.toNat : Int)) := by
  unfold Py.index
  rw [if_neg (by omega), Int.toNat_natCast]
  cases data[i]? <;> rfl

/-- the model at the Option level -/
theorem txLength_opt (data : Bytes) :
    (txLength data).toOption =
      (data[4]?).bind fun m => (data[5]?).bind fun f =>
        tailO data (if (m.toNat == 0 && f.toNat != 0) then 6 else 4) (m.toNat == 0 && f.toNat != 0) := by
  unfold txLength
  rw [toOption_bind, show (4 : Int) = ((4 : Nat) : Int) from rfl, index_opt]
  cases data[4]? with
  | none => rfl
  | some m =>
    simp only [Option.map_some, Option.bind_some]
    rw [toOption_bind, show (5 : Int) = ((5 : Nat) : Int) from rfl, index_opt]
    cases data[5]? with
    | none => rfl
    | some f =>
      simp only [Option.map_some, Option.bind_some]
      have hseg : (((m.toNat : Int) == 0) && ((f.toNat : Int) != 0)) = (m.toNat == 0 && f.toNat != 0) := by
        rw [beq_zero_cast, bne_zero_cast]
      rw [hseg]
      generalize (m.toNat == 0 && f.toNat != 0) = seg
      generalize (if seg = true then 6 else 4) = off
      rw [toOption_bind, skipCS_opt, tailO]
      cases cs data off with
      | none => rfl
      | some p =>
        simp only [Option.map_some, Option.bind_some]
        rw [toOption_bind]
        have h1 := scanInputs_opt data p.1 (p.2, 0, off + p.2)
        simp only at h1
        rw [h1]
        cases iterOpt (gIn data) p.1 (p.2, 0, off + p.2) with
        | none => rfl
        | some s1 =>
          simp only [Option.map_some, Option.bind_some]
          rw [toOption_bind, skipCS_opt]
          cases cs data s1.2.2 with
          | none => rfl
          | some q =>
            simp only [Option.map_some, Option.bind_some]
            rw [toOption_bind]
            have h2 := scanOutputs_opt data q.1 (q.2, s1.2.1, s1.2.2 + q.2)
            simp only at h2
            rw [h2]
            cases iterOpt (gOut data) q.1 (q.2, s1.2.1, s1.2.2 + q.2) with
            | none => rfl
            | some s2 =>
              simp only [Option.map_some, Option.bind_some]
              cases seg with
              | false => rfl
              | true =>
                simp only [if_true]
                rw [toOption_bind]
                have h3 := scanStacks_opt data p.1 (s2.1, 0, 0, s2.2.2)
                simp only at h3
                rw [h3]
                cases iterOpt (gStack data) p.1 (s2.1, 0, 0, s2.2.2) with
                | none => rfl
                | some s3 => rfl

theorem gen_tx_length (data : Bytes) (hlen : data.length < 2 ^ 63) :
    (Gen.get_transaction_length data).toOption = (txLength data).toOption.map Int.ofNat := by
  rw [txLength_opt]
  unfold Gen.get_transaction_length
  simp only []
  rw [toOption_bind, show ((0 : Int) + 4) = ((4 : Nat) : Int) from rfl, index_opt]
  cases data[4]? with
  | none => rfl
  | some m =>
    simp only [Option.map_some, Option.bind_some]
    rw [toOption_bind, show (((4 : Nat) : Int) + 1) = ((5 : Nat) : Int) from rfl, index_opt]
    cases data[5]? with
    | none => rfl
    | some f =>
      simp only [Option.map_some, Option.bind_some]
      have hseg : (((m.toNat : Int) == 0) && ((f.toNat : Int) != 0)) = (m.toNat == 0 && f.toNat != 0) := by
        rw [beq_zero_cast, bne_zero_cast]
      rw [hseg]
      cases hs : (m.toNat == 0 && f.toNat != 0) with
      | true =>
        simp only [if_true]
        have := tail_lemma data hlen 6 true
        rw [show (((4 : Nat) : Int) + 2) = ((6 : Nat) : Int) from rfl]
        exact this
      | false =>
        simp only [Bool.false_eq_true, if_false]
        exact tail_lemma data hlen 4 false

end GenTxLen
