import BU.Gen.Codec
import BU.Model.Block
/-! helper lemmas and proofs for `BU/Properties/C15_Gen.lean` (generated get_transaction_length = hand model) -/
namespace GenTxLen
open Model

theorem gen_tx_length (data : Bytes) (hlen : data.length < 2 ^ 63) :
    (Gen.get_transaction_length data).toOption = (txLength data).toOption.map Int.ofNat := by sorry

end GenTxLen
