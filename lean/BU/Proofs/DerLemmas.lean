import BU.Py
import BU.Spec.Ecdsa
import BU.Proofs.PyLemmas
/-! DER encoding of ECDSA signatures: strictness (BIP66) and decode∘encode, for every r, s in range. -/
namespace DerLemmas
open Py Spec

theorem two_pow_256 : (2:Nat) ^ 256 = 256 ^ 32 := by rw [pow_256_eq]

/-- shape of `derInt v`: `v` has exactly `m + 1 ≤ 32` significant bytes `hd :: tl` with `hd ≠ 0`;
a zero byte is prepended iff `hd ≥ 0x80` -/
theorem derInt_cases (v : Nat) (h0 : 0 < v) (h1 : v < 2 ^ 256) :
    ∃ (m : Nat) (hd : UInt8) (tl : Bytes), m ≤ 31 ∧ tl.length = m ∧ hd.toNat = v / 256 ^ m ∧ 1 ≤ hd.toNat ∧
      256 ^ m ≤ v ∧ v < 256 ^ (m + 1) ∧ ofBE (hd :: tl) = v ∧
      derInt v = if hd.toNat ≥ 128 then 0 :: hd :: tl else hd :: tl := by
  have hpos := natBits_pos h0
  obtain ⟨m, hm⟩ : ∃ m, (natBits v + 7) / 8 = m + 1 := ⟨(natBits v + 7) / 8 - 1, by omega⟩
  have hlt := lt_pow_byteLen v
  have hle := pow_byteLen_le v h0
  rw [hm] at hlt hle
  simp only [Nat.add_sub_cancel] at hle
  have hm31 : m ≤ 31 := by
    apply Classical.byContradiction; intro hc
    have : 256 ^ 32 ≤ 256 ^ m := Nat.pow_le_pow_right (by omega) (by omega)
    rw [two_pow_256] at h1
    omega
  have hpos256 : 0 < 256 ^ m := Nat.pow_pos (by omega)
  have hdiv_lt : v / 256 ^ m < 256 := by
    rw [Nat.div_lt_iff_lt_mul hpos256, Nat.mul_comm, ← Nat.pow_succ]; exact hlt
  have hdiv_ge : 1 ≤ v / 256 ^ m := by
    rw [Nat.le_div_iff_mul_le hpos256]; omega
  have hhead : (beBytes (m + 1) v).head? = some (UInt8.ofNat (v / 256 ^ m % 256)) := by
    rw [beBytes, List.head?_reverse, getLast?_leBytes_succ]
  have hlen : (beBytes (m + 1) v).length = m + 1 := beBytes_length _ _
  have hof : ofBE (beBytes (m + 1) v) = v := ofBE_beBytes _ _ hlt
  have hder : derInt v = if ((beBytes (m + 1) v).head?.map (·.toNat)).getD 0 ≥ 128 then 0x00 :: beBytes (m + 1) v else beBytes (m + 1) v := by
    unfold derInt
    simp only [hm]
    simp
  cases hb : beBytes (m + 1) v with
  | nil => rw [hb] at hlen; simp at hlen
  | cons hd tl =>
    rw [hb] at hhead hlen hof hder
    simp only [List.head?_cons, Option.some.injEq] at hhead
    have hdn : hd.toNat = v / 256 ^ m := by
      rw [hhead, UInt8.toNat_ofNat']; omega
    refine ⟨m, hd, tl, hm31, by simpa using hlen, hdn, by omega, hle, hlt, hof, ?_⟩
    rw [hder]
    simp

/-- `derInt` of a positive 256-bit value: 1..33 bytes, first byte < 0x80, no superfluous leading zero,
and it decodes back (big-endian) to the value -/
theorem derInt_props (v : Nat) (h0 : 0 < v) (h1 : v < 2 ^ 256) :
    1 ≤ (derInt v).length ∧ (derInt v).length ≤ 33 ∧ ofBE (derInt v) = v ∧
    ((derInt v).getD 0 0).toNat < 0x80 ∧
    ((derInt v).length > 1 → ((derInt v).getD 0 0).toNat = 0 → ((derInt v).getD 1 0).toNat ≥ 0x80) := by
  obtain ⟨m, hd, tl, hm, htl, hdn, hd1, hle, hlt, hof, hder⟩ := derInt_cases v h0 h1
  rw [hder]
  by_cases hc : hd.toNat ≥ 128
  · rw [if_pos hc]
    refine ⟨by simp, by simp; omega, ?_, by simp, ?_⟩
    · rw [← hof]; simp only [ofBE, List.reverse_cons (a := (0 : UInt8))]; exact ofLE_append_zero _
    · intro _ _; simpa using hc
  · rw [if_neg hc]
    refine ⟨by simp, by simp; omega, hof, by simp; omega, ?_⟩
    intro _ h; simp at h; omega

/-- the integer is 33 bytes long exactly when its top bit (bit 255) is set -/
theorem derInt_length_33 (v : Nat) (h0 : 0 < v) (h1 : v < 2 ^ 256) : (derInt v).length = 33 ↔ 2 ^ 255 ≤ v := by
  obtain ⟨m, hd, tl, hm, htl, hdn, hd1, hle, hlt, hof, hder⟩ := derInt_cases v h0 h1
  rw [hder]
  have e255 : (2:Nat) ^ 255 = 128 * 256 ^ 31 := by decide
  by_cases hm' : m = 31
  · subst hm'
    have hiff : hd.toNat ≥ 128 ↔ 2 ^ 255 ≤ v := by
      rw [hdn, e255, ge_iff_le, Nat.le_div_iff_mul_le (Nat.pow_pos (by omega))]
    by_cases hc : hd.toNat ≥ 128
    · rw [if_pos hc]; simp only [List.length_cons, htl]; exact ⟨fun _ => hiff.1 hc, fun _ => trivial⟩
    · rw [if_neg hc]; simp only [List.length_cons, htl]
      exact ⟨fun h => by omega, fun h => absurd (hiff.2 h) hc⟩
  · have : 256 ^ (m + 1) ≤ 256 ^ 31 := Nat.pow_le_pow_right (by omega) (by omega)
    have hv : ¬ 2 ^ 255 ≤ v := by rw [e255]; omega
    split <;> simp only [List.length_cons, htl] <;> constructor <;> intro h <;> omega


theorem frame_lo (a b c d : UInt8) (rb rest : Bytes) (i : Nat) (h : i < rb.length) :
    (a :: b :: c :: d :: (rb ++ rest)).getD (i + 4) 0 = rb.getD i 0 := by
  simp only [List.getD_cons_succ]
  simp only [List.getD_eq_getElem?_getD, List.getElem?_append_left h]

theorem frame_hi (a b c d : UInt8) (rb rest : Bytes) (j : Nat) :
    (a :: b :: c :: d :: (rb ++ rest)).getD (rb.length + j + 4) 0 = rest.getD j 0 := by
  simp only [List.getD_cons_succ]
  simp only [List.getD_eq_getElem?_getD, List.getElem?_append_right (Nat.le_add_right _ _), Nat.add_sub_cancel_left]


/-- `isStrictDer` on the DER frame, for arbitrary integer encodings satisfying the DER INTEGER rules -/
theorem strict_aux (rb sb : Bytes) (ht : UInt8)
    (hr1 : 1 ≤ rb.length) (hr2 : rb.length ≤ 33) (hr3 : (rb.getD 0 0).toNat < 0x80)
    (hr4 : rb.length > 1 → (rb.getD 0 0).toNat = 0 → (rb.getD 1 0).toNat ≥ 0x80)
    (hs1 : 1 ≤ sb.length) (hs2 : sb.length ≤ 33) (hs3 : (sb.getD 0 0).toNat < 0x80)
    (hs4 : sb.length > 1 → (sb.getD 0 0).toNat = 0 → (sb.getD 1 0).toNat ≥ 0x80) :
    isStrictDer (0x30 :: UInt8.ofNat (4 + rb.length + sb.length) :: 0x02 :: UInt8.ofNat rb.length ::
      (rb ++ (0x02 :: UInt8.ofNat sb.length :: (sb ++ [ht])))) = true := by
  generalize hL : (0x30 :: UInt8.ofNat (4 + rb.length + sb.length) :: 0x02 :: UInt8.ofNat rb.length ::
      (rb ++ (0x02 :: UInt8.ofNat sb.length :: (sb ++ [ht])))) = L
  have hlen : L.length = rb.length + sb.length + 7 := by
    rw [← hL]; simp only [List.length_cons, List.length_append, List.length_nil]; omega
  have g0 : (L.getD 0 0).toNat = 0x30 := by rw [← hL]; rfl
  have g1 : (L.getD 1 0).toNat = rb.length + sb.length + 4 := by
    rw [← hL]; simp only [List.getD_cons_succ, List.getD_cons_zero, UInt8.toNat_ofNat']; omega
  have g2 : (L.getD 2 0).toNat = 2 := by rw [← hL]; rfl
  have g3 : (L.getD 3 0).toNat = rb.length := by
    rw [← hL]; simp only [List.getD_cons_succ, List.getD_cons_zero, UInt8.toNat_ofNat']; omega
  have g4 : L.getD 4 0 = rb.getD 0 0 := by
    rw [← hL]; exact frame_lo _ _ _ _ _ _ 0 (by omega)
  have g5 : rb.length > 1 → L.getD 5 0 = rb.getD 1 0 := by
    intro h; rw [← hL]; exact frame_lo _ _ _ _ _ _ 1 h
  have gT : (L.getD (rb.length + 4) 0).toNat = 2 := by
    rw [← hL]; rw [show rb.length + 4 = rb.length + 0 + 4 from rfl, frame_hi _ _ _ _ rb _ 0]; rfl
  have gS : (L.getD (5 + rb.length) 0).toNat = sb.length := by
    rw [← hL]; rw [show 5 + rb.length = rb.length + 1 + 4 by omega, frame_hi _ _ _ _ rb _ 1]
    simp only [List.getD_cons_succ, List.getD_cons_zero, UInt8.toNat_ofNat']; omega
  have g6 : L.getD (rb.length + 6) 0 = sb.getD 0 0 := by
    rw [← hL]; rw [show rb.length + 6 = rb.length + 2 + 4 by omega, frame_hi _ _ _ _ rb _ 2]
    simp only [List.getD_cons_succ]
    simp only [List.getD_eq_getElem?_getD, List.getElem?_append_left hs1]
  have g7 : sb.length > 1 → L.getD (rb.length + 7) 0 = sb.getD 1 0 := by
    intro h
    rw [← hL]; rw [show rb.length + 7 = rb.length + 3 + 4 by omega, frame_hi _ _ _ _ rb _ 3]
    simp only [List.getD_cons_succ]
    simp only [List.getD_eq_getElem?_getD, List.getElem?_append_left h]
  simp only [isStrictDer, hlen, g0, g1, g2, g3, gT, gS, g4, g6]
  have c5 : ¬ (rb.length > 1 ∧ (rb.getD 0 0).toNat = 0 ∧ (L.getD 5 0).toNat < 128) := by
    rintro ⟨a, b, c⟩; rw [g5 a] at c; have := hr4 a b; omega
  have c7 : ¬ (sb.length > 1 ∧ (sb.getD 0 0).toNat = 0 ∧ (L.getD (rb.length + 7) 0).toNat < 128) := by
    rintro ⟨a, b, c⟩; rw [g7 a] at c; have := hs4 a b; omega
  rw [if_neg (by omega), if_neg (by omega), if_neg (by omega), if_neg (by omega), if_neg (by omega),
    if_neg (by omega), if_neg (by omega), if_neg (by omega), if_neg c5, if_neg (by omega), if_neg (by omega),
    if_neg (by omega), if_neg c7]


theorem derEncode_eq (r s : Nat) : derEncode r s =
    0x30 :: UInt8.ofNat (4 + (derInt r).length + (derInt s).length) :: 0x02 :: UInt8.ofNat (derInt r).length ::
      (derInt r ++ (0x02 :: UInt8.ofNat (derInt s).length :: derInt s)) := by
  simp only [derEncode, List.append_assoc, List.cons_append, List.nil_append]

/-- **strict DER (BIP66) for every (r, s)**: whatever the byte lengths of r and s (short r, s with high bit,
n − s with leading zero bytes …) the encoding followed by a hash-type byte passes Bitcoin Core's
`IsValidSignatureEncoding` -/
theorem isStrictDer_encode (r s : Nat) (hr0 : 0 < r) (hr : r < 2 ^ 256) (hs0 : 0 < s) (hs : s < 2 ^ 256) (ht : UInt8) :
    isStrictDer (derEncode r s ++ [ht]) = true := by
  obtain ⟨a1, a2, _, a3, a4⟩ := derInt_props r hr0 hr
  obtain ⟨b1, b2, _, b3, b4⟩ := derInt_props s hs0 hs
  rw [derEncode_eq]
  simp only [List.append_assoc, List.cons_append]
  exact strict_aux _ _ ht a1 a2 a3 a4 b1 b2 b3 b4

/-- `derDecode` on the DER frame -/
theorem decode_aux (rb sb : Bytes)
    (hr1 : 1 ≤ rb.length) (hr2 : rb.length ≤ 33) (hs1 : 1 ≤ sb.length) (hs2 : sb.length ≤ 33) :
    derDecode (0x30 :: UInt8.ofNat (4 + rb.length + sb.length) :: 0x02 :: UInt8.ofNat rb.length ::
      (rb ++ (0x02 :: UInt8.ofNat sb.length :: sb))) = some (ofBE rb, ofBE sb) := by
  generalize hL : (0x30 :: UInt8.ofNat (4 + rb.length + sb.length) :: 0x02 :: UInt8.ofNat rb.length ::
      (rb ++ (0x02 :: UInt8.ofNat sb.length :: sb))) = L
  have hlen : L.length = 6 + rb.length + sb.length := by
    rw [← hL]; simp only [List.length_cons, List.length_append]; omega
  have g0 : (L.getD 0 0).toNat = 0x30 := by rw [← hL]; rfl
  have g2 : (L.getD 2 0).toNat = 2 := by rw [← hL]; rfl
  have g3 : (L.getD 3 0).toNat = rb.length := by
    rw [← hL]; simp only [List.getD_cons_succ, List.getD_cons_zero, UInt8.toNat_ofNat']; omega
  have gT : (L.getD (4 + rb.length) 0).toNat = 2 := by
    rw [← hL]; rw [show 4 + rb.length = rb.length + 0 + 4 by omega, frame_hi _ _ _ _ rb _ 0]; rfl
  have gS : (L.getD (5 + rb.length) 0).toNat = sb.length := by
    rw [← hL]; rw [show 5 + rb.length = rb.length + 1 + 4 by omega, frame_hi _ _ _ _ rb _ 1]
    simp only [List.getD_cons_succ, List.getD_cons_zero, UInt8.toNat_ofNat']; omega
  have dR : (L.drop 4).take rb.length = rb := by
    rw [← hL]; simp only [List.drop_succ_cons, List.drop_zero, List.take_left']
  have dS : (L.drop (6 + rb.length)).take sb.length = sb := by
    rw [← hL, show 6 + rb.length = (rb.length + 2) + 1 + 1 + 1 + 1 by omega]
    simp only [List.drop_succ_cons]
    rw [List.drop_append, List.drop_eq_nil_of_le (Nat.le_add_right _ _), List.nil_append, Nat.add_sub_cancel_left]
    simp only [List.drop_succ_cons, List.drop_zero, List.take_length]
  simp only [derDecode, hlen, g0, g2, g3, gT, gS, dR, dS]
  rw [if_neg (by omega), if_neg (by omega), if_neg (by omega)]

theorem derDecode_encode (r s : Nat) (hr0 : 0 < r) (hr : r < 2 ^ 256) (hs0 : 0 < s) (hs : s < 2 ^ 256) :
    derDecode (derEncode r s) = some (r, s) := by
  obtain ⟨a1, a2, a3, _, _⟩ := derInt_props r hr0 hr
  obtain ⟨b1, b2, b3, _, _⟩ := derInt_props s hs0 hs
  rw [derEncode_eq, decode_aux _ _ a1 a2 b1 b2, a3, b3]

/-- byte 3 of the encoding is the length of r: the low-R grinding test `signature[3] == 33` -/
theorem derEncode_byte3 (r s : Nat) (hr0 : 0 < r) (hr : r < 2 ^ 256) :
    ((derEncode r s).getD 3 0).toNat = (derInt r).length := by
  obtain ⟨a1, a2, _, _, _⟩ := derInt_props r hr0 hr
  rw [derEncode_eq]
  simp only [List.getD_cons_succ, List.getD_cons_zero, UInt8.toNat_ofNat']; omega

end DerLemmas
