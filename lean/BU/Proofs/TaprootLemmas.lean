import BU.Py
import BU.Spec.Taproot
import BU.Model.Taproot
import BU.Proofs.PyLemmas
/-!
Helper lemmas for C08 (taproot): `lexLt` is a strict total order, hence `tapBranchHash` is symmetric;
chunking of concatenated 32-byte strings; the shape of `tweakPubkey`'s result.
-/
namespace TaprootLemmas
open Py Spec Model Secp

/-! ### `lexLt` -/

theorem lexLt_asymm (a b : Bytes) (h : lexLt a b = true) : lexLt b a = false := by
  induction a generalizing b with
  | nil =>
    cases b with
    | nil => simp [lexLt] at h
    | cons y ys => simp [lexLt]
  | cons x xs ih =>
    cases b with
    | nil => simp [lexLt] at h
    | cons y ys =>
      simp only [lexLt] at h ⊢
      by_cases h1 : x.toNat < y.toNat
      · have h2 : ¬ y.toNat < x.toNat := by omega
        have h3 : y.toNat > x.toNat := h1
        simp [h2, h3]
      · by_cases h2 : x.toNat > y.toNat
        · simp [h1, h2] at h
        · simp only [h1, h2, if_false] at h
          have h3 : ¬ y.toNat < x.toNat := by omega
          have h4 : ¬ y.toNat > x.toNat := by omega
          simp only [h3, h4, if_false]
          exact ih ys h

theorem lexLt_total (a b : Bytes) (h1 : lexLt a b = false) (h2 : lexLt b a = false) : a = b := by
  induction a generalizing b with
  | nil =>
    cases b with
    | nil => rfl
    | cons y ys => simp [lexLt] at h1
  | cons x xs ih =>
    cases b with
    | nil => simp [lexLt] at h2
    | cons y ys =>
      simp only [lexLt] at h1 h2
      by_cases c1 : x.toNat < y.toNat
      · simp [c1] at h1
      · by_cases c2 : x.toNat > y.toNat
        · have c3 : y.toNat < x.toNat := c2
          simp [c3] at h2
        · have c3 : ¬ y.toNat < x.toNat := by omega
          have c4 : ¬ y.toNat > x.toNat := by omega
          simp only [c1, c2, if_false] at h1
          simp only [c3, c4, if_false] at h2
          have e : x = y := UInt8.toNat_inj.1 (by omega)
          rw [e, ih ys h1 h2]

/-- the TapBranch hash does not depend on the order of the children -/
theorem tapBranchHash_comm (sha256 : Bytes → Bytes) (a b : Bytes) :
    tapBranchHash sha256 a b = tapBranchHash sha256 b a := by
  unfold tapBranchHash
  cases h : lexLt a b with
  | true =>
    rw [lexLt_asymm a b h]
    simp
  | false =>
    cases h' : lexLt b a with
    | true => simp
    | false =>
      rw [lexLt_total a b h h']

theorem tapbranchHash_eq (sha256 : Bytes → Bytes) (a b : Bytes) :
    tapbranchHash sha256 a b = tapBranchHash sha256 a b := rfl

/-! ### hash lengths -/

theorem taggedHash_length (sha256 : Bytes → Bytes) (hlen : ∀ b, (sha256 b).length = 32) (tag : String) (d : Bytes) :
    (taggedHash sha256 tag d).length = 32 := by
  unfold taggedHash
  exact hlen _

theorem tapBranchHash_length (sha256 : Bytes → Bytes) (hlen : ∀ b, (sha256 b).length = 32) (a b : Bytes) :
    (tapBranchHash sha256 a b).length = 32 := by
  unfold tapBranchHash
  split <;> exact taggedHash_length sha256 hlen _ _

/-! ### chunking -/

theorem chunks32_append (m j : Nat) (a rest : Bytes) (h : a.length = 32 * m) :
    chunks32 (m + j) (a ++ rest) = chunks32 m a ++ chunks32 j rest := by
  induction m generalizing a with
  | zero =>
    have : a = [] := List.eq_nil_of_length_eq_zero (by omega)
    subst this
    simp [chunks32]
  | succ m ih =>
    have e : m + 1 + j = (m + j) + 1 := by omega
    rw [e]
    simp only [chunks32]
    have hle : 32 ≤ a.length := by omega
    rw [List.take_append_of_le_length hle, List.drop_append_of_le_length hle]
    rw [ih (a.drop 32) (by rw [List.length_drop]; omega)]
    rfl

theorem chunks32_one (b : Bytes) (h : b.length = 32) : chunks32 1 b = [b] := by
  simp only [chunks32]
  rw [List.take_of_length_le (by omega)]

/-- appending one more 32-byte sibling to a path -/
theorem chunks32_snoc (m : Nat) (a b : Bytes) (h : a.length = 32 * m) (hb : b.length = 32) :
    chunks32 (m + 1) (a ++ b) = chunks32 m a ++ [b] := by
  rw [chunks32_append m 1 a b h, chunks32_one b hb]

/-! ### `to_bytes` -/

theorem toBytes_big_ok {v : Nat} {k : Nat} {bs : Bytes} (h : Py.toBytes (v : Int) (k : Int) .big = .ok bs) :
    bs = beBytes k v := by
  unfold Py.toBytes at h
  split at h
  · cases h
  · split at h
    · cases h
    · simp only [Except.ok.injEq, Int.toNat_natCast] at h
      exact h.symm

/-! ### `tweak_taproot_pubkey` -/

theorem pub_take (x y : Nat) : (beBytes 32 x ++ beBytes 32 y).take 32 = beBytes 32 x := by
  rw [List.take_append_of_le_length (by simp), List.take_of_length_le (by simp)]

theorem pub_drop (x y : Nat) : (beBytes 32 x ++ beBytes 32 y).drop 32 = beBytes 32 y := by
  rw [List.drop_append_of_le_length (by simp), List.drop_of_length_le (by simp), List.nil_append]

theorem pow_eq : (256 : Nat) ^ 32 = 2 ^ 256 := by decide

/-- what a successful `tweakPubkey` returns: the x coordinate of `lift_x(P) + tw·G` and the parity of its y -/
theorem tweakPubkey_ok (pub : Bytes) (x y : Nat) (hx : x < 2 ^ 256) (hy : y < 2 ^ 256)
    (hpub : pub = beBytes 32 x ++ beBytes 32 y) (tw : Nat) (q : Bytes) (odd : Bool)
    (h : tweakPubkey pub tw = .ok (q, odd)) :
    ∃ qx qy, add (some (x, if y % 2 = 0 then y else p - y)) (mul G tw) = some (qx, qy) ∧
      q.take 32 = beBytes 32 qx ∧ odd = (qy % 2 == 1) := by
  subst hpub
  unfold tweakPubkey at h
  rw [pub_take, pub_drop, ofBE_beBytes 32 x (by rw [pow_eq]; exact hx),
    ofBE_beBytes 32 y (by rw [pow_eq]; exact hy)] at h
  have e : (if y % 2 ≠ 0 then p - y else y) = (if y % 2 = 0 then y else p - y) := by
    by_cases c : y % 2 = 0 <;> simp [c]
  simp only [e] at h
  cases hadd : add (some (x, if y % 2 = 0 then y else p - y)) (mul G tw) with
  | none =>
    rw [hadd] at h
    cases h
  | some Q =>
    obtain ⟨qx, qy⟩ := Q
    rw [hadd] at h
    simp only [bind, Except.bind, pure, Except.pure] at h
    cases ha : Py.toBytes (qx : Int) 32 .big with
    | error err => rw [ha] at h; cases h
    | ok a =>
      rw [ha] at h
      simp only at h
      split at h
      · cases h
      · rename_i b hb
        simp only [Except.ok.injEq, Prod.mk.injEq] at h
        have ha' := toBytes_big_ok (k := 32) ha
        refine ⟨qx, qy, rfl, ?_, ?_⟩
        · rw [← h.1, ha', List.take_append_of_le_length (by simp), List.take_of_length_le (by simp)]
        · rw [← h.2]
          by_cases c : qy % 2 = 1
          · have : qy % 2 ≠ 0 := by omega
            simp [c]
          · have : qy % 2 = 0 := by omega
            simp [this]

/-! ### the BIP341 verifier on a well-shaped control block -/

theorem scriptPathCommitment_cons (sha256 : Bytes → Bytes) (c0 : UInt8) (px path script : Bytes)
    (hpx : px.length = 32) (m : Nat) (hp : path.length = 32 * m) (hm : m ≤ 128) :
    scriptPathCommitment sha256 (c0 :: (px ++ path)) script =
      match taprootOutput sha256 px ((chunks32 m path).foldl (tapBranchHash sha256)
          (tapLeafHash sha256 (UInt8.ofNat (c0.toNat / 2 * 2)) script)) with
      | none => none
      | some (q, odd) => if odd == (c0.toNat % 2 == 1) then some (q, odd) else none := by
  have hlen : (c0 :: (px ++ path)).length = 33 + 32 * m := by
    simp only [List.length_cons, List.length_append, hpx, hp]; omega
  have hc : ¬ ((c0 :: (px ++ path)).length < 33 ∨ ((c0 :: (px ++ path)).length - 33) % 32 ≠ 0 ∨
      ((c0 :: (px ++ path)).length - 33) / 32 > 128) := by
    rw [hlen]; omega
  have e1 : ((c0 :: (px ++ path)).length - 33) / 32 = m := by rw [hlen]; omega
  have e2 : ((c0 :: (px ++ path)).drop 1).take 32 = px := by
    rw [List.drop_succ_cons, List.drop_zero, List.take_append_of_le_length (by omega),
      List.take_of_length_le (by omega)]
  have e3 : (c0 :: (px ++ path)).drop 33 = path := by
    rw [List.drop_succ_cons, List.drop_append_of_le_length (by omega), List.drop_of_length_le (by omega),
      List.nil_append]
  have e4 : (c0 :: (px ++ path)).getD 0 0 = c0 := rfl
  unfold scriptPathCommitment
  rw [if_neg hc]
  simp only [e1, e2, e3, e4]
  generalize taprootOutput sha256 px _ = o
  cases o with
  | none => rfl
  | some v => rfl

end TaprootLemmas
