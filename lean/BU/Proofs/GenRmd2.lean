import BU.Gen.Codec
import BU.Gen.Tables
import BU.Model.Ripemd
import BU.Proofs.GenRmd
import BU.Proofs.LoopLemmas
/-! Proofs for `BU/Properties/C20_Gen.lean`: the *generated* `compress` and `ripemd160` of `bitcoinutils/ripemd160.py`
(unbounded Python ints that are only masked inside `rol` and at output; 80-round loop with table look-ups; two block loops;
padding computed with `&` on a possibly negative number) equal the word-level hand model — whose equality with the RIPEMD-160
specification for every message length is `C20.ripemd_eq_spec`.  The loop state of the generated code is *related* to the
model state (`w32` of each int = the word), `Loop.forIn_range_rel`.  Mathlib-free. -/
namespace GenRmd2
open Model Py IntBits GenRmd Loop

/-! ### words -/

theorem w32_natCast (n : Nat) : w32 (n : Int) = UInt32.ofNat n := by
  unfold w32
  have : ((n : Int) % 4294967296).toNat = n % 4294967296 := by omega
  rw [this]
  apply UInt32.toNat_inj.mp
  simp [UInt32.toNat_ofNat']

theorem w32_toNat_cast (u : UInt32) : w32 ((u.toNat : Nat) : Int) = u := by
  rw [w32_natCast]; simp

theorem w32_add (a b : Int) : w32 (a + b) = w32 a + w32 b := by
  apply UInt32.toNat_inj.mp
  rw [UInt32.toNat_add, w32_toNat, w32_toNat, w32_toNat]
  unfold m32
  have h1 : (a + b) % 4294967296 = ((a % 4294967296) + (b % 4294967296)) % 4294967296 := Int.add_emod _ _ _
  omega

theorem rol_ok (x : Int) (i : Nat) (hi : i ≤ 32) :
    ∃ v, Gen.rmd_rol x (i : Int) = .ok v ∧ w32 v = Rmd.rol (w32 x) i :=
  ⟨_, gen_rol x i hi, w32_toNat_cast _⟩

theorem fi_ok (x y z : Int) (i : Nat) (hi : i ≤ 4) :
    ∃ v, Gen.rmd_fi x y z (i : Int) = .ok v ∧ w32 v = Rmd.fi (w32 x) (w32 y) (w32 z) i := by
  have h := gen_fi x y z i hi
  cases hv : Gen.rmd_fi x y z (i : Int) with
  | error e => rw [hv] at h; cases h
  | ok v =>
    rw [hv] at h
    refine ⟨v, rfl, ?_⟩
    have h' : v % 4294967296 = (((Rmd.fi (w32 x) (w32 y) (w32 z) i).toNat : Nat) : Int) := by
      have := h; simp only [Except.map] at this; exact Except.ok.inj this
    show UInt32.ofNat (v % 4294967296).toNat = _
    rw [h']
    simp

theorem indexL_map (l : List Nat) (j : Nat) (hj : j < l.length) :
    indexL (l.map Int.ofNat) (j : Int) = .ok ((l.getD j 0 : Nat) : Int) := by
  unfold indexL
  rw [if_neg (by omega), Int.toNat_natCast]
  simp [List.getD, hj]

/-! ### the tables -/

def genTabs : Rmd.Tabs := ⟨Gen.RMD_ML, Gen.RMD_MR, Gen.RMD_RL, Gen.RMD_RR, Gen.RMD_KL, Gen.RMD_KR⟩

theorem tab_len : Gen.RMD_ML.length = 80 ∧ Gen.RMD_MR.length = 80 ∧ Gen.RMD_RL.length = 80 ∧ Gen.RMD_RR.length = 80 ∧
    Gen.RMD_KL.length = 5 ∧ Gen.RMD_KR.length = 5 := by decide
theorem tab_ML : ∀ j, j < 80 → Gen.RMD_ML.getD j 0 < 16 := by decide
theorem tab_MR : ∀ j, j < 80 → Gen.RMD_MR.getD j 0 < 16 := by decide
theorem tab_RL : ∀ j, j < 80 → Gen.RMD_RL.getD j 0 ≤ 32 := by decide
theorem tab_RR : ∀ j, j < 80 → Gen.RMD_RR.getD j 0 ≤ 32 := by decide

/-! ### one round -/

abbrev S11 := Int × Int × Int × Int × Int × Int × Int × Int × Int × Int × Int

/-- the loop state of the generated code denotes the model's pair of 5-word states (the 11th component, `rnd`, is scratch) -/
def Rel (b : S11) (s : Rmd.St × Rmd.St) : Prop :=
  w32 b.1 = s.1.1 ∧ w32 b.2.1 = s.1.2.1 ∧ w32 b.2.2.1 = s.1.2.2.1 ∧ w32 b.2.2.2.1 = s.1.2.2.2.1 ∧ w32 b.2.2.2.2.1 = s.1.2.2.2.2 ∧
  w32 b.2.2.2.2.2.1 = s.2.1 ∧ w32 b.2.2.2.2.2.2.1 = s.2.2.1 ∧ w32 b.2.2.2.2.2.2.2.1 = s.2.2.2.1 ∧
  w32 b.2.2.2.2.2.2.2.2.1 = s.2.2.2.2.1 ∧ w32 b.2.2.2.2.2.2.2.2.2.1 = s.2.2.2.2.2

/-- the body of the 80-round loop of the generated `compress`, with the message words and the tables as arguments -/
def body (x : List Int) (j_ : Nat) (__s : S11) : Except PyErr (ForInStep S11) := do
  let t2 ← shr (Int.ofNat j_) 4
  let t3 ← Gen.rmd_fi __s.snd.fst __s.snd.snd.fst __s.snd.snd.snd.fst t2
  let t4 ← indexL (Gen.RMD_ML.map Int.ofNat) (Int.ofNat j_)
  let t5 ← indexL x t4
  let t6 ← indexL (Gen.RMD_KL.map Int.ofNat) t2
  let t7 ← indexL (Gen.RMD_RL.map Int.ofNat) (Int.ofNat j_)
  let t8 ← Gen.rmd_rol (__s.fst + t3 + t5 + t6) t7
  let t9 ← Gen.rmd_rol __s.snd.snd.fst 10
  let t10 ← Gen.rmd_fi __s.snd.snd.snd.snd.snd.snd.fst __s.snd.snd.snd.snd.snd.snd.snd.fst
      __s.snd.snd.snd.snd.snd.snd.snd.snd.fst (4 - t2)
  let t11 ← indexL (Gen.RMD_MR.map Int.ofNat) (Int.ofNat j_)
  let t12 ← indexL x t11
  let t13 ← indexL (Gen.RMD_KR.map Int.ofNat) t2
  let t14 ← indexL (Gen.RMD_RR.map Int.ofNat) (Int.ofNat j_)
  let t15 ← Gen.rmd_rol (__s.snd.snd.snd.snd.snd.fst + t10 + t12 + t13) t14
  let t16 ← Gen.rmd_rol __s.snd.snd.snd.snd.snd.snd.snd.fst 10
  pure (ForInStep.yield
      (__s.snd.snd.snd.snd.fst, t8 + __s.snd.snd.snd.snd.fst, __s.snd.fst, t9, __s.snd.snd.snd.fst,
        __s.snd.snd.snd.snd.snd.snd.snd.snd.snd.fst, t15 + __s.snd.snd.snd.snd.snd.snd.snd.snd.snd.fst,
        __s.snd.snd.snd.snd.snd.snd.fst, t16, __s.snd.snd.snd.snd.snd.snd.snd.snd.fst, t2))

/-- the 16 message words of a block, as the generated code and as the model see them -/
def xInt (block : Bytes) : List Int := (List.range 16).map fun i => ((ofLE ((block.drop (4 * i)).take 4) : Nat) : Int)
def xW (block : Bytes) : List UInt32 := (List.range 16).map fun i => UInt32.ofNat (ofLE ((block.drop (4 * i)).take 4))

theorem xInt_index (block : Bytes) (k : Nat) (hk : k < 16) :
    ∃ v, indexL (xInt block) (k : Int) = .ok v ∧ w32 v = (xW block).getD k 0 := by
  refine ⟨((ofLE ((block.drop (4 * k)).take 4) : Nat) : Int), ?_, ?_⟩
  · unfold indexL xInt
    rw [if_neg (by omega), Int.toNat_natCast]
    simp [hk]
  · rw [w32_natCast]
    simp [xW, List.getD, hk]

theorem body_step (block : Bytes) (j : Nat) (hj : j < 80) (b : S11) (s : Rmd.St × Rmd.St) (hR : Rel b s) :
    ∃ b', body (xInt block) j b = .ok (.yield b') ∧ Rel b' (Rmd.round genTabs (xW block) s j) := by
  obtain ⟨r1, r2, r3, r4, r5, r6, r7, r8, r9, r10⟩ := hR
  obtain ⟨l1, l2, l3, l4, l5, l6⟩ := tab_len
  have hrnd : j / 16 ≤ 4 := by omega
  unfold body
  rw [show Int.ofNat j = (j : Int) from rfl, show (4 : Int) = ((4 : Nat) : Int) from rfl, shr_natCast, ok_bind,
    show j >>> 4 = j / 16 from Nat.shiftRight_eq_div_pow j 4]
  obtain ⟨v3, h3, w3⟩ := fi_ok b.2.1 b.2.2.1 b.2.2.2.1 (j / 16) hrnd
  rw [h3, ok_bind, indexL_map _ _ (by omega), ok_bind]
  obtain ⟨v5, h5, w5⟩ := xInt_index block _ (tab_ML j hj)
  rw [h5, ok_bind, indexL_map _ _ (by omega), ok_bind, indexL_map _ _ (by omega), ok_bind]
  obtain ⟨v8, h8, w8⟩ := rol_ok (b.1 + v3 + v5 + ((Gen.RMD_KL.getD (j / 16) 0 : Nat) : Int)) _ (tab_RL j hj)
  rw [h8, ok_bind]
  obtain ⟨v9, h9, w9⟩ := rol_ok b.2.2.1 10 (by omega)
  rw [show (10 : Int) = ((10 : Nat) : Int) from rfl, h9, ok_bind]
  have e4 : (((4 : Nat) : Int) - ((j / 16 : Nat) : Int)) = ((4 - j / 16 : Nat) : Int) := by omega
  obtain ⟨v10, h10, w10⟩ := fi_ok b.2.2.2.2.2.2.1 b.2.2.2.2.2.2.2.1 b.2.2.2.2.2.2.2.2.1 (4 - j / 16) (by omega)
  rw [e4, h10, ok_bind, indexL_map _ _ (by omega), ok_bind]
  obtain ⟨v12, h12, w12⟩ := xInt_index block _ (tab_MR j hj)
  rw [h12, ok_bind, indexL_map _ _ (by omega), ok_bind, indexL_map _ _ (by omega), ok_bind]
  obtain ⟨v15, h15, w15⟩ := rol_ok (b.2.2.2.2.2.1 + v10 + v12 + ((Gen.RMD_KR.getD (j / 16) 0 : Nat) : Int)) _ (tab_RR j hj)
  rw [h15, ok_bind]
  obtain ⟨v16, h16, w16⟩ := rol_ok b.2.2.2.2.2.2.2.1 10 (by omega)
  rw [h16, ok_bind]
  refine ⟨_, rfl, ?_⟩
  obtain ⟨⟨al, bl, cl, dl, el⟩, ⟨ar, br, cr, dr, er⟩⟩ := s
  simp only at r1 r2 r3 r4 r5 r6 r7 r8 r9 r10
  subst r1 r2 r3 r4 r5 r6 r7 r8 r9 r10
  unfold Rel Rmd.round
  simp only [genTabs]
  refine ⟨trivial, ?_, trivial, w9, trivial, trivial, ?_, trivial, w16, trivial⟩
  · rw [w32_add, w8, w32_add, w32_add, w32_add, w3, w5, w32_natCast]
  · rw [w32_add, w15, w32_add, w32_add, w32_add, w10, w12, w32_natCast]

/-- five Python ints denote a 5-word state -/
def Rel5 (v : Int × Int × Int × Int × Int) (st : Rmd.St) : Prop :=
  w32 v.1 = st.1 ∧ w32 v.2.1 = st.2.1 ∧ w32 v.2.2.1 = st.2.2.1 ∧ w32 v.2.2.2.1 = st.2.2.2.1 ∧ w32 v.2.2.2.2 = st.2.2.2.2

theorem words_ok (block : Bytes) :
    List.mapM (fun (i : Int) => (pure (fromBytes (slice block (4 * i) (4 * (i + 1))) Order.little) : Except PyErr Int)) (range 16)
      = .ok (xInt block) := by
  rw [show range (16 : Int) = (List.range 16).map Int.ofNat from range_ofNat 16, List.mapM_map]
  rw [mapM_ok _ (fun i => ((ofLE ((block.drop (4 * i)).take 4) : Nat) : Int)) (List.range 16) (by
    intro i _
    simp only [Function.comp, pure, Except.pure]
    congr 1
    show ((ofLE (slice block (4 * Int.ofNat i) (4 * (Int.ofNat i + 1))) : Nat) : Int) = _
    unfold slice
    have e1 : ((4 : Int) * Int.ofNat i).toNat = 4 * i := by
      show ((4 : Int) * (i : Int)).toNat = _; omega
    have e2 : ((4 : Int) * (Int.ofNat i + 1)).toNat - ((4 : Int) * Int.ofNat i).toNat = 4 := by
      show ((4 : Int) * ((i : Int) + 1)).toNat - ((4 : Int) * (i : Int)).toNat = _; omega
    rw [e2, e1])]
  rfl

theorem gen_compress (h0 h1 h2 h3 h4 : Int) (block : Bytes) :
    ∃ v, Gen.rmd_compress h0 h1 h2 h3 h4 block = .ok v ∧
      Rel5 v (Rmd.compress genTabs (w32 h0, w32 h1, w32 h2, w32 h3, w32 h4) block) := by
  unfold Gen.rmd_compress
  simp only []
  rw [words_ok, ok_bind]
  obtain ⟨b, hb, hR⟩ := forIn_range_rel Rel (Rmd.round genTabs (xW block)) (body (xInt block)) 80
    (fun j hj b s hR => body_step block j hj b s hR)
    (h0, h1, h2, h3, h4, h0, h1, h2, h3, h4, 0)
    ((w32 h0, w32 h1, w32 h2, w32 h3, w32 h4), (w32 h0, w32 h1, w32 h2, w32 h3, w32 h4))
    ⟨rfl, rfl, rfl, rfl, rfl, rfl, rfl, rfl, rfl, rfl⟩
  conv => arg 1; intro v; arg 1; lhs; arg 1; arg 3; change body (xInt block)
  rw [show Int.toNat 80 = 80 from rfl, hb, ok_bind]
  refine ⟨_, rfl, ?_⟩
  unfold xW at hR
  obtain ⟨r1, r2, r3, r4, r5, r6, r7, r8, r9, r10⟩ := hR
  unfold Rmd.compress
  simp only
  generalize List.foldl (Rmd.round genTabs _) _ (List.range 80) = fin at *
  obtain ⟨⟨al, bl, cl, dl, el⟩, ⟨ar, br, cr, dr, er⟩⟩ := fin
  simp only at r1 r2 r3 r4 r5 r6 r7 r8 r9 r10
  unfold Rel5
  simp only [w32_add, r1, r2, r3, r4, r5, r6, r7, r8, r9, r10]
  exact ⟨trivial, trivial, trivial, trivial, trivial⟩

/-! ### the block loops and the padding -/

theorem slice64 (data : Bytes) (b : Nat) :
    slice data (64 * Int.ofNat b) (64 * (Int.ofNat b + 1)) = (data.drop (64 * b)).take 64 := by
  unfold slice
  have e1 : ((64 : Int) * Int.ofNat b).toNat = 64 * b := by show ((64 : Int) * (b : Int)).toNat = _; omega
  have e2 : ((64 : Int) * (Int.ofNat b + 1)).toNat - ((64 : Int) * Int.ofNat b).toNat = 64 := by
    show ((64 : Int) * ((b : Int) + 1)).toNat - ((64 : Int) * (b : Int)).toNat = _; omega
  rw [e2, e1]

/-- one of the two block loops of `ripemd160` -/
theorem blocks_ok (d : Bytes) (k : Nat) (v : Int × Int × Int × Int × Int) (st : Rmd.St) (h : Rel5 v st) :
    ∃ v', (forIn [:k] v fun (b_ : Nat) (__s : Int × Int × Int × Int × Int) => do
              let t2 ← Gen.rmd_compress __s.1 __s.2.1 __s.2.2.1 __s.2.2.2.1 __s.2.2.2.2
                (slice d (64 * Int.ofNat b_) (64 * (Int.ofNat b_ + 1)))
              pure (ForInStep.yield t2)) = .ok v' ∧
      Rel5 v' ((List.range k).foldl (fun s b => Rmd.compress genTabs s ((d.drop (64 * b)).take 64)) st) := by
  apply forIn_range_rel Rel5 (fun s b => Rmd.compress genTabs s ((d.drop (64 * b)).take 64))
  · intro i _ b s hR
    obtain ⟨c, hc, hr⟩ := gen_compress b.1 b.2.1 b.2.2.1 b.2.2.2.1 b.2.2.2.2 ((d.drop (64 * i)).take 64)
    obtain ⟨r1, r2, r3, r4, r5⟩ := hR
    rw [r1, r2, r3, r4, r5] at hr
    refine ⟨c, ?_, hr⟩
    rw [slice64, hc]
    rfl
  · exact h

theorem land63 (x : Int) : land x 63 = x % 64 := by
  obtain ⟨m, h1, _, h3⟩ := emod_two_pow x 6
  have e : (2 : Int) ^ 6 = 64 := by decide
  rw [e] at h1
  rw [h1]
  apply natCast_eq_of_tb (land_nonneg_right x 63)
  intro j
  rw [tb_land, h3 j]
  show (tb x j && tb (((2 ^ 6 - 1 : Nat)) : Int) j) = _
  rw [tb_ofNat, Nat.testBit_two_pow_sub_one, Bool.and_comm]

theorem land_not63 (n : Nat) : land (n : Int) (lnot 63) = ((n / 64 * 64 : Nat) : Int) := by
  rw [show (63 : Int) = ((63 : Nat) : Int) from rfl, lnot_ofNat]
  show ((n ^^^ (n &&& 63) : Nat) : Int) = _
  congr 1
  apply Nat.eq_of_testBit_eq
  intro j
  rw [Nat.testBit_xor, Nat.testBit_and, show (63 : Nat) = 2 ^ 6 - 1 from rfl, Nat.testBit_two_pow_sub_one,
    show (64 : Nat) = 2 ^ 6 from rfl, Nat.testBit_mul_two_pow, Nat.testBit_div_two_pow]
  by_cases hj : j < 6
  · have : ¬ 6 ≤ j := by omega
    simp [hj, this]
  · have h6 : 6 ≤ j := by omega
    have : j - 6 + 6 = j := by omega
    simp [hj, h6, this]

theorem out_word (v : Int) (w : UInt32) (h : w32 v = w) :
    Py.toBytes (land v 4294967295) 4 Order.little = .ok (leBytes 4 w.toNat) := by
  rw [land_mask, ← h, w32_toNat]
  have := (m32_spec v).2.1
  exact toBytes_little_natCast (m32 v) 4 (by omega)

theorem slice_from (data : Bytes) (hlen : data.length < 2 ^ 63) (off : Nat) :
    slice data (off : Int) slEnd = data.drop off := by
  unfold slice slEnd
  rw [Int.toNat_natCast]
  apply List.take_of_length_le
  rw [List.length_drop]
  have : (0x7fffffffffffffff : Int).toNat = 2 ^ 63 - 1 := by decide
  rw [this]
  omega

/-- **ripemd160**: the generated function is the word-level model on every input a Python `bytes` can hold
(the 64-bit length field bounds the input at 2^61 bytes) -/
theorem gen_ripemd160 (data : Bytes) (hlen : data.length < 2 ^ 61) :
    Gen.rmd_ripemd160 data = .ok (Rmd.ripemd160 genTabs data) := by
  unfold Gen.rmd_ripemd160
  simp only []
  have hl : Py.len data = ((data.length : Nat) : Int) := rfl
  rw [hl, show (6 : Int) = ((6 : Nat) : Int) from rfl, shr_natCast, ok_bind, Int.toNat_natCast]
  obtain ⟨v1, hv1, r1⟩ := blocks_ok data (data.length >>> 6)
    (1732584193, 4023233417, 2562383102, 271733878, 3285377520)
    ((0x67452301 : UInt32), (0xefcdab89 : UInt32), (0x98badcfe : UInt32), (0x10325476 : UInt32), (0xc3d2e1f0 : UInt32))
    ⟨by decide, by decide, by decide, by decide, by decide⟩
  rw [hv1, ok_bind]
  have h8 : Py.toBytes (8 * ((data.length : Nat) : Int)) 8 Order.little = .ok (leBytes 8 (8 * data.length)) := by
    have := toBytes_little_natCast (8 * data.length) 8 (by omega)
    rw [Int.natCast_mul] at this
    exact this
  rw [h8, ok_bind, land63, land_not63, slice_from data (by omega)]
  have hpad : ((119 : Int) - ((data.length : Nat) : Int)) % 64 = (((119 + 64 * data.length - data.length) % 64 : Nat) : Int) := by omega
  rw [hpad]
  have hrep : bytesRepeat [0x00] (((119 + 64 * data.length - data.length) % 64 : Nat) : Int)
      = List.replicate ((119 + 64 * data.length - data.length) % 64) 0 := by
    unfold bytesRepeat
    rw [Int.toNat_natCast]
    simp
  rw [hrep]
  generalize hfin : data.drop (data.length / 64 * 64) ++ ([0x80] ++ List.replicate ((119 + 64 * data.length - data.length) % 64) 0)
    ++ leBytes 8 (8 * data.length) = fin
  have hlf : Py.len fin = ((fin.length : Nat) : Int) := rfl
  rw [hlf, shr_natCast, ok_bind, Int.toNat_natCast]
  obtain ⟨v2, hv2, r2⟩ := blocks_ok fin (fin.length >>> 6) v1 _ r1
  rw [hv2, ok_bind]
  obtain ⟨q1, q2, q3, q4, q5⟩ := r2
  rw [out_word _ _ q1, ok_bind, out_word _ _ q2, ok_bind, out_word _ _ q3, ok_bind, out_word _ _ q4, ok_bind,
    out_word _ _ q5, ok_bind]
  unfold Rmd.ripemd160 Rmd.processBlocks
  simp only [Nat.shiftRight_eq_div_pow, hfin, show (2 : Nat) ^ 6 = 64 from rfl]
  rfl

end GenRmd2
