import BU.Py
import BU.Spec.Bip340
import BU.Spec.CurveLaws
import BU.Model.Schnorr
/-!
Proofs of the Schnorr statements of C20 (`schnorrVerify`/`schnorrSign` against BIP340) and helper lemmas
shared with C07.
-/
namespace SchnorrLemmas
open Py Spec Model Secp
set_option linter.unusedVariables false

/-! ### `to_bytes(32, 'big')` -/

theorem pow256_32 : (256 : Nat) ^ 32 = 2 ^ 256 := by decide

theorem toBytes32_ok (x : Nat) (h : x < 2 ^ 256) : Py.toBytes (x : Int) 32 .big = .ok (beBytes 32 x) := by
  unfold Py.toBytes
  have h1 : ¬ ((x : Int) < 0 ∨ (32 : Int) < 0) := by omega
  have h2 : ¬ ((x : Int).toNat ≥ 256 ^ (32 : Int).toNat) := by
    have : (32 : Int).toNat = 32 := rfl
    rw [this, pow256_32]; simp; exact h
  rw [if_neg h1, if_neg h2]
  rfl

theorem toBytes32_eq_ok (x : Nat) (b : Bytes) (h : Py.toBytes (x : Int) 32 .big = .ok b) :
    x < 2 ^ 256 ∧ b = beBytes 32 x := by
  by_cases hx : x < 2 ^ 256
  · rw [toBytes32_ok x hx] at h
    injection h with h
    exact ⟨hx, h.symm⟩
  · exfalso
    unfold Py.toBytes at h
    have h1 : ¬ ((x : Int) < 0 ∨ (32 : Int) < 0) := by omega
    have h2 : ((x : Int).toNat ≥ 256 ^ (32 : Int).toNat) := by
      have : (32 : Int).toNat = 32 := rfl
      rw [this, pow256_32]; simp; omega
    rw [if_neg h1, if_pos h2] at h
    cases h

theorem bytesFromInt_ok (x : Nat) (h : x < 2 ^ 256) : bytesFromInt x = .ok (beBytes 32 x) :=
  toBytes32_ok x h

theorem bytesFromInt_eq_ok (x : Nat) (b : Bytes) (h : bytesFromInt x = .ok b) :
    x < 2 ^ 256 ∧ b = beBytes 32 x := toBytes32_eq_ok x b h

theorem ofBE_lt (b : Bytes) : ofBE b < 256 ^ b.length := by
  have := ofLE_lt b.reverse
  simpa [ofBE] using this

theorem ofBE_lt32 (b : Bytes) (h : b.length = 32) : ofBE b < 2 ^ 256 := by
  have := ofBE_lt b
  rw [h, pow256_32] at this
  exact this

theorem ofBE_beBytes32 (x : Nat) (h : x < 2 ^ 256) : ofBE (beBytes 32 x) = x :=
  ofBE_beBytes 32 x (by rw [pow256_32]; exact h)

theorem p_lt : p < 2 ^ 256 := by decide
theorem n_lt : n < 2 ^ 256 := by decide
theorem n_lt_p : n < p := by decide
theorem p_odd : p % 2 = 1 := by decide
theorem n_pos : 0 < n := by decide

/-! ### xor -/

theorem schnorrXor_eq (a b : Bytes) : schnorrXor a b = xorBytes a b := by
  induction a generalizing b with
  | nil => simp [schnorrXor, xorBytes]
  | cons x xs ih =>
    cases b with
    | nil => simp [schnorrXor, xorBytes]
    | cons y ys =>
      have := ih ys
      simp only [schnorrXor] at this
      simp [schnorrXor, xorBytes, this]

/-! ### slices -/

theorem slice_0_32 (b : Bytes) : Py.slice b 0 32 = b.take 32 := by
  simp [Py.slice]

theorem slice_32_64 (b : Bytes) : Py.slice b 32 64 = (b.drop 32).take 32 := by
  simp [Py.slice]

/-! ### verification -/

/-- verification is BIP340's on all inputs of the right lengths … -/
theorem verify_eq_spec (sha256 : Bytes → Bytes) (msg pk sig : Bytes)
    (h1 : msg.length = 32) (h2 : pk.length = 32) (h3 : sig.length = 64) :
    schnorrVerify sha256 msg pk sig = .ok (bip340Verify sha256 msg pk sig) := by
  unfold schnorrVerify bip340Verify
  rw [slice_0_32, slice_32_64]
  simp only [h1, h2, h3, ne_eq, not_true_eq_false, if_false, bind, Except.bind, pure, Except.pure]
  cases hP : liftX (ofBE pk) with
  | none => simp
  | some P =>
    simp only [Option.isNone_some, Bool.false_eq_true, false_or]
    by_cases hc : ofBE (sig.take 32) ≥ p ∨ ofBE ((sig.drop 32).take 32) ≥ n
    · simp only [if_pos hc]
    · simp only [if_neg hc]
      split <;> (rename_i heq; rw [heq])

/-- … wrong lengths are refused by an exception … -/
theorem verify_rejects_lengths (sha256 : Bytes → Bytes) (msg pk sig : Bytes)
    (h : msg.length ≠ 32 ∨ pk.length ≠ 32 ∨ sig.length ≠ 64) :
    ∃ e, schnorrVerify sha256 msg pk sig = .error e := by
  unfold schnorrVerify
  simp only [bind, Except.bind, pure, Except.pure, throw, throwThe, MonadExceptOf.throw]
  by_cases h1 : msg.length ≠ 32
  · exact ⟨_, by rw [if_pos h1]⟩
  · rw [if_neg h1]
    by_cases h2 : pk.length ≠ 32
    · exact ⟨_, by rw [if_pos h2]⟩
    · rw [if_neg h2]
      by_cases h3 : sig.length ≠ 64
      · exact ⟨_, by rw [if_pos h3]⟩
      · exfalso; rcases h with h | h | h <;> contradiction

/-- … and out-of-range r or s, or an x-only key not on the curve, are rejected -/
theorem verify_rejects (sha256 : Bytes → Bytes) (msg pk sig : Bytes)
    (h : ofBE (sig.take 32) ≥ p ∨ ofBE ((sig.drop 32).take 32) ≥ n ∨ liftX (ofBE pk) = none) :
    bip340Verify sha256 msg pk sig = false := by
  unfold bip340Verify
  split
  · rfl
  · rename_i P hP
    rcases h with h | h | h
    · simp only [h, true_or, if_true]
    · simp only [h, or_true, if_true]
    · rw [h] at hP; cases hP


/-! ### the values computed by `schnorr_sign` -/

def dOf (d0 py : Nat) : Nat := if py % 2 == 0 then d0 else n - d0
def k0Of (sha256 : Bytes → Bytes) (msg aux : Bytes) (d px : Nat) : Nat :=
  ofBE (taggedHash sha256 "BIP0340/nonce"
    (schnorrXor (beBytes 32 d) (taggedHash sha256 "BIP0340/aux" aux) ++ beBytes 32 px ++ msg)) % n
def kOf (k0 ry : Nat) : Nat := if !(ry % 2 == 0) then n - k0 else k0
def eOf (sha256 : Bytes → Bytes) (msg : Bytes) (rx px : Nat) : Nat :=
  ofBE (taggedHash sha256 "BIP0340/challenge" (beBytes 32 rx ++ beBytes 32 px ++ msg)) % n
def sigOf (sha256 : Bytes → Bytes) (msg aux : Bytes) (d0 px py rx ry : Nat) : Bytes :=
  beBytes 32 rx ++
    beBytes 32 ((kOf (k0Of sha256 msg aux (dOf d0 py) px) ry + eOf sha256 msg rx px * dOf d0 py) % n)

theorem sigOf_length (sha256 : Bytes → Bytes) (msg aux : Bytes) (d0 px py rx ry : Nat) :
    (sigOf sha256 msg aux d0 px py rx ry).length = 64 := by
  simp [sigOf]

/-- what a successful run of `schnorr_sign` went through -/
theorem sign_ok_inv (sha256 : Bytes → Bytes) (msg sk aux sig : Bytes)
    (h : schnorrSign sha256 msg sk aux = .ok sig) :
    msg.length = 32 ∧ 1 ≤ ofBE sk ∧ ofBE sk < n ∧ aux.length = 32 ∧
    ∃ px py rx ry, mul G (ofBE sk) = some (px, py) ∧ px < 2 ^ 256 ∧
      k0Of sha256 msg aux (dOf (ofBE sk) py) px ≠ 0 ∧
      mul G (k0Of sha256 msg aux (dOf (ofBE sk) py) px) = some (rx, ry) ∧ rx < 2 ^ 256 ∧
      sig = sigOf sha256 msg aux (ofBE sk) px py rx ry ∧
      schnorrVerify sha256 msg (beBytes 32 px) sig = .ok true := by
  unfold schnorrSign at h
  simp only [bind, Except.bind, pure, Except.pure, throw, throwThe, MonadExceptOf.throw] at h
  split at h
  · cases h
  rename_i hm
  split at h
  · cases h
  rename_i hd0
  split at h
  · cases h
  rename_i ha
  split at h
  · cases h
  rename_i px py hP
  split at h
  · cases h
  rename_i db hdb
  split at h
  · cases h
  rename_i pb hpb
  split at h
  · cases h
  rename_i hk0
  split at h
  · cases h
  rename_i rx ry hR
  split at h
  · cases h
  rename_i rb hrb
  split at h
  · cases h
  rename_i sb hsb
  split at h
  · cases h
  rename_i ok hok
  split at h
  · cases h
  rename_i hok2
  obtain ⟨_, rfl⟩ := bytesFromInt_eq_ok _ _ hdb
  obtain ⟨hpx, rfl⟩ := bytesFromInt_eq_ok _ _ hpb
  obtain ⟨hrx, rfl⟩ := bytesFromInt_eq_ok _ _ hrb
  obtain ⟨_, rfl⟩ := bytesFromInt_eq_ok _ _ hsb
  injection h with h
  subst h
  have hok3 : ok = true := by simpa using hok2
  subst hok3
  have hd0' : 1 ≤ ofBE sk ∧ ofBE sk ≤ n - 1 := by
    simp at hd0; omega
  have := n_pos
  refine ⟨by omega, hd0'.1, by omega, by omega, px, py, rx, ry, hP, hpx, hk0, hR, hrx, rfl, hok⟩

/-- signing yields exactly the specified deterministic signature for (key, message, aux) -/
theorem sign_eq_spec (sha256 : Bytes → Bytes) (msg sk aux sig : Bytes)
    (h : schnorrSign sha256 msg sk aux = .ok sig) : bip340Sign sha256 msg sk aux = some sig := by
  obtain ⟨_, hd1, hd2, _, px, py, rx, ry, hP, _, hk0, hR, _, rfl, _⟩ := sign_ok_inv sha256 msg sk aux sig h
  unfold bip340Sign
  have hc : ¬ (ofBE sk = 0 ∨ ofBE sk ≥ n) := by omega
  simp only [if_neg hc, hP, hasEvenY, xonlyBytes, ← schnorrXor_eq]
  have e1 : (if (py % 2 == 0) = true then ofBE sk else n - ofBE sk) = dOf (ofBE sk) py := rfl
  rw [e1]
  have e2 : ofBE (taggedHash sha256 "BIP0340/nonce"
      (schnorrXor (beBytes 32 (dOf (ofBE sk) py)) (taggedHash sha256 "BIP0340/aux" aux) ++ beBytes 32 px ++ msg)) % n
      = k0Of sha256 msg aux (dOf (ofBE sk) py) px := rfl
  rw [e2]
  simp only [if_neg hk0, hR]
  unfold sigOf kOf eOf
  cases hry : (ry % 2 == 0) <;> simp

/-- a signature that `schnorr_sign` returns passes BIP340 verification under the signer's x-only key
(the code verifies before returning) -/
theorem sign_ok_verifies (sha256 : Bytes → Bytes) (hlen : ∀ b, (sha256 b).length = 32) (msg sk aux sig : Bytes)
    (h : schnorrSign sha256 msg sk aux = .ok sig) :
    ∃ x y, mul G (ofBE sk) = some (x, y) ∧ bip340Verify sha256 msg (beBytes 32 x) sig = true := by
  obtain ⟨hm, _, _, _, px, py, rx, ry, hP, _, _, _, _, hsig, hv⟩ := sign_ok_inv sha256 msg sk aux sig h
  refine ⟨px, py, hP, ?_⟩
  have hl : sig.length = 64 := by rw [hsig]; exact sigOf_length ..
  rw [verify_eq_spec sha256 msg (beBytes 32 px) sig hm (beBytes_length 32 px) hl] at hv
  injection hv

theorem sign_ok_intro (sha256 : Bytes → Bytes) (msg sk aux : Bytes)
    (hm : msg.length = 32) (hd1 : 1 ≤ ofBE sk) (hd2 : ofBE sk < n) (ha : aux.length = 32)
    (px py rx ry : Nat) (hP : mul G (ofBE sk) = some (px, py)) (hpx : px < 2 ^ 256)
    (hk0 : k0Of sha256 msg aux (dOf (ofBE sk) py) px ≠ 0)
    (hR : mul G (k0Of sha256 msg aux (dOf (ofBE sk) py) px) = some (rx, ry)) (hrx : rx < 2 ^ 256)
    (hv : schnorrVerify sha256 msg (beBytes 32 px) (sigOf sha256 msg aux (ofBE sk) px py rx ry) = .ok true) :
    schnorrSign sha256 msg sk aux = .ok (sigOf sha256 msg aux (ofBE sk) px py rx ry) := by
  have hnlt := n_lt
  unfold schnorrSign
  simp only [bind, Except.bind, pure, Except.pure, throw, throwThe, MonadExceptOf.throw]
  have c1 : ¬ msg.length ≠ 32 := by omega
  have c2 : ¬ (!decide (1 ≤ ofBE sk ∧ ofBE sk ≤ n - 1)) = true := by
    simp; omega
  have c3 : ¬ aux.length ≠ 32 := by omega
  rw [if_neg c1, if_neg c2, if_neg c3]
  simp only [hP]
  have e1 : (if (py % 2 == 0) = true then ofBE sk else n - ofBE sk) = dOf (ofBE sk) py := rfl
  rw [e1]
  have hd : dOf (ofBE sk) py < 2 ^ 256 := by unfold dOf; split <;> omega
  rw [bytesFromInt_ok _ hd, bytesFromInt_ok _ hpx]
  simp only []
  have e2 : ofBE (taggedHash sha256 "BIP0340/nonce"
      (schnorrXor (beBytes 32 (dOf (ofBE sk) py)) (taggedHash sha256 "BIP0340/aux" aux) ++ beBytes 32 px ++ msg)) % n
      = k0Of sha256 msg aux (dOf (ofBE sk) py) px := rfl
  rw [e2, if_neg hk0]
  simp only [hR]
  rw [bytesFromInt_ok _ hrx]
  simp only []
  have e3 : (if (!ry % 2 == 0) = true then n - k0Of sha256 msg aux (dOf (ofBE sk) py) px
      else k0Of sha256 msg aux (dOf (ofBE sk) py) px) = kOf (k0Of sha256 msg aux (dOf (ofBE sk) py) px) ry := rfl
  have e4 : ofBE (taggedHash sha256 "BIP0340/challenge" (beBytes 32 rx ++ beBytes 32 px ++ msg)) % n
      = eOf sha256 msg rx px := rfl
  rw [e3, e4]
  have hs : (kOf (k0Of sha256 msg aux (dOf (ofBE sk) py) px) ry + eOf sha256 msg rx px * dOf (ofBE sk) py) % n
      < 2 ^ 256 := by
    have := Nat.mod_lt (kOf (k0Of sha256 msg aux (dOf (ofBE sk) py) px) ry + eOf sha256 msg rx px * dOf (ofBE sk) py) n_pos
    omega
  rw [bytesFromInt_ok _ hs]
  simp only []
  have e5 : beBytes 32 rx ++ beBytes 32 ((kOf (k0Of sha256 msg aux (dOf (ofBE sk) py) px) ry +
      eOf sha256 msg rx px * dOf (ofBE sk) py) % n) = sigOf sha256 msg aux (ofBE sk) px py rx ry := rfl
  rw [e5, hv]
  rfl

/-! ### group-law consequences -/

theorem neg_some (x y : Nat) (h0 : 0 < y) (h1 : y < p) : neg (some (x, y)) = some (x, p - y) := by
  simp only [neg]
  rw [Nat.mod_eq_of_lt (by omega)]

/-- the y-normalised scalar: `a` or `n - a`, whichever gives the even-y point -/
theorem evenize (laws : CurveLaws) (a : Nat) (ha0 : 0 < a) (ha : a < n) (x y : Nat)
    (h : mul G a = some (x, y)) :
    0 < dOf a y ∧ dOf a y < n ∧
    mul G (dOf a y) = some (x, if y % 2 = 0 then y else p - y) ∧
    (if y % 2 = 0 then y else p - y) % 2 = 0 ∧
    liftX x = some (x, if y % 2 = 0 then y else p - y) := by
  obtain ⟨hx, hy0, hy⟩ := laws.coords a x y h
  have hp := p_odd
  refine ⟨?_, ?_, ?_, ?_, laws.liftX_mulG a x y h⟩
  · unfold dOf; split <;> omega
  · unfold dOf; split <;> omega
  · unfold dOf
    by_cases he : y % 2 = 0
    · simp only [he, beq_self_eq_true, if_true]; exact h
    · have : (y % 2 == 0) = false := by simpa using he
      simp only [this, Bool.false_eq_true, if_false, he]
      have h2 := laws.neg_mulG a ha
      rw [h, neg_some x y hy0 hy, Nat.mod_eq_of_lt (by omega)] at h2
      exact h2.symm
  · split <;> omega

theorem mod_cancel (k e d : Nat) (hk : k < n) (he : e < n) :
    ((k + e * d) % n + d * (n - e) % n) % n = k := by
  rw [← Nat.add_mod]
  have h1 : k + e * d + d * (n - e) = k + d * n := by
    have : e * d + d * (n - e) = d * n := by
      rw [Nat.mul_comm e d, ← Nat.mul_add]
      congr 1; omega
    omega
  rw [h1, Nat.add_mul_mod_self_right, Nat.mod_eq_of_lt hk]

/-- the verification equation `s·G + (n - e)·P = R` for `s = k + e·d` -/
theorem verify_core (laws : CurveLaws) (d k e : Nat) (hd : d < n) (hk : k < n) (he : e < n) :
    add (mul G ((k + e * d) % n)) (mul (mul G d) (n - e)) = mul G k := by
  have hn := n_lt
  rw [laws.mul_mulG d (n - e) hd (by omega)]
  rw [laws.add_mulG _ _ (Nat.mod_lt _ n_pos) (Nat.mod_lt _ n_pos)]
  rw [mod_cancel k e d hk he]

theorem kOf_eq_dOf (k r : Nat) : kOf k r = dOf k r := by
  unfold kOf dOf; cases (r % 2 == 0) <;> rfl

theorem eOf_lt (sha256 : Bytes → Bytes) (msg : Bytes) (rx px : Nat) : eOf sha256 msg rx px < n :=
  Nat.mod_lt _ n_pos

theorem verify_true (sha256 : Bytes → Bytes) (msg : Bytes) (px pye rx rye s : Nat)
    (hL : liftX px = some (px, pye)) (hpx : px < 2 ^ 256) (hrx : rx < p) (hs : s < n) (hev : rye % 2 = 0)
    (hR : add (mul G s) (mul (some (px, pye)) (n - eOf sha256 msg rx px)) = some (rx, rye)) :
    bip340Verify sha256 msg (beBytes 32 px) (beBytes 32 rx ++ beBytes 32 s) = true := by
  have hp := p_lt
  have hn := n_lt
  unfold bip340Verify
  rw [ofBE_beBytes32 px hpx, hL]
  simp only []
  rw [List.take_left' (beBytes_length 32 rx), List.drop_left' (beBytes_length 32 rx),
    List.take_of_length_le (by simp), ofBE_beBytes32 rx (by omega), ofBE_beBytes32 s (by omega)]
  have hc : ¬ (rx ≥ p ∨ s ≥ n) := by omega
  rw [if_neg hc]
  have e4 : ofBE (taggedHash sha256 "BIP0340/challenge" (beBytes 32 rx ++ beBytes 32 px ++ msg)) % n
      = eOf sha256 msg rx px := rfl
  rw [e4, hR]
  simp [hev]

/-- under the group laws the self-check never fires: for every valid key, message and aux (and a non-zero
nonce, which fails with probability 2^-256) signing succeeds -/
theorem sign_never_fails (laws : CurveLaws) (sha256 : Bytes → Bytes) (hlen : ∀ b, (sha256 b).length = 32)
    (msg sk aux : Bytes) (h1 : msg.length = 32) (h2 : sk.length = 32) (h3 : aux.length = 32)
    (hd : 1 ≤ ofBE sk ∧ ofBE sk < n)
    (hk : ∀ x y, mul G (ofBE sk) = some (x, y) →
      ofBE (taggedHash sha256 "BIP0340/nonce"
        (schnorrXor (beBytes 32 (if y % 2 == 0 then ofBE sk else n - ofBE sk)) (taggedHash sha256 "BIP0340/aux" aux)
          ++ beBytes 32 x ++ msg)) % n ≠ 0) :
    ∃ sig, schnorrSign sha256 msg sk aux = .ok sig ∧ sig.length = 64 := by
  have hp := p_lt
  have hn := n_lt
  cases hP : mul G (ofBE sk) with
  | none => exact absurd hP (laws.mulG_ne_none _ (by omega) hd.2)
  | some P =>
    obtain ⟨px, py⟩ := P
    obtain ⟨hpxp, _, _⟩ := laws.coords _ px py hP
    obtain ⟨hd0, hdn, hdG, _, hL⟩ := evenize laws _ (by omega) hd.2 px py hP
    have hk0 : k0Of sha256 msg aux (dOf (ofBE sk) py) px ≠ 0 := hk px py hP
    have hk0n : k0Of sha256 msg aux (dOf (ofBE sk) py) px < n := Nat.mod_lt _ n_pos
    cases hR : mul G (k0Of sha256 msg aux (dOf (ofBE sk) py) px) with
    | none => exact absurd hR (laws.mulG_ne_none _ (by omega) hk0n)
    | some R =>
      obtain ⟨rx, ry⟩ := R
      obtain ⟨hrxp, _, _⟩ := laws.coords _ rx ry hR
      obtain ⟨hkk0, hkn, hkG, hev, _⟩ := evenize laws _ (by omega) hk0n rx ry hR
      have hpx2 : px < 2 ^ 256 := by omega
      have hrx2 : rx < 2 ^ 256 := by omega
      have hv : bip340Verify sha256 msg (beBytes 32 px) (sigOf sha256 msg aux (ofBE sk) px py rx ry) = true := by
        unfold sigOf
        refine verify_true sha256 msg px _ rx _ _ hL hpx2 hrxp (Nat.mod_lt _ n_pos) hev ?_
        rw [← hdG, kOf_eq_dOf, verify_core laws _ _ _ hdn hkn (eOf_lt sha256 msg rx px), hkG]
      have hv2 : schnorrVerify sha256 msg (beBytes 32 px) (sigOf sha256 msg aux (ofBE sk) px py rx ry) = .ok true := by
        rw [verify_eq_spec sha256 _ _ _ h1 (beBytes_length 32 px) (sigOf_length ..), hv]
      exact ⟨_, sign_ok_intro sha256 msg sk aux h1 hd.1 hd.2 h3 px py rx ry hP hpx2 hk0 hR hrx2 hv2, sigOf_length ..⟩

end SchnorrLemmas
