import BU.Properties.C15_GenHeader
import BU.Properties.C01_GenParse
import BU.Proofs.GenTxLen
import BU.Properties.C17
/-!
# `Block.from_raw` as *generated* code = the hand model `Model.Block.parse`

The generated function is first restated with its loop body as a named function (`blockG_eq`, by `rfl`: any change of the translated
text breaks it).  The body's three outcomes — the length scanner raises, `Transaction.from_raw` raises, both succeed — are the three
branches of `Model.blockTxs` (`step_facts`, from the tier-T theorems about `get_transaction_length` and `Transaction.from_raw`); the
loop with its `except … break` is `blockTxs` by induction on the list of indices (`loop_blockTxs`).  Mathlib-free.
-/
namespace GenBlock
open Py Model

abbrev St := Int × Py.PyTx × List Py.PyTx × Int

def stepG (T : Tables) (data : Bytes) (_i : Nat) (s : St) : Except PyErr (ForInStep St) :=
  match Gen.get_transaction_length (slice data s.2.2.2 slEnd) with
  | .ok t4 =>
    match Gen.transaction_from_raw T.codeOps (slice data s.2.2.2 (s.2.2.2 + t4)) with
    | .ok t5 =>
      match Gen.transaction_from_raw T.codeOps (slice data s.2.2.2 (s.2.2.2 + t4)) with
      | .ok t6 => pure (.yield (t4, t6, s.2.2.1 ++ [t5], s.2.2.2 + t4))
      | _ => pure (.done (t4, s.2.1, s.2.2.1 ++ [t5], s.2.2.2))
    | _ => pure (.done (t4, s.2.1, s.2.2.1, s.2.2.2))
  | _ => pure (.done (s.1, s.2.1, s.2.2.1, s.2.2.2))

def blockG (T : Tables) (data : Bytes) : Except PyErr Py.PyBlock := do
  let t1 ← unpack1 "<I" (slice data 4 8)
  let t2 ← Gen.blockheader_from_raw (slice data 8 (8 + 80))
  let t3 ← Gen.parse_compact_size (slice data 88 slEnd)
  let s ← forIn [:t3.fst.toNat] ((0 : Int), (default : Py.PyTx), ([] : List Py.PyTx), 88 + t3.snd) (stepG T data)
  pure { magic := slice data 0 4, block_size := t1, header := t2, transaction_count := t3.fst, transactions := s.2.2.1 }

theorem blockG_eq (T : Tables) (data : Bytes) : Gen.block_from_raw T.codeOps data = blockG T data := by
  unfold Gen.block_from_raw
  simp only [if_true]
  rfl

open C01GenParse C15GenHeader

theorem step_facts (T : Tables) (data : Bytes) (hlen : data.length < 2 ^ 63) (i : Nat) (tl : Int) (tmp : Py.PyTx) (txs : List Py.PyTx) (off : Nat) :
    match txLength (data.drop off) with
    | .error _ => stepG T data i (tl, tmp, txs, (off : Int)) = .ok (.done (tl, tmp, txs, (off : Int)))
    | .ok len =>
      match Tx.parse T ((data.drop off).take len) with
      | .error _ => stepG T data i (tl, tmp, txs, (off : Int)) = .ok (.done ((len : Int), tmp, txs, (off : Int)))
      | .ok t => stepG T data i (tl, tmp, txs, (off : Int)) = .ok (.yield ((len : Int), txPy t, txs ++ [txPy t], ((off + len : Nat) : Int))) := by
  have hd : (data.drop off).length < 2 ^ 63 := by rw [List.length_drop]; omega
  have h1 := GenTxLen.gen_tx_length (data.drop off) hd
  unfold stepG
  simp only []
  rw [slice_end data off hlen]
  cases hm : txLength (data.drop off) with
  | error e =>
    rw [hm] at h1
    cases hg : Gen.get_transaction_length (data.drop off) with
    | error e' => rfl
    | ok v => rw [hg] at h1; cases h1
  | ok len =>
    rw [hm] at h1
    cases hg : Gen.get_transaction_length (data.drop off) with
    | error e' => rw [hg] at h1; cases h1
    | ok v =>
      rw [hg] at h1
      have hv : v = (len : Int) := by
        simp only [Except.toOption, Option.map] at h1
        exact Option.some.inj h1
      subst hv
      simp only []
      rw [C02Gen.slice_nat data off len]
      have hl2 : ((data.drop off).take len).length < 2 ^ 63 := by rw [List.length_take]; omega
      have h2 := gen_transaction_from_raw T ((data.drop off).take len) hl2
      cases hp : Tx.parse T ((data.drop off).take len) with
      | error e =>
        rw [hp] at h2
        obtain ⟨e', he'⟩ := h2
        simp only [he']
        rfl
      | ok t =>
        rw [hp] at h2
        simp only [h2]
        have : ((off : Int) + (len : Int)) = ((off + len : Nat) : Int) := by omega
        rw [this]
        rfl

theorem loop_blockTxs (T : Tables) (data : Bytes) (hlen : data.length < 2 ^ 63) (l : List Nat) (tl : Int) (tmp : Py.PyTx)
    (txs : List Py.PyTx) (off : Nat) :
    ∃ s', forIn l (tl, tmp, txs, (off : Int)) (stepG T data) = .ok s' ∧ s'.2.2.1 = txs ++ (blockTxs T data l.length off).map txPy := by
  induction l generalizing tl tmp txs off with
  | nil => exact ⟨_, rfl, by simp [blockTxs]⟩
  | cons i l ih =>
    rw [List.forIn_cons, List.length_cons]
    have hs := step_facts T data hlen i tl tmp txs off
    unfold blockTxs
    cases hm : txLength (data.drop off) with
    | error e =>
      rw [hm] at hs
      simp only [] at hs ⊢
      rw [hs]
      exact ⟨_, rfl, by simp⟩
    | ok len =>
      rw [hm] at hs
      simp only [] at hs ⊢
      cases hp : Tx.parse T ((data.drop off).take len) with
      | error e =>
        rw [hp] at hs
        simp only [] at hs ⊢
        rw [hs]
        exact ⟨_, rfl, by simp⟩
      | ok t =>
        rw [hp] at hs
        simp only [] at hs ⊢
        rw [hs]
        obtain ⟨s', h1, h2⟩ := ih (len : Int) (txPy t) (txs ++ [txPy t]) (off + len)
        exact ⟨s', h1, by rw [h2]; simp⟩

theorem range_blockTxs (T : Tables) (data : Bytes) (hlen : data.length < 2 ^ 63) (n : Nat) (tl : Int) (tmp : Py.PyTx)
    (txs : List Py.PyTx) (off : Nat) :
    ∃ s', forIn [:n] (tl, tmp, txs, (off : Int)) (stepG T data) = .ok s' ∧ s'.2.2.1 = txs ++ (blockTxs T data n off).map txPy := by
  rw [Std.Legacy.Range.forIn_eq_forIn_range']
  have e : (List.range' (0 : Nat) (([:n] : Std.Legacy.Range)).size 1).length = n := by
    simp [Std.Legacy.Range.size]
  have := loop_blockTxs T data hlen (List.range' (0 : Nat) (([:n] : Std.Legacy.Range)).size 1) tl tmp txs off
  rw [e] at this
  exact this

def blockPy (b : Block) : Py.PyBlock := ⟨b.magic, (b.size : Int), hdrPy b.header, (b.count : Int), b.txs.map txPy⟩

theorem unpack1_I_nonneg (b : Bytes) (v : Int) (h : unpack1 "<I" b = .ok v) : ((v.toNat : Nat) : Int) = v := by
  have hf : fmtSize "<I" = some (4, false) := by decide +kernel
  unfold unpack1 at h
  rw [hf] at h
  simp only [] at h
  unfold unpackU at h
  split at h
  · cases h; simp
  · cases h

theorem gen_block_from_raw (T : Tables) (data : Bytes) (hlen : data.length < 2 ^ 63) :
    (Gen.block_from_raw T.codeOps data).toOption = (Block.parse T data).toOption.map blockPy := by
  rw [blockG_eq]
  unfold blockG Block.parse
  cases hu : unpack1 "<I" (slice data 4 8) with
  | error e => rfl
  | ok size =>
    rw [ok_bind, ok_bind, show ((8 : Int) + 80) = 88 from rfl, gen_header_from_raw]
    cases hh : Header.parse (slice data 8 88) with
    | error e => rfl
    | ok hd =>
      simp only [Except.map, ok_bind]
      rw [show (88 : Int) = ((88 : Nat) : Int) from rfl, slice_end data 88 hlen]
      have hcs := C17.parse_compact_size_eq_spec (data.drop 88)
      unfold skipCS
      cases hd' : Spec.decodeCompactSize (data.drop 88) with
      | none =>
        rw [hd'] at hcs
        cases hg : Gen.parse_compact_size (data.drop 88) with
        | error e => rfl
        | ok vk => rw [hg] at hcs; cases hcs
      | some nk =>
        obtain ⟨cnt, k⟩ := nk
        rw [hd'] at hcs
        cases hg : Gen.parse_compact_size (data.drop 88) with
        | error e => rw [hg] at hcs; cases hcs
        | ok vk =>
          obtain ⟨v, kk⟩ := vk
          rw [hg] at hcs
          simp only [Option.map, Option.some.injEq, Prod.mk.injEq] at hcs
          obtain ⟨rfl, rfl⟩ := hcs
          simp only [ok_bind, Int.toNat_natCast]
          have e88 : ((88 : Nat) : Int) + (k : Int) = ((88 + k : Nat) : Int) := by omega
          rw [e88]
          obtain ⟨s', h1, h2⟩ := range_blockTxs T data hlen cnt 0 default [] (88 + k)
          rw [h1, ok_bind]
          simp only [h2, List.nil_append, Except.toOption, Option.map, pure, Except.pure, blockPy, unpack1_I_nonneg _ _ hu]
          rfl

end GenBlock
