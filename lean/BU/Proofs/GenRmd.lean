import BU.Gen.Codec
import BU.Model.Ripemd
import BU.Proofs.IntBits
import BU.Proofs.PyLemmas
/-! Proofs for `BU/Properties/C20_Gen.lean`: the *generated* `rol` and `fi` of `ripemd160.py` (Python's unbounded ints,
negative values from `~`, masking only in `rol`) agree with the word-level hand model modulo 2^32, on every int.  Bit-level
reasoning through `BU/Proofs/IntBits.lean`.  Mathlib-free. -/
namespace GenRmd
open Model Py IntBits

def w32 (x : Int) : UInt32 := UInt32.ofNat (x % 4294967296).toNat

/-- the low 32 bits of a Python int, as a natural number -/
def m32 (x : Int) : Nat := (x % 4294967296).toNat

theorem m32_spec (x : Int) :
    x % 4294967296 = (m32 x : Int) ∧ m32 x < 2 ^ 32 ∧ ∀ j, (m32 x).testBit j = (decide (j < 32) && tb x j) := by
  obtain ⟨m, h1, h2, h3⟩ := emod_two_pow x 32
  have e : (2 : Int) ^ 32 = 4294967296 := by decide
  rw [e] at h1
  have hm : m32 x = m := by unfold m32; rw [h1]; rfl
  rw [hm]
  exact ⟨h1, h2, h3⟩

theorem w32_toNat (x : Int) : (w32 x).toNat = m32 x := by
  have := (m32_spec x).2.1
  show (UInt32.ofNat (m32 x)).toNat = m32 x
  simp [UInt32.toNat_ofNat']
  omega

theorem not_bit (a : Nat) (h : a < 2 ^ 32) (j : Nat) :
    (UInt32.size - 1 - a).testBit j = (decide (j < 32) && !a.testBit j) := by
  have : UInt32.size - 1 - a = 2 ^ 32 - (a + 1) := by
    have : UInt32.size = 2 ^ 32 := by decide
    omega
  rw [this, Nat.testBit_two_pow_sub_succ h]

/-- a value is determined modulo 2^32 by its low bits -/
theorem mod_eq_of_bits (v : Int) (n : Nat) (hn : n < 2 ^ 32)
    (h : ∀ j, j < 32 → tb v j = n.testBit j) : v % 4294967296 = (n : Int) := by
  obtain ⟨h1, h2, h3⟩ := m32_spec v
  rw [h1]
  congr 1
  apply Nat.eq_of_testBit_eq
  intro j
  rw [h3]
  by_cases hj : j < 32
  · simp [hj, h j hj]
  · have : n.testBit j = false := Nat.testBit_lt_two_pow (Nat.lt_of_lt_of_le hn (Nat.pow_le_pow_right (by omega) (by omega)))
    simp [hj, this]

theorem fi0 (x y z : Int) : Gen.rmd_fi x y z 0 = .ok (lxor (lxor x y) z) := rfl
theorem fi1 (x y z : Int) : Gen.rmd_fi x y z 1 = .ok (lor (land x y) (land (lnot x) z)) := rfl
theorem fi2 (x y z : Int) : Gen.rmd_fi x y z 2 = .ok (lxor (lor x (lnot y)) z) := rfl
theorem fi3 (x y z : Int) : Gen.rmd_fi x y z 3 = .ok (lor (land x z) (land y (lnot z))) := rfl
theorem fi4 (x y z : Int) : Gen.rmd_fi x y z 4 = .ok (lxor x (lor y (lnot z))) := rfl

theorem gen_fi (x y z : Int) (i : Nat) (hi : i ≤ 4) :
    (Gen.rmd_fi x y z (i : Int)).map (fun v => v % 4294967296) = .ok (((Rmd.fi (w32 x) (w32 y) (w32 z) i).toNat : Nat) : Int) := by
  have hx := (m32_spec x).2; have hy := (m32_spec y).2; have hz := (m32_spec z).2
  have cases5 : i = 0 ∨ i = 1 ∨ i = 2 ∨ i = 3 ∨ i = 4 := by omega
  rcases cases5 with rfl | rfl | rfl | rfl | rfl
  · rw [show ((0 : Nat) : Int) = 0 from rfl, fi0]
    show Except.ok (_ % 4294967296) = _
    congr 1
    apply mod_eq_of_bits _ _ (UInt32.toNat_lt _)
    intro j hj
    rw [show Rmd.fi (w32 x) (w32 y) (w32 z) 0 = w32 x ^^^ w32 y ^^^ w32 z from rfl]
    simp only [UInt32.toNat_xor, w32_toNat, Nat.testBit_xor, hx.2, hy.2, hz.2, tb_lxor, hj, decide_true, Bool.true_and]
  · rw [show ((1 : Nat) : Int) = 1 from rfl, fi1]
    show Except.ok (_ % 4294967296) = _
    congr 1
    apply mod_eq_of_bits _ _ (UInt32.toNat_lt _)
    intro j hj
    rw [show Rmd.fi (w32 x) (w32 y) (w32 z) 1 = (w32 x &&& w32 y) ||| (~~~ w32 x &&& w32 z) from rfl]
    simp only [UInt32.toNat_or, UInt32.toNat_and, UInt32.toNat_not, w32_toNat, Nat.testBit_or, Nat.testBit_and,
      not_bit _ hx.1, hx.2, hy.2, hz.2, tb_lor, tb_land, tb_lnot, hj, decide_true, Bool.true_and]
  · rw [show ((2 : Nat) : Int) = 2 from rfl, fi2]
    show Except.ok (_ % 4294967296) = _
    congr 1
    apply mod_eq_of_bits _ _ (UInt32.toNat_lt _)
    intro j hj
    rw [show Rmd.fi (w32 x) (w32 y) (w32 z) 2 = (w32 x ||| ~~~ w32 y) ^^^ w32 z from rfl]
    simp only [UInt32.toNat_or, UInt32.toNat_xor, UInt32.toNat_not, w32_toNat, Nat.testBit_or, Nat.testBit_xor,
      not_bit _ hy.1, hx.2, hy.2, hz.2, tb_lor, tb_lxor, tb_lnot, hj, decide_true, Bool.true_and]
  · rw [show ((3 : Nat) : Int) = 3 from rfl, fi3]
    show Except.ok (_ % 4294967296) = _
    congr 1
    apply mod_eq_of_bits _ _ (UInt32.toNat_lt _)
    intro j hj
    rw [show Rmd.fi (w32 x) (w32 y) (w32 z) 3 = (w32 x &&& w32 z) ||| (w32 y &&& ~~~ w32 z) from rfl]
    simp only [UInt32.toNat_or, UInt32.toNat_and, UInt32.toNat_not, w32_toNat, Nat.testBit_or, Nat.testBit_and,
      not_bit _ hz.1, hx.2, hy.2, hz.2, tb_lor, tb_land, tb_lnot, hj, decide_true, Bool.true_and]
  · rw [show ((4 : Nat) : Int) = 4 from rfl, fi4]
    show Except.ok (_ % 4294967296) = _
    congr 1
    apply mod_eq_of_bits _ _ (UInt32.toNat_lt _)
    intro j hj
    rw [show Rmd.fi (w32 x) (w32 y) (w32 z) 4 = w32 x ^^^ (w32 y ||| ~~~ w32 z) from rfl]
    simp only [UInt32.toNat_or, UInt32.toNat_xor, UInt32.toNat_not, w32_toNat, Nat.testBit_or, Nat.testBit_xor,
      not_bit _ hz.1, hx.2, hy.2, hz.2, tb_lor, tb_lxor, tb_lnot, hj, decide_true, Bool.true_and]

theorem gen_fi_rejects (x y z : Int) (i : Int) (hi : i < 0 ∨ 4 < i) : Gen.rmd_fi x y z i = .error .assertion := by
  unfold Gen.rmd_fi
  have h0 : (i == 0) = false := by simp only [beq_eq_false_iff_ne]; omega
  have h1 : (i == 1) = false := by simp only [beq_eq_false_iff_ne]; omega
  have h2 : (i == 2) = false := by simp only [beq_eq_false_iff_ne]; omega
  have h3 : (i == 3) = false := by simp only [beq_eq_false_iff_ne]; omega
  have h4 : (i == 4) = false := by simp only [beq_eq_false_iff_ne]; omega
  simp only [h0, h1, h2, h3, h4]
  rfl

/-! ### rol -/

theorem land_nonneg_right (x : Int) (b : Nat) : 0 ≤ land x (b : Int) := by
  cases x <;> simp [land] <;> omega

/-- `x & 0xffffffff` is the low 32 bits -/
theorem land_mask (x : Int) : land x 4294967295 = (m32 x : Int) := by
  apply natCast_eq_of_tb (land_nonneg_right x 4294967295)
  intro j
  rw [tb_land, (m32_spec x).2.2 j]
  show (tb x j && tb (((2 ^ 32 - 1 : Nat)) : Int) j) = _
  rw [tb_ofNat, Nat.testBit_two_pow_sub_one, Bool.and_comm]

/-- bits of `x << i` -/
theorem tb_mul_two_pow (x : Int) (i j : Nat) : tb (x * 2 ^ i) j = (decide (i ≤ j) && tb x (j - i)) := by
  cases x with
  | ofNat a =>
    have : (Int.ofNat a) * 2 ^ i = ((a * 2 ^ i : Nat) : Int) := by
      show (a : Int) * 2 ^ i = _
      rw [Int.natCast_mul, Int.natCast_pow]; rfl
    rw [this, tb_ofNat, Nat.testBit_mul_two_pow]
    rfl
  | negSucc a =>
    have hpos : 0 < 2 ^ i := Nat.two_pow_pos i
    have : (Int.negSucc a) * 2 ^ i = Int.negSucc (2 ^ i * a + (2 ^ i - 1)) := by
      have e : ((2 : Int) ^ i) = ((2 ^ i : Nat) : Int) := by rw [Int.natCast_pow]; rfl
      rw [e, Int.negSucc_eq, Int.negSucc_eq]
      have : ((2 ^ i * a + (2 ^ i - 1) : Nat) : Int) = (2 ^ i : Nat) * (a : Int) + ((2 ^ i : Nat) - 1) := by
        rw [Int.natCast_add, Int.natCast_mul, Int.natCast_sub (by omega)]; rfl
      rw [this]
      generalize ((2 ^ i : Nat) : Int) = P
      rw [Int.neg_mul, Int.add_mul, Int.one_mul, Int.mul_comm (a : Int) P]
      omega
    rw [this, tb_negSucc, Nat.testBit_two_pow_mul_add a (by omega : 2 ^ i - 1 < 2 ^ i), Nat.testBit_two_pow_sub_one, tb_negSucc]
    by_cases h : j < i
    · have : ¬ i ≤ j := by omega
      simp [h, this]
    · have : i ≤ j := by omega
      simp [h, this]

theorem rol_toNat (w : UInt32) (i : Nat) (hi : i ≤ 32) :
    (Rmd.rol w i).toNat = (w.toNat <<< (i % 32)) % 2 ^ 32 ||| w.toNat >>> ((32 - i) % 32) := by
  unfold Rmd.rol
  rw [UInt32.toNat_or, UInt32.toNat_shiftLeft, UInt32.toNat_shiftRight]
  have e1 : (UInt32.ofNat i).toNat = i := by
    simp [UInt32.toNat_ofNat']; omega
  have e2 : (UInt32.ofNat (32 - i)).toNat = 32 - i := by
    simp [UInt32.toNat_ofNat']; omega
  rw [e1, e2]

theorem gen_rol (x : Int) (i : Nat) (hi : i ≤ 32) :
    Gen.rmd_rol x (i : Int) = .ok (((Rmd.rol (w32 x) i).toNat : Nat) : Int) := by
  obtain ⟨_, hm, hbits⟩ := m32_spec x
  unfold Gen.rmd_rol
  have hshl : Py.shl x (i : Int) = .ok (x * 2 ^ i) := by
    unfold Py.shl; rw [if_neg (by omega), Int.toNat_natCast]
  have hsub : ((32 : Int) - (i : Int)) = ((32 - i : Nat) : Int) := by omega
  have hshr : Py.shr ((m32 x : Nat) : Int) ((32 - i : Nat) : Int) = .ok (((m32 x >>> (32 - i) : Nat)) : Int) := by
    unfold Py.shr
    rw [if_neg (by omega), Int.toNat_natCast]
    congr 1
    rw [Nat.shiftRight_eq_div_pow]
    norm_cast
  rw [hshl, ok_bind, land_mask, hsub, hshr, ok_bind]
  show Except.ok (land _ 4294967295) = _
  rw [land_mask]
  congr 2
  -- both sides are below 2^32: compare bit by bit
  apply Nat.eq_of_testBit_eq
  intro j
  rw [(m32_spec _).2.2 j, tb_lor, tb_mul_two_pow, tb_ofNat, Nat.testBit_shiftRight, hbits, rol_toNat _ i hi, w32_toNat,
    Nat.testBit_or, Nat.testBit_mod_two_pow, Nat.testBit_shiftLeft, Nat.testBit_shiftRight, hbits, hbits]
  by_cases h32 : i = 32
  · subst h32
    by_cases hj : j < 32
    · have : ¬ 32 ≤ j := by omega
      simp [hj, this]
    · simp [hj]
  · by_cases h0 : i = 0
    · subst h0
      by_cases hj : j < 32
      · have : ¬ (32 + j < 32) := by omega
        simp [hj, this]
      · simp [hj]
    · have e1 : i % 32 = i := Nat.mod_eq_of_lt (by omega)
      have e2 : (32 - i) % 32 = 32 - i := Nat.mod_eq_of_lt (by omega)
      rw [e1, e2]
      by_cases hj : j < 32
      · by_cases hij : i ≤ j
        · have a1 : j - i < 32 := by omega
          have a2 : ¬ (32 - i + j < 32) := by omega
          simp [hj, hij, a1, a2]
        · have a2 : 32 - i + j < 32 := by omega
          simp [hj, hij, a2]
      · have a2 : ¬ (32 - i + j < 32) := by omega
        simp [hj, a2]

end GenRmd
