import BU.Gen.Codec
import BU.Model.Ripemd
/-! helper lemmas and proofs for `BU/Properties/C20_Gen.lean` (generated ripemd160 rol / fi = hand model mod 2^32) -/
namespace GenRmd
open Model

def w32 (x : Int) : UInt32 := UInt32.ofNat (x % 4294967296).toNat

theorem gen_rol (x : Int) (i : Nat) (hi : i ≤ 32) :
    Gen.rmd_rol x (i : Int) = .ok (((Rmd.rol (w32 x) i).toNat : Nat) : Int) := by sorry

theorem gen_fi (x y z : Int) (i : Nat) (hi : i ≤ 4) :
    (Gen.rmd_fi x y z (i : Int)).map (fun v => v % 4294967296) = .ok (((Rmd.fi (w32 x) (w32 y) (w32 z) i).toNat : Nat) : Int) := by sorry

theorem gen_fi_rejects (x y z : Int) (i : Int) (hi : i < 0 ∨ 4 < i) : Gen.rmd_fi x y z i = .error .assertion := by sorry

end GenRmd
