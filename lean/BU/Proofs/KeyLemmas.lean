import BU.Py
import BU.Crypto.Secp256k1
import BU.Model.Keys
import BU.Proofs.PyLemmas
/-! Helper lemmas for C09 (key encodings): correctness of `Secp.powMod`, square roots modulo `p`,
negation on the curve, and byte-level facts about `dropLast4`/`last4`. -/
namespace KeyLemmas
open Py Spec Model Secp

/-! ### constants -/
theorem p_lt : p < 2 ^ 256 := by decide
theorem p_lt' : p < 256 ^ 32 := by decide
theorem n_lt' : n < 256 ^ 32 := by decide
theorem pow256_32 : (256 : Nat) ^ 32 = 2 ^ 256 := by decide
theorem p_odd : p % 2 = 1 := by decide
theorem p_pos : 0 < p := by decide

/-! ### `powMod` -/

theorem powModFuel_eq (m : Nat) (f : Nat) : ∀ (b e acc : Nat), e < 2 ^ f → acc < m →
    powModFuel f b e m acc = acc * b ^ e % m := by
  induction f with
  | zero =>
    intro b e acc he hacc
    have : e = 0 := by simpa using he
    subst this
    simp [powModFuel, Nat.mod_eq_of_lt hacc]
  | succ f ih =>
    intro b e acc he hacc
    unfold powModFuel
    by_cases h0 : e = 0
    · subst h0; simp [Nat.mod_eq_of_lt hacc]
    · rw [if_neg h0]
      have hm : 0 < m := by omega
      have he2 : e / 2 < 2 ^ f := by
        rw [Nat.pow_succ] at he; omega
      have hsplit : b ^ e = (b * b) ^ (e / 2) * b ^ (e % 2) := by
        conv => lhs; rw [← Nat.div_add_mod e 2]
        rw [Nat.pow_add, Nat.pow_mul, Nat.pow_two]
      by_cases hodd : e % 2 = 1
      · rw [if_pos hodd, ih _ _ _ he2 (Nat.mod_lt _ hm), hsplit, hodd, Nat.pow_one]
        rw [Nat.mul_mod, Nat.mod_mod, Nat.pow_mod, Nat.mod_mod, ← Nat.pow_mod, ← Nat.mul_mod]
        congr 1
        rw [Nat.mul_assoc, Nat.mul_comm b]
      · have hev : e % 2 = 0 := by omega
        rw [if_neg hodd, ih _ _ _ he2 hacc, hsplit, hev, Nat.pow_zero, Nat.mul_one]
        rw [Nat.mul_mod, Nat.pow_mod, Nat.mod_mod, ← Nat.pow_mod, ← Nat.mul_mod]

theorem powMod_eq (b e m : Nat) (hm : 0 < m) : powMod b e m = b ^ e % m := by
  unfold powMod
  rw [powModFuel_eq m _ _ _ _ (Py.lt_two_pow_natBits e) (Nat.mod_lt _ hm)]
  rw [Nat.mul_mod, Nat.mod_mod, Nat.pow_mod, Nat.mod_mod, ← Nat.pow_mod, ← Nat.mul_mod, Nat.one_mul]

theorem powMod_lt (b e m : Nat) (hm : 0 < m) : powMod b e m < m := by
  rw [powMod_eq b e m hm]; exact Nat.mod_lt _ hm

/-! ### squares modulo `m`, negation on the curve -/

theorem sq_neg_mod (m y : Nat) (h : y ≤ m) : (m - y) * (m - y) % m = y * y % m := by
  obtain ⟨k, rfl⟩ : ∃ k, m = k + y := ⟨m - y, by omega⟩
  have e : k + y - y = k := by omega
  rw [e]
  have h1 : k * k + y * (k + y) = y * y + k * (k + y) := by
    rw [Nat.mul_add, Nat.mul_add, Nat.mul_comm y k]; omega
  calc k * k % (k + y) = (k * k + y * (k + y)) % (k + y) := by rw [Nat.add_mul_mod_self_right]
    _ = (y * y + k * (k + y)) % (k + y) := by rw [h1]
    _ = y * y % (k + y) := by rw [Nat.add_mul_mod_self_right]

theorem onCurve_neg (x y : Nat) (h0 : 0 < y) (hy : y < p) :
    onCurve (some (x, p - y)) = onCurve (some (x, y)) := by
  have h1 : p - y < p := by omega
  simp only [onCurve, sq_neg_mod p y (Nat.le_of_lt hy), h1, hy]

/-! ### `liftX` and `sqrtAll` -/

theorem liftX_some (x yev : Nat) (h : liftX x = some (x, yev)) :
    x < p ∧ powMod ((x ^ 3 + 7) % p) ((p + 1) / 4) p * powMod ((x ^ 3 + 7) % p) ((p + 1) / 4) p % p
        = (x ^ 3 + 7) % p ∧
      yev = if powMod ((x ^ 3 + 7) % p) ((p + 1) / 4) p % 2 = 0 then powMod ((x ^ 3 + 7) % p) ((p + 1) / 4) p
            else p - powMod ((x ^ 3 + 7) % p) ((p + 1) / 4) p := by
  unfold liftX at h
  have e3 : (powMod x 3 p + 7) % p = (x ^ 3 + 7) % p := by
    rw [powMod_eq _ _ _ p_pos, Nat.mod_add_mod]
  simp only [e3] at h
  split at h
  · cases h
  · rename_i hx
    split at h
    · cases h
    · rename_i hsq
      have hsq' := Classical.not_not.mp hsq
      rw [powMod_eq _ _ _ p_pos, Nat.pow_two] at hsq'
      simp only [Option.some.injEq, Prod.mk.injEq, true_and] at h
      exact ⟨by omega, hsq', h.symm⟩

/-- the square roots sympy returns for the x coordinate of a curve point whose `lift_x` succeeds -/
theorem sqrtAll_of_liftX (x y : Nat) (h0 : 0 < y) (hy : y < p)
    (hl : liftX x = some (x, if y % 2 = 0 then y else p - y)) :
    ∃ r, 0 < r ∧ r < p ∧ (y = r ∨ y = p - r) ∧
      sqrtAll ((x ^ 3 + 7) % p) = if r < p - r then [r, p - r] else [p - r, r] := by
  obtain ⟨_, hsq, hev⟩ := liftX_some x _ hl
  have hr := powMod_lt ((x ^ 3 + 7) % p) ((p + 1) / 4) p p_pos
  have hs : sqrtAll ((x ^ 3 + 7) % p) =
      (let r := powMod ((x ^ 3 + 7) % p) ((p + 1) / 4) p
       if r * r % p ≠ (x ^ 3 + 7) % p % p then []
       else if r = 0 then [0]
       else if r < p - r then [r, p - r] else [p - r, r]) := rfl
  rw [hs]
  generalize powMod ((x ^ 3 + 7) % p) ((p + 1) / 4) p = r at *
  have hp := p_odd
  have hr0 : 0 < r := by split at hev <;> split at hev <;> omega
  refine ⟨r, hr0, hr, ?_, ?_⟩
  · split at hev <;> split at hev <;> omega
  · have hne : r ≠ 0 := by omega
    simp only [Nat.mod_mod, hsq, ne_eq, not_true_eq_false, if_false, hne]

/-! ### `VerifyingKey.from_string` on the 64-byte form of a curve point -/

theorem verifyingKey_ok (x y : Nat) (hx : x < p) (hy : y < p) (hc : onCurve (some (x, y)) = true) :
    verifyingKeyFromString (beBytes 32 x ++ beBytes 32 y) = .ok (x, y) := by
  have hx' : x < 256 ^ 32 := Nat.lt_trans hx p_lt'
  have hy' : y < 256 ^ 32 := Nat.lt_trans hy p_lt'
  unfold verifyingKeyFromString
  have ht : (beBytes 32 x ++ beBytes 32 y).take 32 = beBytes 32 x := by
    rw [List.take_left']; simp
  have hdr : (beBytes 32 x ++ beBytes 32 y).drop 32 = beBytes 32 y := by
    rw [List.drop_left']; simp
  simp [ht, hdr, Py.ofBE_beBytes 32 x hx', Py.ofBE_beBytes 32 y hy', hc]

end KeyLemmas
