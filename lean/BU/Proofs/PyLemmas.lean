import BU.Py
/-!
General lemmas about the `BU/Py.lean` runtime functions (struct formats, bitwise operators on
non-negative ints, `natBits`, last byte of `leBytes`).  Mathlib-free.
-/
namespace Py

/-! ### the `Except` monad -/

theorem ok_bind {ε α β : Type} (a : α) (f : α → Except ε β) : (Except.ok a >>= f) = f a := rfl
theorem error_bind {ε α β : Type} (e : ε) (f : α → Except ε β) : (Except.error e >>= f) = .error e := rfl
theorem map_ok {ε α β : Type} (a : α) (f : α → β) : f <$> (Except.ok a : Except ε α) = .ok (f a) := rfl
theorem map_error {ε α β : Type} (e : ε) (f : α → β) : f <$> (Except.error e : Except ε α) = .error e := rfl
theorem pure_eq_ok {ε α : Type} (a : α) : (pure a : Except ε α) = .ok a := rfl
theorem throw_eq_error {ε α : Type} (e : ε) : (throw e : Except ε α) = .error e := rfl

/-! ### struct formats -/

theorem unpack1_H (b : Bytes) : unpack1 "<H" b = unpackU 2 b := rfl
theorem unpack1_I (b : Bytes) : unpack1 "<I" b = unpackU 4 b := rfl
theorem unpack1_Q (b : Bytes) : unpack1 "<Q" b = unpackU 8 b := rfl
theorem pack_H (i : Int) : pack "<H" i = packU 2 i := rfl
theorem pack_I (i : Int) : pack "<I" i = packU 4 i := rfl

/-! ### `to_bytes` -/

theorem toBytes_little_of_nonneg (i k : Int) (hi : 0 ≤ i) (hk : 0 ≤ k) (h : i.toNat < 256 ^ k.toNat) :
    toBytes i k .little = .ok (leBytes k.toNat i.toNat) := by
  have a : ¬ (i < 0 ∨ k < 0) := by omega
  have b : ¬ (i.toNat ≥ 256 ^ k.toNat) := by omega
  simp only [toBytes, a, b, if_false]

theorem toBytes_little_natCast (n k : Nat) (h : n < 256 ^ k) :
    toBytes (n : Int) (k : Int) .little = .ok (leBytes k n) := by
  rw [toBytes_little_of_nonneg _ _ (by omega) (by omega) (by simpa using h)]
  simp

theorem toBytes_error_of_neg (i k : Int) (o : Order) (h : i < 0) : toBytes i k o = .error .overflowError := by
  simp [toBytes, h]

theorem toBytes_error_of_ge (i k : Int) (o : Order) (h : i.toNat ≥ 256 ^ k.toNat) :
    toBytes i k o = .error .overflowError := by
  unfold toBytes
  split <;> rfl

/-! ### slices -/

theorem slice_cons_one (x : UInt8) (xs : Bytes) (k : Nat) (hi : Int) (h : hi = ((k + 1 : Nat) : Int)) :
    slice (x :: xs) 1 hi = xs.take k := by
  subst h
  simp [slice]

/-! ### bitwise operators and shifts on non-negative ints -/

theorem lor_natCast (a b : Nat) : lor (a : Int) (b : Int) = ((a ||| b : Nat) : Int) := rfl
theorem land_natCast (a b : Nat) : land (a : Int) (b : Int) = ((a &&& b : Nat) : Int) := rfl

theorem shl_natCast (a b : Nat) : shl (a : Int) (b : Int) = .ok ((a * 2 ^ b : Nat) : Int) := by
  have : ¬ ((b : Int) < 0) := by omega
  simp [shl, this]

theorem shl_one_natCast (b : Nat) : shl 1 (b : Int) = .ok ((2 ^ b : Nat) : Int) := by
  have : ¬ ((b : Int) < 0) := by omega
  simp [shl, this]

theorem shl_of_neg (a b : Int) (h : b < 0) : shl a b = .error .valueError := by
  simp [shl, h]

theorem lor_zero_left (b : Nat) : lor 0 (b : Int) = (b : Int) := by
  show lor ((0 : Nat) : Int) (b : Int) = _
  rw [lor_natCast]; simp

/-- adding a power of two above the value is the same as or-ing it in -/
theorem two_pow_or_of_lt {i b : Nat} (h : b < 2 ^ i) : 2 ^ i ||| b = b + 2 ^ i := by
  have := Nat.two_pow_add_eq_or_of_lt h 1
  simp only [Nat.mul_one] at this
  omega

theorem and_two_pow_ne_zero_iff (n i : Nat) : n &&& 2 ^ i ≠ 0 ↔ n / 2 ^ i % 2 = 1 := by
  have hb : n.testBit i = decide (n / 2 ^ i % 2 = 1) := Nat.testBit_eq_decide_div_mod_eq
  constructor
  · intro h
    obtain ⟨j, hj⟩ := Nat.exists_testBit_of_ne_zero h
    simp only [Nat.testBit_and, Nat.testBit_two_pow, Bool.and_eq_true, decide_eq_true_eq] at hj
    obtain ⟨h1, rfl⟩ := hj
    rw [hb] at h1
    simpa using h1
  · intro h h0
    have : (n &&& 2 ^ i).testBit i = true := by
      rw [Nat.testBit_and, Nat.testBit_two_pow_self, hb]
      simp [h]
    rw [h0] at this
    simp at this

/-! ### `natBits` -/

theorem lt_two_pow_natBits (n : Nat) : n < 2 ^ natBits n := by
  induction n using Nat.strongRecOn with
  | _ n ih =>
    cases n with
    | zero => simp [natBits]
    | succ m =>
      rw [natBits]
      have := ih ((m + 1) / 2) (by omega)
      rw [Nat.pow_succ]
      omega

theorem two_pow_natBits_le (n : Nat) (h : 0 < n) : 2 ^ (natBits n - 1) ≤ n := by
  induction n using Nat.strongRecOn with
  | _ n ih =>
    cases n with
    | zero => omega
    | succ m =>
      rw [natBits]
      simp only [Nat.add_sub_cancel]
      by_cases hm : (m + 1) / 2 = 0
      · rw [hm]; simp [natBits]
      · have := ih ((m + 1) / 2) (by omega) (by omega)
        have hpos : 0 < natBits ((m + 1) / 2) := by
          cases hq : (m + 1) / 2 with
          | zero => exact absurd hq hm
          | succ q => rw [natBits]; omega
        have e : natBits ((m + 1) / 2) = (natBits ((m + 1) / 2) - 1) + 1 := by omega
        rw [e, Nat.pow_succ]
        omega

theorem natBits_pos {n : Nat} (h : 0 < n) : 0 < natBits n := by
  cases n with
  | zero => omega
  | succ q => rw [natBits]; omega

theorem bitLength_natCast (n : Nat) : bitLength (n : Int) = (natBits n : Int) := by
  simp [bitLength]

theorem pow_256_eq (k : Nat) : 256 ^ k = 2 ^ (8 * k) := by
  rw [Nat.pow_mul]

/-- `n` fits in `(natBits n + 7) / 8` bytes -/
theorem lt_pow_byteLen (n : Nat) : n < 256 ^ ((natBits n + 7) / 8) := by
  rw [pow_256_eq]
  exact Nat.lt_of_lt_of_le (lt_two_pow_natBits n) (Nat.pow_le_pow_right (by omega) (by omega))

/-- … and in no fewer -/
theorem pow_byteLen_le (n : Nat) (h : 0 < n) : 256 ^ ((natBits n + 7) / 8 - 1) ≤ n := by
  rw [pow_256_eq]
  have := natBits_pos h
  exact Nat.le_trans (Nat.pow_le_pow_right (by omega) (by omega)) (two_pow_natBits_le n h)

/-! ### `leBytes` / `ofLE` -/

theorem getLast?_leBytes_succ (m n : Nat) :
    (leBytes (m + 1) n).getLast? = some (UInt8.ofNat (n / 256 ^ m % 256)) := by
  induction m generalizing n with
  | zero => simp [leBytes]
  | succ m ih =>
    rw [leBytes, List.getLast?_cons, ih]
    simp only [Option.getD_some]
    rw [Nat.div_div_eq_div_mul, Nat.pow_succ, Nat.mul_comm]

theorem leBytes_succ_ne_nil (m n : Nat) : leBytes (m + 1) n ≠ [] := by
  simp [leBytes]

theorem ofLE_append_zero (l : Bytes) : ofLE (l ++ [0]) = ofLE l := by
  rw [ofLE_append]; simp [ofLE]

end Py
