import BU.Py
import BU.Spec.Base58
import BU.Proofs.PyLemmas
/-! Base58 round trip (unbounded in the payload length). -/
namespace Base58Lemmas
open Py Spec Spec.B58

/-! ### base-58 digits -/

/-- little-endian base-58 value -/
def ofLE58 : List Nat → Nat
  | [] => 0
  | d :: ds => d + 58 * ofLE58 ds

theorem ofDigits_append_singleton (l : List Nat) (d : Nat) :
    ofDigits (l ++ [d]) = ofDigits l * 58 + d := by
  simp [ofDigits, List.foldl_append]

theorem ofDigits_reverse (l : List Nat) : ofDigits l.reverse = ofLE58 l := by
  induction l with
  | nil => rfl
  | cons d l ih =>
    rw [List.reverse_cons, ofDigits_append_singleton, ih, ofLE58]
    omega

theorem digitsLE_zero (f : Nat) : digitsLE f 0 = [] := by
  cases f <;> simp [digitsLE]

theorem ofLE58_digitsLE (f n : Nat) (h : n < f) : ofLE58 (digitsLE f n) = n := by
  induction f generalizing n with
  | zero => omega
  | succ f ih =>
    rw [digitsLE]
    split
    · next h0 => subst h0; rfl
    · next h0 =>
      rw [ofLE58, ih (n / 58) (by omega)]
      omega

theorem digitsLE_lt (f n : Nat) : ∀ d ∈ digitsLE f n, d < 58 := by
  induction f generalizing n with
  | zero => simp [digitsLE]
  | succ f ih =>
    rw [digitsLE]
    split
    · simp
    · intro d hd
      rcases List.mem_cons.mp hd with rfl | hd
      · omega
      · exact ih _ d hd

theorem digitsLE_getLast? (f n : Nat) (h : n < f) : (digitsLE f n).getLast? ≠ some 0 := by
  induction f generalizing n with
  | zero => omega
  | succ f ih =>
    rw [digitsLE]
    split
    · simp
    · next h0 =>
      by_cases hq : n / 58 = 0
      · rw [hq, digitsLE_zero]
        simp only [List.getLast?_singleton, ne_eq, Option.some.injEq]
        omega
      · have hne : digitsLE f (n / 58) ≠ [] := by
          cases f with
          | zero => omega
          | succ f => rw [digitsLE]; simp [hq]
        obtain ⟨x, xs, hx⟩ := List.exists_cons_of_ne_nil hne
        rw [hx, List.getLast?_cons_cons, ← hx]
        exact ih _ (by omega)

theorem ofDigits_digits (n : Nat) : ofDigits (digits n) = n := by
  rw [digits, ofDigits_reverse, ofLE58_digitsLE _ _ (by omega)]

theorem digits_lt (n : Nat) : ∀ d ∈ digits n, d < 58 := by
  intro d hd
  rw [digits, List.mem_reverse] at hd
  exact digitsLE_lt _ _ d hd

theorem digits_head? (n : Nat) : (digits n).head? ≠ some 0 := by
  rw [digits, List.head?_reverse]
  exact digitsLE_getLast? _ _ (by omega)

theorem ofDigits_replicate_append (z : Nat) (ds : List Nat) :
    ofDigits (List.replicate z 0 ++ ds) = ofDigits ds := by
  induction z with
  | zero => simp
  | succ z ih =>
    rw [List.replicate_succ, List.cons_append]
    unfold ofDigits at ih ⊢
    rw [List.foldl_cons]
    exact ih

theorem leadingZeroDigits_replicate_append (z : Nat) (ds : List Nat) (h : ds.head? ≠ some 0) :
    leadingZeroDigits (List.replicate z 0 ++ ds) = z := by
  induction z with
  | zero =>
    simp only [List.replicate_zero, List.nil_append]
    unfold leadingZeroDigits
    split
    · simp at h
    · rfl
  | succ z ih =>
    rw [List.replicate_succ, List.cons_append, leadingZeroDigits, ih]

/-! ### bytes -/

theorem ofLE_replicate_zero (z : Nat) : ofLE (List.replicate z (0 : UInt8)) = 0 := by
  induction z with
  | zero => rfl
  | succ z ih => rw [List.replicate_succ, ofLE, ih]; rfl

theorem ofBE_replicate_append (z : Nat) (rest : Bytes) :
    ofBE (List.replicate z 0 ++ rest) = ofBE rest := by
  unfold ofBE
  rw [List.reverse_append, ofLE_append, List.reverse_replicate, ofLE_replicate_zero]
  simp

theorem leadingZeros_split (b : Bytes) :
    ∃ rest : Bytes, b = List.replicate (leadingZeros b) 0 ++ rest ∧ rest.head? ≠ some 0 := by
  induction b with
  | nil => exact ⟨[], by simp [leadingZeros], by simp⟩
  | cons x xs ih =>
    by_cases hx : x = 0
    · subst hx
      obtain ⟨rest, h1, h2⟩ := ih
      refine ⟨rest, ?_, h2⟩
      rw [leadingZeros, List.replicate_succ, List.cons_append, ← h1]
    · refine ⟨x :: xs, ?_, by simpa using hx⟩
      unfold leadingZeros
      split
      · next heq => simp at heq; exact absurd heq.1 hx
      · simp

theorem byteLen_ofLE (r : Bytes) (h : r.getLast? ≠ some 0) :
    (natBits (ofLE r) + 7) / 8 = r.length := by
  rcases List.eq_nil_or_concat r with rfl | ⟨r', x, rfl⟩
  · simp [ofLE, natBits]
  · rw [List.concat_eq_append] at h ⊢
    simp only [List.getLast?_append, List.getLast?_singleton,
      Option.some_or, ne_eq, Option.some.injEq] at h
    have hx : 0 < x.toNat := by
      rcases Nat.eq_zero_or_pos x.toNat with h0 | h0
      · exact absurd (UInt8.toNat_inj.mp (by simpa using h0)) h
      · exact h0
    have hv : ofLE (r' ++ [x]) = ofLE r' + 256 ^ r'.length * x.toNat := by
      rw [ofLE_append]; simp [ofLE]
    have hlo : 256 ^ r'.length ≤ ofLE (r' ++ [x]) := by
      rw [hv]
      have : 256 ^ r'.length * 1 ≤ 256 ^ r'.length * x.toNat := Nat.mul_le_mul_left _ hx
      omega
    have hhi : ofLE (r' ++ [x]) < 256 ^ (r'.length + 1) := by
      have := ofLE_lt (r' ++ [x])
      rwa [List.length_append, List.length_singleton] at this
    have hpos : 0 < ofLE (r' ++ [x]) := Nat.lt_of_lt_of_le (Nat.pow_pos (by omega)) hlo
    have h1 := lt_pow_byteLen (ofLE (r' ++ [x]))
    have h2 := pow_byteLen_le (ofLE (r' ++ [x])) hpos
    generalize (natBits (ofLE (r' ++ [x])) + 7) / 8 = K at h1 h2
    have a : r'.length < K :=
      (Nat.pow_lt_pow_iff_right (a := 256) (by omega)).mp (Nat.lt_of_le_of_lt hlo h1)
    have b : K - 1 < r'.length + 1 :=
      (Nat.pow_lt_pow_iff_right (a := 256) (by omega)).mp (Nat.lt_of_le_of_lt h2 hhi)
    simp only [List.length_append, List.length_singleton]
    omega

theorem minBE_ofBE (rest : Bytes) (h : rest.head? ≠ some 0) : minBE (ofBE rest) = rest := by
  unfold minBE ofBE beBytes
  have hl : rest.reverse.getLast? ≠ some 0 := by rwa [List.getLast?_reverse]
  rw [byteLen_ofLE _ hl, leBytes_ofLE, List.reverse_reverse]

/-! ### the theorems -/

/-- digit-level form -/
theorem decodeDigits_encodeDigits (b : Bytes) : decodeDigits (encodeDigits b) = b := by
  obtain ⟨rest, h1, h2⟩ := leadingZeros_split b
  have hv : ofBE b = ofBE rest := by
    conv => lhs; rw [h1]
    exact ofBE_replicate_append _ _
  unfold decodeDigits encodeDigits
  rw [leadingZeroDigits_replicate_append _ _ (digits_head? _), ofDigits_replicate_append,
    ofDigits_digits, hv, minBE_ofBE _ h2, ← h1]

/-- every digit produced by the encoder is a valid alphabet index -/
theorem encodeDigits_lt (b : Bytes) : ∀ d ∈ encodeDigits b, d < 58 := by
  intro d hd
  unfold encodeDigits at hd
  rcases List.mem_append.mp hd with hd | hd
  · rw [(List.mem_replicate.mp hd).2]; omega
  · exact digits_lt _ d hd

/-- the alphabet has 58 distinct characters -/
theorem digitOf_charOf (d : Nat) (h : d < 58) : digitOf? (charOf d) = some d := by
  have key : ∀ d : Fin 58, digitOf? (charOf d) = some d.val := by decide
  exact key ⟨d, h⟩

theorem mapM_digitOf_map_charOf (ds : List Nat) (h : ∀ d ∈ ds, d < 58) :
    (ds.map charOf).mapM digitOf? = some ds := by
  induction ds with
  | nil => rfl
  | cons d ds ih =>
    rw [List.map_cons, List.mapM_cons, digitOf_charOf d (h d (by simp)),
      ih (fun x hx => h x (by simp [hx]))]
    rfl

/-- decoding the encoding of any byte string returns it: leading zero bytes ↔ leading '1's, the rest by
base conversion -/
theorem decode_encode (b : Bytes) : decode (encode b) = some b := by
  unfold decode encode
  rw [String.toList_ofList, mapM_digitOf_map_charOf _ (encodeDigits_lt b), Option.map_some,
    decodeDigits_encodeDigits]

/-- Base58Check: unchecking a checked payload returns it (dsha any function returning ≥ 4 bytes) -/
theorem uncheck_check (dsha : Bytes → Bytes) (hd : ∀ x, 4 ≤ (dsha x).length) (payload : Bytes) :
    uncheck dsha (check dsha payload) = some payload := by
  have hl : ((dsha payload).take 4).length = 4 := by
    rw [List.length_take]; have := hd payload; omega
  have hlen : (payload ++ (dsha payload).take 4).length - 4 = payload.length := by
    rw [List.length_append, hl]; omega
  unfold uncheck check
  rw [decode_encode]
  simp only
  rw [hlen, List.take_left', List.drop_left']
  · have : ¬ (payload ++ (dsha payload).take 4).length < 4 := by
      rw [List.length_append, hl]; omega
    rw [if_neg this]
    simp
  · rfl
  · rfl

/-- a corrupted checksum is rejected: if the last four bytes are not the checksum of the rest, `uncheck` fails -/
theorem uncheck_rejects (dsha : Bytes → Bytes) (s : String) (raw : Bytes) (h : decode s = some raw)
    (hbad : raw.length < 4 ∨ raw.drop (raw.length - 4) ≠ (dsha (raw.take (raw.length - 4))).take 4) :
    uncheck dsha s = none := by
  unfold uncheck
  rw [h]
  simp only
  rcases hbad with hb | hb
  · simp [hb]
  · split
    · rfl
    · have : (raw.drop (raw.length - 4) == (dsha (raw.take (raw.length - 4))).take 4) = false := by
        simpa using hb
      simp [this]

end Base58Lemmas
