import BU.Py
import BU.Model.Bech32
/-! bech32 / bech32m: bit regrouping and checksum round trips for the model of `bech32.py`. -/
namespace Bech32Lemmas
open Model.Bech32

/-- 8→5 regrouping with padding followed by 5→8 without padding is the identity on byte lists of any length -/
theorem convertbits_roundtrip (prog : List Nat) (h : ∀ b ∈ prog, b < 256) :
    ∃ five, convertbits prog 8 5 true = some five ∧ (∀ d ∈ five, d < 32) ∧
      five.length = (8 * prog.length + 4) / 5 ∧ convertbits five 5 8 false = some prog := by
  sorry

/-- the six checksum symbols make the polymod of the whole word equal the encoding constant: polymod is
GF(2)-affine in the last six symbols -/
theorem verify_create (hrp : List Char) (data : List Nat) (hd : ∀ d ∈ data, d < 32) (spec : Enc) :
    verifyChecksum specConsts hrp (data ++ createChecksum specConsts hrp data spec) = some spec ∧
    (∀ d ∈ createChecksum specConsts hrp data spec, d < 32) ∧
    (createChecksum specConsts hrp data spec).length = 6 := by
  sorry

/-- the 32 charset characters are distinct lower-case/digit characters other than '1' -/
theorem charset_facts :
    specConsts.charset.length = 32 ∧
    (∀ d, d < 32 → specConsts.charset.idxOf (specConsts.charset.getD d '?') = d) ∧
    (∀ ch ∈ specConsts.charset, ch ≠ '1' ∧ lowerC ch = ch ∧ 33 ≤ ch.toNat ∧ ch.toNat ≤ 126) := by
  sorry

/-- **round trip** for the three kinds of witness program and the three network prefixes: the address
string produced for (version, program) decodes to exactly (version, program) -/
theorem decode_encode (hrp : List Char) (hh : hrp = "bc".toList ∨ hrp = "tb".toList ∨ hrp = "bcrt".toList)
    (v : Nat) (prog : List Nat) (hb : ∀ b ∈ prog, b < 256)
    (hv : (v = 0 ∧ (prog.length = 20 ∨ prog.length = 32)) ∨ (v = 1 ∧ prog.length = 32)) :
    ∃ s, encode specConsts hrp v prog = some s ∧ decode specConsts hrp s = some (v, prog) := by
  sorry

/-- rejection is built into `decode`: whatever it accepts has the expected prefix, a single case, only
charset characters after the last '1', and the checksum variant of its version (bech32 for v0, bech32m otherwise) -/
theorem decode_sound (hrp addr : List Char) (v : Nat) (prog : List Nat) (h : decode specConsts hrp addr = some (v, prog)) :
    ∃ hrpgot data spec, bech32Decode specConsts addr = some (hrpgot, data, spec) ∧ hrpgot = hrp ∧
      data.head? = some v ∧ v ≤ 16 ∧ (v = 0 → spec = .bech32) ∧ (v ≠ 0 → spec = .bech32m) ∧
      2 ≤ prog.length ∧ prog.length ≤ 40 ∧ (v = 0 → prog.length = 20 ∨ prog.length = 32) ∧
      ¬ (addr.map lowerC ≠ addr ∧ addr.map upperC ≠ addr) := by
  sorry

end Bech32Lemmas
