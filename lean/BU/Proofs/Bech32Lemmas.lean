import BU.Py
import BU.Model.Bech32
/-! bech32 / bech32m: bit regrouping and checksum round trips for the model of `bech32.py`. -/
namespace Bech32Lemmas
open Model.Bech32

/-! ### convertbits -/

/-- big-endian value of a digit list in base `2^f` -/
def val (f : Nat) (l : List Nat) : Nat := l.foldl (fun n x => n * 2 ^ f + x) 0

theorem val_nil (f : Nat) : val f [] = 0 := rfl
theorem val_snoc (f : Nat) (l : List Nat) (x : Nat) : val f (l ++ [x]) = val f l * 2 ^ f + x := by
  simp [val, List.foldl_append]

theorem foldl_digits_inj (B : Nat) (l1 l2 : List Nat) (hl : l1.length = l2.length)
    (h1 : ∀ d ∈ l1, d < B) (h2 : ∀ d ∈ l2, d < B) (a a' : Nat)
    (h : l1.foldl (fun n x => n * B + x) a = l2.foldl (fun n x => n * B + x) a') : a = a' ∧ l1 = l2 := by
  induction l1 generalizing l2 a a' with
  | nil =>
    cases l2 with
    | nil => exact ⟨by simpa using h, rfl⟩
    | cons y ys => simp at hl
  | cons x xs ih =>
    cases l2 with
    | nil => simp at hl
    | cons y ys =>
      simp only [List.foldl_cons] at h
      have hx : x < B := h1 x (by simp)
      have hy : y < B := h2 y (by simp)
      obtain ⟨e, rfl⟩ := ih ys (by simpa using hl) (fun d hd => h1 d (by simp [hd]))
        (fun d hd => h2 d (by simp [hd])) _ _ h
      have ea : a = a' := by
        have := congrArg (· / B) e
        simp only [Nat.mul_comm _ B] at this
        rwa [Nat.mul_add_div (by omega), Nat.mul_add_div (by omega), Nat.div_eq_of_lt hx, Nat.div_eq_of_lt hy] at this
      subst ea
      have : x = y := by omega
      subst this
      exact ⟨rfl, rfl⟩

theorem val_inj (t : Nat) (l1 l2 : List Nat) (hl : l1.length = l2.length)
    (h1 : ∀ d ∈ l1, d < 2 ^ t) (h2 : ∀ d ∈ l2, d < 2 ^ t) (h : val t l1 = val t l2) : l1 = l2 :=
  (foldl_digits_inj (2 ^ t) l1 l2 hl h1 h2 0 0 h).2

/-- one round of the `convertbits` loop -/
def cstep (f t : Nat) (st : Option (Nat × Nat × List Nat)) (value : Nat) : Option (Nat × Nat × List Nat) :=
  match st with
  | none => none
  | some (acc, bits, ret) =>
    if value >>> f ≠ 0 then none
    else
      let acc := ((acc <<< f) ||| value) &&& ((1 <<< (f + t - 1)) - 1)
      let r := convertbits.emit t ((1 <<< t) - 1) acc (bits + f + 1) (bits + f) ret
      some (acc, r.1, r.2)

theorem convertbits_eq (data : List Nat) (f t : Nat) (pad : Bool) :
    convertbits data f t pad =
      match data.foldl (cstep f t) (some (0, 0, [])) with
      | none => none
      | some (acc, bits, ret) =>
        if pad then
          if bits ≠ 0 then some (ret ++ [(acc <<< (t - bits)) &&& ((1 <<< t) - 1)]) else some ret
        else if bits ≥ f ∨ ((acc <<< (t - bits)) &&& ((1 <<< t) - 1)) ≠ 0 then none
        else some ret := by
  unfold convertbits cstep
  rfl

theorem mod_shift_mod (N K s t : Nat) (h : s + t ≤ K) : ((N % 2 ^ K) >>> s) % 2 ^ t = (N >>> s) % 2 ^ t := by
  apply Nat.eq_of_testBit_eq
  intro i
  simp only [Nat.testBit_mod_two_pow, Nat.testBit_shiftRight]
  by_cases hi : i < t
  · have : s + i < K := by omega
    simp [hi, this]
  · simp [hi]

/-- invariant of the inner `emit` loop -/
def EI (t N T b : Nat) (ret : List Nat) : Prop :=
  ret.length * t + b = T ∧ (∀ d ∈ ret, d < 2 ^ t) ∧ val t ret = N >>> b

theorem emit_spec (t K N T : Nat) (ht : 1 ≤ t) (fuel b : Nat) (ret : List Nat)
    (hf : b < fuel) (hb : b ≤ K) (h : EI t N T b ret) :
    (convertbits.emit t ((1 <<< t) - 1) (N % 2 ^ K) fuel b ret).1 < t ∧
    EI t N T (convertbits.emit t ((1 <<< t) - 1) (N % 2 ^ K) fuel b ret).1
      (convertbits.emit t ((1 <<< t) - 1) (N % 2 ^ K) fuel b ret).2 := by
  induction fuel generalizing b ret with
  | zero => omega
  | succ fuel ih =>
    rw [convertbits.emit]
    split
    · rename_i hge
      apply ih
      · omega
      · omega
      · obtain ⟨h1, h2, h3⟩ := h
        rw [Nat.one_shiftLeft, Nat.and_two_pow_sub_one_eq_mod, mod_shift_mod _ _ _ _ (by omega)]
        refine ⟨?_, ?_, ?_⟩
        · rw [List.length_append, List.length_singleton, Nat.add_mul]; omega
        · intro d hd
          rw [List.mem_append, List.mem_singleton] at hd
          rcases hd with hd | rfl
          · exact h2 d hd
          · exact Nat.mod_lt _ (Nat.two_pow_pos t)
        · rw [val_snoc, h3]
          have e : N >>> b = (N >>> (b - t)) >>> t := by rw [← Nat.shiftRight_add]; congr 1; omega
          rw [e, Nat.shiftRight_eq_div_pow _ t]
          exact Nat.div_add_mod' _ _
    · exact ⟨by omega, h⟩

/-- invariant of the outer loop after consuming `pre` -/
def Inv (f t : Nat) (pre : List Nat) (st : Nat × Nat × List Nat) : Prop :=
  st.1 = val f pre % 2 ^ (f + t - 1) ∧ st.2.1 < t ∧ EI t (val f pre) (pre.length * f) st.2.1 st.2.2

theorem cstep_spec (f t : Nat) (ht : 1 ≤ t) (pre : List Nat) (st : Nat × Nat × List Nat) (v : Nat)
    (hv : v < 2 ^ f) (h : Inv f t pre st) :
    ∃ st', cstep f t (some st) v = some st' ∧ Inv f t (pre ++ [v]) st' := by
  obtain ⟨acc, bits, ret⟩ := st
  obtain ⟨h1, h2, h3, h4, h5⟩ := h
  simp only at h1 h2 h3 h4 h5
  have hv0 : v >>> f = 0 := by rw [Nat.shiftRight_eq_div_pow, Nat.div_eq_of_lt hv]
  have hacc : ((acc <<< f) ||| v) &&& ((1 <<< (f + t - 1)) - 1) = val f (pre ++ [v]) % 2 ^ (f + t - 1) := by
    rw [Nat.one_shiftLeft, Nat.and_two_pow_sub_one_eq_mod, ← Nat.shiftLeft_add_eq_or_of_lt hv, Nat.shiftLeft_eq,
      val_snoc, h1, Nat.add_mod, Nat.mod_mul_mod, ← Nat.add_mod]
  unfold cstep
  simp only [hv0, ne_eq, not_true_eq_false, if_false]
  rw [hacc]
  have hdiv : val f (pre ++ [v]) >>> f = val f pre := by
    rw [val_snoc, Nat.shiftRight_eq_div_pow, Nat.add_comm, Nat.add_mul_div_right _ _ (Nat.two_pow_pos f),
      Nat.div_eq_of_lt hv, Nat.zero_add]
  have := emit_spec t (f + t - 1) (val f (pre ++ [v])) ((pre ++ [v]).length * f) ht (bits + f + 1) (bits + f) ret
    (by omega) (by omega)
    ⟨by rw [List.length_append, List.length_singleton, Nat.add_mul]; omega, h4,
     by rw [Nat.add_comm bits f, Nat.shiftRight_add, hdiv]; exact h5⟩
  exact ⟨_, rfl, rfl, this.1, this.2⟩

theorem fold_spec (f t : Nat) (ht : 1 ≤ t) (suf : List Nat) (hs : ∀ v ∈ suf, v < 2 ^ f)
    (pre : List Nat) (st : Nat × Nat × List Nat) (h : Inv f t pre st) :
    ∃ st', suf.foldl (cstep f t) (some st) = some st' ∧ Inv f t (pre ++ suf) st' := by
  induction suf generalizing pre st with
  | nil => exact ⟨st, rfl, by simpa using h⟩
  | cons v vs ih =>
    obtain ⟨st1, e1, i1⟩ := cstep_spec f t ht pre st v (hs v (by simp)) h
    obtain ⟨st2, e2, i2⟩ := ih (fun w hw => hs w (by simp [hw])) (pre ++ [v]) st1 i1
    refine ⟨st2, ?_, by simpa using i2⟩
    rw [List.foldl_cons, e1, e2]

theorem run_spec (f t : Nat) (ht : 1 ≤ t) (data : List Nat) (hs : ∀ v ∈ data, v < 2 ^ f) :
    ∃ acc bits ret, data.foldl (cstep f t) (some (0, 0, [])) = some (acc, bits, ret) ∧
      acc = val f data % 2 ^ (f + t - 1) ∧ bits < t ∧ ret.length * t + bits = data.length * f ∧
      (∀ d ∈ ret, d < 2 ^ t) ∧ val t ret = val f data >>> bits := by
  obtain ⟨⟨acc, bits, ret⟩, e, i⟩ := fold_spec f t ht data hs [] (0, 0, [])
    ⟨by simp [val_nil], ht, by simp, by simp, by simp [val_nil]⟩
  rw [List.nil_append] at i
  exact ⟨acc, bits, ret, e, i.1, i.2.1, i.2.2.1, i.2.2.2.1, i.2.2.2.2⟩


theorem fwd_spec (prog : List Nat) (h : ∀ b ∈ prog, b < 256) :
    ∃ five, convertbits prog 8 5 true = some five ∧ (∀ d ∈ five, d < 32) ∧
      ∃ pad, pad < 5 ∧ five.length * 5 = prog.length * 8 + pad ∧ val 5 five = val 8 prog * 2 ^ pad := by
  obtain ⟨acc, bits, ret, e, h1, h2, h3, h4, h5⟩ := run_spec 8 5 (by decide) prog h
  rw [convertbits_eq, e]
  simp only [if_true]
  by_cases hb : bits = 0
  · subst hb
    refine ⟨ret, by simp, h4, 0, by decide, by omega, ?_⟩
    simpa using h5
  · refine ⟨_, by simp only [ne_eq, hb, not_false_eq_true, if_true]; rfl, ?_, 5 - bits, by omega, ?_, ?_⟩
    · intro d hd
      rw [List.mem_append, List.mem_singleton] at hd
      rcases hd with hd | rfl
      · exact h4 d hd
      · rw [Nat.one_shiftLeft, Nat.and_two_pow_sub_one_eq_mod]
        exact Nat.mod_lt _ (by decide)
    · rw [List.length_append, List.length_singleton]; omega
    · rw [val_snoc, h5, Nat.one_shiftLeft, Nat.and_two_pow_sub_one_eq_mod, h1, Nat.shiftRight_eq_div_pow,
        Nat.shiftLeft_eq]
      generalize val 8 prog = N
      have : bits = 1 ∨ bits = 2 ∨ bits = 3 ∨ bits = 4 := by omega
      rcases this with rfl | rfl | rfl | rfl <;> simp only [Nat.reducePow, Nat.reduceSub, Nat.reduceAdd] <;> omega

theorem bwd_spec (prog five : List Nat) (h : ∀ b ∈ prog, b < 256) (h5 : ∀ d ∈ five, d < 32)
    (pad : Nat) (hp : pad < 5) (hl : five.length * 5 = prog.length * 8 + pad)
    (hv : val 5 five = val 8 prog * 2 ^ pad) : convertbits five 5 8 false = some prog := by
  obtain ⟨acc, bits, ret, e, h1, h2, h3, h4, h5'⟩ := run_spec 5 8 (by decide) five h5
  rw [convertbits_eq, e]
  have hb : bits = pad := by omega
  have hlen : ret.length = prog.length := by omega
  subst hb
  have hret : ret = prog := by
    apply val_inj 8 _ _ hlen h4 h
    rw [h5', hv, Nat.shiftRight_eq_div_pow, Nat.mul_div_cancel _ (Nat.two_pow_pos _)]
  have hz : (acc <<< (8 - bits)) &&& ((1 <<< 8) - 1) = 0 := by
    rw [Nat.one_shiftLeft, Nat.and_two_pow_sub_one_eq_mod, h1, hv, Nat.shiftLeft_eq]
    generalize val 8 prog = N
    have : bits = 0 ∨ bits = 1 ∨ bits = 2 ∨ bits = 3 ∨ bits = 4 := by omega
    rcases this with rfl | rfl | rfl | rfl | rfl <;> simp only [Nat.reducePow, Nat.reduceSub, Nat.reduceAdd] <;> omega
  have hn : ¬ (bits ≥ 5 ∨ (acc <<< (8 - bits)) &&& ((1 <<< 8) - 1) ≠ 0) := by
    rw [hz]; omega
  simp only [hn, if_false, hret, Bool.false_eq_true]

/-- 8→5 regrouping with padding followed by 5→8 without padding is the identity on byte lists of any length -/
theorem convertbits_roundtrip (prog : List Nat) (h : ∀ b ∈ prog, b < 256) :
    ∃ five, convertbits prog 8 5 true = some five ∧ (∀ d ∈ five, d < 32) ∧
      five.length = (8 * prog.length + 4) / 5 ∧ convertbits five 5 8 false = some prog := by
  obtain ⟨five, e, h5, pad, hp, hl, hv⟩ := fwd_spec prog h
  exact ⟨five, e, h5, by omega, bwd_spec prog five h h5 pad hp hl hv⟩

/-! ### checksum -/

/-- generator contribution selected by `top` -/
def gsel (c : Consts) (top i : Nat) : Nat := if (top >>> i) &&& 1 ≠ 0 then c.generator.getD i 0 else 0

/-- one round of `polymod` -/
def pstep (c : Consts) (chk value : Nat) : Nat :=
  (List.range 5).foldl (fun acc i => acc ^^^ gsel c (chk >>> 25) i)
    (((chk &&& 0x1FFFFFF) <<< 5) ^^^ value)

theorem polymod_eq (c : Consts) (vs : List Nat) : polymod c vs = vs.foldl (pstep c) 1 := by
  unfold polymod pstep gsel
  rfl

theorem foldl_xor_acc (f : Nat → Nat) (l : List Nat) (a : Nat) :
    l.foldl (fun acc i => acc ^^^ f i) a = a ^^^ l.foldl (fun acc i => acc ^^^ f i) 0 := by
  induction l generalizing a with
  | nil => simp
  | cons x xs ih =>
    simp only [List.foldl_cons]
    rw [ih (a ^^^ f x), ih (0 ^^^ f x), Nat.zero_xor, Nat.xor_assoc]

theorem foldl_xor_lt (f : Nat → Nat) (n : Nat) (hf : ∀ i, f i < 2 ^ n) (l : List Nat) (a : Nat) (ha : a < 2 ^ n) :
    l.foldl (fun acc i => acc ^^^ f i) a < 2 ^ n := by
  induction l generalizing a with
  | nil => simpa
  | cons x xs ih =>
    simp only [List.foldl_cons]
    exact ih _ (Nat.xor_lt_two_pow ha (hf x))

def gmask (c : Consts) (top : Nat) : Nat := (List.range 5).foldl (fun acc i => acc ^^^ gsel c top i) 0

theorem pstep_eq (c : Consts) (chk v : Nat) :
    pstep c chk v = (((chk &&& 0x1FFFFFF) <<< 5) ^^^ v) ^^^ gmask c (chk >>> 25) := by
  unfold pstep gmask
  exact foldl_xor_acc _ _ _

theorem gen_eq : specConsts.generator = [0x3b6a57b2, 0x26508e6d, 0x1ea119fa, 0x3d4233dd, 0x2a1462b3] := rfl
theorem m_eq : specConsts.m = 0x2bc830a3 := rfl

theorem gen_lt (i : Nat) : specConsts.generator.getD i 0 < 2 ^ 30 := by
  rw [gen_eq]
  match i with
  | 0 => simp
  | 1 => simp
  | 2 => simp
  | 3 => simp
  | 4 => simp
  | n + 5 => simp

theorem gmask_lt (top : Nat) : gmask specConsts top < 2 ^ 30 := by
  unfold gmask
  apply foldl_xor_lt
  · intro i
    unfold gsel
    split
    · exact gen_lt i
    · exact Nat.two_pow_pos 30
  · exact Nat.two_pow_pos 30

theorem pstep_zero_lt (chk : Nat) : pstep specConsts chk 0 < 2 ^ 30 := by
  rw [pstep_eq]
  apply Nat.xor_lt_two_pow _ (gmask_lt _)
  rw [Nat.xor_zero]
  have : chk &&& 0x1FFFFFF < 2 ^ 25 := Nat.and_lt_two_pow _ (by decide)
  rw [Nat.shiftLeft_eq]
  omega

/-- XOR-ing `d < 2^25` into the accumulator and any `x` into the value -/
theorem pstep_xor (c : Consts) (a d x : Nat) (hd : d < 2 ^ 25) :
    pstep c (a ^^^ d) x = pstep c a 0 ^^^ ((d <<< 5) ^^^ x) := by
  rw [pstep_eq, pstep_eq]
  have h1 : (a ^^^ d) >>> 25 = a >>> 25 := by
    rw [Nat.shiftRight_xor_distrib, Nat.shiftRight_eq_div_pow d, Nat.div_eq_of_lt hd, Nat.xor_zero]
  have h2 : d &&& 0x1FFFFFF = d := by
    have : (0x1FFFFFF : Nat) = 2 ^ 25 - 1 := by decide
    rw [this, Nat.and_two_pow_sub_one_eq_mod, Nat.mod_eq_of_lt hd]
  rw [h1, Nat.and_xor_distrib_right, Nat.shiftLeft_xor_distrib, h2, Nat.xor_zero]
  simp only [Nat.xor_assoc]
  congr 1
  rw [Nat.xor_comm (gmask c (a >>> 25)), Nat.xor_assoc]

def hstep (acc x : Nat) : Nat := (acc <<< 5) ^^^ x

theorem foldl_pstep_xor (c : Consts) (xs : List Nat) (hx : ∀ x ∈ xs, x < 32) (hl : xs.length ≤ 6)
    (a d : Nat) (hd : d < 2 ^ (30 - 5 * xs.length)) :
    xs.foldl (pstep c) (a ^^^ d) = (List.replicate xs.length 0).foldl (pstep c) a ^^^ xs.foldl hstep d := by
  induction xs generalizing a d with
  | nil => simp
  | cons x xs ih =>
    simp only [List.length_cons] at hl hd
    have hx0 : x < 32 := hx x (by simp)
    have hd25 : d < 2 ^ 25 := Nat.lt_of_lt_of_le hd (Nat.pow_le_pow_right (by decide) (by omega))
    simp only [List.foldl_cons, List.length_cons, List.replicate_succ]
    rw [pstep_xor c a d x hd25]
    apply ih (fun y hy => hx y (by simp [hy])) (by omega)
    have e : 30 - 5 * xs.length = (30 - 5 * (xs.length + 1)) + 5 := by omega
    rw [e]
    apply Nat.xor_lt_two_pow
    · rw [Nat.shiftLeft_eq, Nat.pow_add]
      exact Nat.mul_lt_mul_of_pos_right hd (by decide)
    · exact Nat.lt_of_lt_of_le hx0 (Nat.pow_le_pow_right (by decide) (by omega) : 2 ^ 5 ≤ _)

theorem split5 (n : Nat) : ((n >>> 5) <<< 5) ^^^ (n &&& 31) = n := by
  apply Nat.eq_of_testBit_eq
  intro i
  have : (31 : Nat) = 2 ^ 5 - 1 := by decide
  rw [this]
  simp only [Nat.testBit_xor, Nat.testBit_shiftLeft, Nat.testBit_shiftRight, Nat.testBit_and,
    Nat.testBit_two_pow_sub_one]
  by_cases h : i < 5
  · have : ¬ i ≥ 5 := by omega
    simp [h, this]
  · have h' : i ≥ 5 := by omega
    have : 5 + (i - 5) = i := by omega
    simp [h, h', this]

theorem split5' (n k : Nat) : ((n >>> (k + 5)) <<< 5) ^^^ ((n >>> k) &&& 31) = n >>> k := by
  rw [Nat.shiftRight_add]
  exact split5 _

theorem pack_groups (pm : Nat) (h : pm < 2 ^ 30) :
    ((List.range 6).map fun i => (pm >>> (5 * (5 - i))) &&& 31).foldl hstep 0 = pm := by
  have r6 : List.range 6 = [0, 1, 2, 3, 4, 5] := by decide
  have h25 : (pm >>> 25) &&& 31 = pm >>> 25 := by
    have : (31 : Nat) = 2 ^ 5 - 1 := by decide
    rw [this, Nat.and_two_pow_sub_one_eq_mod, Nat.shiftRight_eq_div_pow]
    apply Nat.mod_eq_of_lt
    omega
  simp only [r6, List.map_cons, List.map_nil, List.foldl_cons, List.foldl_nil, hstep, Nat.zero_shiftLeft,
    Nat.zero_xor, Nat.reduceSub, Nat.reduceMul, h25]
  have := split5' pm 20
  have := split5' pm 15
  have := split5' pm 10
  have := split5' pm 5
  have := split5' pm 0
  simp only [Nat.reduceAdd, Nat.shiftRight_zero] at *
  simp only [*]

set_option linter.unusedVariables false in
/-- the six checksum symbols make the polymod of the whole word equal the encoding constant: polymod is
GF(2)-affine in the last six symbols -/
theorem verify_create (hrp : List Char) (data : List Nat) (hd : ∀ d ∈ data, d < 32) (spec : Enc) :
    verifyChecksum specConsts hrp (data ++ createChecksum specConsts hrp data spec) = some spec ∧
    (∀ d ∈ createChecksum specConsts hrp data spec, d < 32) ∧
    (createChecksum specConsts hrp data spec).length = 6 := by
  have hlen : (createChecksum specConsts hrp data spec).length = 6 := by
    simp [createChecksum]
  have hlt : ∀ d ∈ createChecksum specConsts hrp data spec, d < 32 := by
    intro d hd
    simp only [createChecksum, List.mem_map] at hd
    obtain ⟨i, _, rfl⟩ := hd
    exact Nat.and_lt_two_pow _ (by decide : 31 < 2 ^ 5)
  refine ⟨?_, hlt, hlen⟩
  unfold verifyChecksum
  have key : polymod specConsts (hrpExpand hrp ++ (data ++ createChecksum specConsts hrp data spec))
      = if spec = .bech32m then specConsts.m else 1 := by
    rw [← List.append_assoc, polymod_eq, List.foldl_append]
    have := foldl_pstep_xor specConsts (createChecksum specConsts hrp data spec) hlt (by omega)
      (List.foldl (pstep specConsts) 1 (hrpExpand hrp ++ data)) 0 (Nat.two_pow_pos _)
    rw [Nat.xor_zero] at this
    rw [this, hlen]
    have hP : List.foldl (pstep specConsts) (List.foldl (pstep specConsts) 1 (hrpExpand hrp ++ data)) (List.replicate 6 0)
        = polymod specConsts (hrpExpand hrp ++ data ++ [0,0,0,0,0,0]) := by
      rw [polymod_eq]; simp only [List.foldl_append]; rfl
    have hPlt : polymod specConsts (hrpExpand hrp ++ data ++ [0,0,0,0,0,0]) < 2 ^ 30 := by
      rw [polymod_eq, List.foldl_append]
      simp only [List.foldl_cons, List.foldl_nil]
      exact pstep_zero_lt _
    rw [hP]
    unfold createChecksum
    simp only []
    rw [pack_groups]
    · rw [← Nat.xor_assoc, Nat.xor_self, Nat.zero_xor]
    · apply Nat.xor_lt_two_pow hPlt
      split <;> simp [m_eq]
  simp only [] 
  rw [key]
  cases spec <;> simp [m_eq]

/-! ### charset -/


/-- the 32 charset characters are distinct lower-case/digit characters other than '1' -/
theorem charset_facts :
    specConsts.charset.length = 32 ∧
    (∀ d, d < 32 → specConsts.charset.idxOf (specConsts.charset.getD d '?') = d) ∧
    (∀ ch ∈ specConsts.charset, ch ≠ '1' ∧ lowerC ch = ch ∧ 33 ≤ ch.toNat ∧ ch.toNat ≤ 126) := by
  refine ⟨by decide, ?_, by decide⟩
  intro d hd
  have : ∀ d : Fin 32, specConsts.charset.idxOf (specConsts.charset.getD d.val '?') = d.val := by decide
  exact this ⟨d, hd⟩

/-! ### decode -/

theorem rfind1_spec (pre post : List Char) (hp : ∀ ch ∈ post, ch ≠ '1') :
    rfind1 (pre ++ ['1'] ++ post) = some pre.length := by
  unfold rfind1
  have hlen : (pre ++ ['1'] ++ post).length = (pre.length + 1) + post.length := by
    simp [List.length_append]; omega
  simp only [hlen]
  rw [List.range_add, List.range_succ, List.filter_append, List.filter_append]
  have h1 : List.filter (fun i => (pre ++ ['1'] ++ post).getD i ' ' == '1') [pre.length] = [pre.length] := by
    simp [List.getD_eq_getElem?_getD]
  have h2 : List.filter (fun i => (pre ++ ['1'] ++ post).getD i ' ' == '1')
      (List.map (fun x => pre.length + 1 + x) (List.range post.length)) = [] := by
    rw [List.filter_eq_nil_iff]
    intro a ha
    rw [List.mem_map] at ha
    obtain ⟨i, hi, rfl⟩ := ha
    rw [List.mem_range] at hi
    have : (pre ++ ['1'] ++ post).getD (pre.length + 1 + i) ' ' = post[i] := by
      rw [List.getD_eq_getElem?_getD, List.getElem?_append_right (by simp)]
      simp [hi]
    rw [this]
    simpa using hp _ (List.getElem_mem hi)
  rw [h1, h2, List.append_nil, List.getLast?_concat]

theorem bech32Decode_case (c : Consts) (addr : List Char) (r) (h : bech32Decode c addr = some r) :
    ¬ (addr.map lowerC ≠ addr ∧ addr.map upperC ≠ addr) := by
  unfold bech32Decode at h
  split at h
  · cases h
  · rename_i hn
    intro hc
    exact hn (Or.inr hc)

/-- rejection is built into `decode`: whatever it accepts has the expected prefix, a single case, only
charset characters after the last '1', and the checksum variant of its version (bech32 for v0, bech32m otherwise) -/
theorem decode_sound (hrp addr : List Char) (v : Nat) (prog : List Nat) (h : decode specConsts hrp addr = some (v, prog)) :
    ∃ hrpgot data spec, bech32Decode specConsts addr = some (hrpgot, data, spec) ∧ hrpgot = hrp ∧
      data.head? = some v ∧ v ≤ 16 ∧ (v = 0 → spec = .bech32) ∧ (v ≠ 0 → spec = .bech32m) ∧
      2 ≤ prog.length ∧ prog.length ≤ 40 ∧ (v = 0 → prog.length = 20 ∨ prog.length = 32) ∧
      ¬ (addr.map lowerC ≠ addr ∧ addr.map upperC ≠ addr) := by
  unfold decode at h
  split at h
  · cases h
  · rename_i hrpgot data spec hbd
    have hcase := bech32Decode_case _ _ _ hbd
    split at h
    · cases h
    · rename_i hh
      split at h
      · cases h
      · rename_i decoded hcb
        split at h
        · cases h
        · rename_i hlen
          split at h
          · cases h
          · rename_i v' hv'
            split at h
            · cases h
            · rename_i hv16
              split at h
              · cases h
              · rename_i h0
                split at h
                · cases h
                · rename_i hs
                  simp only [Option.some.injEq, Prod.mk.injEq] at h
                  obtain ⟨rfl, rfl⟩ := h
                  refine ⟨hrpgot, data, spec, hbd, by simpa using hh, hv', by omega, ?_, ?_, by omega, by omega, ?_, hcase⟩
                  · intro hv0
                    exact Decidable.byContradiction fun hne => hs (Or.inl ⟨hv0, hne⟩)
                  · intro hv0
                    exact Decidable.byContradiction fun hne => hs (Or.inr ⟨hv0, hne⟩)
                  · intro hv0
                    omega


/-- the character for a 5-bit symbol -/
theorem charOf_mem (d : Nat) (hd : d < 32) : specConsts.charset.getD d '?' ∈ specConsts.charset := by
  have hl : d < specConsts.charset.length := by rw [charset_facts.1]; exact hd
  rw [List.getD_eq_getElem?_getD, List.getElem?_eq_getElem hl]
  exact List.getElem_mem hl

theorem bech32Decode_encode (hrp : List Char) (hh : ∀ ch ∈ hrp, lowerC ch = ch ∧ 33 ≤ ch.toNat ∧ ch.toNat ≤ 126)
    (hl1 : 1 ≤ hrp.length) (data : List Nat) (hd : ∀ d ∈ data, d < 32) (spec : Enc)
    (hlen : hrp.length + 1 + data.length + 6 ≤ 90) :
    bech32Decode specConsts (bech32Encode specConsts hrp data spec) = some (hrp, data, spec) := by
  obtain ⟨hv, hclt, hcl⟩ := verify_create hrp data hd spec
  obtain ⟨cf1, cf2, cf3⟩ := charset_facts
  have hcomb : ∀ d ∈ data ++ createChecksum specConsts hrp data spec, d < 32 := by
    intro d hd'
    rw [List.mem_append] at hd'
    rcases hd' with h | h
    · exact hd d h
    · exact hclt d h
  generalize hcs : createChecksum specConsts hrp data spec = cs at *
  unfold bech32Encode
  simp only [hcs]
  generalize hpost : (data ++ cs).map (fun d => specConsts.charset.getD d '?') = post
  have hpost_mem : ∀ ch ∈ post, ch ∈ specConsts.charset := by
    intro ch hch
    rw [← hpost, List.mem_map] at hch
    obtain ⟨d, hd', rfl⟩ := hch
    exact charOf_mem d (hcomb d hd')
  have hpost_len : post.length = data.length + 6 := by
    rw [← hpost, List.length_map, List.length_append, hcl]
  have hgood : ∀ ch ∈ hrp ++ ['1'] ++ post, lowerC ch = ch ∧ 33 ≤ ch.toNat ∧ ch.toNat ≤ 126 := by
    intro ch hch
    rw [List.mem_append, List.mem_append, List.mem_singleton] at hch
    rcases hch with (h | rfl) | h
    · exact hh ch h
    · decide
    · exact (cf3 ch (hpost_mem ch h)).2
  have hmap : (hrp ++ ['1'] ++ post).map lowerC = hrp ++ ['1'] ++ post := by
    conv => rhs; rw [← List.map_id (hrp ++ ['1'] ++ post)]
    apply List.map_congr_left
    intro ch hch
    exact (hgood ch hch).1
  have hc1 : ¬ ((hrp ++ ['1'] ++ post).any (fun x => x.toNat < 33 ∨ x.toNat > 126) ∨
      ((hrp ++ ['1'] ++ post).map lowerC ≠ hrp ++ ['1'] ++ post ∧
       (hrp ++ ['1'] ++ post).map upperC ≠ hrp ++ ['1'] ++ post)) := by
    rintro (h | h)
    · rw [List.any_eq_true] at h
      obtain ⟨x, hx, hx'⟩ := h
      have := hgood x hx
      simp only [decide_eq_true_eq] at hx'
      omega
    · exact h.1 hmap
  have hrf : rfind1 (hrp ++ ['1'] ++ post) = some hrp.length :=
    rfind1_spec hrp post (fun ch hch => (cf3 ch (hpost_mem ch hch)).1)
  have hc2 : ¬ (hrp.length < 1 ∨ hrp.length + 7 > (hrp ++ ['1'] ++ post).length ∨
      (hrp ++ ['1'] ++ post).length > 90) := by
    simp only [List.length_append, List.length_singleton, hpost_len]
    omega
  have hdrop : (hrp ++ ['1'] ++ post).drop (hrp.length + 1) = post :=
    List.drop_left' (by simp)
  have htake : (hrp ++ ['1'] ++ post).take hrp.length = hrp := by
    rw [List.append_assoc]; exact List.take_left' rfl
  have hall : (post.all fun x => specConsts.charset.contains x) = true := by
    rw [List.all_eq_true]
    intro x hx
    exact List.contains_iff_mem.mpr (hpost_mem x hx)
  have hidx : post.map (fun x => specConsts.charset.idxOf x) = data ++ cs := by
    rw [← hpost, List.map_map]
    conv => rhs; rw [← List.map_id (data ++ cs)]
    apply List.map_congr_left
    intro d hd'
    exact cf2 d (hcomb d hd')
  have htk : (data ++ cs).take ((data ++ cs).length - 6) = data :=
    List.take_left' (by rw [List.length_append, hcl]; omega)
  unfold bech32Decode
  rw [if_neg hc1]
  simp only [hmap, hrf, if_neg hc2, hdrop, hall, htake, hidx, hv, htk]
  rfl

theorem hrp_good (hrp : List Char) (hh : hrp = "bc".toList ∨ hrp = "tb".toList ∨ hrp = "bcrt".toList) :
    (∀ ch ∈ hrp, lowerC ch = ch ∧ 33 ≤ ch.toNat ∧ ch.toNat ≤ 126) ∧ 1 ≤ hrp.length ∧ hrp.length ≤ 4 := by
  rcases hh with rfl | rfl | rfl <;> decide

/-- **round trip** for the three kinds of witness program and the three network prefixes: the address
string produced for (version, program) decodes to exactly (version, program) -/
theorem decode_encode (hrp : List Char) (hh : hrp = "bc".toList ∨ hrp = "tb".toList ∨ hrp = "bcrt".toList)
    (v : Nat) (prog : List Nat) (hb : ∀ b ∈ prog, b < 256)
    (hv : (v = 0 ∧ (prog.length = 20 ∨ prog.length = 32)) ∨ (v = 1 ∧ prog.length = 32)) :
    ∃ s, encode specConsts hrp v prog = some s ∧ decode specConsts hrp s = some (v, prog) := by
  obtain ⟨five, e5, h5, hl5, eb⟩ := convertbits_roundtrip prog hb
  obtain ⟨hg, hg1, hg4⟩ := hrp_good hrp hh
  have hdata : ∀ d ∈ [v] ++ five, d < 32 := by
    intro d hd
    rw [List.mem_append, List.mem_singleton] at hd
    rcases hd with rfl | h
    · omega
    · exact h5 d h
  have hbd := bech32Decode_encode hrp hg hg1 ([v] ++ five) hdata (if v = 0 then Enc.bech32 else Enc.bech32m)
    (by simp only [List.length_append, List.length_singleton]; omega)
  have hdec : decode specConsts hrp (bech32Encode specConsts hrp ([v] ++ five) (if v = 0 then Enc.bech32 else Enc.bech32m))
      = some (v, prog) := by
    unfold decode
    rw [hbd]
    have hdr : ([v] ++ five).drop 1 = five := rfl
    have hhd : ([v] ++ five).head? = some v := rfl
    simp only [hdr, eb, hhd, ne_eq, not_true_eq_false, if_false]
    have c1 : ¬ (prog.length < 2 ∨ prog.length > 40) := by omega
    have c2 : ¬ (v > 16) := by omega
    have c3 : ¬ (v = 0 ∧ ¬ prog.length = 20 ∧ ¬ prog.length = 32) := by omega
    rw [if_neg c1, if_neg c2, if_neg c3]
    have c4 : ¬ ((v = 0 ∧ ¬ (if v = 0 then Enc.bech32 else Enc.bech32m) = Enc.bech32) ∨
        (¬ v = 0 ∧ ¬ (if v = 0 then Enc.bech32 else Enc.bech32m) = Enc.bech32m)) := by
      rcases hv with ⟨rfl, _⟩ | ⟨rfl, _⟩ <;> simp
    rw [if_neg c4]
  refine ⟨_, ?_, hdec⟩
  unfold encode
  simp only [e5, hdec, Option.isNone_some, Bool.false_eq_true, if_false]

end Bech32Lemmas
