import BU.Py
import BU.Spec.Ripemd160
import BU.Model.Ripemd
/-! Helper lemmas for C20: the word-level model of `ripemd160.py` equals the RIPEMD-160 specification. -/
namespace RipemdLemmas
open Py

/-- the model's 5-tuple of a specification state -/
def tup (s : Spec.Rmd.State) : Model.Rmd.St := (s.a, s.b, s.c, s.d, s.e)

/-! ## generic fold lemmas -/

/-- a fold on pairs whose step acts componentwise (through views `φ`, `ψ`) is the pair of the folds -/
theorem foldl_pair_map {α β σ τ γ : Type} (φ : α → σ) (ψ : β → τ) (f : α → γ → α) (g : β → γ → β)
    (h : σ × τ → γ → σ × τ) (l : List γ)
    (hh : ∀ a b j, j ∈ l → h (φ a, ψ b) j = (φ (f a j), ψ (g b j))) (a : α) (b : β) :
    l.foldl h (φ a, ψ b) = (φ (l.foldl f a), ψ (l.foldl g b)) := by
  induction l generalizing a b with
  | nil => rfl
  | cons j l ih =>
    rw [List.foldl_cons, List.foldl_cons, List.foldl_cons, hh a b j List.mem_cons_self]
    exact ih (fun a b j hj => hh a b j (List.mem_cons_of_mem _ hj)) _ _

theorem foldl_map_view {α σ γ : Type} (φ : α → σ) (f : α → γ → α) (h : σ → γ → σ) (l : List γ)
    (hh : ∀ a j, h (φ a) j = φ (f a j)) (a : α) :
    l.foldl h (φ a) = φ (l.foldl f a) := by
  induction l generalizing a with
  | nil => rfl
  | cons j l ih => rw [List.foldl_cons, List.foldl_cons, hh, ih]

/-! ## one round -/

theorem fi_eq_f (x y z : UInt32) (i : Nat) : Model.Rmd.fi x y z i = Spec.Rmd.f i x y z := by
  rcases i with _ | _ | _ | _ | i <;> simp [Model.Rmd.fi, Spec.Rmd.f]

theorem rol_eq (x : UInt32) (k : Nat) : Model.Rmd.rol x k = Spec.Rmd.rol x k := rfl

/-- the model's list of the sixteen message words -/
def words (block : Bytes) : List UInt32 :=
  (List.range 16).map fun i => UInt32.ofNat (ofLE ((block.drop (4 * i)).take 4))

theorem words_getD (block : Bytes) (k : Nat) (hk : k < 16) :
    (words block).getD k 0 = Spec.Rmd.word block k := by
  simp [words, Spec.Rmd.word, List.getD_eq_getElem?_getD, List.getElem?_map, List.getElem?_range hk]

theorem r_lt : ∀ j < 80, Spec.Rmd.r.getD j 0 < 16 := by decide
theorem r'_lt : ∀ j < 80, Spec.Rmd.r'.getD j 0 < 16 := by decide

theorem round_eq (block : Bytes) (l r : Spec.Rmd.State) (j : Nat) (hj : j < 80) :
    Model.Rmd.round Model.Rmd.specTabs (words block) (tup l, tup r) j =
      (tup (Spec.Rmd.step l (j / 16) (Spec.Rmd.word block (Spec.Rmd.r.getD j 0))
              (Spec.Rmd.K.getD (j / 16) 0) (Spec.Rmd.s.getD j 0)),
       tup (Spec.Rmd.step r (4 - j / 16) (Spec.Rmd.word block (Spec.Rmd.r'.getD j 0))
              (Spec.Rmd.K'.getD (j / 16) 0) (Spec.Rmd.s'.getD j 0))) := by
  simp only [Model.Rmd.round, tup, Spec.Rmd.step, Model.Rmd.specTabs, fi_eq_f, rol_eq,
    words_getD block _ (r_lt j hj), words_getD block _ (r'_lt j hj)]

theorem compress_of_fold (tb : Model.Rmd.Tabs) (h0 h1 h2 h3 h4 : UInt32) (block : Bytes)
    (al bl cl dl el ar br cr dr er : UInt32)
    (hf : (List.range 80).foldl (Model.Rmd.round tb (words block))
        ((h0, h1, h2, h3, h4), (h0, h1, h2, h3, h4)) = ((al, bl, cl, dl, el), (ar, br, cr, dr, er))) :
    Model.Rmd.compress tb (h0, h1, h2, h3, h4) block =
      (h1 + cl + dr, h2 + dl + er, h3 + el + ar, h4 + al + br, h0 + bl + cr) := by
  unfold words at hf
  simp only [Model.Rmd.compress, hf]

theorem compress_eq (h : Spec.Rmd.State) (block : Bytes) :
    Model.Rmd.compress Model.Rmd.specTabs (tup h) block = tup (Spec.Rmd.compress h block) := by
  have key := foldl_pair_map tup tup
    (fun st j => Spec.Rmd.step st (j / 16) (Spec.Rmd.word block (Spec.Rmd.r.getD j 0))
      (Spec.Rmd.K.getD (j / 16) 0) (Spec.Rmd.s.getD j 0))
    (fun st j => Spec.Rmd.step st (4 - j / 16) (Spec.Rmd.word block (Spec.Rmd.r'.getD j 0))
      (Spec.Rmd.K'.getD (j / 16) 0) (Spec.Rmd.s'.getD j 0))
    (Model.Rmd.round Model.Rmd.specTabs (words block)) (List.range 80)
    (fun a b j hj => round_eq block a b j (List.mem_range.mp hj)) h h
  exact compress_of_fold Model.Rmd.specTabs h.a h.b h.c h.d h.e block _ _ _ _ _ _ _ _ _ _ key

/-! ## blocks -/

theorem chunks_append (k n : Nat) (a b : Bytes) (ha : a.length = 64 * k) :
    Spec.Rmd.chunks (k + n) (a ++ b) = Spec.Rmd.chunks k a ++ Spec.Rmd.chunks n b := by
  induction k generalizing a with
  | zero =>
    have : a = [] := List.eq_nil_of_length_eq_zero (by omega)
    subst this
    simp [Spec.Rmd.chunks]
  | succ k ih =>
    have e : k + 1 + n = (k + n) + 1 := by omega
    rw [e]
    simp only [Spec.Rmd.chunks]
    rw [List.take_append_of_le_length (by omega), List.drop_append_of_le_length (by omega),
      ih (a.drop 64) (by rw [List.length_drop]; omega)]
    rfl

theorem blocks_append (k : Nat) (a b : Bytes) (ha : a.length = 64 * k) :
    Spec.Rmd.blocks (a ++ b) = Spec.Rmd.chunks k a ++ Spec.Rmd.blocks b := by
  unfold Spec.Rmd.blocks
  have : (a ++ b).length / 64 = k + b.length / 64 := by rw [List.length_append]; omega
  rw [this, chunks_append k _ a b ha]

theorem chunks_eq_map (k : Nat) (data : Bytes) :
    Spec.Rmd.chunks k data = (List.range k).map (fun b => (data.drop (64 * b)).take 64) := by
  induction k generalizing data with
  | zero => rfl
  | succ k ih =>
    rw [List.range_succ_eq_map, List.map_cons, List.map_map, Spec.Rmd.chunks, ih]
    simp only [Nat.mul_zero, List.drop_zero, List.cons.injEq, true_and]
    apply List.map_congr_left
    intro b _
    simp only [Function.comp, List.drop_drop]
    have : 64 * (b + 1) = 64 + 64 * b := by omega
    rw [this]

theorem processBlocks_eq (tb : Model.Rmd.Tabs) (st : Model.Rmd.St) (data : Bytes) :
    Model.Rmd.processBlocks tb st data =
      (Spec.Rmd.chunks (data.length / 64) data).foldl (Model.Rmd.compress tb) st := by
  rw [chunks_eq_map, List.foldl_map]
  rfl

theorem chunks_take (q : Nat) (m : Bytes) (h : 64 * q ≤ m.length) :
    Spec.Rmd.chunks q m = Spec.Rmd.chunks q (m.take (64 * q)) := by
  have := chunks_append q 0 (m.take (64 * q)) (m.drop (64 * q)) (by rw [List.length_take]; omega)
  rw [List.take_append_drop] at this
  simpa [Spec.Rmd.chunks] using this

theorem foldl_compress_eq (l : List Bytes) (h : Spec.Rmd.State) :
    l.foldl (Model.Rmd.compress Model.Rmd.specTabs) (tup h) = tup (l.foldl Spec.Rmd.compress h) :=
  foldl_map_view tup Spec.Rmd.compress _ l compress_eq h

theorem pad_eq (m : Bytes) :
    Spec.Rmd.pad m = m.take (64 * (m.length / 64)) ++
      (m.drop (m.length / 64 * 64) ++
        ([0x80] ++ List.replicate ((119 + 64 * m.length - m.length) % 64) 0) ++ leBytes 8 (8 * m.length)) := by
  have e1 : (119 + 64 * m.length - m.length) % 64 = (119 - m.length % 64) % 64 := by omega
  have e2 : m.length / 64 * 64 = 64 * (m.length / 64) := by omega
  rw [e1, e2]
  unfold Spec.Rmd.pad
  simp only [List.append_assoc]
  rw [← List.append_assoc (m.take _), List.take_append_drop]

theorem ripemd_eq (m : Bytes) : Model.Rmd.ripemd160 Model.Rmd.specTabs m = Spec.Rmd.ripemd160 m := by
  have hinit : ((0x67452301, 0xefcdab89, 0x98badcfe, 0x10325476, 0xc3d2e1f0) : Model.Rmd.St) =
      tup Spec.Rmd.init := rfl
  unfold Model.Rmd.ripemd160 Spec.Rmd.ripemd160
  rw [pad_eq, blocks_append (m.length / 64) _ _ (by rw [List.length_take]; omega), List.foldl_append]
  simp only [processBlocks_eq]
  rw [chunks_take (m.length / 64) m (by omega), hinit, foldl_compress_eq, foldl_compress_eq]
  rfl

end RipemdLemmas
