import BU.Py
import BU.Spec.Block
import BU.Spec.TxWire
import BU.Model.Block
import BU.Proofs.PyLemmas
import BU.Proofs.TxLemmas
import BU.Properties.C17
/-!
Lemmas for C15: header slicing, the offset-walking length scanner of `BU/Model/Block.lean` on the wire
encoding of a transaction, the transaction loop of `Block.parse`.
-/
namespace BlockLemmas
open Py Spec Model

/-! ### header -/

theorem pack_I_ofLE (x : Bytes) (h : x.length = 4) : Py.pack "<I" (ofLE x : Nat) = .ok x := by
  rw [pack_I]
  unfold packU
  have hlt := ofLE_lt x
  rw [h] at hlt
  have : 0 ≤ ((ofLE x : Nat) : Int) ∧ ((ofLE x : Nat) : Int).toNat < 256 ^ 4 := by omega
  rw [if_pos this, Int.toNat_natCast]
  have := leBytes_ofLE x
  rw [h] at this
  rw [this]

theorem pack_I_nat (v : Nat) (h : v < 2 ^ 32) : Py.pack "<I" (v : Int) = .ok (leBytes 4 v) := by
  rw [pack_I]
  unfold packU
  have : 0 ≤ (v : Int) ∧ (v : Int).toNat < 256 ^ 4 := by omega
  rw [if_pos this, Int.toNat_natCast]

/-- an 80-byte string is the concatenation of its six header fields -/
theorem split80 (b : Bytes) (h : b.length = 80) :
    b = b.take 4 ++ (b.drop 4).take 32 ++ (b.drop 36).take 32 ++ (b.drop 68).take 4 ++
        (b.drop 72).take 4 ++ (b.drop 76).take 4 := by
  have e1 : b = b.take 4 ++ b.drop 4 := (List.take_append_drop 4 b).symm
  have e2 : b.drop 4 = (b.drop 4).take 32 ++ b.drop 36 := by
    have := (List.take_append_drop 32 (b.drop 4)).symm
    rwa [List.drop_drop] at this
  have e3 : b.drop 36 = (b.drop 36).take 32 ++ b.drop 68 := by
    have := (List.take_append_drop 32 (b.drop 36)).symm
    rwa [List.drop_drop] at this
  have e4 : b.drop 68 = (b.drop 68).take 4 ++ b.drop 72 := by
    have := (List.take_append_drop 4 (b.drop 68)).symm
    rwa [List.drop_drop] at this
  have e5 : b.drop 72 = (b.drop 72).take 4 ++ b.drop 76 := by
    have := (List.take_append_drop 4 (b.drop 72)).symm
    rwa [List.drop_drop] at this
  have e6 : b.drop 76 = (b.drop 76).take 4 := by
    rw [List.take_of_length_le]
    simp [h]
  simp only [List.append_assoc]
  rw [← e6, ← e5, ← e4, ← e3, ← e2, ← e1]

theorem header_parse_ok (b : Bytes) (h : b.length = 80) :
    Header.parse b = .ok ⟨ofLE (b.take 4), ((b.drop 4).take 32).reverse, ((b.drop 36).take 32).reverse,
      ofLE ((b.drop 68).take 4), ofLE ((b.drop 72).take 4), ofLE ((b.drop 76).take 4)⟩ := by
  unfold Header.parse
  simp only [h, ne_eq, not_true_eq_false, if_false]

theorem header_serialize_parse (b : Bytes) (h : b.length = 80) :
    ∃ hd, Header.parse b = .ok hd ∧ hd.serialize = .ok b := by
  refine ⟨_, header_parse_ok b h, ?_⟩
  unfold Header.serialize
  simp only []
  rw [pack_I_ofLE _ (by simp [h]), pack_I_ofLE _ (by simp [h]), pack_I_ofLE _ (by simp [h]),
    pack_I_ofLE _ (by simp [h])]
  simp only [bind, Except.bind, pure, Except.pure, List.reverse_reverse]
  rw [← split80 b h]

/-! ### the offset-walking scanner -/

theorem drop_step {data : Bytes} {off : Nat} {a post : Bytes} (h : data.drop off = a ++ post) :
    data.drop (off + a.length) = post := by
  rw [← List.drop_drop, h, List.drop_left]

theorem drop_step' {data : Bytes} {off k : Nat} {a post : Bytes} (h : data.drop off = a ++ post)
    (hk : a.length = k) : data.drop (off + k) = post := by
  subst hk; exact drop_step h

theorem skipCS_at (data : Bytes) (off n : Nat) (post : Bytes) (hn : n < 2 ^ 64)
    (h : data.drop off = compactSize n ++ post) :
    skipCS data off = .ok (n, off + (compactSize n).length) := by
  unfold skipCS
  rw [h, C17.decode_encode n hn post]

theorem scanInputs_spec (data : Bytes) (ins : List RawIn)
    (hw : ∀ i ∈ ins, i.prevHash.length = 32 ∧ i.script.length < 2 ^ 64 ∧ i.sequence.length = 4) (off : Nat) (post : Bytes)
    (h : data.drop off = ins.flatMap encIn ++ post) :
    scanInputs data ins.length off = .ok (off + (ins.flatMap encIn).length) := by
  induction ins generalizing off with
  | nil => simp [scanInputs]
  | cons i ins ih =>
    obtain ⟨h32, hs, h4s⟩ := hw i (by simp)
    simp only [List.flatMap_cons, List.append_assoc] at h
    have h1 : data.drop off = (i.prevHash ++ leBytes 4 i.prevIndex) ++
        (compactSize i.script.length ++ (i.script ++ i.sequence ++ (ins.flatMap encIn ++ post))) := by
      rw [h]; simp only [encIn, withLen, List.append_assoc]
    have h2 := drop_step' h1 (k := 36) (by simp [h32])
    have h3 := skipCS_at data (off + 36) _ _ hs h2
    have h4 : data.drop (off + (encIn i).length) = ins.flatMap encIn ++ post := drop_step h
    have h5 := ih (fun j hj => hw j (by simp [hj])) _ h4
    have e : off + 36 + (compactSize i.script.length).length + i.script.length + 4 = off + (encIn i).length := by
      simp [encIn, withLen, h32, h4s]; omega
    simp only [List.length_cons, scanInputs, h3, bind, Except.bind, e, h5, List.flatMap_cons, List.length_append]
    rw [Nat.add_assoc]

theorem scanOutputs_spec (data : Bytes) (outs : List RawOut)
    (hw : ∀ o ∈ outs, o.script.length < 2 ^ 64) (off : Nat) (post : Bytes)
    (h : data.drop off = outs.flatMap encOut ++ post) :
    scanOutputs data outs.length off = .ok (off + (outs.flatMap encOut).length) := by
  induction outs generalizing off with
  | nil => simp [scanOutputs]
  | cons o outs ih =>
    have hs := hw o (by simp)
    simp only [List.flatMap_cons, List.append_assoc] at h
    have h1 : data.drop off = leBytes 8 o.value ++
        (compactSize o.script.length ++ (o.script ++ (outs.flatMap encOut ++ post))) := by
      rw [h]; simp only [encOut, withLen, List.append_assoc]
    have h2 := drop_step' h1 (k := 8) (by simp)
    have h3 := skipCS_at data (off + 8) _ _ hs h2
    have h4 : data.drop (off + (encOut o).length) = outs.flatMap encOut ++ post := drop_step h
    have h5 := ih (fun j hj => hw j (by simp [hj])) _ h4
    have e : off + 8 + (compactSize o.script.length).length + o.script.length = off + (encOut o).length := by
      simp [encOut, withLen]; omega
    simp only [List.length_cons, scanOutputs, h3, bind, Except.bind, e, h5, List.flatMap_cons, List.length_append]
    rw [Nat.add_assoc]

theorem scanItems_spec (data : Bytes) (its : List Bytes)
    (hw : ∀ it ∈ its, it.length < 2 ^ 64) (off : Nat) (post : Bytes)
    (h : data.drop off = its.flatMap withLen ++ post) :
    scanItems data its.length off = .ok (off + (its.flatMap withLen).length) := by
  induction its generalizing off with
  | nil => simp [scanItems]
  | cons it its ih =>
    have hs := hw it (by simp)
    simp only [List.flatMap_cons, List.append_assoc] at h
    have h1 : data.drop off = compactSize it.length ++ (it ++ (its.flatMap withLen ++ post)) := by
      rw [h]; simp only [withLen, List.append_assoc]
    have h3 := skipCS_at data off _ _ hs h1
    have h4 : data.drop (off + (withLen it).length) = its.flatMap withLen ++ post := drop_step h
    have h5 := ih (fun j hj => hw j (by simp [hj])) _ h4
    have e : off + (compactSize it.length).length + it.length = off + (withLen it).length := by
      simp [withLen]; omega
    simp only [List.length_cons, scanItems, h3, bind, Except.bind, e, h5, List.flatMap_cons, List.length_append]
    rw [Nat.add_assoc]

theorem scanStacks_spec (data : Bytes) (sts : List (List Bytes))
    (hw : ∀ st ∈ sts, st.length < 2 ^ 64 ∧ ∀ it ∈ st, it.length < 2 ^ 64) (off : Nat) (post : Bytes)
    (h : data.drop off = sts.flatMap encStack ++ post) :
    scanStacks data sts.length off = .ok (off + (sts.flatMap encStack).length) := by
  induction sts generalizing off with
  | nil => simp [scanStacks]
  | cons st sts ih =>
    obtain ⟨hs, hi⟩ := hw st (by simp)
    simp only [List.flatMap_cons, List.append_assoc] at h
    have h1 : data.drop off = compactSize st.length ++ (st.flatMap withLen ++ (sts.flatMap encStack ++ post)) := by
      rw [h]; simp only [encStack, List.append_assoc]
    have h3 := skipCS_at data off _ _ hs h1
    have h2 := scanItems_spec data st hi _ _ (drop_step h1)
    have h4 : data.drop (off + (encStack st).length) = sts.flatMap encStack ++ post := drop_step h
    have h5 := ih (fun j hj => hw j (by simp [hj])) _ h4
    have e : off + (compactSize st.length).length + (st.flatMap withLen).length = off + (encStack st).length := by
      simp only [encStack, List.length_append]; omega
    simp only [List.length_cons, scanStacks, h3, h2, bind, Except.bind, e, h5, List.flatMap_cons, List.length_append]
    rw [Nat.add_assoc]

/-! ### `txLength` on a wire encoding -/

theorem index_of_drop (data : Bytes) (k : Nat) (x : UInt8) (tl : Bytes) (h : data.drop k = x :: tl) :
    Py.index data (k : Int) = .ok (x.toNat : Int) := by
  have : data[k]? = some x := by
    have := List.getElem?_drop (xs := data) (i := k) (j := 0)
    rw [h] at this
    simpa using this.symm
  unfold Py.index
  have hk : ¬ ((k : Int) < 0) := by omega
  simp only [hk, if_false, Int.toNat_natCast, this]

theorem index_of_lt (data : Bytes) (k : Nat) (h : k < data.length) :
    ∃ y : Int, Py.index data (k : Int) = .ok y := by
  unfold Py.index
  have hk : ¬ ((k : Int) < 0) := by omega
  simp only [hk, if_false, Int.toNat_natCast, List.getElem?_eq_getElem h]
  exact ⟨_, rfl⟩

theorem compactSize_cons (n : Nat) (h : 1 ≤ n) : ∃ x tl, compactSize n = x :: tl ∧ x.toNat ≠ 0 := by
  unfold compactSize
  by_cases h1 : n < 253
  · refine ⟨UInt8.ofNat n, [], by simp [h1], ?_⟩
    simp [UInt8.toNat_ofNat']; omega
  · simp only [h1, if_false]
    split
    · exact ⟨_, _, rfl, by decide⟩
    · split
      · exact ⟨_, _, rfl, by decide⟩
      · exact ⟨_, _, rfl, by decide⟩

theorem flatMap_encIn_length_ge (ins : List RawIn) (hn1 : 1 ≤ ins.length)
    (hins : ∀ i ∈ ins, i.prevHash.length = 32 ∧ i.script.length < 2 ^ 64 ∧ i.sequence.length = 4) :
    32 ≤ (ins.flatMap encIn).length := by
  cases ins with
  | nil => simp at hn1
  | cons i l =>
    have := (hins i (by simp)).1
    simp only [List.flatMap_cons, List.length_append, encIn]
    omega

theorem txLength_encodeTx (r : RawTx) (seg : Bool) (rest : Bytes)
    (hv : r.version.length = 4) (hl : r.locktime.length = 4)
    (hn1 : 1 ≤ r.ins.length) (hn : r.ins.length < 2 ^ 64) (hm : r.outs.length < 2 ^ 64)
    (hins : ∀ i ∈ r.ins, i.prevHash.length = 32 ∧ i.script.length < 2 ^ 64 ∧ i.sequence.length = 4)
    (houts : ∀ o ∈ r.outs, o.script.length < 2 ^ 64)
    (hw : seg = true → r.wits.length = r.ins.length ∧
      ∀ st ∈ r.wits, st.length < 2 ^ 64 ∧ ∀ it ∈ st, it.length < 2 ^ 64) :
    txLength (encodeTx r seg ++ rest) = .ok (encodeTx r seg).length := by
  have hI := flatMap_encIn_length_ge r.ins hn1 hins
  cases seg with
  | false =>
    generalize hdata : encodeTx r false ++ rest = data
    have hd : data = r.version ++ (compactSize r.ins.length ++ (r.ins.flatMap encIn ++
        (compactSize r.outs.length ++ (r.outs.flatMap encOut ++ (r.locktime ++ rest))))) := by
      rw [← hdata]; simp [encodeTx]
    have d4 : data.drop 4 = compactSize r.ins.length ++ (r.ins.flatMap encIn ++
        (compactSize r.outs.length ++ (r.outs.flatMap encOut ++ (r.locktime ++ rest)))) := by
      rw [hd]; exact List.drop_left' hv
    obtain ⟨x, tl, hx, hx0⟩ := compactSize_cons r.ins.length hn1
    have m : Py.index data 4 = .ok (x.toNat : Int) :=
      index_of_drop data 4 x _ (by rw [d4, hx]; rfl)
    obtain ⟨y, f⟩ : ∃ y : Int, Py.index data 5 = .ok y :=
      index_of_lt data 5 (by rw [hd]; simp only [List.length_append]; omega)
    have s1 := skipCS_at data 4 _ _ hn d4
    have d5 := drop_step d4
    have s2 := scanInputs_spec data r.ins hins _ _ d5
    have d6 := drop_step d5
    have s3 := skipCS_at data _ _ _ hm d6
    have d7 := drop_step d6
    have s4 := scanOutputs_spec data r.outs houts _ _ d7
    have hm0 : (((x.toNat : Int) == 0) && (y != 0)) = false := by
      have : ((x.toNat : Int) == 0) = false := by simp; omega
      rw [this]; rfl
    unfold txLength
    simp only [m, f, bind, Except.bind, hm0, Bool.false_eq_true, if_false, s1, s2, s3, s4, pure, Except.pure]
    congr 1
    simp only [encodeTx, Bool.false_eq_true, if_false, List.length_append, List.length_nil]
    omega
  | true =>
    obtain ⟨hwl, hws⟩ := hw rfl
    generalize hdata : encodeTx r true ++ rest = data
    have hd : data = r.version ++ ([0, 1] ++ (compactSize r.ins.length ++ (r.ins.flatMap encIn ++
        (compactSize r.outs.length ++ (r.outs.flatMap encOut ++ (r.wits.flatMap encStack ++
          (r.locktime ++ rest))))))) := by
      rw [← hdata]; simp [encodeTx]
    have d4 : data.drop 4 = [0, 1] ++ (compactSize r.ins.length ++ (r.ins.flatMap encIn ++
        (compactSize r.outs.length ++ (r.outs.flatMap encOut ++ (r.wits.flatMap encStack ++
          (r.locktime ++ rest)))))) := by
      rw [hd]; exact List.drop_left' hv
    have m : Py.index data 4 = .ok (((0 : UInt8).toNat : Nat) : Int) :=
      index_of_drop data 4 0 _ (by rw [d4]; rfl)
    have d5' : data.drop (4 + 1) = [1] ++ (compactSize r.ins.length ++ (r.ins.flatMap encIn ++
        (compactSize r.outs.length ++ (r.outs.flatMap encOut ++ (r.wits.flatMap encStack ++
          (r.locktime ++ rest)))))) :=
      drop_step' (a := [0]) (by rw [d4]; rfl) rfl
    have f : Py.index data 5 = .ok (((1 : UInt8).toNat : Nat) : Int) :=
      index_of_drop data 5 1 _ (by rw [d5']; rfl)
    have d6' : data.drop 6 = compactSize r.ins.length ++ (r.ins.flatMap encIn ++
        (compactSize r.outs.length ++ (r.outs.flatMap encOut ++ (r.wits.flatMap encStack ++
          (r.locktime ++ rest))))) :=
      drop_step' (off := 4) (k := 2) d4 rfl
    have s1 := skipCS_at data 6 _ _ hn d6'
    have d5 := drop_step d6'
    have s2 := scanInputs_spec data r.ins hins _ _ d5
    have d6 := drop_step d5
    have s3 := skipCS_at data _ _ _ hm d6
    have d7 := drop_step d6
    have s4 := scanOutputs_spec data r.outs houts _ _ d7
    have d8 := drop_step d7
    have s5 := scanStacks_spec data r.wits hws _ _ d8
    rw [hwl] at s5
    have hm0 : ((((0 : UInt8).toNat : Nat) : Int) == 0 && (((1 : UInt8).toNat : Nat) : Int) != 0) = true := by
      decide
    unfold txLength
    simp only [m, f, bind, Except.bind, hm0, if_true, s1, s2, s3, s4, s5, pure, Except.pure]
    congr 1
    simp only [encodeTx, if_true, List.length_append, List.length_cons, List.length_nil]
    omega

/-! ### `mapM` in `Except` -/

theorem mapM_ok_elim {α β : Type} (f : α → Except PyErr β) (xs : List α) (ys : List β)
    (h : xs.mapM f = .ok ys) : ys.length = xs.length ∧ ∀ y ∈ ys, ∃ x ∈ xs, f x = .ok y := by
  induction xs generalizing ys with
  | nil =>
    simp only [List.mapM_nil, pure, Except.pure] at h
    obtain rfl := Except.ok.inj h
    simp
  | cons x xs ih =>
    rw [List.mapM_cons] at h
    cases hx : f x with
    | error e => simp [hx, bind, Except.bind] at h
    | ok b =>
      cases hr : xs.mapM f with
      | error e => simp [hx, hr, bind, Except.bind] at h
      | ok bs =>
        simp only [hx, hr, bind, Except.bind, pure, Except.pure] at h
        obtain rfl := Except.ok.inj h
        obtain ⟨l, m⟩ := ih bs hr
        refine ⟨by simp [l], ?_⟩
        intro y hy
        rcases List.mem_cons.mp hy with rfl | hy
        · exact ⟨x, by simp, hx⟩
        · obtain ⟨x', hx', e⟩ := m y hy
          exact ⟨x', by simp [hx'], e⟩

theorem mapM_ok_of_forall {α β : Type} (f : α → Except PyErr β) (xs : List α)
    (h : ∀ x ∈ xs, ∃ y, f x = .ok y) : ∃ ys, xs.mapM f = .ok ys := by
  induction xs with
  | nil => exact ⟨[], rfl⟩
  | cons x xs ih =>
    obtain ⟨y, hy⟩ := h x (by simp)
    obtain ⟨ys, hys⟩ := ih (fun z hz => h z (by simp [hz]))
    refine ⟨y :: ys, ?_⟩
    rw [List.mapM_cons]
    simp only [hy, hys, bind, Except.bind, pure, Except.pure]

/-! ### the block -/

theorem blockTxs_spec (T : Tables) (data : Bytes) (encs : List Bytes)
    (hlen : ∀ e ∈ encs, ∀ rest, txLength (e ++ rest) = .ok e.length)
    (parsed : List Tx) (hp : encs.mapM (Tx.parse T) = .ok parsed) (off : Nat) (post : Bytes)
    (h : data.drop off = encs.flatten ++ post) :
    blockTxs T data encs.length off = parsed := by
  induction encs generalizing off parsed with
  | nil =>
    simp only [List.mapM_nil, pure, Except.pure] at hp
    obtain rfl := Except.ok.inj hp
    simp [blockTxs]
  | cons e es ih =>
    rw [List.mapM_cons] at hp
    cases hx : Tx.parse T e with
    | error err => simp [hx, bind, Except.bind] at hp
    | ok t =>
      cases hr : es.mapM (Tx.parse T) with
      | error err => simp [hx, hr, bind, Except.bind] at hp
      | ok ts =>
        simp only [hx, hr, bind, Except.bind, pure, Except.pure] at hp
        obtain rfl := Except.ok.inj hp
        simp only [List.flatten_cons, List.append_assoc] at h
        have h1 := hlen e (by simp) (es.flatten ++ post)
        have h2 := ih (fun e' he' => hlen e' (by simp [he'])) ts hr _ (drop_step h)
        simp only [List.length_cons, blockTxs, h, h1, List.take_left' rfl, hx, h2]

theorem block_parse_frame (T : Tables) (magic header : Bytes) (size : Nat) (encs : List Bytes)
    (hm : magic.length = 4) (hh : header.length = 80) (hs : size < 2 ^ 32) (hn : encs.length < 2 ^ 64)
    (hd : Header) (hhd : Header.parse header = .ok hd)
    (hlen : ∀ e ∈ encs, ∀ rest, txLength (e ++ rest) = .ok e.length)
    (parsed : List Tx) (hp : encs.mapM (Tx.parse T) = .ok parsed) :
    Block.parse T (frameBlock magic size header encs) =
      .ok { magic := magic, size := size, header := hd, count := encs.length, txs := parsed } := by
  generalize hdata : frameBlock magic size header encs = data
  have hd0 : data = magic ++ (leBytes 4 size ++ (header ++ (compactSize encs.length ++ encs.flatten))) := by
    rw [← hdata]; simp [frameBlock]
  have t4 : data.take 4 = magic := by rw [hd0]; exact List.take_left' hm
  have d4 : data.drop 4 = leBytes 4 size ++ (header ++ (compactSize encs.length ++ encs.flatten)) := by
    rw [hd0]; exact List.drop_left' hm
  have d8 : data.drop (4 + 4) = header ++ (compactSize encs.length ++ encs.flatten) :=
    drop_step' d4 (by simp)
  have d88 : data.drop (4 + 4 + 80) = compactSize encs.length ++ (encs.flatten ++ []) := by
    rw [List.append_nil]; exact drop_step' d8 hh
  have e1 : Py.slice data 4 8 = leBytes 4 size := by
    have : Py.slice data 4 8 = (data.drop 4).take 4 := rfl
    rw [this, d4]; exact List.take_left' (by simp)
  have e2 : Py.slice data 8 88 = header := by
    have : Py.slice data 8 88 = (data.drop (4 + 4)).take 80 := rfl
    rw [this, d8]; exact List.take_left' hh
  have e3 : Py.unpack1 "<I" (leBytes 4 size) = .ok (size : Int) := by
    rw [unpack1_I]
    unfold unpackU
    simp only [leBytes_length, if_true, ofLE_leBytes 4 size (by omega)]
  have s1 := skipCS_at data 88 _ _ hn d88
  have b1 := blockTxs_spec T data encs hlen parsed hp _ [] (drop_step d88)
  unfold Block.parse
  simp only [e1, e2, e3, hhd, s1, bind, Except.bind, pure, Except.pure, t4, b1, Int.toNat_natCast]

end BlockLemmas
