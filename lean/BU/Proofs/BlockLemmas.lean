import BU.Py
import BU.Spec.Block
import BU.Spec.TxWire
import BU.Model.Block
import BU.Proofs.PyLemmas
import BU.Proofs.TxLemmas
import BU.Properties.C17
/-!
Lemmas for C15: header slicing, the offset-walking length scanner of `BU/Model/Block.lean` on the wire
encoding of a transaction, the transaction loop of `Block.parse`.
-/
namespace BlockLemmas
open Py Spec Model

/-! ### header -/

theorem pack_I_ofLE (x : Bytes) (h : x.length = 4) : Py.pack "<I" (ofLE x : Nat) = .ok x := by
  rw [pack_I]
  unfold packU
  have hlt := ofLE_lt x
  rw [h] at hlt
  have : 0 ≤ ((ofLE x : Nat) : Int) ∧ ((ofLE x : Nat) : Int).toNat < 256 ^ 4 := by omega
  simp only [this, and_self, if_true, Int.toNat_natCast]
  have := leBytes_ofLE x
  rw [h] at this
  rw [this]

theorem pack_I_nat (v : Nat) (h : v < 2 ^ 32) : Py.pack "<I" (v : Int) = .ok (leBytes 4 v) := by
  rw [pack_I]
  unfold packU
  have : 0 ≤ (v : Int) ∧ (v : Int).toNat < 256 ^ 4 := by omega
  simp only [this, and_self, if_true, Int.toNat_natCast]

/-- an 80-byte string is the concatenation of its six header fields -/
theorem split80 (b : Bytes) (h : b.length = 80) :
    b = b.take 4 ++ (b.drop 4).take 32 ++ (b.drop 36).take 32 ++ (b.drop 68).take 4 ++
        (b.drop 72).take 4 ++ (b.drop 76).take 4 := by
  have e1 : b = b.take 4 ++ b.drop 4 := (List.take_append_drop 4 b).symm
  have e2 : b.drop 4 = (b.drop 4).take 32 ++ b.drop 36 := by
    have := (List.take_append_drop 32 (b.drop 4)).symm
    rwa [List.drop_drop] at this
  have e3 : b.drop 36 = (b.drop 36).take 32 ++ b.drop 68 := by
    have := (List.take_append_drop 32 (b.drop 36)).symm
    rwa [List.drop_drop] at this
  have e4 : b.drop 68 = (b.drop 68).take 4 ++ b.drop 72 := by
    have := (List.take_append_drop 4 (b.drop 68)).symm
    rwa [List.drop_drop] at this
  have e5 : b.drop 72 = (b.drop 72).take 4 ++ b.drop 76 := by
    have := (List.take_append_drop 4 (b.drop 72)).symm
    rwa [List.drop_drop] at this
  have e6 : b.drop 76 = (b.drop 76).take 4 := by
    rw [List.take_of_length_le]
    simp [h]
  simp only [List.append_assoc]
  rw [← e6, ← e5, ← e4, ← e3, ← e2, ← e1]

theorem header_parse_ok (b : Bytes) (h : b.length = 80) :
    Header.parse b = .ok { version := ofLE (b.take 4), prev := ((b.drop 4).take 32).reverse,
             merkle := ((b.drop 36).take 32).reverse, time := ofLE ((b.drop 68).take 4),
             bits := ofLE ((b.drop 72).take 4), nonce := ofLE ((b.drop 76).take 4) } := by
  unfold Header.parse
  simp only [h, ne_eq, not_true_eq_false, if_false]

theorem header_serialize_parse (b : Bytes) (h : b.length = 80) :
    ∃ hd, Header.parse b = .ok hd ∧ hd.serialize = .ok b := by
  refine ⟨_, header_parse_ok b h, ?_⟩
  unfold Header.serialize
  simp only []
  rw [pack_I_ofLE _ (by simp [h]), pack_I_ofLE _ (by simp [h]), pack_I_ofLE _ (by simp [h]),
    pack_I_ofLE _ (by simp [h])]
  simp only [bind, Except.bind, pure, Except.pure, List.reverse_reverse]
  rw [← split80 b h]

end BlockLemmas
