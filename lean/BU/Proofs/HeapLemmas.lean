import BU.Py
import BU.Model.Heap
import BU.Model.Digest
/-! Helper lemmas for C13 (heap model `Model.Heap`): allocation, extension, views, reachability, frame,
copies, and the simulation of `get_transaction_digest`. -/
namespace HeapLemmas
open Py Spec Model Model.Heap

/-! ## lookups -/

theorem get_ext {h : H} {x : Nat} {o : Obj} (ext : H) (hx : h[x]? = some o) : (h ++ ext)[x]? = some o := by
  have hlt : x < h.length := (List.getElem?_eq_some_iff.mp hx).1
  rw [List.getElem?_append_left hlt]; exact hx

theorem get_ext_lt {h : H} {x : Nat} (ext : H) (hx : x < h.length) : (h ++ ext)[x]? = h[x]? :=
  List.getElem?_append_left hx

theorem get_lt {h : H} {x : Nat} {o : Obj} (hx : h[x]? = some o) : x < h.length :=
  (List.getElem?_eq_some_iff.mp hx).1

theorem get_new (h : H) (o : Obj) (ext : H) : (h ++ o :: ext)[h.length]? = some o := by
  simp

theorem get_write_ne {h : H} {w x : Nat} (o : Obj) (hne : x ≠ w) : (write h w o)[x]? = h[x]? := by
  unfold write; exact List.getElem?_set_ne (Ne.symm hne)

theorem get_write_self {h : H} {w : Nat} (o : Obj) (hw : w < h.length) : (write h w o)[w]? = some o := by
  unfold write; simp [hw]

theorem length_write (h : H) (w : Nat) (o : Obj) : (write h w o).length = h.length := by
  unfold write; simp

/-! ## `mapM` in `Option` -/

theorem mapM_some_iff {α β} (f : α → Option β) (l : List α) (v : List β) :
    l.mapM f = some v ↔ l.map f = v.map some := by
  induction l generalizing v with
  | nil =>
    cases v <;> simp
  | cons x xs ih =>
    rw [List.mapM_cons]
    cases v with
    | nil => cases f x <;> cases xs.mapM f <;> simp
    | cons z zs =>
      simp only [List.map_cons, List.cons.injEq]
      rw [← ih zs]
      cases f x <;> cases xs.mapM f <;> simp

theorem mapM_congr {α β} {f g : α → Option β} {l : List α} (hfg : ∀ x ∈ l, f x = g x) : l.mapM f = l.mapM g := by
  induction l with
  | nil => rfl
  | cons x xs ih =>
    rw [List.mapM_cons, List.mapM_cons, hfg x (by simp), ih (fun y hy => hfg y (by simp [hy]))]

theorem map_some_mem {α β} {f : α → Option β} {l : List α} {v : List β} (hm : l.map f = v.map some) :
    ∀ x ∈ l, ∃ y, f x = some y := by
  intro x hx
  have : f x ∈ l.map f := List.mem_map_of_mem hx
  rw [hm, List.mem_map] at this
  obtain ⟨y, _, hy⟩ := this
  exact ⟨y, hy.symm⟩

/-! ## inversion of the views -/

theorem viewScript_some {h : H} {r : Ref} {v : List Tok} :
    viewScript h r = some v ↔ ∃ l, h[r]? = some (.script l) ∧ h[l]? = some (.toklist v) := by
  unfold viewScript
  constructor
  · intro hv
    split at hv
    · rename_i l hl
      split at hv
      · rename_i items hi
        simp only [Option.some.injEq] at hv; subst hv; exact ⟨l, hl, hi⟩
      · cases hv
    · cases hv
  · rintro ⟨l, hl, hi⟩
    simp only [hl, hi]

theorem viewWit_some {h : H} {r : Ref} {v : List Bytes} :
    viewWit h r = some v ↔ ∃ l, h[r]? = some (.wit l) ∧ h[l]? = some (.strlist v) := by
  unfold viewWit
  constructor
  · intro hv
    split at hv
    · rename_i l hl
      split at hv
      · rename_i items hi
        simp only [Option.some.injEq] at hv; subst hv; exact ⟨l, hl, hi⟩
      · cases hv
    · cases hv
  · rintro ⟨l, hl, hi⟩
    simp only [hl, hi]

theorem viewTxIn_some {h : H} {r : Ref} {v : TxIn} :
    viewTxIn h r = some v ↔ ∃ txid index s sequence toks, h[r]? = some (.txin txid index s sequence) ∧
      viewScript h s = some toks ∧ v = { txid := txid, index := index, scriptSig := toks, sequence := sequence } := by
  unfold viewTxIn
  constructor
  · intro hv
    split at hv
    · rename_i txid index s sequence hl
      cases hs : viewScript h s with
      | none => rw [hs] at hv; cases hv
      | some toks =>
        rw [hs] at hv; simp only [Option.map_some, Option.some.injEq] at hv
        exact ⟨txid, index, s, sequence, toks, hl, hs, hv.symm⟩
    · cases hv
  · rintro ⟨txid, index, s, sequence, toks, hl, hs, rfl⟩
    simp only [hl, hs, Option.map_some]

theorem viewTxOut_some {h : H} {r : Ref} {v : TxOut} :
    viewTxOut h r = some v ↔ ∃ amount s toks, h[r]? = some (.txout amount s) ∧
      viewScript h s = some toks ∧ v = { amount := amount, script := toks } := by
  unfold viewTxOut
  constructor
  · intro hv
    split at hv
    · rename_i amount s hl
      cases hs : viewScript h s with
      | none => rw [hs] at hv; cases hv
      | some toks =>
        rw [hs] at hv; simp only [Option.map_some, Option.some.injEq] at hv
        exact ⟨amount, s, toks, hl, hs, hv.symm⟩
    · cases hv
  · rintro ⟨amount, s, toks, hl, hs, rfl⟩
    simp only [hl, hs, Option.map_some]

theorem viewTx_some {h : H} {r : Ref} {t : Tx} :
    viewTx h r = some t ↔ ∃ version locktime seg a b c ins outs wits,
      h[r]? = some (.tx version locktime seg a b c) ∧
      h[a]? = some (.reflist ins) ∧ h[b]? = some (.reflist outs) ∧ h[c]? = some (.reflist wits) ∧
      ins.map (viewTxIn h) = t.inputs.map some ∧ outs.map (viewTxOut h) = t.outputs.map some ∧
      wits.map (viewWit h) = t.witnesses.map some ∧
      t.version = version ∧ t.locktime = locktime ∧ t.hasSegwit = seg := by
  unfold viewTx
  constructor
  · intro hv
    split at hv
    · rename_i version locktime seg a b c hl
      split at hv
      · rename_i ins outs wits ha hb hc
        cases hi : ins.mapM (viewTxIn h) with
        | none => rw [hi] at hv; cases hv
        | some i =>
          cases ho : outs.mapM (viewTxOut h) with
          | none => rw [hi, ho] at hv; cases hv
          | some o =>
            cases hw : wits.mapM (viewWit h) with
            | none => rw [hi, ho, hw] at hv; cases hv
            | some w =>
              rw [hi, ho, hw] at hv
              simp only [bind, Option.bind, pure, Option.some.injEq] at hv
              subst hv
              exact ⟨version, locktime, seg, a, b, c, ins, outs, wits, hl, ha, hb, hc,
                (mapM_some_iff _ _ _).mp hi, (mapM_some_iff _ _ _).mp ho, (mapM_some_iff _ _ _).mp hw, rfl, rfl, rfl⟩
      · cases hv
    · cases hv
  · rintro ⟨version, locktime, seg, a, b, c, ins, outs, wits, hl, ha, hb, hc, hi, ho, hw, rfl, rfl, rfl⟩
    simp only [hl, ha, hb, hc]
    rw [(mapM_some_iff _ _ _).mpr hi, (mapM_some_iff _ _ _).mpr ho, (mapM_some_iff _ _ _).mpr hw]
    rfl

/-! ## extension preserves well-typed views and their reach -/

theorem viewScript_ext {h : H} {r : Ref} {v} (ext : H) (hv : viewScript h r = some v) :
    viewScript (h ++ ext) r = some v := by
  obtain ⟨l, h1, h2⟩ := viewScript_some.mp hv
  exact viewScript_some.mpr ⟨l, get_ext ext h1, get_ext ext h2⟩

theorem viewWit_ext {h : H} {r : Ref} {v} (ext : H) (hv : viewWit h r = some v) :
    viewWit (h ++ ext) r = some v := by
  obtain ⟨l, h1, h2⟩ := viewWit_some.mp hv
  exact viewWit_some.mpr ⟨l, get_ext ext h1, get_ext ext h2⟩

theorem viewTxIn_ext {h : H} {r : Ref} {v} (ext : H) (hv : viewTxIn h r = some v) :
    viewTxIn (h ++ ext) r = some v := by
  obtain ⟨txid, index, s, sequence, toks, h1, h2, h3⟩ := viewTxIn_some.mp hv
  exact viewTxIn_some.mpr ⟨txid, index, s, sequence, toks, get_ext ext h1, viewScript_ext ext h2, h3⟩

theorem viewTxOut_ext {h : H} {r : Ref} {v} (ext : H) (hv : viewTxOut h r = some v) :
    viewTxOut (h ++ ext) r = some v := by
  obtain ⟨amount, s, toks, h1, h2, h3⟩ := viewTxOut_some.mp hv
  exact viewTxOut_some.mpr ⟨amount, s, toks, get_ext ext h1, viewScript_ext ext h2, h3⟩

theorem map_view_ext {α} {view : H → Ref → Option α} (hext : ∀ h r v ext, view h r = some v → view (h ++ ext) r = some v)
    {h : H} {l : List Ref} {vs : List α} (ext : H) (hm : l.map (view h) = vs.map some) :
    l.map (view (h ++ ext)) = vs.map some := by
  rw [← hm]
  apply List.map_congr_left
  intro x hx
  obtain ⟨y, hy⟩ := map_some_mem hm x hx
  rw [hy]; exact hext _ _ _ _ hy

theorem viewTx_ext {h : H} {r : Ref} {v} (ext : H) (hv : viewTx h r = some v) :
    viewTx (h ++ ext) r = some v := by
  obtain ⟨version, locktime, seg, a, b, c, ins, outs, wits, hl, ha, hb, hc, hi, ho, hw, h1, h2, h3⟩ := viewTx_some.mp hv
  exact viewTx_some.mpr ⟨version, locktime, seg, a, b, c, ins, outs, wits, get_ext ext hl, get_ext ext ha,
    get_ext ext hb, get_ext ext hc, map_view_ext (fun _ _ _ e => viewTxIn_ext e) ext hi,
    map_view_ext (fun _ _ _ e => viewTxOut_ext e) ext ho, map_view_ext (fun _ _ _ e => viewWit_ext e) ext hw, h1, h2, h3⟩

theorem reachScript_of_view {h : H} {r : Ref} {v} (hv : viewScript h r = some v) :
    ∃ l, h[r]? = some (.script l) ∧ h[l]? = some (.toklist v) ∧ reachScript h r = [r, l] := by
  obtain ⟨l, h1, h2⟩ := viewScript_some.mp hv
  exact ⟨l, h1, h2, by unfold reachScript; simp only [h1]⟩

theorem reachScript_ext {h : H} {r : Ref} {v} (ext : H) (hv : viewScript h r = some v) :
    reachScript (h ++ ext) r = reachScript h r := by
  obtain ⟨l, h1, _⟩ := viewScript_some.mp hv
  unfold reachScript; simp only [h1, get_ext ext h1]

theorem reachWit_ext {h : H} {r : Ref} {v} (ext : H) (hv : viewWit h r = some v) :
    reachWit (h ++ ext) r = reachWit h r := by
  obtain ⟨l, h1, _⟩ := viewWit_some.mp hv
  unfold reachWit; simp only [h1, get_ext ext h1]

theorem reachTxIn_ext {h : H} {r : Ref} {v} (ext : H) (hv : viewTxIn h r = some v) :
    reachTxIn (h ++ ext) r = reachTxIn h r := by
  obtain ⟨txid, index, s, sequence, toks, h1, h2, _⟩ := viewTxIn_some.mp hv
  unfold reachTxIn; simp only [h1, get_ext ext h1, reachScript_ext ext h2]

theorem reachTxOut_ext {h : H} {r : Ref} {v} (ext : H) (hv : viewTxOut h r = some v) :
    reachTxOut (h ++ ext) r = reachTxOut h r := by
  obtain ⟨amount, s, toks, h1, h2, _⟩ := viewTxOut_some.mp hv
  unfold reachTxOut; simp only [h1, get_ext ext h1, reachScript_ext ext h2]

theorem flatMap_congr' {α β} {f g : α → List β} {l : List α} (hfg : ∀ x ∈ l, f x = g x) : l.flatMap f = l.flatMap g := by
  induction l with
  | nil => rfl
  | cons x xs ih =>
    simp only [List.flatMap_cons]
    rw [hfg x (by simp), ih (fun y hy => hfg y (by simp [hy]))]

theorem reachTx_ext {h : H} {r : Ref} {v} (ext : H) (hv : viewTx h r = some v) :
    reachTx (h ++ ext) r = reachTx h r := by
  obtain ⟨version, locktime, seg, a, b, c, ins, outs, wits, hl, ha, hb, hc, hi, ho, hw, _⟩ := viewTx_some.mp hv
  unfold reachTx
  simp only [hl, ha, hb, hc, get_ext ext hl, get_ext ext ha, get_ext ext hb, get_ext ext hc]
  congr 1
  · congr 1
    · congr 1
      apply flatMap_congr'
      intro x hx
      obtain ⟨y, hy⟩ := map_some_mem hi x hx
      exact reachTxIn_ext ext hy
    · apply flatMap_congr'
      intro x hx
      obtain ⟨y, hy⟩ := map_some_mem ho x hx
      exact reachTxOut_ext ext hy
  · apply flatMap_congr'
    intro x hx
    obtain ⟨y, hy⟩ := map_some_mem hw x hx
    exact reachWit_ext ext hy


/-! ## frame -/

theorem viewScript_frame {h : H} {r w : Ref} (o : Obj) (hw : w ∉ reachScript h r) :
    viewScript (write h w o) r = viewScript h r := by
  unfold reachScript at hw
  unfold viewScript
  have hr : r ≠ w := by rintro rfl; split at hw <;> simp at hw
  rw [get_write_ne o hr]
  split
  · rename_i l hl
    simp only [hl, List.mem_cons, List.not_mem_nil, or_false, not_or] at hw
    rw [get_write_ne o (Ne.symm hw.2)]
    simp only [hl]
  · rfl

theorem viewWit_frame {h : H} {r w : Ref} (o : Obj) (hw : w ∉ reachWit h r) :
    viewWit (write h w o) r = viewWit h r := by
  unfold reachWit at hw
  unfold viewWit
  have hr : r ≠ w := by rintro rfl; split at hw <;> simp at hw
  rw [get_write_ne o hr]
  split
  · rename_i l hl
    simp only [hl, List.mem_cons, List.not_mem_nil, or_false, not_or] at hw
    rw [get_write_ne o (Ne.symm hw.2)]
    simp only [hl]
  · rfl

theorem viewTxIn_frame {h : H} {r w : Ref} (o : Obj) (hw : w ∉ reachTxIn h r) :
    viewTxIn (write h w o) r = viewTxIn h r := by
  unfold reachTxIn at hw
  unfold viewTxIn
  have hr : r ≠ w := by rintro rfl; split at hw <;> simp at hw
  rw [get_write_ne o hr]
  split
  · rename_i txid index s sequence hl
    simp only [hl, List.mem_cons, not_or] at hw
    rw [viewScript_frame o hw.2]
    simp only [hl]
  · rfl

theorem viewTxOut_frame {h : H} {r w : Ref} (o : Obj) (hw : w ∉ reachTxOut h r) :
    viewTxOut (write h w o) r = viewTxOut h r := by
  unfold reachTxOut at hw
  unfold viewTxOut
  have hr : r ≠ w := by rintro rfl; split at hw <;> simp at hw
  rw [get_write_ne o hr]
  split
  · rename_i amount s hl
    simp only [hl, List.mem_cons, not_or] at hw
    rw [viewScript_frame o hw.2]
    simp only [hl]
  · rfl

theorem viewTx_frame {h : H} {r w : Ref} (o : Obj) (hw : w ∉ reachTx h r) :
    viewTx (write h w o) r = viewTx h r := by
  unfold reachTx at hw
  unfold viewTx
  have hr : r ≠ w := by rintro rfl; split at hw <;> simp at hw
  rw [get_write_ne o hr]
  split
  · rename_i version locktime seg a b c hl
    simp only [hl, List.mem_append, List.mem_cons, List.not_mem_nil, or_false, not_or, List.mem_flatMap,
      not_exists, not_and] at hw
    obtain ⟨⟨⟨⟨_, ha, hb, hc⟩, hi⟩, ho⟩, hwit⟩ := hw
    rw [get_write_ne o (Ne.symm ha), get_write_ne o (Ne.symm hb), get_write_ne o (Ne.symm hc)]
    split
    · rename_i ins outs wits ha' hb' hc'
      simp only [ha', hb', hc'] at hi ho hwit
      rw [mapM_congr (fun x hx => viewTxIn_frame o (hi x hx)),
        mapM_congr (fun x hx => viewTxOut_frame o (ho x hx)),
        mapM_congr (fun x hx => viewWit_frame o (hwit x hx))]
      simp only [hl, ha', hb', hc']
    · rename_i hn
      simp only [hl]
  · rfl

/-! ## closed heaps: reach of an old object is old; views of old objects are unchanged by extension -/

theorem reachScript_old {h : H} (hcl : closed h) {r : Ref} (hr : r < h.length) : ∀ x ∈ reachScript h r, x < h.length := by
  intro x hx
  unfold reachScript at hx
  split at hx
  · rename_i l hl
    have := hcl r _ hl l (by simp [refsOf])
    simp only [List.mem_cons, List.not_mem_nil, or_false] at hx
    rcases hx with rfl | rfl <;> assumption
  · simp only [List.mem_cons, List.not_mem_nil, or_false] at hx; subst hx; exact hr

theorem reachWit_old {h : H} (hcl : closed h) {r : Ref} (hr : r < h.length) : ∀ x ∈ reachWit h r, x < h.length := by
  intro x hx
  unfold reachWit at hx
  split at hx
  · rename_i l hl
    have := hcl r _ hl l (by simp [refsOf])
    simp only [List.mem_cons, List.not_mem_nil, or_false] at hx
    rcases hx with rfl | rfl <;> assumption
  · simp only [List.mem_cons, List.not_mem_nil, or_false] at hx; subst hx; exact hr

theorem reachTxIn_old {h : H} (hcl : closed h) {r : Ref} (hr : r < h.length) : ∀ x ∈ reachTxIn h r, x < h.length := by
  intro x hx
  unfold reachTxIn at hx
  split at hx
  · rename_i txid index s sequence hl
    have := hcl r _ hl s (by simp [refsOf])
    simp only [List.mem_cons] at hx
    rcases hx with rfl | hx
    · exact hr
    · exact reachScript_old hcl this x hx
  · simp only [List.mem_cons, List.not_mem_nil, or_false] at hx; subst hx; exact hr

theorem reachTxOut_old {h : H} (hcl : closed h) {r : Ref} (hr : r < h.length) : ∀ x ∈ reachTxOut h r, x < h.length := by
  intro x hx
  unfold reachTxOut at hx
  split at hx
  · rename_i amount s hl
    have := hcl r _ hl s (by simp [refsOf])
    simp only [List.mem_cons] at hx
    rcases hx with rfl | hx
    · exact hr
    · exact reachScript_old hcl this x hx
  · simp only [List.mem_cons, List.not_mem_nil, or_false] at hx; subst hx; exact hr

theorem reachTx_old {h : H} (hcl : closed h) {r : Ref} (hr : r < h.length) : ∀ x ∈ reachTx h r, x < h.length := by
  intro x hx
  unfold reachTx at hx
  split at hx
  · rename_i version locktime seg a b c hl
    have ha := hcl r _ hl a (by simp [refsOf])
    have hb := hcl r _ hl b (by simp [refsOf])
    have hc := hcl r _ hl c (by simp [refsOf])
    simp only [List.mem_append, List.mem_cons, List.not_mem_nil, or_false, List.mem_flatMap] at hx
    rcases hx with ((((rfl | rfl | rfl | rfl) | ⟨y, hy, hxy⟩) | ⟨y, hy, hxy⟩) | ⟨y, hy, hxy⟩)
    · exact hr
    · exact ha
    · exact hb
    · exact hc
    · split at hy
      · rename_i xs hxs
        exact reachTxIn_old hcl (hcl a _ hxs y (by simpa [refsOf] using hy)) x hxy
      · cases hy
    · split at hy
      · rename_i xs hxs
        exact reachTxOut_old hcl (hcl b _ hxs y (by simpa [refsOf] using hy)) x hxy
      · cases hy
    · split at hy
      · rename_i xs hxs
        exact reachWit_old hcl (hcl c _ hxs y (by simpa [refsOf] using hy)) x hxy
      · cases hy
  · simp only [List.mem_cons, List.not_mem_nil, or_false] at hx; subst hx; exact hr


theorem viewScript_ext_closed {h : H} (hcl : closed h) {r : Ref} (hr : r < h.length) (ext : H) :
    viewScript (h ++ ext) r = viewScript h r := by
  unfold viewScript
  rw [get_ext_lt ext hr]
  split
  · rename_i l hl
    rw [get_ext_lt ext (hcl r _ hl l (by simp [refsOf]))]
    simp only [hl]
  · rfl

theorem viewWit_ext_closed {h : H} (hcl : closed h) {r : Ref} (hr : r < h.length) (ext : H) :
    viewWit (h ++ ext) r = viewWit h r := by
  unfold viewWit
  rw [get_ext_lt ext hr]
  split
  · rename_i l hl
    rw [get_ext_lt ext (hcl r _ hl l (by simp [refsOf]))]
    simp only [hl]
  · rfl

theorem viewTxIn_ext_closed {h : H} (hcl : closed h) {r : Ref} (hr : r < h.length) (ext : H) :
    viewTxIn (h ++ ext) r = viewTxIn h r := by
  unfold viewTxIn
  rw [get_ext_lt ext hr]
  split
  · rename_i txid index s sequence hl
    rw [viewScript_ext_closed hcl (hcl r _ hl s (by simp [refsOf])) ext]
    simp only [hl]
  · rfl

theorem viewTxOut_ext_closed {h : H} (hcl : closed h) {r : Ref} (hr : r < h.length) (ext : H) :
    viewTxOut (h ++ ext) r = viewTxOut h r := by
  unfold viewTxOut
  rw [get_ext_lt ext hr]
  split
  · rename_i amount s hl
    rw [viewScript_ext_closed hcl (hcl r _ hl s (by simp [refsOf])) ext]
    simp only [hl]
  · rfl

theorem viewTx_ext_closed {h : H} (hcl : closed h) {r : Ref} (hr : r < h.length) (ext : H) :
    viewTx (h ++ ext) r = viewTx h r := by
  unfold viewTx
  rw [get_ext_lt ext hr]
  split
  · rename_i version locktime seg a b c hl
    have ha := hcl r _ hl a (by simp [refsOf])
    have hb := hcl r _ hl b (by simp [refsOf])
    have hc := hcl r _ hl c (by simp [refsOf])
    rw [get_ext_lt ext ha, get_ext_lt ext hb, get_ext_lt ext hc]
    split
    · rename_i ins outs wits ha' hb' hc'
      rw [mapM_congr (fun x hx => viewTxIn_ext_closed hcl (hcl a _ ha' x (by simpa [refsOf] using hx)) ext),
        mapM_congr (fun x hx => viewTxOut_ext_closed hcl (hcl b _ hb' x (by simpa [refsOf] using hx)) ext),
        mapM_congr (fun x hx => viewWit_ext_closed hcl (hcl c _ hc' x (by simpa [refsOf] using hx)) ext)]
      simp only [hl, ha', hb', hc']
    · rename_i hn
      simp only [hl]
  · rfl

theorem reachScript_ext_closed {h : H} {r : Ref} (hr : r < h.length) (ext : H) :
    reachScript (h ++ ext) r = reachScript h r := by
  unfold reachScript
  rw [get_ext_lt ext hr]

theorem reachWit_ext_closed {h : H} {r : Ref} (hr : r < h.length) (ext : H) :
    reachWit (h ++ ext) r = reachWit h r := by
  unfold reachWit
  rw [get_ext_lt ext hr]

theorem reachTxIn_ext_closed {h : H} (hcl : closed h) {r : Ref} (hr : r < h.length) (ext : H) :
    reachTxIn (h ++ ext) r = reachTxIn h r := by
  unfold reachTxIn
  rw [get_ext_lt ext hr]
  split
  · rename_i txid index s sequence hl
    rw [reachScript_ext_closed (hcl r _ hl s (by simp [refsOf])) ext]
    simp only [hl]
  · rfl

theorem reachTxOut_ext_closed {h : H} (hcl : closed h) {r : Ref} (hr : r < h.length) (ext : H) :
    reachTxOut (h ++ ext) r = reachTxOut h r := by
  unfold reachTxOut
  rw [get_ext_lt ext hr]
  split
  · rename_i amount s hl
    rw [reachScript_ext_closed (hcl r _ hl s (by simp [refsOf])) ext]
    simp only [hl]
  · rfl

theorem reachTx_ext_closed {h : H} (hcl : closed h) {r : Ref} (hr : r < h.length) (ext : H) :
    reachTx (h ++ ext) r = reachTx h r := by
  unfold reachTx
  rw [get_ext_lt ext hr]
  split
  · rename_i version locktime seg a b c hl
    have ha := hcl r _ hl a (by simp [refsOf])
    have hb := hcl r _ hl b (by simp [refsOf])
    have hc := hcl r _ hl c (by simp [refsOf])
    rw [get_ext_lt ext ha, get_ext_lt ext hb, get_ext_lt ext hc]
    simp only [hl]
    congr 1
    · congr 1
      · congr 1
        apply flatMap_congr'
        intro x hx
        split at hx
        · rename_i xs hxs
          exact reachTxIn_ext_closed hcl (hcl a _ hxs x (by simpa [refsOf] using hx)) ext
        · cases hx
      · apply flatMap_congr'
        intro x hx
        split at hx
        · rename_i xs hxs
          exact reachTxOut_ext_closed hcl (hcl b _ hxs x (by simpa [refsOf] using hx)) ext
        · cases hx
    · apply flatMap_congr'
      intro x hx
      split at hx
      · rename_i xs hxs
        exact reachWit_ext_closed (hcl c _ hxs x (by simpa [refsOf] using hx)) ext
      · cases hx
  · rfl

theorem write_ext {h : H} (ext : H) {w : Ref} (o : Obj) (hw : h.length ≤ w) :
    write (h ++ ext) w o = h ++ ext.set (w - h.length) o := by
  unfold write
  exact List.set_append_right _ _ hw


/-! ## constructors -/

theorem get_app (h ext : H) (k : Nat) : (h ++ ext)[h.length + k]? = ext[k]? := by
  rw [List.getElem?_append_right (by omega)]; congr 1; omega

theorem newScript_eq (h : H) (items : List Tok) :
    newScript h items = (h ++ [.toklist items, .script h.length], h.length + 1) := by
  simp [newScript, alloc]

theorem newWit_eq (h : H) (items : List Bytes) :
    newWit h items = (h ++ [.strlist items, .wit h.length], h.length + 1) := by
  simp [newWit, alloc]

theorem newTx_eq (h : H) (v l : Bytes) (s : Bool) (ins outs wits : List Ref) :
    newTx h v l s ins outs wits =
      (h ++ [.reflist ins, .reflist outs, .reflist wits, .tx v l s h.length (h.length + 1) (h.length + 2)],
       h.length + 3) := by
  simp [newTx, alloc]

theorem newScript_get (h : H) (items : List Tok) :
    (h ++ [.toklist items, .script h.length])[h.length + 1]? = some (.script h.length) ∧
    (h ++ [Obj.toklist items, .script h.length])[h.length]? = some (.toklist items) := by
  constructor
  · rw [get_app]; rfl
  · simp

theorem newScript_view (h : H) (items : List Tok) :
    viewScript (h ++ [.toklist items, .script h.length]) (h.length + 1) = some items :=
  viewScript_some.mpr ⟨h.length, (newScript_get h items).1, (newScript_get h items).2⟩

theorem newScript_reach (h : H) (items : List Tok) :
    reachScript (h ++ [.toklist items, .script h.length]) (h.length + 1) = [h.length + 1, h.length] := by
  unfold reachScript; simp only [(newScript_get h items).1]

/-! ## the copy helpers -/

/-- what a copy helper guarantees -/
def CopySpec {α} (view : H → Ref → Option α) (reach : H → Ref → List Ref) (h : H) (r : Ref) (h' : H) (c : Ref) : Prop :=
  ∃ ext, h' = h ++ ext ∧ h.length ≤ c ∧ c < h'.length ∧ (∃ v, view h r = some v ∧ view h' c = some v) ∧
    ∀ x ∈ reach h' c, h.length ≤ x

theorem copyScript_spec {h : H} {r : Ref} {h' : H} {c : Ref} (hc : copyScript h r = .ok (h', c)) :
    CopySpec viewScript reachScript h r h' c := by
  unfold copyScript at hc
  split at hc
  · rename_i l hl
    split at hc
    · rename_i items hi
      rw [newScript_eq] at hc
      simp only [Except.ok.injEq, Prod.mk.injEq] at hc
      obtain ⟨rfl, rfl⟩ := hc
      refine ⟨_, rfl, by omega, by simp, ⟨items, viewScript_some.mpr ⟨l, hl, hi⟩, newScript_view h items⟩, ?_⟩
      rw [newScript_reach]
      intro x hx
      simp only [List.mem_cons, List.not_mem_nil, or_false] at hx
      rcases hx with rfl | rfl <;> omega
    · cases hc
  · cases hc

theorem copyScript_ok {h : H} {r : Ref} {v} (hv : viewScript h r = some v) : ∃ h' c, copyScript h r = .ok (h', c) := by
  obtain ⟨l, h1, h2⟩ := viewScript_some.mp hv
  unfold copyScript
  simp only [h1, h2]
  exact ⟨_, _, rfl⟩

theorem copyWit_spec {h : H} {r : Ref} {h' : H} {c : Ref} (hc : copyWit h r = .ok (h', c)) :
    CopySpec viewWit reachWit h r h' c := by
  unfold copyWit at hc
  split at hc
  · rename_i l hl
    split at hc
    · rename_i items hi
      rw [newWit_eq] at hc
      simp only [Except.ok.injEq, Prod.mk.injEq] at hc
      obtain ⟨rfl, rfl⟩ := hc
      have g1 : (h ++ [Obj.strlist items, .wit h.length])[h.length + 1]? = some (.wit h.length) := by
        rw [get_app]; rfl
      have g0 : (h ++ [Obj.strlist items, .wit h.length])[h.length]? = some (.strlist items) := by
        simp
      refine ⟨_, rfl, by omega, by simp, ⟨items, viewWit_some.mpr ⟨l, hl, hi⟩, viewWit_some.mpr ⟨_, g1, g0⟩⟩, ?_⟩
      unfold reachWit; simp only [g1]
      intro x hx
      simp only [List.mem_cons, List.not_mem_nil, or_false] at hx
      rcases hx with rfl | rfl <;> omega
    · cases hc
  · cases hc

theorem copyWit_ok {h : H} {r : Ref} {v} (hv : viewWit h r = some v) : ∃ h' c, copyWit h r = .ok (h', c) := by
  obtain ⟨l, h1, h2⟩ := viewWit_some.mp hv
  unfold copyWit
  simp only [h1, h2]
  exact ⟨_, _, rfl⟩

theorem copyTxIn_spec {h : H} {r : Ref} {h' : H} {c : Ref} (hc : copyTxIn h r = .ok (h', c)) :
    CopySpec viewTxIn reachTxIn h r h' c := by
  unfold copyTxIn at hc
  split at hc
  · rename_i txid index s sequence hl
    cases hcs : copyScript h s with
    | error e => rw [hcs] at hc; cases hc
    | ok p =>
      obtain ⟨h1, s'⟩ := p
      rw [hcs] at hc
      simp only [bind, Except.bind, pure, Except.pure, alloc, Except.ok.injEq, Prod.mk.injEq] at hc
      obtain ⟨rfl, rfl⟩ := hc
      obtain ⟨ext, rfl, hle, hlt, ⟨v, hv, hv'⟩, hreach⟩ := copyScript_spec hcs
      have g : (h ++ ext ++ [Obj.txin txid index s' sequence])[(h ++ ext).length]? = some (.txin txid index s' sequence) := by
        simp
      refine ⟨ext ++ [.txin txid index s' sequence], by simp, by simp, by simp,
        ⟨_, viewTxIn_some.mpr ⟨_, _, _, _, v, hl, hv, rfl⟩,
          viewTxIn_some.mpr ⟨_, _, _, _, v, g, viewScript_ext _ hv', rfl⟩⟩, ?_⟩
      unfold reachTxIn; simp only [g]
      intro x hx
      simp only [List.mem_cons] at hx
      rcases hx with rfl | hx
      · simp
      · rw [reachScript_ext _ hv'] at hx; exact hreach x hx
  · cases hc

theorem copyTxIn_ok {h : H} {r : Ref} {v} (hv : viewTxIn h r = some v) : ∃ h' c, copyTxIn h r = .ok (h', c) := by
  obtain ⟨txid, index, s, sequence, toks, h1, h2, _⟩ := viewTxIn_some.mp hv
  obtain ⟨h', c, hc⟩ := copyScript_ok h2
  unfold copyTxIn
  simp only [h1, hc]
  exact ⟨_, _, rfl⟩

theorem copyTxOut_spec {h : H} {r : Ref} {h' : H} {c : Ref} (hc : copyTxOut h r = .ok (h', c)) :
    CopySpec viewTxOut reachTxOut h r h' c := by
  unfold copyTxOut at hc
  split at hc
  · rename_i amount s hl
    cases hcs : copyScript h s with
    | error e => rw [hcs] at hc; cases hc
    | ok p =>
      obtain ⟨h1, s'⟩ := p
      rw [hcs] at hc
      simp only [bind, Except.bind, pure, Except.pure, alloc, Except.ok.injEq, Prod.mk.injEq] at hc
      obtain ⟨rfl, rfl⟩ := hc
      obtain ⟨ext, rfl, hle, hlt, ⟨v, hv, hv'⟩, hreach⟩ := copyScript_spec hcs
      have g : (h ++ ext ++ [Obj.txout amount s'])[(h ++ ext).length]? = some (.txout amount s') := by
        simp
      refine ⟨ext ++ [.txout amount s'], by simp, by simp, by simp,
        ⟨_, viewTxOut_some.mpr ⟨_, _, v, hl, hv, rfl⟩,
          viewTxOut_some.mpr ⟨_, _, v, g, viewScript_ext _ hv', rfl⟩⟩, ?_⟩
      unfold reachTxOut; simp only [g]
      intro x hx
      simp only [List.mem_cons] at hx
      rcases hx with rfl | hx
      · simp
      · rw [reachScript_ext _ hv'] at hx; exact hreach x hx
  · cases hc

theorem copyTxOut_ok {h : H} {r : Ref} {v} (hv : viewTxOut h r = some v) : ∃ h' c, copyTxOut h r = .ok (h', c) := by
  obtain ⟨amount, s, toks, h1, h2, _⟩ := viewTxOut_some.mp hv
  obtain ⟨h', c, hc⟩ := copyScript_ok h2
  unfold copyTxOut
  simp only [h1, hc]
  exact ⟨_, _, rfl⟩


theorem copyAll_spec {α} {f : H → Ref → Except PyErr (H × Ref)} {view : H → Ref → Option α}
    {reach : H → Ref → List Ref}
    (hf : ∀ h r h' c, f h r = .ok (h', c) → CopySpec view reach h r h' c)
    (vext : ∀ h r v ext, view h r = some v → view (h ++ ext) r = some v)
    (rext : ∀ h r v ext, view h r = some v → reach (h ++ ext) r = reach h r) :
    ∀ (rs : List Ref) (h h' : H) (cs : List Ref), copyAll f h rs = .ok (h', cs) →
      ∃ ext, h' = h ++ ext ∧ (∀ vs : List α, rs.map (view h) = vs.map some → cs.map (view h') = vs.map some) ∧
        (∀ c ∈ cs, h.length ≤ c ∧ (∃ v, view h' c = some v) ∧ ∀ x ∈ reach h' c, h.length ≤ x) ∧ cs.Nodup := by
  intro rs
  induction rs with
  | nil =>
    intro h h' cs hc
    simp only [copyAll, Except.ok.injEq, Prod.mk.injEq] at hc
    obtain ⟨rfl, rfl⟩ := hc
    refine ⟨[], by simp, ?_, by simp, by simp⟩
    intro vs hvs
    cases vs with
    | nil => rfl
    | cons _ _ => simp at hvs
  | cons r rs ih =>
    intro h h' cs hc
    simp only [copyAll] at hc
    cases hfr : f h r with
    | error e => rw [hfr] at hc; cases hc
    | ok p =>
      obtain ⟨h1, c⟩ := p
      rw [hfr] at hc
      simp only [bind, Except.bind] at hc
      cases hrs : copyAll f h1 rs with
      | error e => rw [hrs] at hc; cases hc
      | ok q =>
        obtain ⟨h2, cs'⟩ := q
        rw [hrs] at hc
        simp only [pure, Except.pure, Except.ok.injEq, Prod.mk.injEq] at hc
        obtain ⟨rfl, rfl⟩ := hc
        obtain ⟨e1, rfl, hle, hlt, ⟨v, hv, hv'⟩, hreach⟩ := hf _ _ _ _ hfr
        obtain ⟨e2, rfl, hviews, hcs, hnd⟩ := ih _ _ _ hrs
        refine ⟨e1 ++ e2, by simp, ?_, ?_, ?_⟩
        · intro vs hvs
          cases vs with
          | nil => simp at hvs
          | cons w ws =>
            simp only [List.map_cons, List.cons.injEq] at hvs ⊢
            obtain ⟨h1', h2'⟩ := hvs
            rw [hv] at h1'
            refine ⟨?_, hviews ws (map_view_ext vext e1 h2')⟩
            rw [← h1']; exact vext _ _ _ _ hv'
        · intro c' hc'
          simp only [List.mem_cons] at hc'
          rcases hc' with rfl | hc'
          · refine ⟨hle, ⟨v, vext _ _ _ _ hv'⟩, ?_⟩
            rw [rext _ _ _ _ hv']; exact hreach
          · obtain ⟨g1, g2, g3⟩ := hcs c' hc'
            refine ⟨by simp at g1; omega, g2, ?_⟩
            intro x hx
            have := g3 x hx
            simp at this; omega
        · rw [List.nodup_cons]
          refine ⟨?_, hnd⟩
          intro hmem
          have := (hcs c hmem).1
          exact absurd hlt (Nat.not_lt.mpr this)

theorem copyAll_ok {α} {f : H → Ref → Except PyErr (H × Ref)} {view : H → Ref → Option α}
    {reach : H → Ref → List Ref}
    (hf : ∀ h r h' c, f h r = .ok (h', c) → CopySpec view reach h r h' c)
    (fok : ∀ h r v, view h r = some v → ∃ h' c, f h r = .ok (h', c))
    (vext : ∀ h r v ext, view h r = some v → view (h ++ ext) r = some v) :
    ∀ (rs : List Ref) (h : H), (∀ r ∈ rs, ∃ v, view h r = some v) → ∃ h' cs, copyAll f h rs = .ok (h', cs) := by
  intro rs
  induction rs with
  | nil => intro h _; exact ⟨_, _, rfl⟩
  | cons r rs ih =>
    intro h hall
    obtain ⟨v, hv⟩ := hall r (by simp)
    obtain ⟨h1, c, hfr⟩ := fok _ _ _ hv
    obtain ⟨e1, rfl, _⟩ := hf _ _ _ _ hfr
    obtain ⟨h2, cs, hrs⟩ := ih (h ++ e1) (fun r' hr' => by
      obtain ⟨v', hv'⟩ := hall r' (by simp [hr'])
      exact ⟨v', vext _ _ _ _ hv'⟩)
    refine ⟨h2, c :: cs, ?_⟩
    simp only [copyAll, hfr, bind, Except.bind, hrs]
    rfl


theorem copyTx_spec {h : H} {r : Ref} {h' : H} {c : Ref} (hc : copyTx h r = .ok (h', c)) :
    ∃ ext, h' = h ++ ext ∧ (∀ x ∈ reachTx h' c, h.length ≤ x) ∧
      (∀ t, viewTx h r = some t → viewTx h' c = some t) ∧
      (∀ v l s a b c' ins, h'[c]? = some (.tx v l s a b c') → h'[a]? = some (.reflist ins) → ins.Nodup) := by
  unfold copyTx at hc
  split at hc
  · rename_i version locktime seg a b c0 hl
    split at hc
    · rename_i ins outs wits ha hb hc0
      cases h1e : copyAll copyTxIn h ins with
      | error e => rw [h1e] at hc; cases hc
      | ok p1 =>
      obtain ⟨h1, ins'⟩ := p1
      rw [h1e] at hc
      simp only [bind, Except.bind] at hc
      cases h2e : copyAll copyTxOut h1 outs with
      | error e => rw [h2e] at hc; cases hc
      | ok p2 =>
      obtain ⟨h2, outs'⟩ := p2
      rw [h2e] at hc
      simp only at hc
      cases h3e : copyAll copyWit h2 wits with
      | error e => rw [h3e] at hc; cases hc
      | ok p3 =>
      obtain ⟨h3, wits'⟩ := p3
      rw [h3e] at hc
      simp only [pure, Except.pure, newTx_eq, Except.ok.injEq, Prod.mk.injEq] at hc
      obtain ⟨rfl, rfl⟩ := hc
      obtain ⟨e1, rfl, hv1, hc1, hnd1⟩ := copyAll_spec (fun _ _ _ _ => copyTxIn_spec)
        (fun _ _ _ e => viewTxIn_ext e) (fun _ _ _ e => reachTxIn_ext e) _ _ _ _ h1e
      obtain ⟨e2, rfl, hv2, hc2, _⟩ := copyAll_spec (fun _ _ _ _ => copyTxOut_spec)
        (fun _ _ _ e => viewTxOut_ext e) (fun _ _ _ e => reachTxOut_ext e) _ _ _ _ h2e
      obtain ⟨e3, rfl, hv3, hc3, _⟩ := copyAll_spec (fun _ _ _ _ => copyWit_spec)
        (fun _ _ _ e => viewWit_ext e) (fun _ _ _ e => reachWit_ext e) _ _ _ _ h3e
      generalize hL : [Obj.reflist ins', Obj.reflist outs', Obj.reflist wits',
        Obj.tx version locktime seg (h ++ e1 ++ e2 ++ e3).length ((h ++ e1 ++ e2 ++ e3).length + 1)
          ((h ++ e1 ++ e2 ++ e3).length + 2)] = L
      have g0 : (h ++ e1 ++ e2 ++ e3 ++ L)[(h ++ e1 ++ e2 ++ e3).length]? = some (.reflist ins') := by
        rw [← hL]; simp
      have g1 : (h ++ e1 ++ e2 ++ e3 ++ L)[(h ++ e1 ++ e2 ++ e3).length + 1]? = some (.reflist outs') := by
        rw [get_app, ← hL]; rfl
      have g2 : (h ++ e1 ++ e2 ++ e3 ++ L)[(h ++ e1 ++ e2 ++ e3).length + 2]? = some (.reflist wits') := by
        rw [get_app, ← hL]; rfl
      have g3 : (h ++ e1 ++ e2 ++ e3 ++ L)[(h ++ e1 ++ e2 ++ e3).length + 3]? =
          some (.tx version locktime seg (h ++ e1 ++ e2 ++ e3).length ((h ++ e1 ++ e2 ++ e3).length + 1)
            ((h ++ e1 ++ e2 ++ e3).length + 2)) := by
        rw [get_app, ← hL]; rfl
      have a1 : h ++ e1 ++ e2 ++ e3 ++ L = (h ++ e1) ++ (e2 ++ (e3 ++ L)) := by simp only [List.append_assoc]
      have a2 : h ++ e1 ++ e2 ++ e3 ++ L = (h ++ e1 ++ e2) ++ (e3 ++ L) := by simp only [List.append_assoc]
      have hlen1 : h.length ≤ (h ++ e1).length := by simp
      have hlen2 : h.length ≤ (h ++ e1 ++ e2).length := by simp
      refine ⟨e1 ++ (e2 ++ (e3 ++ L)), by simp only [List.append_assoc], ?_, ?_, ?_⟩
      · intro x hx
        unfold reachTx at hx
        simp only [g3, g0, g1, g2, List.mem_append, List.mem_cons, List.not_mem_nil, or_false,
          List.mem_flatMap] at hx
        rcases hx with ((((rfl | rfl | rfl | rfl) | ⟨y, hy, hxy⟩) | ⟨y, hy, hxy⟩) | ⟨y, hy, hxy⟩)
        · simp only [List.length_append]; omega
        · simp only [List.length_append]; omega
        · simp only [List.length_append]; omega
        · simp only [List.length_append]; omega
        · obtain ⟨_, ⟨v, hv⟩, hr⟩ := hc1 y hy
          rw [a1, reachTxIn_ext _ hv] at hxy
          exact hr x hxy
        · obtain ⟨_, ⟨v, hv⟩, hr⟩ := hc2 y hy
          rw [a2, reachTxOut_ext _ hv] at hxy
          exact Nat.le_trans hlen1 (hr x hxy)
        · obtain ⟨_, ⟨v, hv⟩, hr⟩ := hc3 y hy
          rw [reachWit_ext _ hv] at hxy
          exact Nat.le_trans hlen2 (hr x hxy)
      · intro t ht
        obtain ⟨version', locktime', seg', a', b', c', ins0, outs0, wits0, hl', ha', hb', hc', hi, ho, hw, e1', e2', e3'⟩ :=
          viewTx_some.mp ht
        rw [hl] at hl'
        simp only [Option.some.injEq, Obj.tx.injEq] at hl'
        obtain ⟨rfl, rfl, rfl, rfl, rfl, rfl⟩ := hl'
        rw [ha] at ha'; rw [hb] at hb'; rw [hc0] at hc'
        simp only [Option.some.injEq, Obj.reflist.injEq] at ha' hb' hc'
        subst ha' hb' hc'
        refine viewTx_some.mpr ⟨_, _, _, _, _, _, ins', outs', wits', g3, g0, g1, g2, ?_, ?_, ?_, e1', e2', e3'⟩
        · rw [a1]; exact map_view_ext (fun _ _ _ e => viewTxIn_ext e) _ (hv1 _ hi)
        · rw [a2]; exact map_view_ext (fun _ _ _ e => viewTxOut_ext e) _
            (hv2 _ (map_view_ext (fun _ _ _ e => viewTxOut_ext e) _ ho))
        · exact map_view_ext (fun _ _ _ e => viewWit_ext e) _
            (hv3 _ (map_view_ext (fun _ _ _ e => viewWit_ext e) _
              (map_view_ext (fun _ _ _ e => viewWit_ext e) _ hw)))
      · intro v l s a'' b'' c'' ins'' hg hga
        rw [g3] at hg
        simp only [Option.some.injEq, Obj.tx.injEq] at hg
        obtain ⟨_, _, _, rfl, _, _⟩ := hg
        rw [g0] at hga
        simp only [Option.some.injEq, Obj.reflist.injEq] at hga
        subst hga
        exact hnd1
    · cases hc
  · cases hc

theorem copyTx_ok {h : H} {r : Ref} {t : Tx} (ht : viewTx h r = some t) : ∃ h' c, copyTx h r = .ok (h', c) := by
  obtain ⟨version, locktime, seg, a, b, c, ins, outs, wits, hl, ha, hb, hc, hi, ho, hw, _⟩ := viewTx_some.mp ht
  obtain ⟨h1, ins', h1e⟩ := copyAll_ok (fun _ _ _ _ => copyTxIn_spec) (fun _ _ _ => copyTxIn_ok)
    (fun _ _ _ e => viewTxIn_ext e) ins h (map_some_mem hi)
  obtain ⟨e1, rfl, _⟩ := copyAll_spec (fun _ _ _ _ => copyTxIn_spec)
        (fun _ _ _ e => viewTxIn_ext e) (fun _ _ _ e => reachTxIn_ext e) _ _ _ _ h1e
  obtain ⟨h2, outs', h2e⟩ := copyAll_ok (fun _ _ _ _ => copyTxOut_spec) (fun _ _ _ => copyTxOut_ok)
    (fun _ _ _ e => viewTxOut_ext e) outs (h ++ e1) (map_some_mem (map_view_ext (fun _ _ _ e => viewTxOut_ext e) _ ho))
  obtain ⟨e2, rfl, _⟩ := copyAll_spec (fun _ _ _ _ => copyTxOut_spec)
        (fun _ _ _ e => viewTxOut_ext e) (fun _ _ _ e => reachTxOut_ext e) _ _ _ _ h2e
  obtain ⟨h3, wits', h3e⟩ := copyAll_ok (fun _ _ _ _ => copyWit_spec) (fun _ _ _ => copyWit_ok)
    (fun _ _ _ e => viewWit_ext e) wits (h ++ e1 ++ e2)
    (map_some_mem (map_view_ext (fun _ _ _ e => viewWit_ext e) _ (map_view_ext (fun _ _ _ e => viewWit_ext e) _ hw)))
  unfold copyTx
  simp only [hl, ha, hb, hc, h1e, h2e, h3e, bind, Except.bind]
  exact ⟨_, _, rfl⟩


/-! ## `get_transaction_digest` in stages -/

def blank (st : H × List Ref) (r : Ref) : H × List Ref :=
  match st.1[r]? with
  | some (.txin txid index _ sequence) =>
    let (h1, s) := newScript st.1 []
    (write h1 r (.txin txid index s sequence), r :: st.2)
  | _ => st

def zeroSeq (i : Nat) (st : H × List Ref) (p : Nat × Ref) : H × List Ref :=
  if p.1 ≠ i then
    match st.1[p.2]? with
    | some (.txin txid index s _) => (write st.1 p.2 (.txin txid index s [0, 0, 0, 0]), p.2 :: st.2)
    | _ => st
  else st

def fill (st : H × List Ref) (_ : Nat) : H × List Ref :=
  let (h1, s) := newScript st.1 []
  let (h2, oo) := alloc h1 (.txout (-1) s)
  (h2, st.2 ++ [oo])

def stageOut (h : H) (tmp : Ref) (version locktime : Bytes) (seg : Bool) (a c : Ref) (ins outs : List Ref)
    (i base : Nat) (ws : List Ref) : Except PyErr (H × Ref × List Ref) :=
  if base = 2 then do
    let (h, b') := alloc h (.reflist [])
    let h := write h tmp (.tx version locktime seg a b' c)
    let (h, ws) := (ins.zipIdx.map fun p => (p.2, p.1)).foldl (zeroSeq i) (h, tmp :: ws)
    pure (h, tmp, ws)
  else if base = 3 then do
    let some o := outs[i]? | throw PyErr.valueError
    let (h, fillers) := (List.range i).foldl fill (h, [])
    let (h, b') := alloc h (.reflist (fillers ++ [o]))
    let h := write h tmp (.tx version locktime seg a b' c)
    let (h, ws) := (ins.zipIdx.map fun p => (p.2, p.1)).foldl (zeroSeq i) (h, tmp :: ws)
    pure (h, tmp, ws)
  else pure (h, tmp, ws)

def stageAny (h : H) (tmp ri : Ref) (ht : Nat) (ws : List Ref) : Except PyErr (H × Ref × List Ref) :=
  if ht &&& 0x80 ≠ 0 then do
    let some (.tx version locktime seg _ b2 c2) := h[tmp]? | throw PyErr.typeError
    let (h, a') := alloc h (.reflist [ri])
    let h := write h tmp (.tx version locktime seg a' b2 c2)
    pure (h, tmp, tmp :: ws)
  else pure (h, tmp, ws)


def tailStage (h : H) (tmp : Ref) (version locktime : Bytes) (seg : Bool) (a c : Ref) (ins outs : List Ref)
    (i ht : Nat) (ri : Ref) (ws : List Ref) : Except PyErr (H × Ref × List Ref) := do
  let (h, tmp, ws) ←
    if ht &&& 0x1f = 2 then do
      let (h, b') := alloc h (.reflist [])
      let h := write h tmp (.tx version locktime seg a b' c)
      let (h, ws) := (ins.zipIdx.map fun p => (p.2, p.1)).foldl (zeroSeq i) (h, tmp :: ws)
      pure (h, tmp, ws)
    else if ht &&& 0x1f = 3 then do
      let some o := outs[i]? | throw PyErr.valueError
      let (h, fillers) := (List.range i).foldl fill (h, [])
      let (h, b') := alloc h (.reflist (fillers ++ [o]))
      let h := write h tmp (.tx version locktime seg a b' c)
      let (h, ws) := (ins.zipIdx.map fun p => (p.2, p.1)).foldl (zeroSeq i) (h, tmp :: ws)
      pure (h, tmp, ws)
    else pure (h, tmp, ws)
  if ht &&& 0x80 ≠ 0 then do
    let some (.tx version locktime seg _ b2 c2) := h[tmp]? | throw PyErr.typeError
    let (h, a') := alloc h (.reflist [ri])
    let h := write h tmp (.tx version locktime seg a' b2 c2)
    pure (h, tmp, tmp :: ws)
  else pure (h, tmp, ws)

def prepareStaged (h : H) (self : Ref) (i : Nat) (code : Ref) (ht : Nat) : Except PyErr (H × Ref × List Ref) := do
  let (h, tmp) ← copyTx h self
  let some (.tx version locktime seg a b c) := h[tmp]? | throw PyErr.typeError
  let some (.reflist ins) := h[a]? | throw PyErr.typeError
  let (h, ws) := ins.foldl blank (h, [])
  let some ri := ins[i]? | throw PyErr.indexError
  let some (.txin txid index _ sequence) := h[ri]? | throw PyErr.typeError
  let h := write h ri (.txin txid index code sequence)
  let ws := ri :: ws
  let some (.reflist outs) := h[b]? | throw PyErr.typeError
  tailStage h tmp version locktime seg a c ins outs i ht ri ws

theorem prepare_eq (h : H) (self : Ref) (i : Nat) (code : Ref) (ht : Nat) :
    legacyDigestPrepare h self i code ht = prepareStaged h self i code ht := rfl

theorem tailStage_eq (h : H) (tmp : Ref) (version locktime : Bytes) (seg : Bool) (a c : Ref) (ins outs : List Ref)
    (i ht : Nat) (ri : Ref) (ws : List Ref) :
    tailStage h tmp version locktime seg a c ins outs i ht ri ws =
      stageOut h tmp version locktime seg a c ins outs i (ht &&& 0x1f) ws >>=
        fun x => stageAny x.1 x.2.1 ri ht x.2.2 := by
  unfold tailStage stageOut
  by_cases h2 : ht &&& 0x1f = 2
  · simp only [h2, ↓reduceIte]; rfl
  · by_cases h3 : ht &&& 0x1f = 3
    · simp only [h3, ↓reduceIte]
      cases outs[i]? <;> rfl
    · simp only [h2, h3, ↓reduceIte]; rfl

/-! ### every step keeps the old part of the heap (`cur = h ++ ext`) -/

def Ext (h cur : H) : Prop := ∃ ext, cur = h ++ ext

theorem Ext.refl (h : H) : Ext h h := ⟨[], by simp⟩

theorem Ext.app {h cur : H} (e : Ext h cur) (more : H) : Ext h (cur ++ more) := by
  obtain ⟨ext, rfl⟩ := e; exact ⟨ext ++ more, by simp⟩

theorem Ext.alloc {h cur : H} (e : Ext h cur) (o : Obj) : Ext h (alloc cur o).1 := e.app _

theorem Ext.newScript {h cur : H} (e : Ext h cur) (items : List Tok) : Ext h (newScript cur items).1 := by
  rw [newScript_eq]; exact e.app _

theorem Ext.write {h cur : H} (e : Ext h cur) {w : Ref} (o : Obj) (hw : h.length ≤ w) : Ext h (write cur w o) := by
  obtain ⟨ext, rfl⟩ := e; exact ⟨_, write_ext ext o hw⟩

theorem Ext.foldBlank {h : H} {l : List Ref} (hl : ∀ r ∈ l, h.length ≤ r) :
    ∀ (st : H × List Ref), Ext h st.1 → Ext h (l.foldl blank st).1 := by
  induction l with
  | nil => intro st e; exact e
  | cons r rs ih =>
    intro st e
    rw [List.foldl_cons]
    apply ih (fun x hx => hl x (by simp [hx]))
    unfold blank
    split
    · exact (e.newScript []).write _ (hl r (by simp))
    · exact e

theorem Ext.foldZeroSeq {h : H} {i : Nat} {l : List (Nat × Ref)} (hl : ∀ p ∈ l, h.length ≤ p.2) :
    ∀ (st : H × List Ref), Ext h st.1 → Ext h (l.foldl (zeroSeq i) st).1 := by
  induction l with
  | nil => intro st e; exact e
  | cons r rs ih =>
    intro st e
    rw [List.foldl_cons]
    apply ih (fun x hx => hl x (by simp [hx]))
    unfold HeapLemmas.zeroSeq
    split
    · split
      · exact e.write _ (hl r (by simp))
      · exact e
    · exact e

theorem Ext.foldFill {h : H} {l : List Nat} :
    ∀ (st : H × List Ref), Ext h st.1 → Ext h (l.foldl fill st).1 := by
  induction l with
  | nil => intro st e; exact e
  | cons r rs ih =>
    intro st e
    rw [List.foldl_cons]
    apply ih
    unfold HeapLemmas.fill
    exact (e.newScript []).alloc _

theorem zip_snd_mem {ins : List Ref} {p : Nat × Ref} (hp : p ∈ ins.zipIdx.map fun p => (p.2, p.1)) : p.2 ∈ ins := by
  simp only [List.mem_map] at hp
  obtain ⟨q, hq, rfl⟩ := hp
  obtain ⟨x, k⟩ := q
  exact (List.mem_zipIdx hq).2.2 ▸ List.getElem_mem _


theorem stageOut_ext {h cur : H} {tmp : Ref} {version locktime : Bytes} {seg : Bool} {a c : Ref} {ins outs : List Ref}
    {i base : Nat} {ws : List Ref} {cur' : H} {tmp' : Ref} {ws' : List Ref}
    (e : Ext h cur) (htmp : h.length ≤ tmp) (hins : ∀ r ∈ ins, h.length ≤ r)
    (hs : stageOut cur tmp version locktime seg a c ins outs i base ws = .ok (cur', tmp', ws')) :
    Ext h cur' ∧ tmp' = tmp := by
  have hz : ∀ p ∈ ins.zipIdx.map (fun p => (p.2, p.1)), h.length ≤ p.2 := fun p hp => hins _ (zip_snd_mem hp)
  unfold stageOut at hs
  split at hs
  · simp only [pure, Except.pure, Except.ok.injEq, Prod.mk.injEq] at hs
    obtain ⟨rfl, rfl, rfl⟩ := hs
    exact ⟨Ext.foldZeroSeq hz _ ((e.alloc _).write _ htmp), rfl⟩
  · split at hs
    · split at hs
      · simp only [pure, Except.pure, Except.ok.injEq, Prod.mk.injEq] at hs
        obtain ⟨rfl, rfl, rfl⟩ := hs
        exact ⟨Ext.foldZeroSeq hz _ (((Ext.foldFill _ e).alloc _).write _ htmp), rfl⟩
      · cases hs
    · simp only [pure, Except.pure, Except.ok.injEq, Prod.mk.injEq] at hs
      obtain ⟨rfl, rfl, rfl⟩ := hs
      exact ⟨e, rfl⟩

theorem stageAny_ext {h cur : H} {tmp ri : Ref} {ht : Nat} {ws : List Ref} {cur' : H} {tmp' : Ref} {ws' : List Ref}
    (e : Ext h cur) (htmp : h.length ≤ tmp)
    (hs : stageAny cur tmp ri ht ws = .ok (cur', tmp', ws')) : Ext h cur' ∧ tmp' = tmp := by
  unfold stageAny at hs
  split at hs
  · split at hs
    · simp only [pure, Except.pure, Except.ok.injEq, Prod.mk.injEq] at hs
      obtain ⟨rfl, rfl, rfl⟩ := hs
      exact ⟨(e.alloc _).write _ htmp, rfl⟩
    · cases hs
  · simp only [pure, Except.pure, Except.ok.injEq, Prod.mk.injEq] at hs
    obtain ⟨rfl, rfl, rfl⟩ := hs
    exact ⟨e, rfl⟩

theorem reachTx_mem_ins {h : H} {tmp : Ref} {version locktime : Bytes} {seg : Bool} {a b c : Ref} {ins : List Ref}
    (ht : h[tmp]? = some (.tx version locktime seg a b c)) (ha : h[a]? = some (.reflist ins)) :
    tmp ∈ reachTx h tmp ∧ ∀ r ∈ ins, r ∈ reachTx h tmp := by
  unfold reachTx
  simp only [ht, ha]
  constructor
  · simp
  · intro r hr
    simp only [List.mem_append, List.mem_flatMap]
    left; left; right
    refine ⟨r, hr, ?_⟩
    unfold reachTxIn; split <;> simp

theorem prepare_ext {h : H} {self : Ref} {i : Nat} {code : Ref} {ht : Nat} {h' : H} {tmp : Ref} {ws : List Ref}
    (hp : legacyDigestPrepare h self i code ht = .ok (h', tmp, ws)) : Ext h h' := by
  rw [prepare_eq] at hp
  unfold prepareStaged at hp
  cases hcp : copyTx h self with
  | error e => rw [hcp] at hp; cases hp
  | ok p =>
    obtain ⟨h1, tmp1⟩ := p
    rw [hcp] at hp
    simp only [bind, Except.bind] at hp
    obtain ⟨ext, rfl, hfresh, _, _⟩ := copyTx_spec hcp
    split at hp
    · rename_i version locktime seg a b c htmp
      split at hp
      · rename_i ins ha
        have hmem := reachTx_mem_ins htmp ha
        have htmp' := hfresh _ hmem.1
        have hins : ∀ r ∈ ins, h.length ≤ r := fun r hr => hfresh _ (hmem.2 r hr)
        split at hp
        · rename_i ri hri
          split at hp
          · rename_i txid index s0 sequence hri2
            split at hp
            · rw [tailStage_eq] at hp
              simp only [bind, Except.bind] at hp
              split at hp
              · cases hp
              · rename_i v hso
                obtain ⟨cur2, tmp2, ws2⟩ := v
                have e1 : Ext h (write (List.foldl blank (h ++ ext, []) ins).1 ri
                    (Obj.txin txid index code sequence)) :=
                  (Ext.foldBlank hins _ ⟨ext, rfl⟩).write _ (hins ri (List.mem_of_getElem? hri))
                obtain ⟨e2, rfl⟩ := stageOut_ext e1 htmp' hins hso
                exact (stageAny_ext e2 htmp' hp).1
            · cases hp
          · cases hp
        · cases hp
      · cases hp
    · cases hp


theorem bind_ok {ε α β} {x : Except ε α} {f : α → Except ε β} {b : β} (h : x.bind f = .ok b) :
    ∃ a, x = .ok a ∧ f a = .ok b := by
  cases x with
  | error e => cases h
  | ok a => exact ⟨a, rfl, h⟩

theorem legacyDigestH_ok {sha256 : Bytes → Bytes} {T : Tables} {h : H} {self code : Ref} {i ht : Nat} {h' : H} {d : Bytes}
    (hd : legacyDigestH sha256 T h self i code ht = .ok (h', d)) :
    ∃ tmp ws, legacyDigestPrepare h self i code ht = .ok (h', tmp, ws) := by
  unfold legacyDigestH at hd
  simp only [bind] at hd
  obtain ⟨⟨h1, tmp, ws⟩, hp, hd⟩ := bind_ok hd
  simp only at hd
  split at hd
  · rename_i t hv
    obtain ⟨ser, hser, hd⟩ := bind_ok hd
    obtain ⟨htb, hpk, hd⟩ := bind_ok hd
    simp only [pure, Except.pure, Except.ok.injEq, Prod.mk.injEq] at hd
    exact ⟨tmp, ws, by rw [hp, hd.1]⟩
  · cases hd


/-! ### simulation: objects that a stage does not mutate are kept -/

/-- every object that is not of the mutated kind `m` stays where it is -/
def Keeps (m : Obj → Bool) (c c' : H) : Prop := ∀ (x : Nat) (o : Obj), c[x]? = some o → m o = false → c'[x]? = some o

def isTxin : Obj → Bool
  | .txin .. => true
  | _ => false

def isTx : Obj → Bool
  | .tx .. => true
  | _ => false

theorem Keeps.refl (m : Obj → Bool) (c : H) : Keeps m c c := fun _ _ h _ => h

theorem Keeps.trans {m : Obj → Bool} {c1 c2 c3 : H} (k1 : Keeps m c1 c2) (k2 : Keeps m c2 c3) : Keeps m c1 c3 :=
  fun x o h hm => k2 x o (k1 x o h hm) hm

theorem keeps_ext (m : Obj → Bool) (c ext : H) : Keeps m c (c ++ ext) := fun _ _ h _ => get_ext ext h

theorem keeps_write {m : Obj → Bool} {c : H} {w : Ref} {o0 : Obj} (o : Obj) (hw : c[w]? = some o0) (hm : m o0 = true) :
    Keeps m c (write c w o) := by
  intro x o' hx hmo
  have : x ≠ w := by
    rintro rfl
    rw [hw] at hx
    simp only [Option.some.injEq] at hx; subst hx
    rw [hm] at hmo; cases hmo
  rw [get_write_ne o this]; exact hx

theorem Keeps.viewScript {m : Obj → Bool} {c c' : H} (k : Keeps m c c') (h1 : ∀ l, m (.script l) = false)
    (h2 : ∀ t, m (.toklist t) = false) {r : Ref} {v} (hv : viewScript c r = some v) : viewScript c' r = some v := by
  obtain ⟨l, g1, g2⟩ := viewScript_some.mp hv
  exact viewScript_some.mpr ⟨l, k _ _ g1 (h1 _), k _ _ g2 (h2 _)⟩

theorem Keeps.viewWit {m : Obj → Bool} {c c' : H} (k : Keeps m c c') (h1 : ∀ l, m (.wit l) = false)
    (h2 : ∀ t, m (.strlist t) = false) {r : Ref} {v} (hv : viewWit c r = some v) : viewWit c' r = some v := by
  obtain ⟨l, g1, g2⟩ := viewWit_some.mp hv
  exact viewWit_some.mpr ⟨l, k _ _ g1 (h1 _), k _ _ g2 (h2 _)⟩

theorem Keeps.viewTxOut {m : Obj → Bool} {c c' : H} (k : Keeps m c c') (h0 : ∀ a s, m (.txout a s) = false)
    (h1 : ∀ l, m (.script l) = false)
    (h2 : ∀ t, m (.toklist t) = false) {r : Ref} {v} (hv : viewTxOut c r = some v) : viewTxOut c' r = some v := by
  obtain ⟨amount, s, toks, g1, g2, g3⟩ := viewTxOut_some.mp hv
  exact viewTxOut_some.mpr ⟨amount, s, toks, k _ _ g1 (h0 _ _), k.viewScript h1 h2 g2, g3⟩

theorem Keeps.viewTxIn {m : Obj → Bool} {c c' : H} (k : Keeps m c c') (h0 : ∀ a b s q, m (.txin a b s q) = false)
    (h1 : ∀ l, m (.script l) = false)
    (h2 : ∀ t, m (.toklist t) = false) {r : Ref} {v} (hv : viewTxIn c r = some v) : viewTxIn c' r = some v := by
  obtain ⟨txid, index, s, sequence, toks, g1, g2, g3⟩ := viewTxIn_some.mp hv
  exact viewTxIn_some.mpr ⟨txid, index, s, sequence, toks, k _ _ g1 (h0 _ _ _ _), k.viewScript h1 h2 g2, g3⟩

theorem map_view_keep {α} {view : H → Ref → Option α} {c c' : H}
    (hk : ∀ r v, view c r = some v → view c' r = some v)
    {l : List Ref} {vs : List α} (hm : l.map (view c) = vs.map some) :
    l.map (view c') = vs.map some := by
  rw [← hm]
  apply List.map_congr_left
  intro x hx
  obtain ⟨y, hy⟩ := map_some_mem hm x hx
  rw [hy]; exact hk _ _ hy

/-- a txin whose own cell is unchanged keeps its view when only txins are mutated -/
theorem viewTxIn_keep {c c' : H} (k : Keeps isTxin c c') {r : Ref} (hr : ∀ o, c[r]? = some o → c'[r]? = some o)
    {v} (hv : viewTxIn c r = some v) : viewTxIn c' r = some v := by
  obtain ⟨txid, index, s, sequence, toks, g1, g2, g3⟩ := viewTxIn_some.mp hv
  exact viewTxIn_some.mpr ⟨txid, index, s, sequence, toks, hr _ g1,
    k.viewScript (fun _ => rfl) (fun _ => rfl) g2, g3⟩

/-- a fold step that mutates exactly one txin -/
structure TxinStep {β} (step : H × List Ref → β → H × List Ref) (tgt : β → Ref) (upd : β → TxIn → TxIn) : Prop where
  keeps : ∀ st p, Keeps isTxin st.1 (step st p).1
  others : ∀ st p x o, x ≠ tgt p → st.1[x]? = some o → (step st p).1[x]? = some o
  view : ∀ st p v, viewTxIn st.1 (tgt p) = some v → viewTxIn (step st p).1 (tgt p) = some (upd p v)

theorem TxinStep.fold {β} {step : H × List Ref → β → H × List Ref} {tgt : β → Ref} {upd : β → TxIn → TxIn}
    (hs : TxinStep step tgt upd) : ∀ (l : List β) (st : H × List Ref), (l.map tgt).Nodup →
      Keeps isTxin st.1 (l.foldl step st).1 ∧
      (∀ x o, x ∉ l.map tgt → st.1[x]? = some o → (l.foldl step st).1[x]? = some o) ∧
      (∀ p ∈ l, ∀ v, viewTxIn st.1 (tgt p) = some v → viewTxIn (l.foldl step st).1 (tgt p) = some (upd p v)) := by
  intro l
  induction l with
  | nil =>
    intro st _
    exact ⟨Keeps.refl _ _, fun _ _ _ h => h, fun p hp => by cases hp⟩
  | cons p0 rest ih =>
    intro st hnd
    rw [List.map_cons, List.nodup_cons] at hnd
    obtain ⟨f1, f2, f3⟩ := ih (step st p0) hnd.2
    rw [List.foldl_cons]
    refine ⟨(hs.keeps st p0).trans f1, ?_, ?_⟩
    · intro x o hx hxo
      simp only [List.map_cons, List.mem_cons, not_or] at hx
      exact f2 x o hx.2 (hs.others st p0 x o hx.1 hxo)
    · intro p hp v hv
      simp only [List.mem_cons] at hp
      rcases hp with rfl | hp
      · have h1 := hs.view st p v hv
        exact viewTxIn_keep f1 (fun o ho => f2 _ o hnd.1 ho) h1
      · have hne : tgt p ≠ tgt p0 := by
          intro e; apply hnd.1; rw [← e]; exact List.mem_map_of_mem hp
        have h1 : viewTxIn (step st p0).1 (tgt p) = some v :=
          viewTxIn_keep (hs.keeps st p0) (fun o ho => hs.others st p0 _ o hne ho) hv
        exact f3 p hp v h1


theorem blank_step : TxinStep blank id (fun _ v => { v with scriptSig := [] }) := by
  refine ⟨?_, ?_, ?_⟩
  · intro st r
    unfold blank
    split
    · rename_i txid index s sequence hr
      rw [newScript_eq]
      exact (keeps_ext _ _ _).trans (keeps_write _ (get_ext _ hr) rfl)
    · exact Keeps.refl _ _
  · intro st r x o hx hxo
    unfold blank
    split
    · rw [newScript_eq]
      simp only
      have hx' : x ≠ r := hx
      rw [get_write_ne _ hx']; exact get_ext _ hxo
    · exact hxo
  · intro st r v hv
    obtain ⟨txid, index, s, sequence, toks, g1, g2, rfl⟩ := viewTxIn_some.mp hv
    simp only [id] at g1 ⊢
    unfold blank
    simp only [g1, newScript_eq]
    refine viewTxIn_some.mpr ⟨txid, index, st.1.length + 1, sequence, [], ?_, ?_, rfl⟩
    · exact get_write_self _ (by simp; have := get_lt g1; omega)
    · rw [viewScript_frame]
      · exact newScript_view _ _
      · rw [newScript_reach]
        have := get_lt g1
        simp only [List.mem_cons, List.not_mem_nil, or_false]
        intro hh
        rcases hh with hh | hh
        · rw [hh] at this; exact absurd this (Nat.not_lt.mpr (Nat.le_succ _))
        · rw [hh] at this; exact absurd this (Nat.lt_irrefl _)

theorem zeroSeq_step (i : Nat) :
    TxinStep (zeroSeq i) Prod.snd (fun p v => if p.1 ≠ i then { v with sequence := [0, 0, 0, 0] } else v) := by
  refine ⟨?_, ?_, ?_⟩
  · intro st p
    unfold zeroSeq
    split
    · split
      · rename_i hr
        exact keeps_write _ hr rfl
      · exact Keeps.refl _ _
    · exact Keeps.refl _ _
  · intro st p x o hx hxo
    unfold zeroSeq
    split
    · split
      · simp only
        rw [get_write_ne _ hx]; exact hxo
      · exact hxo
    · exact hxo
  · intro st p v hv
    obtain ⟨txid, index, s, sequence, toks, g1, g2, rfl⟩ := viewTxIn_some.mp hv
    unfold zeroSeq
    by_cases hp : p.1 ≠ i
    · rw [if_pos hp, if_pos hp]
      simp only [g1]
      refine viewTxIn_some.mpr ⟨txid, index, s, [0, 0, 0, 0], toks, get_write_self _ (get_lt g1), ?_, rfl⟩
      exact (keeps_write _ g1 rfl : Keeps isTxin _ _).viewScript (fun _ => rfl) (fun _ => rfl) g2
    · simp only [hp, ↓reduceIte]
      exact hv

/-! ### list-level consequences -/

theorem map_some_length {α β} {f : α → Option β} {l : List α} {v : List β} (hm : l.map f = v.map some) :
    l.length = v.length := by
  have := congrArg List.length hm
  simpa using this

theorem map_some_get {α β} {f : α → Option β} {l : List α} {v : List β} (hm : l.map f = v.map some)
    {k : Nat} {x : α} (hx : l[k]? = some x) : ∃ y, v[k]? = some y ∧ f x = some y := by
  have := congrArg (fun l => l[k]?) hm
  simp only [List.getElem?_map, hx, Option.map_some] at this
  cases hv : v[k]? with
  | none => rw [hv] at this; cases this
  | some y =>
    rw [hv] at this
    simp only [Option.map_some, Option.some.injEq] at this
    exact ⟨y, rfl, this⟩

/-- indexed update of every element -/
theorem map_view_mapIdx {α} {view view' : Ref → Option α} {l : List Ref} {I : List α} (g : Nat → α → α)
    (hm : l.map view = I.map some)
    (hu : ∀ k r, l[k]? = some r → ∀ v, view r = some v → view' r = some (g k v)) :
    l.map view' = (I.mapIdx g).map some := by
  apply List.ext_getElem?
  intro k
  simp only [List.getElem?_map, List.getElem?_mapIdx]
  cases hl : l[k]? with
  | none =>
    have : I[k]? = none := by
      have h1 := map_some_length hm
      have h2 := List.getElem?_eq_none_iff.mp hl
      exact List.getElem?_eq_none_iff.mpr (by omega)
    simp [this]
  | some r =>
    obtain ⟨y, hy, hv⟩ := map_some_get hm hl
    simp only [hy, Option.map_some, hu k r hl y hv]

theorem map_view_map {α} {view view' : Ref → Option α} {l : List Ref} {I : List α} (g : α → α)
    (hm : l.map view = I.map some)
    (hu : ∀ r ∈ l, ∀ v, view r = some v → view' r = some (g v)) :
    l.map view' = (I.map g).map some := by
  have := map_view_mapIdx (fun _ => g) hm (fun k r hk v hv => hu r (List.mem_of_getElem? hk) v hv)
  rw [this]
  congr 1
  apply List.ext_getElem?
  intro k
  simp only [List.getElem?_mapIdx, List.getElem?_map]

/-- update of the element at one position (the references are pairwise distinct) -/
theorem map_view_set {α} {view view' : Ref → Option α} {l : List Ref} {I : List α} (hnd : l.Nodup)
    {i : Nat} {ri : Ref} (hi : l[i]? = some ri) (v' : α)
    (hm : l.map view = I.map some)
    (hother : ∀ r ∈ l, r ≠ ri → ∀ v, view r = some v → view' r = some v)
    (hself : view' ri = some v') :
    l.map view' = (I.set i v').map some := by
  apply List.ext_getElem?
  intro k
  simp only [List.getElem?_map, List.getElem?_set]
  have hlen := map_some_length hm
  cases hl : l[k]? with
  | none =>
    have h2 := List.getElem?_eq_none_iff.mp hl
    have hki : i ≠ k := by
      rintro rfl; rw [hi] at hl; cases hl
    have : I[k]? = none := List.getElem?_eq_none_iff.mpr (by omega)
    simp [hki, this]
  | some r =>
    obtain ⟨y, hy, hv⟩ := map_some_get hm hl
    by_cases hki : i = k
    · subst hki
      rw [hi] at hl
      simp only [Option.some.injEq] at hl; subst hl
      have : i < I.length := (List.getElem?_eq_some_iff.mp hy).1
      simp [this, hself]
    · have hne : r ≠ ri := by
        rintro rfl
        have h2 := (List.getElem?_eq_some_iff.mp hi).1
        exact hki ((List.getElem?_inj h2 hnd).mp (hi.trans hl.symm))
      simp only [hki, ↓reduceIte, hy, Option.map_some, hother r (List.mem_of_getElem? hl) hne y hv]


/-! ### the state of the temporary transaction during `get_transaction_digest` -/

structure St (cur : H) (tmp : Ref) (version locktime : Bytes) (seg : Bool) (a b c : Ref)
    (ins outs wits : List Ref) (I : List TxIn) (O : List TxOut) (W : List (List Bytes)) : Prop where
  htmp : cur[tmp]? = some (.tx version locktime seg a b c)
  ha : cur[a]? = some (.reflist ins)
  hb : cur[b]? = some (.reflist outs)
  hc : cur[c]? = some (.reflist wits)
  hI : ins.map (viewTxIn cur) = I.map some
  hO : outs.map (viewTxOut cur) = O.map some
  hW : wits.map (viewWit cur) = W.map some

theorem St.view {cur : H} {tmp : Ref} {version locktime : Bytes} {seg : Bool} {a b c : Ref}
    {ins outs wits : List Ref} {I : List TxIn} {O : List TxOut} {W : List (List Bytes)}
    (s : St cur tmp version locktime seg a b c ins outs wits I O W) :
    viewTx cur tmp = some ⟨version, I, O, locktime, seg, W⟩ :=
  viewTx_some.mpr ⟨_, _, _, _, _, _, _, _, _, s.htmp, s.ha, s.hb, s.hc, s.hI, s.hO, s.hW, rfl, rfl, rfl⟩

theorem St.txinStage {cur cur' : H} {tmp : Ref} {version locktime : Bytes} {seg : Bool} {a b c : Ref}
    {ins outs wits : List Ref} {I I' : List TxIn} {O : List TxOut} {W : List (List Bytes)}
    (s : St cur tmp version locktime seg a b c ins outs wits I O W) (k : Keeps isTxin cur cur')
    (hI' : ins.map (viewTxIn cur') = I'.map some) :
    St cur' tmp version locktime seg a b c ins outs wits I' O W :=
  ⟨k _ _ s.htmp rfl, k _ _ s.ha rfl, k _ _ s.hb rfl, k _ _ s.hc rfl, hI',
    map_view_keep (fun _ _ => k.viewTxOut (fun _ _ => rfl) (fun _ => rfl) (fun _ => rfl)) s.hO,
    map_view_keep (fun _ _ => k.viewWit (fun _ => rfl) (fun _ => rfl)) s.hW⟩

theorem blank_stage {cur : H} {tmp : Ref} {version locktime : Bytes} {seg : Bool} {a b c : Ref}
    {ins outs wits : List Ref} {I : List TxIn} {O : List TxOut} {W : List (List Bytes)}
    (s : St cur tmp version locktime seg a b c ins outs wits I O W) (hnd : ins.Nodup) (ws : List Ref) :
    Keeps isTxin cur (ins.foldl blank (cur, ws)).1 ∧
    St (ins.foldl blank (cur, ws)).1 tmp version locktime seg a b c ins outs wits
      (I.map fun x => { x with scriptSig := [] }) O W := by
  obtain ⟨f1, _, f3⟩ := blank_step.fold ins (cur, ws) (by simpa using hnd)
  refine ⟨f1, s.txinStage f1 ?_⟩
  exact map_view_map _ s.hI (fun r hr v hv => f3 r hr v hv)

theorem zip_map_snd (ins : List Ref) : (ins.zipIdx.map fun p => (p.2, p.1)).map Prod.snd = ins := by
  rw [List.map_map]
  exact List.zipIdx_map_fst 0 ins

theorem zeroSeq_stage {cur : H} {tmp : Ref} {version locktime : Bytes} {seg : Bool} {a b c : Ref}
    {ins outs wits : List Ref} {I : List TxIn} {O : List TxOut} {W : List (List Bytes)}
    (s : St cur tmp version locktime seg a b c ins outs wits I O W) (hnd : ins.Nodup) (i : Nat) (ws : List Ref) :
    St ((ins.zipIdx.map fun p => (p.2, p.1)).foldl (zeroSeq i) (cur, ws)).1 tmp version locktime seg a b c
      ins outs wits (zeroOtherSequences I i) O W := by
  obtain ⟨f1, _, f3⟩ := (zeroSeq_step i).fold (ins.zipIdx.map fun p => (p.2, p.1)) (cur, ws)
    (by rw [zip_map_snd]; exact hnd)
  refine s.txinStage f1 ?_
  unfold zeroOtherSequences
  apply map_view_mapIdx _ s.hI
  intro k r hk v hv
  have hmem : (k, r) ∈ ins.zipIdx.map fun p => (p.2, p.1) := by
    rw [List.mem_map]
    exact ⟨(r, k), List.mem_zipIdx_iff_getElem?.mpr hk, rfl⟩
  exact f3 (k, r) hmem v hv

theorem bind_stage {cur : H} {tmp : Ref} {version locktime : Bytes} {seg : Bool} {a b c : Ref}
    {ins outs wits : List Ref} {I : List TxIn} {O : List TxOut} {W : List (List Bytes)}
    (s : St cur tmp version locktime seg a b c ins outs wits I O W) (hnd : ins.Nodup)
    {i : Nat} {ri : Ref} (hi : ins[i]? = some ri) {txid : Bytes} {index : Int} {s0 : Ref} {sequence : Bytes}
    (hri : cur[ri]? = some (.txin txid index s0 sequence)) {code : Ref} {toks : List Tok}
    (hcode : viewScript cur code = some toks) {x : TxIn} (hx : I[i]? = some x) :
    St (write cur ri (.txin txid index code sequence)) tmp version locktime seg a b c ins outs wits
      (I.set i { x with scriptSig := toks }) O W := by
  have k : Keeps isTxin cur (write cur ri (.txin txid index code sequence)) := keeps_write _ hri rfl
  refine s.txinStage k ?_
  obtain ⟨y, hy, hv⟩ := map_some_get s.hI hi
  rw [hx] at hy
  simp only [Option.some.injEq] at hy; subst hy
  obtain ⟨txid', index', s', sequence', toks', g1, g2, rfl⟩ := viewTxIn_some.mp hv
  rw [hri] at g1
  simp only [Option.some.injEq, Obj.txin.injEq] at g1
  obtain ⟨rfl, rfl, rfl, rfl⟩ := g1
  apply map_view_set hnd hi _ s.hI
  · intro r _ hne v hv'
    exact viewTxIn_keep k (fun o ho => by rw [get_write_ne _ hne]; exact ho) hv'
  · exact viewTxIn_some.mpr ⟨txid, index, code, sequence, toks, get_write_self _ (get_lt hri),
      k.viewScript (fun _ => rfl) (fun _ => rfl) hcode, rfl⟩

/-- rebinding an attribute of the temporary transaction: everything except transaction objects is kept -/
theorem keepsTx_rebind {cur : H} {tmp : Ref} {o0 : Obj} (ho : cur[tmp]? = some o0) (htx : isTx o0 = true)
    (ext : H) (o : Obj) : Keeps isTx cur (write (cur ++ ext) tmp o) :=
  (keeps_ext _ _ _).trans (keeps_write _ (get_ext _ ho) htx)

theorem keepsTx_mapIn {c c' : H} (k : Keeps isTx c c') {l : List Ref} {I : List TxIn}
    (h : l.map (viewTxIn c) = I.map some) : l.map (viewTxIn c') = I.map some :=
  map_view_keep (fun _ _ => k.viewTxIn (fun _ _ _ _ => rfl) (fun _ => rfl) (fun _ => rfl)) h

theorem keepsTx_mapOut {c c' : H} (k : Keeps isTx c c') {l : List Ref} {O : List TxOut}
    (h : l.map (viewTxOut c) = O.map some) : l.map (viewTxOut c') = O.map some :=
  map_view_keep (fun _ _ => k.viewTxOut (fun _ _ => rfl) (fun _ => rfl) (fun _ => rfl)) h

theorem keepsTx_mapWit {c c' : H} (k : Keeps isTx c c') {l : List Ref} {W : List (List Bytes)}
    (h : l.map (viewWit c) = W.map some) : l.map (viewWit c') = W.map some :=
  map_view_keep (fun _ _ => k.viewWit (fun _ => rfl) (fun _ => rfl)) h

def filler : TxOut := { amount := -1, script := [] }

theorem fill_eq (st : H × List Ref) (n : Nat) :
    fill st n = (st.1 ++ [.toklist [], .script st.1.length, .txout (-1) (st.1.length + 1)], st.2 ++ [st.1.length + 2]) := by
  simp [fill, newScript_eq, alloc]

theorem fill_fold : ∀ (l : List Nat) (st : H × List Ref),
    ∃ ext new, (l.foldl fill st).1 = st.1 ++ ext ∧ (l.foldl fill st).2 = st.2 ++ new ∧
      new.map (viewTxOut (l.foldl fill st).1) = (List.replicate l.length filler).map some := by
  intro l
  induction l with
  | nil => intro st; exact ⟨[], [], by simp, by simp, by simp⟩
  | cons n rest ih =>
    intro st
    rw [List.foldl_cons]
    obtain ⟨ext, new, e1, e2, e3⟩ := ih (fill st n)
    rw [fill_eq] at e1 e2 e3 ⊢
    simp only at e1 e2
    refine ⟨[Obj.toklist [], .script st.1.length, .txout (-1) (st.1.length + 1)] ++ ext, (st.1.length + 2) :: new,
      by rw [e1, List.append_assoc], by rw [e2]; simp, ?_⟩
    simp only [List.map_cons, List.length_cons, List.replicate_succ, List.cons.injEq]
    refine ⟨?_, e3⟩
    rw [e1]
    apply viewTxOut_ext
    have g2 : (st.1 ++ [Obj.toklist [], .script st.1.length, .txout (-1) (st.1.length + 1)])[st.1.length + 2]? =
        some (.txout (-1) (st.1.length + 1)) := by rw [get_app]; rfl
    have g1 : (st.1 ++ [Obj.toklist [], .script st.1.length, .txout (-1) (st.1.length + 1)])[st.1.length + 1]? =
        some (.script st.1.length) := by rw [get_app]; rfl
    have g0 : (st.1 ++ [Obj.toklist [], .script st.1.length, .txout (-1) (st.1.length + 1)])[st.1.length]? =
        some (.toklist []) := by simp
    exact viewTxOut_some.mpr ⟨_, _, _, g2, viewScript_some.mpr ⟨_, g1, g0⟩, rfl⟩


/-! ### the pure model in the same stages -/

def modelOut (I : List TxIn) (O : List TxOut) (i base : Nat) : Except PyErr (List TxIn × List TxOut) :=
  if base = 2 then .ok (zeroOtherSequences I i, [])
  else if base = 3 then
    match O[i]? with
    | none => .error .valueError
    | some o => .ok (zeroOtherSequences I i, List.replicate i filler ++ [o])
  else .ok (I, O)

def modelAny (I : List TxIn) (i ht : Nat) : List TxIn :=
  if ht &&& 0x80 ≠ 0 then (match I[i]? with | some y => [y] | none => []) else I

def modelTmp (t : Tx) (i : Nat) (code : List Tok) (ht : Nat) : Except PyErr Tx :=
  match (t.inputs.map fun x => { x with scriptSig := [] })[i]? with
  | none => .error .indexError
  | some x =>
    match modelOut ((t.inputs.map fun x => { x with scriptSig := [] }).set i { x with scriptSig := code })
        t.outputs i (ht &&& 0x1f) with
    | .error e => .error e
    | .ok (ins2, outs) => .ok { t with inputs := modelAny ins2 i ht, outputs := outs }

def finishTWith (pk : Except PyErr Bytes) (sha256 : Bytes → Bytes) (T : Tables) (tm : Tx) : Except PyErr Bytes := do
  let ser ← tm.toBytes T false
  let htb ← pk
  pure (sha256 (sha256 (ser ++ htb)))

def finishT (sha256 : Bytes → Bytes) (T : Tables) (ht : Nat) (tm : Tx) : Except PyErr Bytes :=
  finishTWith (Py.pack "<i" ht) sha256 T tm

theorem legacyDigest_eq (sha256 : Bytes → Bytes) (T : Tables) (t : Tx) (i : Nat) (code : List Tok) (ht : Nat) :
    legacyDigest sha256 T t i code ht =
      match modelTmp t i code ht with
      | .error e => .error e
      | .ok tm => finishT sha256 T ht tm := by
  unfold legacyDigest modelTmp finishT finishTWith
  dsimp only
  cases (t.inputs.map fun x => { x with scriptSig := [] })[i]? with
  | none => rfl
  | some x =>
    simp only
    unfold modelOut
    by_cases h2 : ht &&& 0x1f = 2
    · simp only [h2, ↓reduceIte]; rfl
    · by_cases h3 : ht &&& 0x1f = 3
      · simp only [h3, ↓reduceIte]
        cases t.outputs[i]? <;> rfl
      · simp only [h2, h3, ↓reduceIte]; rfl

def digestHWith (pk : Except PyErr Bytes) (sha256 : Bytes → Bytes) (T : Tables) (h : H) (self : Ref) (i : Nat)
    (code : Ref) (ht : Nat) : Except PyErr (H × Bytes) := do
  let (h', tmp, _) ← legacyDigestPrepare h self i code ht
  let some t := viewTx h' tmp | throw PyErr.typeError
  let ser ← t.toBytes T false
  let htb ← pk
  pure (h', sha256 (sha256 (ser ++ htb)))

theorem digestHWith_eq (pk : Except PyErr Bytes) (sha256 : Bytes → Bytes) (T : Tables) (h : H) (self : Ref)
    (i : Nat) (code : Ref) (ht : Nat) :
    (digestHWith pk sha256 T h self i code ht).map (·.2) =
      match legacyDigestPrepare h self i code ht with
      | .error e => .error e
      | .ok (h', tmp, _) =>
        match viewTx h' tmp with
        | none => .error .typeError
        | some tm => finishTWith pk sha256 T tm := by
  unfold digestHWith finishTWith
  cases legacyDigestPrepare h self i code ht with
  | error e => rfl
  | ok p =>
    obtain ⟨h', tmp, ws⟩ := p
    simp only [bind, Except.bind]
    cases viewTx h' tmp with
    | none => rfl
    | some tm =>
      simp only
      cases tm.toBytes T false with
      | error e => rfl
      | ok ser =>
        simp only
        cases pk <;> rfl

theorem legacyDigestH_eq (sha256 : Bytes → Bytes) (T : Tables) (h : H) (self : Ref) (i : Nat) (code : Ref) (ht : Nat) :
    (legacyDigestH sha256 T h self i code ht).map (·.2) =
      match legacyDigestPrepare h self i code ht with
      | .error e => .error e
      | .ok (h', tmp, _) =>
        match viewTx h' tmp with
        | none => .error .typeError
        | some tm => finishT sha256 T ht tm :=
  digestHWith_eq (Py.pack "<i" ht) sha256 T h self i code ht


/-! ### the stages simulate the model -/

theorem stageOut_two (cur : H) (tmp : Ref) (version locktime : Bytes) (seg : Bool) (a c : Ref) (ins outs : List Ref)
    (i : Nat) (ws : List Ref) :
    stageOut cur tmp version locktime seg a c ins outs i 2 ws =
      .ok (((ins.zipIdx.map fun p => (p.2, p.1)).foldl (zeroSeq i)
        (write (cur ++ [.reflist []]) tmp (.tx version locktime seg a cur.length c), tmp :: ws)).1, tmp,
        ((ins.zipIdx.map fun p => (p.2, p.1)).foldl (zeroSeq i)
        (write (cur ++ [.reflist []]) tmp (.tx version locktime seg a cur.length c), tmp :: ws)).2) := rfl

theorem stageOut_three_none (cur : H) (tmp : Ref) (version locktime : Bytes) (seg : Bool) (a c : Ref)
    (ins outs : List Ref) (i : Nat) (ws : List Ref) (ho : outs[i]? = none) :
    stageOut cur tmp version locktime seg a c ins outs i 3 ws = .error .valueError := by
  unfold stageOut
  simp only [ho, show (3 : Nat) ≠ 2 by decide, ↓reduceIte]
  rfl

theorem stageOut_three_some (cur : H) (tmp : Ref) (version locktime : Bytes) (seg : Bool) (a c : Ref)
    (ins outs : List Ref) (i : Nat) (ws : List Ref) (o : Ref) (ho : outs[i]? = some o) :
    stageOut cur tmp version locktime seg a c ins outs i 3 ws =
      .ok (((ins.zipIdx.map fun p => (p.2, p.1)).foldl (zeroSeq i)
        (write (((List.range i).foldl fill (cur, [])).1 ++ [.reflist (((List.range i).foldl fill (cur, [])).2 ++ [o])])
          tmp (.tx version locktime seg a ((List.range i).foldl fill (cur, [])).1.length c), tmp :: ws)).1, tmp,
        ((ins.zipIdx.map fun p => (p.2, p.1)).foldl (zeroSeq i)
        (write (((List.range i).foldl fill (cur, [])).1 ++ [.reflist (((List.range i).foldl fill (cur, [])).2 ++ [o])])
          tmp (.tx version locktime seg a ((List.range i).foldl fill (cur, [])).1.length c), tmp :: ws)).2) := by
  unfold stageOut
  simp only [ho, show (3 : Nat) ≠ 2 by decide, ↓reduceIte]
  rfl

theorem stageOut_other (cur : H) (tmp : Ref) (version locktime : Bytes) (seg : Bool) (a c : Ref)
    (ins outs : List Ref) (i base : Nat) (ws : List Ref) (h2 : base ≠ 2) (h3 : base ≠ 3) :
    stageOut cur tmp version locktime seg a c ins outs i base ws = .ok (cur, tmp, ws) := by
  unfold stageOut
  simp only [h2, h3, ↓reduceIte]
  rfl

/-- rebinding `outputs` of the temporary transaction to a fresh list -/
theorem rebind_outputs {cur : H} {tmp : Ref} {version locktime : Bytes} {seg : Bool} {a b c : Ref}
    {ins outs wits : List Ref} {I : List TxIn} {O : List TxOut} {W : List (List Bytes)}
    (s : St cur tmp version locktime seg a b c ins outs wits I O W) (ext : H) (outs' : List Ref) (O' : List TxOut)
    (hO' : outs'.map (viewTxOut (cur ++ ext)) = O'.map some) :
    St (write (cur ++ ext ++ [.reflist outs']) tmp (.tx version locktime seg a (cur ++ ext).length c)) tmp
      version locktime seg a (cur ++ ext).length c ins outs' wits I O' W := by
  have k : Keeps isTx cur (write (cur ++ ext ++ [.reflist outs']) tmp
      (.tx version locktime seg a (cur ++ ext).length c)) := by
    rw [List.append_assoc]; exact keepsTx_rebind s.htmp rfl _ _
  have k2 : Keeps isTx (cur ++ ext) (write (cur ++ ext ++ [.reflist outs']) tmp
      (.tx version locktime seg a (cur ++ ext).length c)) :=
    keepsTx_rebind (get_ext _ s.htmp) rfl _ _
  have htl : tmp < cur.length := get_lt s.htmp
  refine ⟨get_write_self _ (by simp only [List.length_append, List.length_cons, List.length_nil, Ref] at *; omega),
    k _ _ s.ha rfl, ?_, k _ _ s.hc rfl, keepsTx_mapIn k s.hI,
    keepsTx_mapOut k2 hO', keepsTx_mapWit k s.hW⟩
  rw [get_write_ne]
  · simp
  · simp only [List.length_append, Ref] at *; omega

theorem stageOut_sim_ok {cur : H} {tmp : Ref} {version locktime : Bytes} {seg : Bool} {a b c : Ref}
    {ins outs wits : List Ref} {I : List TxIn} {O : List TxOut} {W : List (List Bytes)}
    (s : St cur tmp version locktime seg a b c ins outs wits I O W) (hnd : ins.Nodup) (i base : Nat) (ws : List Ref)
    {cur' : H} {tmp' : Ref} {ws' : List Ref}
    (hs : stageOut cur tmp version locktime seg a c ins outs i base ws = .ok (cur', tmp', ws')) :
    tmp' = tmp ∧ ∃ b' outs' I' O', modelOut I O i base = .ok (I', O') ∧
      St cur' tmp version locktime seg a b' c ins outs' wits I' O' W := by
  by_cases h2 : base = 2
  · subst h2
    rw [stageOut_two] at hs
    simp only [Except.ok.injEq, Prod.mk.injEq] at hs
    obtain ⟨rfl, rfl, rfl⟩ := hs
    have s1 := rebind_outputs s [] [] [] rfl
    simp only [List.append_nil] at s1
    exact ⟨rfl, _, _, _, _, rfl, zeroSeq_stage s1 hnd i _⟩
  · by_cases h3 : base = 3
    · subst h3
      cases ho : outs[i]? with
      | none => rw [stageOut_three_none _ _ _ _ _ _ _ _ _ _ _ ho] at hs; cases hs
      | some o =>
        rw [stageOut_three_some _ _ _ _ _ _ _ _ _ _ _ o ho] at hs
        simp only [Except.ok.injEq, Prod.mk.injEq] at hs
        obtain ⟨rfl, rfl, rfl⟩ := hs
        obtain ⟨y, hy, hv⟩ := map_some_get s.hO ho
        obtain ⟨ext, new, e1, e2, e3⟩ := fill_fold (List.range i) (cur, [])
        simp only [List.nil_append, List.length_range] at e1 e2 e3
        have hm : modelOut I O i 3 = .ok (zeroOtherSequences I i, List.replicate i filler ++ [y]) := by
          unfold modelOut; simp only [hy, show (3 : Nat) ≠ 2 by decide, ↓reduceIte]
        rw [e1] at e3
        rw [e1, e2]
        have hO' : (new ++ [o]).map (viewTxOut (cur ++ ext)) = (List.replicate i filler ++ [y]).map some := by
          simp only [List.map_append, List.map_cons, List.map_nil, e3, viewTxOut_ext ext hv]
        exact ⟨rfl, _, _, _, _, hm, zeroSeq_stage (rebind_outputs s ext _ _ hO') hnd i _⟩
    · rw [stageOut_other _ _ _ _ _ _ _ _ _ _ _ _ h2 h3] at hs
      simp only [Except.ok.injEq, Prod.mk.injEq] at hs
      obtain ⟨rfl, rfl, rfl⟩ := hs
      exact ⟨rfl, _, _, _, _, by unfold modelOut; simp only [h2, h3, ↓reduceIte], s⟩

theorem stageOut_sim_err {cur : H} {tmp : Ref} {version locktime : Bytes} {seg : Bool} {a b c : Ref}
    {ins outs wits : List Ref} {I : List TxIn} {O : List TxOut} {W : List (List Bytes)}
    (s : St cur tmp version locktime seg a b c ins outs wits I O W) (i base : Nat) (ws : List Ref)
    {e : PyErr}
    (hs : stageOut cur tmp version locktime seg a c ins outs i base ws = .error e) :
    modelOut I O i base = .error e := by
  by_cases h2 : base = 2
  · subst h2
    rw [stageOut_two] at hs; cases hs
  · by_cases h3 : base = 3
    · subst h3
      cases ho : outs[i]? with
      | none =>
        rw [stageOut_three_none _ _ _ _ _ _ _ _ _ _ _ ho] at hs
        simp only [Except.error.injEq] at hs; subst hs
        have : O[i]? = none := by
          have h1 := map_some_length s.hO
          have h2 := List.getElem?_eq_none_iff.mp ho
          exact List.getElem?_eq_none_iff.mpr (by omega)
        unfold modelOut
        simp only [this, show (3 : Nat) ≠ 2 by decide, ↓reduceIte]
      | some o => rw [stageOut_three_some _ _ _ _ _ _ _ _ _ _ _ o ho] at hs; cases hs
    · rw [stageOut_other _ _ _ _ _ _ _ _ _ _ _ _ h2 h3] at hs; cases hs

theorem stageAny_sim {cur : H} {tmp : Ref} {version locktime : Bytes} {seg : Bool} {a b c : Ref}
    {ins outs wits : List Ref} {I : List TxIn} {O : List TxOut} {W : List (List Bytes)}
    (s : St cur tmp version locktime seg a b c ins outs wits I O W) {i : Nat} {ri : Ref} (hi : ins[i]? = some ri)
    (ht : Nat) (ws : List Ref) :
    ∃ cur' ws' a' ins', stageAny cur tmp ri ht ws = .ok (cur', tmp, ws') ∧
      St cur' tmp version locktime seg a' b c ins' outs wits (modelAny I i ht) O W := by
  unfold stageAny modelAny
  by_cases hany : ht &&& 0x80 ≠ 0
  · simp only [hany, ↓reduceIte, ne_eq, not_false_eq_true, s.htmp, alloc]
    obtain ⟨y, hy, hv⟩ := map_some_get s.hI hi
    refine ⟨_, _, cur.length, [ri], rfl, ?_⟩
    simp only [hy]
    have k : Keeps isTx cur (write (cur ++ [.reflist [ri]]) tmp (.tx version locktime seg cur.length b c)) :=
      keepsTx_rebind s.htmp rfl _ _
    have htl : tmp < cur.length := get_lt s.htmp
    refine ⟨get_write_self _ (by simp only [List.length_append, List.length_cons, List.length_nil, Ref] at *; omega),
      ?_, k _ _ s.hb rfl, k _ _ s.hc rfl, ?_,
      keepsTx_mapOut k s.hO, keepsTx_mapWit k s.hW⟩
    · rw [get_write_ne]
      · simp
      · simp only [Ref] at *; omega
    · simp only [List.map_cons, List.map_nil, List.cons.injEq, and_true]
      exact k.viewTxIn (fun _ _ _ _ => rfl) (fun _ => rfl) (fun _ => rfl) hv
  · simp only [hany, ↓reduceIte]
    exact ⟨_, _, _, _, rfl, s⟩


theorem prepare_sim {h : H} {self code : Ref} {i ht : Nat} {t : Tx} {toks : List Tok}
    (ht' : viewTx h self = some t) (hcv : viewScript h code = some toks) :
    match legacyDigestPrepare h self i code ht with
    | .ok (h', tmp, _) => ∃ tm, modelTmp t i toks ht = .ok tm ∧ viewTx h' tmp = some tm
    | .error e => modelTmp t i toks ht = .error e := by
  obtain ⟨h1, tmp, hcp⟩ := copyTx_ok ht'
  obtain ⟨ext, rfl, _, hview, hnd⟩ := copyTx_spec hcp
  have hv1 := hview t ht'
  obtain ⟨version, locktime, seg, a, b, c, ins, outs, wits, htmp, ha, hb, hc, hI, hO, hW, e1, e2, e3⟩ :=
    viewTx_some.mp hv1
  have hnd' := hnd _ _ _ _ _ _ _ htmp ha
  have s0 : St (h ++ ext) tmp version locktime seg a b c ins outs wits t.inputs t.outputs t.witnesses :=
    ⟨htmp, ha, hb, hc, hI, hO, hW⟩
  have hcode1 : viewScript (h ++ ext) code = some toks := viewScript_ext ext hcv
  obtain ⟨k1, s1⟩ := blank_stage s0 hnd' []
  have hcode2 := k1.viewScript (fun _ => rfl) (fun _ => rfl) hcode1
  rw [prepare_eq]
  unfold prepareStaged
  simp only [hcp, bind, Except.bind, htmp, ha]
  cases hri : ins[i]? with
  | none =>
    simp only
    have : (t.inputs.map fun x => { x with scriptSig := [] })[i]? = none := by
      have h1 := map_some_length hI
      have h2 := List.getElem?_eq_none_iff.mp hri
      exact List.getElem?_eq_none_iff.mpr (by simp only [List.length_map]; omega)
    unfold modelTmp
    simp only [this]
    rfl
  | some ri =>
    obtain ⟨x, hx, hvx⟩ := map_some_get s1.hI hri
    obtain ⟨txid, index, s', sequence, toks', g1, g2, rfl⟩ := viewTxIn_some.mp hvx
    simp only [g1]
    have s2 := bind_stage s1 hnd' hri g1 hcode2 hx
    simp only [s2.hb]
    rw [tailStage_eq]
    simp only [bind, Except.bind]
    cases hso : stageOut (write (List.foldl blank (h ++ ext, []) ins).1 ri (Obj.txin txid index code sequence)) tmp
        version locktime seg a c ins outs i (ht &&& 31) (ri :: (List.foldl blank (h ++ ext, []) ins).2) with
    | error e =>
      have := stageOut_sim_err s2 i _ _ hso
      simp only
      unfold modelTmp
      simp only [hx, this]
    | ok p =>
      obtain ⟨cur', tmp', ws'⟩ := p
      obtain ⟨rfl, b', outs', I', O', hm, s3⟩ := stageOut_sim_ok s2 hnd' i _ _ hso
      obtain ⟨cur'', ws'', a', ins', hsa, s4⟩ := stageAny_sim s3 hri ht ws'
      simp only [hsa]
      refine ⟨_, ?_, s4.view⟩
      unfold modelTmp
      simp only [hx, hm]
      subst e1 e2 e3
      rfl


end HeapLemmas
