import BU.Py
import BU.Model.Heap
import BU.Model.Digest
/-! Helper lemmas for C13 (heap model `Model.Heap`): allocation, extension, views, reachability, frame,
copies, and the simulation of `get_transaction_digest`. -/
namespace HeapLemmas
open Py Spec Model Model.Heap

/-! ## lookups -/

theorem get_ext {h : H} {x : Nat} {o : Obj} (ext : H) (hx : h[x]? = some o) : (h ++ ext)[x]? = some o := by
  have hlt : x < h.length := (List.getElem?_eq_some_iff.mp hx).1
  rw [List.getElem?_append_left hlt]; exact hx

theorem get_ext_lt {h : H} {x : Nat} (ext : H) (hx : x < h.length) : (h ++ ext)[x]? = h[x]? :=
  List.getElem?_append_left hx

theorem get_lt {h : H} {x : Nat} {o : Obj} (hx : h[x]? = some o) : x < h.length :=
  (List.getElem?_eq_some_iff.mp hx).1

theorem get_new (h : H) (o : Obj) (ext : H) : (h ++ o :: ext)[h.length]? = some o := by
  simp

theorem get_write_ne {h : H} {w x : Nat} (o : Obj) (hne : x ≠ w) : (write h w o)[x]? = h[x]? := by
  unfold write; exact List.getElem?_set_ne (Ne.symm hne)

theorem get_write_self {h : H} {w : Nat} (o : Obj) (hw : w < h.length) : (write h w o)[w]? = some o := by
  unfold write; simp [hw]

theorem length_write (h : H) (w : Nat) (o : Obj) : (write h w o).length = h.length := by
  unfold write; simp

/-! ## `mapM` in `Option` -/

theorem mapM_some_iff {α β} (f : α → Option β) (l : List α) (v : List β) :
    l.mapM f = some v ↔ l.map f = v.map some := by
  induction l generalizing v with
  | nil =>
    cases v <;> simp
  | cons x xs ih =>
    rw [List.mapM_cons]
    cases v with
    | nil => cases f x <;> cases xs.mapM f <;> simp
    | cons z zs =>
      simp only [List.map_cons, List.cons.injEq]
      rw [← ih zs]
      cases f x <;> cases xs.mapM f <;> simp

theorem mapM_congr {α β} {f g : α → Option β} {l : List α} (hfg : ∀ x ∈ l, f x = g x) : l.mapM f = l.mapM g := by
  induction l with
  | nil => rfl
  | cons x xs ih =>
    rw [List.mapM_cons, List.mapM_cons, hfg x (by simp), ih (fun y hy => hfg y (by simp [hy]))]

theorem map_some_mem {α β} {f : α → Option β} {l : List α} {v : List β} (hm : l.map f = v.map some) :
    ∀ x ∈ l, ∃ y, f x = some y := by
  intro x hx
  have : f x ∈ l.map f := List.mem_map_of_mem hx
  rw [hm, List.mem_map] at this
  obtain ⟨y, _, hy⟩ := this
  exact ⟨y, hy.symm⟩

/-! ## inversion of the views -/

theorem viewScript_some {h : H} {r : Ref} {v : List Tok} :
    viewScript h r = some v ↔ ∃ l, h[r]? = some (.script l) ∧ h[l]? = some (.toklist v) := by
  unfold viewScript
  constructor
  · intro hv
    split at hv
    · rename_i l hl
      split at hv
      · rename_i items hi
        simp only [Option.some.injEq] at hv; subst hv; exact ⟨l, hl, hi⟩
      · cases hv
    · cases hv
  · rintro ⟨l, hl, hi⟩
    simp only [hl, hi]

theorem viewWit_some {h : H} {r : Ref} {v : List Bytes} :
    viewWit h r = some v ↔ ∃ l, h[r]? = some (.wit l) ∧ h[l]? = some (.strlist v) := by
  unfold viewWit
  constructor
  · intro hv
    split at hv
    · rename_i l hl
      split at hv
      · rename_i items hi
        simp only [Option.some.injEq] at hv; subst hv; exact ⟨l, hl, hi⟩
      · cases hv
    · cases hv
  · rintro ⟨l, hl, hi⟩
    simp only [hl, hi]

theorem viewTxIn_some {h : H} {r : Ref} {v : TxIn} :
    viewTxIn h r = some v ↔ ∃ txid index s sequence toks, h[r]? = some (.txin txid index s sequence) ∧
      viewScript h s = some toks ∧ v = { txid := txid, index := index, scriptSig := toks, sequence := sequence } := by
  unfold viewTxIn
  constructor
  · intro hv
    split at hv
    · rename_i txid index s sequence hl
      cases hs : viewScript h s with
      | none => rw [hs] at hv; cases hv
      | some toks =>
        rw [hs] at hv; simp only [Option.map_some, Option.some.injEq] at hv
        exact ⟨txid, index, s, sequence, toks, hl, hs, hv.symm⟩
    · cases hv
  · rintro ⟨txid, index, s, sequence, toks, hl, hs, rfl⟩
    simp only [hl, hs, Option.map_some]

theorem viewTxOut_some {h : H} {r : Ref} {v : TxOut} :
    viewTxOut h r = some v ↔ ∃ amount s toks, h[r]? = some (.txout amount s) ∧
      viewScript h s = some toks ∧ v = { amount := amount, script := toks } := by
  unfold viewTxOut
  constructor
  · intro hv
    split at hv
    · rename_i amount s hl
      cases hs : viewScript h s with
      | none => rw [hs] at hv; cases hv
      | some toks =>
        rw [hs] at hv; simp only [Option.map_some, Option.some.injEq] at hv
        exact ⟨amount, s, toks, hl, hs, hv.symm⟩
    · cases hv
  · rintro ⟨amount, s, toks, hl, hs, rfl⟩
    simp only [hl, hs, Option.map_some]

theorem viewTx_some {h : H} {r : Ref} {t : Tx} :
    viewTx h r = some t ↔ ∃ version locktime seg a b c ins outs wits,
      h[r]? = some (.tx version locktime seg a b c) ∧
      h[a]? = some (.reflist ins) ∧ h[b]? = some (.reflist outs) ∧ h[c]? = some (.reflist wits) ∧
      ins.map (viewTxIn h) = t.inputs.map some ∧ outs.map (viewTxOut h) = t.outputs.map some ∧
      wits.map (viewWit h) = t.witnesses.map some ∧
      t.version = version ∧ t.locktime = locktime ∧ t.hasSegwit = seg := by
  unfold viewTx
  constructor
  · intro hv
    split at hv
    · rename_i version locktime seg a b c hl
      split at hv
      · rename_i ins outs wits ha hb hc
        cases hi : ins.mapM (viewTxIn h) with
        | none => rw [hi] at hv; cases hv
        | some i =>
          cases ho : outs.mapM (viewTxOut h) with
          | none => rw [hi, ho] at hv; cases hv
          | some o =>
            cases hw : wits.mapM (viewWit h) with
            | none => rw [hi, ho, hw] at hv; cases hv
            | some w =>
              rw [hi, ho, hw] at hv
              simp only [bind, Option.bind, pure, Option.some.injEq] at hv
              subst hv
              exact ⟨version, locktime, seg, a, b, c, ins, outs, wits, hl, ha, hb, hc,
                (mapM_some_iff _ _ _).mp hi, (mapM_some_iff _ _ _).mp ho, (mapM_some_iff _ _ _).mp hw, rfl, rfl, rfl⟩
      · cases hv
    · cases hv
  · rintro ⟨version, locktime, seg, a, b, c, ins, outs, wits, hl, ha, hb, hc, hi, ho, hw, rfl, rfl, rfl⟩
    simp only [hl, ha, hb, hc]
    rw [(mapM_some_iff _ _ _).mpr hi, (mapM_some_iff _ _ _).mpr ho, (mapM_some_iff _ _ _).mpr hw]
    rfl

/-! ## extension preserves well-typed views and their reach -/

theorem viewScript_ext {h : H} {r : Ref} {v} (ext : H) (hv : viewScript h r = some v) :
    viewScript (h ++ ext) r = some v := by
  obtain ⟨l, h1, h2⟩ := viewScript_some.mp hv
  exact viewScript_some.mpr ⟨l, get_ext ext h1, get_ext ext h2⟩

theorem viewWit_ext {h : H} {r : Ref} {v} (ext : H) (hv : viewWit h r = some v) :
    viewWit (h ++ ext) r = some v := by
  obtain ⟨l, h1, h2⟩ := viewWit_some.mp hv
  exact viewWit_some.mpr ⟨l, get_ext ext h1, get_ext ext h2⟩

theorem viewTxIn_ext {h : H} {r : Ref} {v} (ext : H) (hv : viewTxIn h r = some v) :
    viewTxIn (h ++ ext) r = some v := by
  obtain ⟨txid, index, s, sequence, toks, h1, h2, h3⟩ := viewTxIn_some.mp hv
  exact viewTxIn_some.mpr ⟨txid, index, s, sequence, toks, get_ext ext h1, viewScript_ext ext h2, h3⟩

theorem viewTxOut_ext {h : H} {r : Ref} {v} (ext : H) (hv : viewTxOut h r = some v) :
    viewTxOut (h ++ ext) r = some v := by
  obtain ⟨amount, s, toks, h1, h2, h3⟩ := viewTxOut_some.mp hv
  exact viewTxOut_some.mpr ⟨amount, s, toks, get_ext ext h1, viewScript_ext ext h2, h3⟩

theorem map_view_ext {α} {view : H → Ref → Option α} (hext : ∀ h r v ext, view h r = some v → view (h ++ ext) r = some v)
    {h : H} {l : List Ref} {vs : List α} (ext : H) (hm : l.map (view h) = vs.map some) :
    l.map (view (h ++ ext)) = vs.map some := by
  rw [← hm]
  apply List.map_congr_left
  intro x hx
  obtain ⟨y, hy⟩ := map_some_mem hm x hx
  rw [hy]; exact hext _ _ _ _ hy

theorem viewTx_ext {h : H} {r : Ref} {v} (ext : H) (hv : viewTx h r = some v) :
    viewTx (h ++ ext) r = some v := by
  obtain ⟨version, locktime, seg, a, b, c, ins, outs, wits, hl, ha, hb, hc, hi, ho, hw, h1, h2, h3⟩ := viewTx_some.mp hv
  exact viewTx_some.mpr ⟨version, locktime, seg, a, b, c, ins, outs, wits, get_ext ext hl, get_ext ext ha,
    get_ext ext hb, get_ext ext hc, map_view_ext (fun _ _ _ e => viewTxIn_ext e) ext hi,
    map_view_ext (fun _ _ _ e => viewTxOut_ext e) ext ho, map_view_ext (fun _ _ _ e => viewWit_ext e) ext hw, h1, h2, h3⟩

theorem reachScript_of_view {h : H} {r : Ref} {v} (hv : viewScript h r = some v) :
    ∃ l, h[r]? = some (.script l) ∧ h[l]? = some (.toklist v) ∧ reachScript h r = [r, l] := by
  obtain ⟨l, h1, h2⟩ := viewScript_some.mp hv
  exact ⟨l, h1, h2, by unfold reachScript; simp only [h1]⟩

theorem reachScript_ext {h : H} {r : Ref} {v} (ext : H) (hv : viewScript h r = some v) :
    reachScript (h ++ ext) r = reachScript h r := by
  obtain ⟨l, h1, _⟩ := viewScript_some.mp hv
  unfold reachScript; simp only [h1, get_ext ext h1]

theorem reachWit_ext {h : H} {r : Ref} {v} (ext : H) (hv : viewWit h r = some v) :
    reachWit (h ++ ext) r = reachWit h r := by
  obtain ⟨l, h1, _⟩ := viewWit_some.mp hv
  unfold reachWit; simp only [h1, get_ext ext h1]

theorem reachTxIn_ext {h : H} {r : Ref} {v} (ext : H) (hv : viewTxIn h r = some v) :
    reachTxIn (h ++ ext) r = reachTxIn h r := by
  obtain ⟨txid, index, s, sequence, toks, h1, h2, _⟩ := viewTxIn_some.mp hv
  unfold reachTxIn; simp only [h1, get_ext ext h1, reachScript_ext ext h2]

theorem reachTxOut_ext {h : H} {r : Ref} {v} (ext : H) (hv : viewTxOut h r = some v) :
    reachTxOut (h ++ ext) r = reachTxOut h r := by
  obtain ⟨amount, s, toks, h1, h2, _⟩ := viewTxOut_some.mp hv
  unfold reachTxOut; simp only [h1, get_ext ext h1, reachScript_ext ext h2]

theorem flatMap_congr' {α β} {f g : α → List β} {l : List α} (hfg : ∀ x ∈ l, f x = g x) : l.flatMap f = l.flatMap g := by
  induction l with
  | nil => rfl
  | cons x xs ih =>
    simp only [List.flatMap_cons]
    rw [hfg x (by simp), ih (fun y hy => hfg y (by simp [hy]))]

theorem reachTx_ext {h : H} {r : Ref} {v} (ext : H) (hv : viewTx h r = some v) :
    reachTx (h ++ ext) r = reachTx h r := by
  obtain ⟨version, locktime, seg, a, b, c, ins, outs, wits, hl, ha, hb, hc, hi, ho, hw, _⟩ := viewTx_some.mp hv
  unfold reachTx
  simp only [hl, ha, hb, hc, get_ext ext hl, get_ext ext ha, get_ext ext hb, get_ext ext hc]
  congr 1
  · congr 1
    · congr 1
      apply flatMap_congr'
      intro x hx
      obtain ⟨y, hy⟩ := map_some_mem hi x hx
      exact reachTxIn_ext ext hy
    · apply flatMap_congr'
      intro x hx
      obtain ⟨y, hy⟩ := map_some_mem ho x hx
      exact reachTxOut_ext ext hy
  · apply flatMap_congr'
    intro x hx
    obtain ⟨y, hy⟩ := map_some_mem hw x hx
    exact reachWit_ext ext hy


/-! ## frame -/

theorem viewScript_frame {h : H} {r w : Ref} (o : Obj) (hw : w ∉ reachScript h r) :
    viewScript (write h w o) r = viewScript h r := by
  unfold reachScript at hw
  unfold viewScript
  have hr : r ≠ w := by rintro rfl; split at hw <;> simp at hw
  rw [get_write_ne o hr]
  split
  · rename_i l hl
    simp only [hl, List.mem_cons, List.not_mem_nil, or_false, not_or] at hw
    rw [get_write_ne o (Ne.symm hw.2)]
    simp only [hl]
  · rfl

theorem viewWit_frame {h : H} {r w : Ref} (o : Obj) (hw : w ∉ reachWit h r) :
    viewWit (write h w o) r = viewWit h r := by
  unfold reachWit at hw
  unfold viewWit
  have hr : r ≠ w := by rintro rfl; split at hw <;> simp at hw
  rw [get_write_ne o hr]
  split
  · rename_i l hl
    simp only [hl, List.mem_cons, List.not_mem_nil, or_false, not_or] at hw
    rw [get_write_ne o (Ne.symm hw.2)]
    simp only [hl]
  · rfl

theorem viewTxIn_frame {h : H} {r w : Ref} (o : Obj) (hw : w ∉ reachTxIn h r) :
    viewTxIn (write h w o) r = viewTxIn h r := by
  unfold reachTxIn at hw
  unfold viewTxIn
  have hr : r ≠ w := by rintro rfl; split at hw <;> simp at hw
  rw [get_write_ne o hr]
  split
  · rename_i txid index s sequence hl
    simp only [hl, List.mem_cons, not_or] at hw
    rw [viewScript_frame o hw.2]
    simp only [hl]
  · rfl

theorem viewTxOut_frame {h : H} {r w : Ref} (o : Obj) (hw : w ∉ reachTxOut h r) :
    viewTxOut (write h w o) r = viewTxOut h r := by
  unfold reachTxOut at hw
  unfold viewTxOut
  have hr : r ≠ w := by rintro rfl; split at hw <;> simp at hw
  rw [get_write_ne o hr]
  split
  · rename_i amount s hl
    simp only [hl, List.mem_cons, not_or] at hw
    rw [viewScript_frame o hw.2]
    simp only [hl]
  · rfl

theorem viewTx_frame {h : H} {r w : Ref} (o : Obj) (hw : w ∉ reachTx h r) :
    viewTx (write h w o) r = viewTx h r := by
  unfold reachTx at hw
  unfold viewTx
  have hr : r ≠ w := by rintro rfl; split at hw <;> simp at hw
  rw [get_write_ne o hr]
  split
  · rename_i version locktime seg a b c hl
    simp only [hl, List.mem_append, List.mem_cons, List.not_mem_nil, or_false, not_or, List.mem_flatMap,
      not_exists, not_and] at hw
    obtain ⟨⟨⟨⟨_, ha, hb, hc⟩, hi⟩, ho⟩, hwit⟩ := hw
    rw [get_write_ne o (Ne.symm ha), get_write_ne o (Ne.symm hb), get_write_ne o (Ne.symm hc)]
    split
    · rename_i ins outs wits ha' hb' hc'
      simp only [ha', hb', hc'] at hi ho hwit
      rw [mapM_congr (fun x hx => viewTxIn_frame o (hi x hx)),
        mapM_congr (fun x hx => viewTxOut_frame o (ho x hx)),
        mapM_congr (fun x hx => viewWit_frame o (hwit x hx))]
      simp only [hl, ha', hb', hc']
    · rename_i hn
      simp only [hl]
  · rfl

/-! ## closed heaps: reach of an old object is old; views of old objects are unchanged by extension -/

theorem reachScript_old {h : H} (hcl : closed h) {r : Ref} (hr : r < h.length) : ∀ x ∈ reachScript h r, x < h.length := by
  intro x hx
  unfold reachScript at hx
  split at hx
  · rename_i l hl
    have := hcl r _ hl l (by simp [refsOf])
    simp only [List.mem_cons, List.not_mem_nil, or_false] at hx
    rcases hx with rfl | rfl <;> assumption
  · simp only [List.mem_cons, List.not_mem_nil, or_false] at hx; subst hx; exact hr

theorem reachWit_old {h : H} (hcl : closed h) {r : Ref} (hr : r < h.length) : ∀ x ∈ reachWit h r, x < h.length := by
  intro x hx
  unfold reachWit at hx
  split at hx
  · rename_i l hl
    have := hcl r _ hl l (by simp [refsOf])
    simp only [List.mem_cons, List.not_mem_nil, or_false] at hx
    rcases hx with rfl | rfl <;> assumption
  · simp only [List.mem_cons, List.not_mem_nil, or_false] at hx; subst hx; exact hr

theorem reachTxIn_old {h : H} (hcl : closed h) {r : Ref} (hr : r < h.length) : ∀ x ∈ reachTxIn h r, x < h.length := by
  intro x hx
  unfold reachTxIn at hx
  split at hx
  · rename_i txid index s sequence hl
    have := hcl r _ hl s (by simp [refsOf])
    simp only [List.mem_cons] at hx
    rcases hx with rfl | hx
    · exact hr
    · exact reachScript_old hcl this x hx
  · simp only [List.mem_cons, List.not_mem_nil, or_false] at hx; subst hx; exact hr

theorem reachTxOut_old {h : H} (hcl : closed h) {r : Ref} (hr : r < h.length) : ∀ x ∈ reachTxOut h r, x < h.length := by
  intro x hx
  unfold reachTxOut at hx
  split at hx
  · rename_i amount s hl
    have := hcl r _ hl s (by simp [refsOf])
    simp only [List.mem_cons] at hx
    rcases hx with rfl | hx
    · exact hr
    · exact reachScript_old hcl this x hx
  · simp only [List.mem_cons, List.not_mem_nil, or_false] at hx; subst hx; exact hr

theorem reachTx_old {h : H} (hcl : closed h) {r : Ref} (hr : r < h.length) : ∀ x ∈ reachTx h r, x < h.length := by
  intro x hx
  unfold reachTx at hx
  split at hx
  · rename_i version locktime seg a b c hl
    have ha := hcl r _ hl a (by simp [refsOf])
    have hb := hcl r _ hl b (by simp [refsOf])
    have hc := hcl r _ hl c (by simp [refsOf])
    simp only [List.mem_append, List.mem_cons, List.not_mem_nil, or_false, List.mem_flatMap] at hx
    rcases hx with ((((rfl | rfl | rfl | rfl) | ⟨y, hy, hxy⟩) | ⟨y, hy, hxy⟩) | ⟨y, hy, hxy⟩)
    · exact hr
    · exact ha
    · exact hb
    · exact hc
    · split at hy
      · rename_i xs hxs
        exact reachTxIn_old hcl (hcl a _ hxs y (by simpa [refsOf] using hy)) x hxy
      · cases hy
    · split at hy
      · rename_i xs hxs
        exact reachTxOut_old hcl (hcl b _ hxs y (by simpa [refsOf] using hy)) x hxy
      · cases hy
    · split at hy
      · rename_i xs hxs
        exact reachWit_old hcl (hcl c _ hxs y (by simpa [refsOf] using hy)) x hxy
      · cases hy
  · simp only [List.mem_cons, List.not_mem_nil, or_false] at hx; subst hx; exact hr


theorem viewScript_ext_closed {h : H} (hcl : closed h) {r : Ref} (hr : r < h.length) (ext : H) :
    viewScript (h ++ ext) r = viewScript h r := by
  unfold viewScript
  rw [get_ext_lt ext hr]
  split
  · rename_i l hl
    rw [get_ext_lt ext (hcl r _ hl l (by simp [refsOf]))]
    simp only [hl]
  · rfl

theorem viewWit_ext_closed {h : H} (hcl : closed h) {r : Ref} (hr : r < h.length) (ext : H) :
    viewWit (h ++ ext) r = viewWit h r := by
  unfold viewWit
  rw [get_ext_lt ext hr]
  split
  · rename_i l hl
    rw [get_ext_lt ext (hcl r _ hl l (by simp [refsOf]))]
    simp only [hl]
  · rfl

theorem viewTxIn_ext_closed {h : H} (hcl : closed h) {r : Ref} (hr : r < h.length) (ext : H) :
    viewTxIn (h ++ ext) r = viewTxIn h r := by
  unfold viewTxIn
  rw [get_ext_lt ext hr]
  split
  · rename_i txid index s sequence hl
    rw [viewScript_ext_closed hcl (hcl r _ hl s (by simp [refsOf])) ext]
    simp only [hl]
  · rfl

theorem viewTxOut_ext_closed {h : H} (hcl : closed h) {r : Ref} (hr : r < h.length) (ext : H) :
    viewTxOut (h ++ ext) r = viewTxOut h r := by
  unfold viewTxOut
  rw [get_ext_lt ext hr]
  split
  · rename_i amount s hl
    rw [viewScript_ext_closed hcl (hcl r _ hl s (by simp [refsOf])) ext]
    simp only [hl]
  · rfl

theorem viewTx_ext_closed {h : H} (hcl : closed h) {r : Ref} (hr : r < h.length) (ext : H) :
    viewTx (h ++ ext) r = viewTx h r := by
  unfold viewTx
  rw [get_ext_lt ext hr]
  split
  · rename_i version locktime seg a b c hl
    have ha := hcl r _ hl a (by simp [refsOf])
    have hb := hcl r _ hl b (by simp [refsOf])
    have hc := hcl r _ hl c (by simp [refsOf])
    rw [get_ext_lt ext ha, get_ext_lt ext hb, get_ext_lt ext hc]
    split
    · rename_i ins outs wits ha' hb' hc'
      rw [mapM_congr (fun x hx => viewTxIn_ext_closed hcl (hcl a _ ha' x (by simpa [refsOf] using hx)) ext),
        mapM_congr (fun x hx => viewTxOut_ext_closed hcl (hcl b _ hb' x (by simpa [refsOf] using hx)) ext),
        mapM_congr (fun x hx => viewWit_ext_closed hcl (hcl c _ hc' x (by simpa [refsOf] using hx)) ext)]
      simp only [hl, ha', hb', hc']
    · rename_i hn
      simp only [hl]
  · rfl

theorem reachScript_ext_closed {h : H} {r : Ref} (hr : r < h.length) (ext : H) :
    reachScript (h ++ ext) r = reachScript h r := by
  unfold reachScript
  rw [get_ext_lt ext hr]

theorem reachWit_ext_closed {h : H} {r : Ref} (hr : r < h.length) (ext : H) :
    reachWit (h ++ ext) r = reachWit h r := by
  unfold reachWit
  rw [get_ext_lt ext hr]

theorem reachTxIn_ext_closed {h : H} (hcl : closed h) {r : Ref} (hr : r < h.length) (ext : H) :
    reachTxIn (h ++ ext) r = reachTxIn h r := by
  unfold reachTxIn
  rw [get_ext_lt ext hr]
  split
  · rename_i txid index s sequence hl
    rw [reachScript_ext_closed (hcl r _ hl s (by simp [refsOf])) ext]
    simp only [hl]
  · rfl

theorem reachTxOut_ext_closed {h : H} (hcl : closed h) {r : Ref} (hr : r < h.length) (ext : H) :
    reachTxOut (h ++ ext) r = reachTxOut h r := by
  unfold reachTxOut
  rw [get_ext_lt ext hr]
  split
  · rename_i amount s hl
    rw [reachScript_ext_closed (hcl r _ hl s (by simp [refsOf])) ext]
    simp only [hl]
  · rfl

theorem reachTx_ext_closed {h : H} (hcl : closed h) {r : Ref} (hr : r < h.length) (ext : H) :
    reachTx (h ++ ext) r = reachTx h r := by
  unfold reachTx
  rw [get_ext_lt ext hr]
  split
  · rename_i version locktime seg a b c hl
    have ha := hcl r _ hl a (by simp [refsOf])
    have hb := hcl r _ hl b (by simp [refsOf])
    have hc := hcl r _ hl c (by simp [refsOf])
    rw [get_ext_lt ext ha, get_ext_lt ext hb, get_ext_lt ext hc]
    simp only [hl]
    congr 1
    · congr 1
      · congr 1
        apply flatMap_congr'
        intro x hx
        split at hx
        · rename_i xs hxs
          exact reachTxIn_ext_closed hcl (hcl a _ hxs x (by simpa [refsOf] using hx)) ext
        · cases hx
      · apply flatMap_congr'
        intro x hx
        split at hx
        · rename_i xs hxs
          exact reachTxOut_ext_closed hcl (hcl b _ hxs x (by simpa [refsOf] using hx)) ext
        · cases hx
    · apply flatMap_congr'
      intro x hx
      split at hx
      · rename_i xs hxs
        exact reachWit_ext_closed (hcl c _ hxs x (by simpa [refsOf] using hx)) ext
      · cases hx
  · rfl

theorem write_ext {h : H} (ext : H) {w : Ref} (o : Obj) (hw : h.length ≤ w) :
    write (h ++ ext) w o = h ++ ext.set (w - h.length) o := by
  unfold write
  exact List.set_append_right _ _ hw


/-! ## constructors -/

theorem get_app (h ext : H) (k : Nat) : (h ++ ext)[h.length + k]? = ext[k]? := by
  rw [List.getElem?_append_right (by omega)]; congr 1; omega

theorem newScript_eq (h : H) (items : List Tok) :
    newScript h items = (h ++ [.toklist items, .script h.length], h.length + 1) := by
  simp [newScript, alloc]

theorem newWit_eq (h : H) (items : List Bytes) :
    newWit h items = (h ++ [.strlist items, .wit h.length], h.length + 1) := by
  simp [newWit, alloc]

theorem newTx_eq (h : H) (v l : Bytes) (s : Bool) (ins outs wits : List Ref) :
    newTx h v l s ins outs wits =
      (h ++ [.reflist ins, .reflist outs, .reflist wits, .tx v l s h.length (h.length + 1) (h.length + 2)],
       h.length + 3) := by
  simp [newTx, alloc]

theorem newScript_get (h : H) (items : List Tok) :
    (h ++ [.toklist items, .script h.length])[h.length + 1]? = some (.script h.length) ∧
    (h ++ [Obj.toklist items, .script h.length])[h.length]? = some (.toklist items) := by
  constructor
  · rw [get_app]; rfl
  · simp

theorem newScript_view (h : H) (items : List Tok) :
    viewScript (h ++ [.toklist items, .script h.length]) (h.length + 1) = some items :=
  viewScript_some.mpr ⟨h.length, (newScript_get h items).1, (newScript_get h items).2⟩

theorem newScript_reach (h : H) (items : List Tok) :
    reachScript (h ++ [.toklist items, .script h.length]) (h.length + 1) = [h.length + 1, h.length] := by
  unfold reachScript; simp only [(newScript_get h items).1]

/-! ## the copy helpers -/

/-- what a copy helper guarantees -/
def CopySpec {α} (view : H → Ref → Option α) (reach : H → Ref → List Ref) (h : H) (r : Ref) (h' : H) (c : Ref) : Prop :=
  ∃ ext, h' = h ++ ext ∧ h.length ≤ c ∧ c < h'.length ∧ (∃ v, view h r = some v ∧ view h' c = some v) ∧
    ∀ x ∈ reach h' c, h.length ≤ x

theorem copyScript_spec {h : H} {r : Ref} {h' : H} {c : Ref} (hc : copyScript h r = .ok (h', c)) :
    CopySpec viewScript reachScript h r h' c := by
  unfold copyScript at hc
  split at hc
  · rename_i l hl
    split at hc
    · rename_i items hi
      rw [newScript_eq] at hc
      simp only [Except.ok.injEq, Prod.mk.injEq] at hc
      obtain ⟨rfl, rfl⟩ := hc
      refine ⟨_, rfl, by omega, by simp, ⟨items, viewScript_some.mpr ⟨l, hl, hi⟩, newScript_view h items⟩, ?_⟩
      rw [newScript_reach]
      intro x hx
      simp only [List.mem_cons, List.not_mem_nil, or_false] at hx
      rcases hx with rfl | rfl <;> omega
    · cases hc
  · cases hc

theorem copyScript_ok {h : H} {r : Ref} {v} (hv : viewScript h r = some v) : ∃ h' c, copyScript h r = .ok (h', c) := by
  obtain ⟨l, h1, h2⟩ := viewScript_some.mp hv
  unfold copyScript
  simp only [h1, h2]
  exact ⟨_, _, rfl⟩

theorem copyWit_spec {h : H} {r : Ref} {h' : H} {c : Ref} (hc : copyWit h r = .ok (h', c)) :
    CopySpec viewWit reachWit h r h' c := by
  unfold copyWit at hc
  split at hc
  · rename_i l hl
    split at hc
    · rename_i items hi
      rw [newWit_eq] at hc
      simp only [Except.ok.injEq, Prod.mk.injEq] at hc
      obtain ⟨rfl, rfl⟩ := hc
      have g1 : (h ++ [Obj.strlist items, .wit h.length])[h.length + 1]? = some (.wit h.length) := by
        rw [get_app]; rfl
      have g0 : (h ++ [Obj.strlist items, .wit h.length])[h.length]? = some (.strlist items) := by
        simp
      refine ⟨_, rfl, by omega, by simp, ⟨items, viewWit_some.mpr ⟨l, hl, hi⟩, viewWit_some.mpr ⟨_, g1, g0⟩⟩, ?_⟩
      unfold reachWit; simp only [g1]
      intro x hx
      simp only [List.mem_cons, List.not_mem_nil, or_false] at hx
      rcases hx with rfl | rfl <;> omega
    · cases hc
  · cases hc

theorem copyWit_ok {h : H} {r : Ref} {v} (hv : viewWit h r = some v) : ∃ h' c, copyWit h r = .ok (h', c) := by
  obtain ⟨l, h1, h2⟩ := viewWit_some.mp hv
  unfold copyWit
  simp only [h1, h2]
  exact ⟨_, _, rfl⟩

theorem copyTxIn_spec {h : H} {r : Ref} {h' : H} {c : Ref} (hc : copyTxIn h r = .ok (h', c)) :
    CopySpec viewTxIn reachTxIn h r h' c := by
  unfold copyTxIn at hc
  split at hc
  · rename_i txid index s sequence hl
    cases hcs : copyScript h s with
    | error e => rw [hcs] at hc; cases hc
    | ok p =>
      obtain ⟨h1, s'⟩ := p
      rw [hcs] at hc
      simp only [bind, Except.bind, pure, Except.pure, alloc, Except.ok.injEq, Prod.mk.injEq] at hc
      obtain ⟨rfl, rfl⟩ := hc
      obtain ⟨ext, rfl, hle, hlt, ⟨v, hv, hv'⟩, hreach⟩ := copyScript_spec hcs
      have g : (h ++ ext ++ [Obj.txin txid index s' sequence])[(h ++ ext).length]? = some (.txin txid index s' sequence) := by
        simp
      refine ⟨ext ++ [.txin txid index s' sequence], by simp, by simp, by simp,
        ⟨_, viewTxIn_some.mpr ⟨_, _, _, _, v, hl, hv, rfl⟩,
          viewTxIn_some.mpr ⟨_, _, _, _, v, g, viewScript_ext _ hv', rfl⟩⟩, ?_⟩
      unfold reachTxIn; simp only [g]
      intro x hx
      simp only [List.mem_cons] at hx
      rcases hx with rfl | hx
      · simp
      · rw [reachScript_ext _ hv'] at hx; exact hreach x hx
  · cases hc

theorem copyTxIn_ok {h : H} {r : Ref} {v} (hv : viewTxIn h r = some v) : ∃ h' c, copyTxIn h r = .ok (h', c) := by
  obtain ⟨txid, index, s, sequence, toks, h1, h2, _⟩ := viewTxIn_some.mp hv
  obtain ⟨h', c, hc⟩ := copyScript_ok h2
  unfold copyTxIn
  simp only [h1, hc]
  exact ⟨_, _, rfl⟩

theorem copyTxOut_spec {h : H} {r : Ref} {h' : H} {c : Ref} (hc : copyTxOut h r = .ok (h', c)) :
    CopySpec viewTxOut reachTxOut h r h' c := by
  unfold copyTxOut at hc
  split at hc
  · rename_i amount s hl
    cases hcs : copyScript h s with
    | error e => rw [hcs] at hc; cases hc
    | ok p =>
      obtain ⟨h1, s'⟩ := p
      rw [hcs] at hc
      simp only [bind, Except.bind, pure, Except.pure, alloc, Except.ok.injEq, Prod.mk.injEq] at hc
      obtain ⟨rfl, rfl⟩ := hc
      obtain ⟨ext, rfl, hle, hlt, ⟨v, hv, hv'⟩, hreach⟩ := copyScript_spec hcs
      have g : (h ++ ext ++ [Obj.txout amount s'])[(h ++ ext).length]? = some (.txout amount s') := by
        simp
      refine ⟨ext ++ [.txout amount s'], by simp, by simp, by simp,
        ⟨_, viewTxOut_some.mpr ⟨_, _, v, hl, hv, rfl⟩,
          viewTxOut_some.mpr ⟨_, _, v, g, viewScript_ext _ hv', rfl⟩⟩, ?_⟩
      unfold reachTxOut; simp only [g]
      intro x hx
      simp only [List.mem_cons] at hx
      rcases hx with rfl | hx
      · simp
      · rw [reachScript_ext _ hv'] at hx; exact hreach x hx
  · cases hc

theorem copyTxOut_ok {h : H} {r : Ref} {v} (hv : viewTxOut h r = some v) : ∃ h' c, copyTxOut h r = .ok (h', c) := by
  obtain ⟨amount, s, toks, h1, h2, _⟩ := viewTxOut_some.mp hv
  obtain ⟨h', c, hc⟩ := copyScript_ok h2
  unfold copyTxOut
  simp only [h1, hc]
  exact ⟨_, _, rfl⟩


theorem copyAll_spec {α} {f : H → Ref → Except PyErr (H × Ref)} {view : H → Ref → Option α}
    {reach : H → Ref → List Ref}
    (hf : ∀ h r h' c, f h r = .ok (h', c) → CopySpec view reach h r h' c)
    (vext : ∀ h r v ext, view h r = some v → view (h ++ ext) r = some v)
    (rext : ∀ h r v ext, view h r = some v → reach (h ++ ext) r = reach h r) :
    ∀ (rs : List Ref) (h h' : H) (cs : List Ref), copyAll f h rs = .ok (h', cs) →
      ∃ ext, h' = h ++ ext ∧ (∀ vs : List α, rs.map (view h) = vs.map some → cs.map (view h') = vs.map some) ∧
        (∀ c ∈ cs, h.length ≤ c ∧ (∃ v, view h' c = some v) ∧ ∀ x ∈ reach h' c, h.length ≤ x) ∧ cs.Nodup := by
  intro rs
  induction rs with
  | nil =>
    intro h h' cs hc
    simp only [copyAll, Except.ok.injEq, Prod.mk.injEq] at hc
    obtain ⟨rfl, rfl⟩ := hc
    refine ⟨[], by simp, ?_, by simp, by simp⟩
    intro vs hvs
    cases vs with
    | nil => rfl
    | cons _ _ => simp at hvs
  | cons r rs ih =>
    intro h h' cs hc
    simp only [copyAll] at hc
    cases hfr : f h r with
    | error e => rw [hfr] at hc; cases hc
    | ok p =>
      obtain ⟨h1, c⟩ := p
      rw [hfr] at hc
      simp only [bind, Except.bind] at hc
      cases hrs : copyAll f h1 rs with
      | error e => rw [hrs] at hc; cases hc
      | ok q =>
        obtain ⟨h2, cs'⟩ := q
        rw [hrs] at hc
        simp only [pure, Except.pure, Except.ok.injEq, Prod.mk.injEq] at hc
        obtain ⟨rfl, rfl⟩ := hc
        obtain ⟨e1, rfl, hle, hlt, ⟨v, hv, hv'⟩, hreach⟩ := hf _ _ _ _ hfr
        obtain ⟨e2, rfl, hviews, hcs, hnd⟩ := ih _ _ _ hrs
        refine ⟨e1 ++ e2, by simp, ?_, ?_, ?_⟩
        · intro vs hvs
          cases vs with
          | nil => simp at hvs
          | cons w ws =>
            simp only [List.map_cons, List.cons.injEq] at hvs ⊢
            obtain ⟨h1', h2'⟩ := hvs
            rw [hv] at h1'
            refine ⟨?_, hviews ws (map_view_ext vext e1 h2')⟩
            rw [← h1']; exact vext _ _ _ _ hv'
        · intro c' hc'
          simp only [List.mem_cons] at hc'
          rcases hc' with rfl | hc'
          · refine ⟨hle, ⟨v, vext _ _ _ _ hv'⟩, ?_⟩
            rw [rext _ _ _ _ hv']; exact hreach
          · obtain ⟨g1, g2, g3⟩ := hcs c' hc'
            refine ⟨by simp at g1; omega, g2, ?_⟩
            intro x hx
            have := g3 x hx
            simp at this; omega
        · rw [List.nodup_cons]
          refine ⟨?_, hnd⟩
          intro hmem
          have := (hcs c hmem).1
          exact absurd hlt (Nat.not_lt.mpr this)

theorem copyAll_ok {α} {f : H → Ref → Except PyErr (H × Ref)} {view : H → Ref → Option α}
    {reach : H → Ref → List Ref}
    (hf : ∀ h r h' c, f h r = .ok (h', c) → CopySpec view reach h r h' c)
    (fok : ∀ h r v, view h r = some v → ∃ h' c, f h r = .ok (h', c))
    (vext : ∀ h r v ext, view h r = some v → view (h ++ ext) r = some v) :
    ∀ (rs : List Ref) (h : H), (∀ r ∈ rs, ∃ v, view h r = some v) → ∃ h' cs, copyAll f h rs = .ok (h', cs) := by
  intro rs
  induction rs with
  | nil => intro h _; exact ⟨_, _, rfl⟩
  | cons r rs ih =>
    intro h hall
    obtain ⟨v, hv⟩ := hall r (by simp)
    obtain ⟨h1, c, hfr⟩ := fok _ _ _ hv
    obtain ⟨e1, rfl, _⟩ := hf _ _ _ _ hfr
    obtain ⟨h2, cs, hrs⟩ := ih (h ++ e1) (fun r' hr' => by
      obtain ⟨v', hv'⟩ := hall r' (by simp [hr'])
      exact ⟨v', vext _ _ _ _ hv'⟩)
    refine ⟨h2, c :: cs, ?_⟩
    simp only [copyAll, hfr, bind, Except.bind, hrs]
    rfl


theorem copyTx_spec {h : H} {r : Ref} {h' : H} {c : Ref} (hc : copyTx h r = .ok (h', c)) :
    ∃ ext, h' = h ++ ext ∧ (∀ x ∈ reachTx h' c, h.length ≤ x) ∧
      (∀ t, viewTx h r = some t → viewTx h' c = some t) ∧
      (∀ v l s a b c' ins, h'[c]? = some (.tx v l s a b c') → h'[a]? = some (.reflist ins) → ins.Nodup) := by
  unfold copyTx at hc
  split at hc
  · rename_i version locktime seg a b c0 hl
    split at hc
    · rename_i ins outs wits ha hb hc0
      cases h1e : copyAll copyTxIn h ins with
      | error e => rw [h1e] at hc; cases hc
      | ok p1 =>
      obtain ⟨h1, ins'⟩ := p1
      rw [h1e] at hc
      simp only [bind, Except.bind] at hc
      cases h2e : copyAll copyTxOut h1 outs with
      | error e => rw [h2e] at hc; cases hc
      | ok p2 =>
      obtain ⟨h2, outs'⟩ := p2
      rw [h2e] at hc
      simp only at hc
      cases h3e : copyAll copyWit h2 wits with
      | error e => rw [h3e] at hc; cases hc
      | ok p3 =>
      obtain ⟨h3, wits'⟩ := p3
      rw [h3e] at hc
      simp only [pure, Except.pure, newTx_eq, Except.ok.injEq, Prod.mk.injEq] at hc
      obtain ⟨rfl, rfl⟩ := hc
      obtain ⟨e1, rfl, hv1, hc1, hnd1⟩ := copyAll_spec (fun _ _ _ _ => copyTxIn_spec)
        (fun _ _ _ e => viewTxIn_ext e) (fun _ _ _ e => reachTxIn_ext e) _ _ _ _ h1e
      obtain ⟨e2, rfl, hv2, hc2, _⟩ := copyAll_spec (fun _ _ _ _ => copyTxOut_spec)
        (fun _ _ _ e => viewTxOut_ext e) (fun _ _ _ e => reachTxOut_ext e) _ _ _ _ h2e
      obtain ⟨e3, rfl, hv3, hc3, _⟩ := copyAll_spec (fun _ _ _ _ => copyWit_spec)
        (fun _ _ _ e => viewWit_ext e) (fun _ _ _ e => reachWit_ext e) _ _ _ _ h3e
      generalize hL : [Obj.reflist ins', Obj.reflist outs', Obj.reflist wits',
        Obj.tx version locktime seg (h ++ e1 ++ e2 ++ e3).length ((h ++ e1 ++ e2 ++ e3).length + 1)
          ((h ++ e1 ++ e2 ++ e3).length + 2)] = L
      have g0 : (h ++ e1 ++ e2 ++ e3 ++ L)[(h ++ e1 ++ e2 ++ e3).length]? = some (.reflist ins') := by
        rw [← hL]; simp
      have g1 : (h ++ e1 ++ e2 ++ e3 ++ L)[(h ++ e1 ++ e2 ++ e3).length + 1]? = some (.reflist outs') := by
        rw [get_app, ← hL]; rfl
      have g2 : (h ++ e1 ++ e2 ++ e3 ++ L)[(h ++ e1 ++ e2 ++ e3).length + 2]? = some (.reflist wits') := by
        rw [get_app, ← hL]; rfl
      have g3 : (h ++ e1 ++ e2 ++ e3 ++ L)[(h ++ e1 ++ e2 ++ e3).length + 3]? =
          some (.tx version locktime seg (h ++ e1 ++ e2 ++ e3).length ((h ++ e1 ++ e2 ++ e3).length + 1)
            ((h ++ e1 ++ e2 ++ e3).length + 2)) := by
        rw [get_app, ← hL]; rfl
      have a1 : h ++ e1 ++ e2 ++ e3 ++ L = (h ++ e1) ++ (e2 ++ (e3 ++ L)) := by simp only [List.append_assoc]
      have a2 : h ++ e1 ++ e2 ++ e3 ++ L = (h ++ e1 ++ e2) ++ (e3 ++ L) := by simp only [List.append_assoc]
      have hlen1 : h.length ≤ (h ++ e1).length := by simp
      have hlen2 : h.length ≤ (h ++ e1 ++ e2).length := by simp
      refine ⟨e1 ++ (e2 ++ (e3 ++ L)), by simp only [List.append_assoc], ?_, ?_, ?_⟩
      · intro x hx
        unfold reachTx at hx
        simp only [g3, g0, g1, g2, List.mem_append, List.mem_cons, List.not_mem_nil, or_false,
          List.mem_flatMap] at hx
        rcases hx with ((((rfl | rfl | rfl | rfl) | ⟨y, hy, hxy⟩) | ⟨y, hy, hxy⟩) | ⟨y, hy, hxy⟩)
        · simp only [List.length_append]; omega
        · simp only [List.length_append]; omega
        · simp only [List.length_append]; omega
        · simp only [List.length_append]; omega
        · obtain ⟨_, ⟨v, hv⟩, hr⟩ := hc1 y hy
          rw [a1, reachTxIn_ext _ hv] at hxy
          exact hr x hxy
        · obtain ⟨_, ⟨v, hv⟩, hr⟩ := hc2 y hy
          rw [a2, reachTxOut_ext _ hv] at hxy
          exact Nat.le_trans hlen1 (hr x hxy)
        · obtain ⟨_, ⟨v, hv⟩, hr⟩ := hc3 y hy
          rw [reachWit_ext _ hv] at hxy
          exact Nat.le_trans hlen2 (hr x hxy)
      · intro t ht
        obtain ⟨version', locktime', seg', a', b', c', ins0, outs0, wits0, hl', ha', hb', hc', hi, ho, hw, e1', e2', e3'⟩ :=
          viewTx_some.mp ht
        rw [hl] at hl'
        simp only [Option.some.injEq, Obj.tx.injEq] at hl'
        obtain ⟨rfl, rfl, rfl, rfl, rfl, rfl⟩ := hl'
        rw [ha] at ha'; rw [hb] at hb'; rw [hc0] at hc'
        simp only [Option.some.injEq, Obj.reflist.injEq] at ha' hb' hc'
        subst ha' hb' hc'
        refine viewTx_some.mpr ⟨_, _, _, _, _, _, ins', outs', wits', g3, g0, g1, g2, ?_, ?_, ?_, e1', e2', e3'⟩
        · rw [a1]; exact map_view_ext (fun _ _ _ e => viewTxIn_ext e) _ (hv1 _ hi)
        · rw [a2]; exact map_view_ext (fun _ _ _ e => viewTxOut_ext e) _
            (hv2 _ (map_view_ext (fun _ _ _ e => viewTxOut_ext e) _ ho))
        · exact map_view_ext (fun _ _ _ e => viewWit_ext e) _
            (hv3 _ (map_view_ext (fun _ _ _ e => viewWit_ext e) _
              (map_view_ext (fun _ _ _ e => viewWit_ext e) _ hw)))
      · intro v l s a'' b'' c'' ins'' hg hga
        rw [g3] at hg
        simp only [Option.some.injEq, Obj.tx.injEq] at hg
        obtain ⟨_, _, _, rfl, _, _⟩ := hg
        rw [g0] at hga
        simp only [Option.some.injEq, Obj.reflist.injEq] at hga
        subst hga
        exact hnd1
    · cases hc
  · cases hc

theorem copyTx_ok {h : H} {r : Ref} {t : Tx} (ht : viewTx h r = some t) : ∃ h' c, copyTx h r = .ok (h', c) := by
  obtain ⟨version, locktime, seg, a, b, c, ins, outs, wits, hl, ha, hb, hc, hi, ho, hw, _⟩ := viewTx_some.mp ht
  obtain ⟨h1, ins', h1e⟩ := copyAll_ok (fun _ _ _ _ => copyTxIn_spec) (fun _ _ _ => copyTxIn_ok)
    (fun _ _ _ e => viewTxIn_ext e) ins h (map_some_mem hi)
  obtain ⟨e1, rfl, _⟩ := copyAll_spec (fun _ _ _ _ => copyTxIn_spec)
        (fun _ _ _ e => viewTxIn_ext e) (fun _ _ _ e => reachTxIn_ext e) _ _ _ _ h1e
  obtain ⟨h2, outs', h2e⟩ := copyAll_ok (fun _ _ _ _ => copyTxOut_spec) (fun _ _ _ => copyTxOut_ok)
    (fun _ _ _ e => viewTxOut_ext e) outs (h ++ e1) (map_some_mem (map_view_ext (fun _ _ _ e => viewTxOut_ext e) _ ho))
  obtain ⟨e2, rfl, _⟩ := copyAll_spec (fun _ _ _ _ => copyTxOut_spec)
        (fun _ _ _ e => viewTxOut_ext e) (fun _ _ _ e => reachTxOut_ext e) _ _ _ _ h2e
  obtain ⟨h3, wits', h3e⟩ := copyAll_ok (fun _ _ _ _ => copyWit_spec) (fun _ _ _ => copyWit_ok)
    (fun _ _ _ e => viewWit_ext e) wits (h ++ e1 ++ e2)
    (map_some_mem (map_view_ext (fun _ _ _ e => viewWit_ext e) _ (map_view_ext (fun _ _ _ e => viewWit_ext e) _ hw)))
  unfold copyTx
  simp only [hl, ha, hb, hc, h1e, h2e, h3e, bind, Except.bind]
  exact ⟨_, _, rfl⟩


/-! ## `get_transaction_digest` in stages -/

def blank (st : H × List Ref) (r : Ref) : H × List Ref :=
  match st.1[r]? with
  | some (.txin txid index _ sequence) =>
    let (h1, s) := newScript st.1 []
    (write h1 r (.txin txid index s sequence), r :: st.2)
  | _ => st

def zeroSeq (i : Nat) (st : H × List Ref) (p : Nat × Ref) : H × List Ref :=
  if p.1 ≠ i then
    match st.1[p.2]? with
    | some (.txin txid index s _) => (write st.1 p.2 (.txin txid index s [0, 0, 0, 0]), p.2 :: st.2)
    | _ => st
  else st

def fill (st : H × List Ref) (_ : Nat) : H × List Ref :=
  let (h1, s) := newScript st.1 []
  let (h2, oo) := alloc h1 (.txout (-1) s)
  (h2, st.2 ++ [oo])

def stageOut (h : H) (tmp : Ref) (version locktime : Bytes) (seg : Bool) (a c : Ref) (ins outs : List Ref)
    (i base : Nat) (ws : List Ref) : Except PyErr (H × Ref × List Ref) :=
  if base = 2 then do
    let (h, b') := alloc h (.reflist [])
    let h := write h tmp (.tx version locktime seg a b' c)
    let (h, ws) := (ins.zipIdx.map fun p => (p.2, p.1)).foldl (zeroSeq i) (h, tmp :: ws)
    pure (h, tmp, ws)
  else if base = 3 then do
    let some o := outs[i]? | throw PyErr.valueError
    let (h, fillers) := (List.range i).foldl fill (h, [])
    let (h, b') := alloc h (.reflist (fillers ++ [o]))
    let h := write h tmp (.tx version locktime seg a b' c)
    let (h, ws) := (ins.zipIdx.map fun p => (p.2, p.1)).foldl (zeroSeq i) (h, tmp :: ws)
    pure (h, tmp, ws)
  else pure (h, tmp, ws)

def stageAny (h : H) (tmp ri : Ref) (ht : Nat) (ws : List Ref) : Except PyErr (H × Ref × List Ref) :=
  if ht &&& 0x80 ≠ 0 then do
    let some (.tx version locktime seg _ b2 c2) := h[tmp]? | throw PyErr.typeError
    let (h, a') := alloc h (.reflist [ri])
    let h := write h tmp (.tx version locktime seg a' b2 c2)
    pure (h, tmp, tmp :: ws)
  else pure (h, tmp, ws)

def stageOutK (k : H × Ref × List Ref → Except PyErr (H × Ref × List Ref))
    (h : H) (tmp : Ref) (version locktime : Bytes) (seg : Bool) (a c : Ref) (ins outs : List Ref)
    (i base : Nat) (ws : List Ref) : Except PyErr (H × Ref × List Ref) :=
  if base = 2 then
    let (h, b') := alloc h (.reflist [])
    let h := write h tmp (.tx version locktime seg a b' c)
    let (h, ws) := (ins.zipIdx.map fun p => (p.2, p.1)).foldl (zeroSeq i) (h, tmp :: ws)
    k (h, tmp, ws)
  else if base = 3 then
    match outs[i]? with
    | some o =>
      let (h, fillers) := (List.range i).foldl fill (h, [])
      let (h, b') := alloc h (.reflist (fillers ++ [o]))
      let h := write h tmp (.tx version locktime seg a b' c)
      let (h, ws) := (ins.zipIdx.map fun p => (p.2, p.1)).foldl (zeroSeq i) (h, tmp :: ws)
      k (h, tmp, ws)
    | none => throw PyErr.valueError
  else k (h, tmp, ws)

def prepareStagedK (h : H) (self : Ref) (i : Nat) (code : Ref) (ht : Nat) : Except PyErr (H × Ref × List Ref) := do
  let (h, tmp) ← copyTx h self
  let some (.tx version locktime seg a b c) := h[tmp]? | throw PyErr.typeError
  let some (.reflist ins) := h[a]? | throw PyErr.typeError
  let (h, ws) := ins.foldl blank (h, [])
  let some ri := ins[i]? | throw PyErr.indexError
  let some (.txin txid index _ sequence) := h[ri]? | throw PyErr.typeError
  let h := write h ri (.txin txid index code sequence)
  let ws := ri :: ws
  let some (.reflist outs) := h[b]? | throw PyErr.typeError
  stageOutK (fun x => stageAny x.1 x.2.1 ri ht x.2.2) h tmp version locktime seg a c ins outs i (ht &&& 0x1f) ws

theorem prepare_eqK (h : H) (self : Ref) (i : Nat) (code : Ref) (ht : Nat) :
    legacyDigestPrepare h self i code ht = prepareStagedK h self i code ht := by
  unfold legacyDigestPrepare prepareStagedK
  cases copyTx h self with
  | error e => rfl
  | ok p =>
    obtain ⟨h1, tmp⟩ := p
    simp only [bind, Except.bind]
    rcases h1[tmp]? with _ | (_|_|_|_|_|_|_|⟨version, locktime, seg, a, b, c⟩) <;> try rfl
    rcases h1[a]? with _ | (_|_|ins|_|_|_|_|_) <;> try rfl
    simp only []
    show (match List.foldl blank (h1, []) ins with | (h, ws) => _) = _
    rcases List.foldl blank (h1, []) ins with ⟨h2, ws⟩
    trace_state
    simp only []
    rcases ins[i]? with _ | ri <;> try rfl
    simp only []
    rcases h2[ri]? with _ | (_|_|_|_|⟨txid, index, s, sequence⟩|_|_|_) <;> try rfl
    simp only []
    rcases (write h2 ri (Obj.txin txid index code sequence))[b]? with _ | (_|_|outs|_|_|_|_|_) <;> try rfl
    simp only []
    unfold stageOutK
    trace_state
    sorry


end HeapLemmas
