import BU.Gen.Codec
import BU.Crypto.Secp256k1
import BU.Proofs.KeyLemmas
import BU.Proofs.LoopLemmas
import BU.Model.Schnorr
/-! Proofs for `BU/Properties/C20_Gen.lean`: the *generated* curve arithmetic of `bitcoinutils/schnorr.py` (`point_add`,
`point_mul`, `lift_x`, `has_even_y` — Python ints, `pow(b, e, p)`, `None | (x, y)` points, a 256-step loop) computes on points with
natural coordinates exactly what `Secp.add / mul / liftX` compute — the functions about which the group law
(`CurveLaws`, proved through Mathlib's Weierstrass curves) and all signature theorems are stated.  Mathlib-free. -/
namespace GenSchnorr
open Py Secp Loop

/-- a curve point with natural-number coordinates as the Python value (ints) it denotes -/
def castP (P : Point) : Option (Int × Int) := P.map (fun q => ((q.1 : Int), (q.2 : Int)))

@[simp] theorem castP_none : castP none = none := rfl
@[simp] theorem castP_some (x y : Nat) : castP (some (x, y)) = some ((x : Int), (y : Int)) := rfl

/-! ### modular arithmetic: Python ints vs residues in `Nat` -/

/-- `(a - b) % m` on Python ints is `subMod` -/
theorem sub_emod_cast (a b m : Nat) (hm : 0 < m) : (((a : Int) - (b : Int)) % (m : Int)) = ((subMod a b m : Nat) : Int) := by
  unfold subMod
  have hb : b % m ≤ m := Nat.le_of_lt (Nat.mod_lt _ hm)
  rw [Int.natCast_emod, Int.natCast_add, Int.natCast_sub hb, Int.natCast_emod, Int.natCast_emod, Int.emod_add_emod]
  have : (a : Int) + ((m : Int) - (b : Int) % (m : Int)) = ((a : Int) - (b : Int) % (m : Int)) + (m : Int) := by omega
  rw [this, Int.add_emod_right, Int.sub_emod_emod]

/-- the same when the minuend is only known modulo `m` -/
theorem sub_emod_of (X : Int) (r b m : Nat) (hm : 0 < m) (hX : X % (m : Int) = (r : Int)) :
    (X - (b : Int)) % (m : Int) = ((subMod r b m : Nat) : Int) := by
  rw [← sub_emod_cast r b m hm, ← hX, Int.emod_sub_emod]

theorem subMod_mod_left (a b m : Nat) : subMod (a % m) b m = subMod a b m := by
  unfold subMod; rw [Nat.mod_mod]

theorem mul_emod_of (X : Int) (r c m : Nat) (hX : X % (m : Int) = (r : Int)) :
    (X * (c : Int)) % (m : Int) = ((r * c % m : Nat) : Int) := by
  rw [Int.mul_emod, hX, Int.natCast_emod, Int.natCast_mul, Int.mul_emod (r : Int) ((c : Int) % (m : Int)), Int.emod_emod, ← Int.mul_emod]

theorem powMod_mod (b e m : Nat) : Secp.powMod (b % m) e m = Secp.powMod b e m := by
  unfold Secp.powMod; rw [Nat.mod_mod]

/-- Python's `pow(X, e, m)` when `X` is known modulo `m` -/
theorem powMod_of (X : Int) (r e m : Nat) (hm : 0 < m) (hX : X % (m : Int) = (r : Int)) :
    Py.powMod X (e : Int) (m : Int) = .ok ((Secp.powMod r e m : Nat) : Int) := by
  unfold Py.powMod
  rw [if_neg (by omega), if_neg (by omega), hX, Int.toNat_natCast, Int.toNat_natCast, Int.toNat_natCast]

theorem p_pos : 0 < Secp.p := by decide
theorem pI : (115792089237316195423570985008687907853269984665640564039457584007908834671663 : Int) = ((Secp.p : Nat) : Int) := rfl
theorem pm2 : ((Secp.p : Nat) : Int) - 2 = ((Secp.p - 2 : Nat) : Int) := by decide

theorem natCast_emod_self (a m : Nat) : ((a : Int) % (m : Int)) = ((a % m : Nat) : Int) := (Int.natCast_emod a m).symm

/-- the two coordinate formulas shared by both branches of `point_add` -/
theorem coords (L x1 y1 x2 : Nat) :
    let X3 := subMod (subMod (L * L) x1 p) x2 p
    (((L : Int) * (L : Int) - (x1 : Int) - (x2 : Int)) % ((p : Nat) : Int) = ((X3 : Nat) : Int)) ∧
    ((((L : Int) * ((x1 : Int) - ((X3 : Nat) : Int)) - (y1 : Int)) % ((p : Nat) : Int)) =
      ((subMod (L * subMod x1 X3 p) y1 p : Nat) : Int)) := by
  intro X3
  have hp := p_pos
  constructor
  · have h1 := sub_emod_cast (L * L) x1 p hp
    rw [Int.natCast_mul] at h1
    exact sub_emod_of _ _ x2 p hp h1
  · have h1 := sub_emod_cast x1 X3 p hp
    have h2 : ((L : Int) * ((x1 : Int) - ((X3 : Nat) : Int))) % ((p : Nat) : Int) = ((subMod x1 X3 p * L % p : Nat) : Int) := by
      rw [Int.mul_comm]; exact mul_emod_of _ _ L p h1
    have h3 := sub_emod_of _ _ y1 p hp h2
    rw [h3, subMod_mod_left, Nat.mul_comm]

/-- **point_add**: the generated function, on points with natural coordinates, is `Secp.add` (it never raises) -/
theorem gen_point_add (P1 P2 : Point) :
    Gen.schnorr_point_add (castP P1) (castP P2) = .ok (castP (Secp.add P1 P2)) := by
  have hp := p_pos
  unfold Gen.schnorr_point_add
  cases P1 with
  | none => cases P2 <;> rfl
  | some a =>
    obtain ⟨x1, y1⟩ := a
    cases P2 with
    | none => rfl
    | some b =>
      obtain ⟨x2, y2⟩ := b
      simp only [castP_some, Option.isNone_some, Bool.false_eq_true, if_false, Py.ptX, Py.ptY, ok_bind, bind_pure_comp]
      rw [pI, pm2]
      unfold Secp.add
      simp only
      by_cases hx : x1 = x2
      · subst hx
        by_cases hy : y1 = y2
        · -- doubling
          subst hy
          have e1 : (((x1 : Int) == (x1 : Int)) = true) := by simp
          have e2 : (((some ((x1 : Int), (y1 : Int)) : Option (Int × Int)) == some ((x1 : Int), (y1 : Int))) = true) := by simp
          have hpw := powMod_of (2 * (y1 : Int)) (2 * y1 % p) (p - 2) p hp (by
            rw [show (2 : Int) * (y1 : Int) = ((2 * y1 : Nat) : Int) by rw [Int.natCast_mul]; rfl, natCast_emod_self])
          rw [powMod_mod] at hpw
          simp only [e1, e2, if_true, map_ok, ok_bind, bne_self_eq_false, Bool.false_eq_true, if_false, pure, Except.pure, hpw]
          have hl : ((3 : Int) * (x1 : Int) * (x1 : Int) * ((Secp.powMod (2 * y1) (p - 2) p : Nat) : Int)) % ((p : Nat) : Int)
              = ((3 * x1 * x1 * Secp.powMod (2 * y1) (p - 2) p % p : Nat) : Int) := by
            have e : ((3 : Int) * (x1 : Int) * (x1 : Int) * ((Secp.powMod (2 * y1) (p - 2) p : Nat) : Int))
                = ((3 * x1 * x1 * Secp.powMod (2 * y1) (p - 2) p : Nat) : Int) := by
              simp [Int.natCast_mul]
            rw [e, natCast_emod_self]
          rw [hl]
          obtain ⟨c1, c2⟩ := coords (3 * x1 * x1 * Secp.powMod (2 * y1) (p - 2) p % p) x1 y1 x1
          rw [c1, c2]
          simp
        · -- opposite points
          have e1 : (((x1 : Int) == (x1 : Int)) = true) := by simp
          have e3 : (((y1 : Int) != (y2 : Int)) = true) := by
            simp only [bne_iff_ne, ne_eq]; omega
          simp only [e1, if_true, map_ok, ok_bind, e3, pure, Except.pure]
          rw [if_pos ⟨trivial, hy⟩]
          rfl
      · have e1 : (((x1 : Int) == (x2 : Int)) = false) := by
          simp only [beq_eq_false_iff_ne, ne_eq]; omega
        have e2 : (((some ((x1 : Int), (y1 : Int)) : Option (Int × Int)) == some ((x2 : Int), (y2 : Int))) = false) := by
          simp only [beq_eq_false_iff_ne, ne_eq, Option.some.injEq, Prod.mk.injEq]; omega
        have hpw := powMod_of ((x2 : Int) - (x1 : Int)) (subMod x2 x1 p) (p - 2) p hp (sub_emod_cast x2 x1 p hp)
        simp only [e1, e2, Bool.false_eq_true, if_false, map_ok, ok_bind, pure, Except.pure, hpw]
        have hl : (((y2 : Int) - (y1 : Int)) * ((Secp.powMod (subMod x2 x1 p) (p - 2) p : Nat) : Int)) % ((p : Nat) : Int)
            = ((subMod y2 y1 p * Secp.powMod (subMod x2 x1 p) (p - 2) p % p : Nat) : Int) :=
          mul_emod_of _ _ _ p (sub_emod_cast y2 y1 p hp)
        rw [hl]
        obtain ⟨c1, c2⟩ := coords (subMod y2 y1 p * Secp.powMod (subMod x2 x1 p) (p - 2) p % p) x1 y1 x2
        rw [c1, c2]
        have n1 : ¬ (x1 = x2 ∧ y1 ≠ y2) := fun h => hx h.1
        have n2 : ¬ (x1 = x2 ∧ y1 = y2) := fun h => hx h.1
        rw [if_neg n1]
        simp only [if_neg n2]
        rfl

/-- one iteration of `point_mul` on (P, R) at bit `i` of `k` -/
def mulStep (k : Nat) (s : Point × Point) (i : Nat) : Point × Point :=
  (Secp.add s.1 s.1, if (k >>> i) % 2 = 1 then Secp.add s.2 s.1 else s.2)

theorem mulLoop_fold (k : Nat) (f i : Nat) (P R : Point) :
    (List.range' i f).foldl (mulStep k) (P, R) = (((List.range' i f).foldl (mulStep k) (P, R)).1, Secp.mulLoop f P (k >>> i) R) := by
  induction f generalizing i P R with
  | zero => rfl
  | succ f ih =>
    rw [List.range'_succ, List.foldl_cons, ih (i + 1)]
    congr 1

theorem mulLoop_fold_snd (k : Nat) (f i : Nat) (P R : Point) :
    ((List.range' i f).foldl (mulStep k) (P, R)).2 = Secp.mulLoop f P (k >>> i) R := by
  rw [mulLoop_fold]

theorem gen_point_mul (P : Point) (k : Nat) :
    Gen.schnorr_point_mul (castP P) (k : Int) = .ok (castP (Secp.mul P k)) := by
  unfold Gen.schnorr_point_mul
  simp only [bind_pure_comp]
  have key := forIn_range_ok_foldl (fun (s : Point × Point) => (castP s.1, castP s.2)) (mulStep k)
    (fun i_ (__s : Option (Int × Int) × Option (Int × Int)) => do
        let t1 ← shr (↑k) (Int.ofNat i_)
        if (land t1 1 != 0) = true then do
            let t2 ← Gen.schnorr_point_add __s.snd __s.fst
            (fun a => ForInStep.yield (a, t2)) <$> Gen.schnorr_point_add __s.fst __s.fst
          else (fun a => ForInStep.yield (a, __s.snd)) <$> Gen.schnorr_point_add __s.fst __s.fst) 256
    (by
      intro i _ s
      simp only
      rw [show Int.ofNat i = (i : Int) from rfl, shr_natCast, ok_bind,
        show (1 : Int) = ((1 : Nat) : Int) from rfl, land_natCast, Nat.and_one_is_mod]
      by_cases hb : (k >>> i) % 2 = 1
      · have : ((((k >>> i) % 2 : Nat) : Int) != 0) = true := by rw [hb]; rfl
        rw [if_pos this, gen_point_add, ok_bind, gen_point_add, map_ok]
        simp [mulStep, hb]
      · have h0 : (k >>> i) % 2 = 0 := by omega
        have : ¬ (((((k >>> i) % 2 : Nat) : Int) != 0) = true) := by rw [h0]; simp
        rw [if_neg this, gen_point_add, map_ok]
        simp [mulStep, hb]) (P, none)
  have e256 : Int.toNat 256 = 256 := rfl
  rw [e256]
  have key' : forIn [:256] (castP P, (none : Option (Int × Int))) _ = _ := key
  rw [key', map_ok]
  show Except.ok (castP ((List.range 256).foldl (mulStep k) (P, none)).2) = _
  rw [List.range_eq_range', mulLoop_fold_snd]
  rfl

theorem beq_zero_cast (n : Nat) : ((n : Int) == 0) = (n == 0) := by cases n <;> rfl

theorem gen_has_even_y (P : Point) :
    Gen.schnorr_has_even_y (castP P) = (match P with | none => .error .assertion | some (_, y) => .ok (y % 2 == 0)) := by
  unfold Gen.schnorr_has_even_y
  cases P with
  | none => rfl
  | some a =>
    obtain ⟨x, y⟩ := a
    simp only [castP_some, Option.isNone_some, Py.ptY, ok_bind, pure, Except.pure]
    have : (((y : Int) % 2) == 0) = (y % 2 == 0) := by
      have e : ((y : Int) % 2) = ((y % 2 : Nat) : Int) := by omega
      rw [e]
      rw [GenSchnorr.beq_zero_cast]
    simp [this]

theorem gen_lift_x (x : Nat) : Gen.schnorr_lift_x (x : Int) = .ok (castP (Secp.liftX x)) := by
  have hp := p_pos
  unfold Gen.schnorr_lift_x Secp.liftX
  rw [pI]
  by_cases hx : x ≥ p
  · have : decide ((x : Int) ≥ ((p : Nat) : Int)) = true := by simp only [decide_eq_true_eq]; omega
    simp [this, hx]
    rfl
  · have : decide ((x : Int) ≥ ((p : Nat) : Int)) = false := by simp only [decide_eq_false_iff_not]; omega
    simp only [this, Bool.false_eq_true, if_false, if_neg hx]
    have h3 := powMod_of (x : Int) (x % p) 3 p hp (natCast_emod_self x p)
    rw [powMod_mod] at h3
    rw [show (3 : Int) = ((3 : Nat) : Int) from rfl, h3, ok_bind]
    have e7 : (((Secp.powMod x 3 p : Nat) : Int) + 7) % ((p : Nat) : Int) = (((Secp.powMod x 3 p + 7) % p : Nat) : Int) := by
      rw [← natCast_emod_self]; rfl
    have ee : (((p : Nat) : Int) + 1) / 4 = (((p + 1) / 4 : Nat) : Int) := by decide
    simp only [e7, ee]
    have hq := powMod_of ((((Secp.powMod x 3 p + 7) % p : Nat)) : Int) ((Secp.powMod x 3 p + 7) % p) ((p + 1) / 4) p hp
      (by rw [natCast_emod_self, Nat.mod_mod])
    rw [hq, ok_bind]
    have hylt := KeyLemmas.powMod_lt ((Secp.powMod x 3 p + 7) % p) ((p + 1) / 4) p hp
    generalize Secp.powMod ((Secp.powMod x 3 p + 7) % p) ((p + 1) / 4) p = y at *
    generalize (Secp.powMod x 3 p + 7) % p = ySq at *
    have h2 := powMod_of (y : Int) (y % p) 2 p hp (natCast_emod_self y p)
    rw [powMod_mod] at h2
    rw [show (2 : Int) = ((2 : Nat) : Int) from rfl, h2, ok_bind]
    by_cases hne : Secp.powMod y 2 p ≠ ySq
    · have : (((Secp.powMod y 2 p : Nat) : Int) != (ySq : Int)) = true := by
        simp only [bne_iff_ne, ne_eq]; omega
      simp [this, hne]
      rfl
    · have heq : Secp.powMod y 2 p = ySq := Classical.not_not.mp hne
      have : (((Secp.powMod y 2 p : Nat) : Int) != (ySq : Int)) = false := by
        rw [heq]; simp
      simp only [this, Bool.false_eq_true, if_false, if_neg hne, pure, Except.pure]
      rw [show (1 : Int) = ((1 : Nat) : Int) from rfl, land_natCast, Nat.and_one_is_mod]
      by_cases hev : y % 2 = 0
      · simp [hev]
      · have h1 : y % 2 = 1 := by omega
        have hsub : ((p : Nat) : Int) - (y : Int) = ((p - y : Nat) : Int) := by omega
        simp [hev, h1, hsub]

/-! ### BIP340 signing and verification -/
section bip340
open Model Spec

theorem n_pos : 0 < Secp.n := by decide
theorem nI : (115792089237316195423570985008687907852837564279074904382605163141518161494337 : Int) = ((Secp.n : Nat) : Int) := rfl
theorem GI : (some ((55066263022277343669578718895168534326250603453777594175500187360389116729240 : Int),
    (32670510020758816978083085130507043184471273380659243275938904335757337482424 : Int)) : Option (Int × Int)) = castP Secp.G := rfl

theorem tag_challenge : ([0x42, 0x49, 0x50, 0x30, 0x33, 0x34, 0x30, 0x2f, 0x63, 0x68, 0x61, 0x6c, 0x6c, 0x65, 0x6e, 0x67, 0x65] : Bytes)
    = "BIP0340/challenge".toUTF8.toList := by decide +kernel
theorem tag_aux : ([0x42, 0x49, 0x50, 0x30, 0x33, 0x34, 0x30, 0x2f, 0x61, 0x75, 0x78] : Bytes) = "BIP0340/aux".toUTF8.toList := by decide +kernel
theorem tag_nonce : ([0x42, 0x49, 0x50, 0x30, 0x33, 0x34, 0x30, 0x2f, 0x6e, 0x6f, 0x6e, 0x63, 0x65] : Bytes)
    = "BIP0340/nonce".toUTF8.toList := by decide +kernel

theorem gen_tagged (sha256 : Bytes → Bytes) (tag : String) (d : Bytes) :
    Gen.schnorr_tagged_hash sha256 tag.toUTF8.toList d = .ok (taggedHash sha256 tag d) := rfl

theorem gen_int_from_bytes (b : Bytes) : Gen.schnorr_int_from_bytes b = .ok ((ofBE b : Nat) : Int) := rfl
theorem gen_bytes_from_int (x : Nat) : Gen.schnorr_bytes_from_int (x : Int) = bytesFromInt x := by
  unfold Gen.schnorr_bytes_from_int bytesFromInt
  cases Py.toBytes (x : Int) 32 Order.big <;> rfl
theorem gen_xor (a b : Bytes) : Gen.schnorr_xor_bytes a b = .ok (schnorrXor a b) := rfl
theorem gen_bytes_from_point (x y : Nat) : Gen.schnorr_bytes_from_point (castP (some (x, y))) = bytesFromInt x := by
  unfold Gen.schnorr_bytes_from_point
  simp only [castP_some, Py.ptX, ok_bind]
  rw [gen_bytes_from_int]

theorem len_ne (b : Bytes) (k : Nat) : ((Py.len b != ((k : Nat) : Int)) = true) ↔ b.length ≠ k := by
  unfold Py.len
  simp only [bne_iff_ne, ne_eq]
  constructor <;> intro h <;> omega

/-- the join-point shape of `if c: raise E` followed by the rest of a function -/
theorem jp_if {α : Type} (c : Bool) (e : PyErr) (k : Unit → Except PyErr α) :
    (have __do_jp := k
     if c = true then (do let __r ← (throw e : Except PyErr Unit); __do_jp __r) else __do_jp ()) =
      if c = true then .error e else k () := by
  cases c <;> rfl

theorem jp_ifP {α : Type} (p : Prop) [Decidable p] (e : PyErr) (k : Unit → Except PyErr α) :
    (have __do_jp := k
     if p then (do let __r ← (throw e : Except PyErr Unit); __do_jp __r) else __do_jp ()) =
      if p then .error e else k () := by
  by_cases h : p <;> simp [h] <;> rfl

theorem gen_schnorr_verify (sha256 : Bytes → Bytes) (msg pk sig : Bytes) :
    Gen.schnorr_verify sha256 msg pk sig = schnorrVerify sha256 msg pk sig := by
  have hn := n_pos
  unfold Gen.schnorr_verify schnorrVerify
  rw [jp_if, jp_if, jp_if, jp_ifP, jp_ifP, jp_ifP]
  have l1 : ((Py.len msg != (32 : Int)) = true) ↔ msg.length ≠ 32 := len_ne msg 32
  have l2 : ((Py.len pk != (32 : Int)) = true) ↔ pk.length ≠ 32 := len_ne pk 32
  have l3 : ((Py.len sig != (64 : Int)) = true) ↔ sig.length ≠ 64 := len_ne sig 64
  by_cases h1 : msg.length ≠ 32
  · rw [if_pos (l1.2 h1), if_pos h1]
  rw [if_neg (fun h => h1 (l1.1 h)), if_neg h1]
  by_cases h2 : pk.length ≠ 32
  · rw [if_pos (l2.2 h2), if_pos h2]
  rw [if_neg (fun h => h2 (l2.1 h)), if_neg h2]
  by_cases h3 : sig.length ≠ 64
  · rw [if_pos (l3.2 h3), if_pos h3]
  rw [if_neg (fun h => h3 (l3.1 h)), if_neg h3]
  simp only [gen_int_from_bytes, ok_bind, gen_lift_x]
  generalize ofBE (slice sig 0 32) = r
  generalize ofBE (slice sig 32 64) = s
  generalize liftX (ofBE pk) = P
  rw [pI, nI, GI, tag_challenge, gen_tagged, ok_bind]
  generalize ofBE (taggedHash sha256 "BIP0340/challenge" (slice sig 0 32 ++ pk ++ msg)) = h
  have hc : (((castP P).isNone || decide ((r : Int) ≥ ((p : Nat) : Int)) || decide ((s : Int) ≥ ((n : Nat) : Int))) = true)
      ↔ (Option.isNone P = true ∨ r ≥ p ∨ s ≥ n) := by
    cases P <;> simp [castP]
  by_cases hcond : Option.isNone P = true ∨ r ≥ p ∨ s ≥ n
  · rw [if_pos (hc.2 hcond), if_pos hcond]
  rw [if_neg (fun hh => hcond (hc.1 hh)), if_neg hcond]
  have he : ((n : Nat) : Int) - ((h : Nat) : Int) % ((n : Nat) : Int) = ((n - h % n : Nat) : Int) := by
    have := Nat.mod_lt h hn
    rw [← Int.natCast_emod]
    omega
  rw [he, gen_point_mul, ok_bind, gen_point_mul, ok_bind, gen_point_add, ok_bind]
  generalize add (mul G s) (mul P (n - h % n)) = R
  cases R with
  | none => rfl
  | some q =>
    obtain ⟨x, y⟩ := q
    simp only [castP_some, Option.isNone_some, Bool.false_eq_true, if_false]
    rw [show (some ((x : Int), (y : Int)) : Option (Int × Int)) = castP (some (x, y)) from rfl, gen_has_even_y]
    simp only [ok_bind, pure, Except.pure, castP_some, Py.ptX]
    by_cases hy : y % 2 = 0
    · by_cases hx : x = r
      · subst hx; simp [hy, ok_bind]
      · have : ((x : Int) != (r : Int)) = true := by simp only [bne_iff_ne, ne_eq]; omega
        simp [hy, hx, this, ok_bind]
    · simp [hy, ok_bind]

theorem gen_schnorr_sign (sha256 : Bytes → Bytes) (msg sk aux : Bytes) :
    Gen.schnorr_sign sha256 msg sk aux = schnorrSign sha256 msg sk aux := by
  have hn := n_pos
  unfold Gen.schnorr_sign schnorrSign
  simp -zeta only [throw_eq_error, error_bind]
  simp only [gen_int_from_bytes, ok_bind]
  have l1 : ((Py.len msg != (32 : Int)) = true) ↔ msg.length ≠ 32 := len_ne msg 32
  have l3 : ((Py.len aux != (32 : Int)) = true) ↔ aux.length ≠ 32 := len_ne aux 32
  by_cases h1 : msg.length ≠ 32
  · rw [if_pos (l1.2 h1), if_pos h1]
  rw [if_neg (fun h => h1 (l1.1 h)), if_neg h1]
  generalize ofBE sk = d0
  rw [nI, GI, tag_aux, tag_nonce, tag_challenge]
  have hr : ((!(decide ((1 : Int) ≤ (d0 : Int)) && decide ((d0 : Int) ≤ ((n : Nat) : Int) - 1))) = true) ↔
      ((!decide (1 ≤ d0 ∧ d0 ≤ n - 1)) = true) := by
    have : ((1 : Int) ≤ (d0 : Int) ∧ (d0 : Int) ≤ ((n : Nat) : Int) - 1) ↔ (1 ≤ d0 ∧ d0 ≤ n - 1) := by omega
    by_cases hh : 1 ≤ d0 ∧ d0 ≤ n - 1
    · have h' := this.2 hh; simp [hh, h'.1, h'.2]
    · have h' : ¬ ((1 : Int) ≤ (d0 : Int) ∧ (d0 : Int) ≤ ((n : Nat) : Int) - 1) := fun x => hh (this.1 x)
      simp only [hh, decide_false, Bool.not_false, iff_true, Bool.not_eq_true', Bool.and_eq_false_iff, decide_eq_false_iff_not]
      by_cases a : (1 : Int) ≤ (d0 : Int)
      · right; exact fun b => h' ⟨a, b⟩
      · left; exact a
  by_cases h2 : (!decide (1 ≤ d0 ∧ d0 ≤ n - 1)) = true
  · rw [if_pos (hr.2 h2), if_pos h2]
  rw [if_neg (fun h => h2 (hr.1 h)), if_neg h2]
  have hd0 : 1 ≤ d0 ∧ d0 ≤ n - 1 := by
    by_cases hh : 1 ≤ d0 ∧ d0 ≤ n - 1
    · exact hh
    · exact absurd (by simp [hh]) h2
  by_cases h3 : aux.length ≠ 32
  · rw [if_pos (l3.2 h3), if_pos h3]
  rw [if_neg (fun h => h3 (l3.1 h)), if_neg h3]
  rw [gen_point_mul, ok_bind]
  cases hP : mul G d0 with
  | none => rfl
  | some a =>
    obtain ⟨px, py⟩ := a
    simp only [castP_some, Option.isSome_some, Bool.not_true, Bool.false_eq_true, if_false]
    rw [show (some ((px : Int), (py : Int)) : Option (Int × Int)) = castP (some (px, py)) from rfl, gen_has_even_y]
    simp only [ok_bind]
    have ed : (if (py % 2 == 0) = true then (d0 : Int) else ((n : Nat) : Int) - (d0 : Int))
        = (((if (py % 2 == 0) = true then d0 else n - d0 : Nat)) : Int) := by
      split
      · rfl
      · omega
    rw [ed, gen_bytes_from_int]
    generalize (if (py % 2 == 0) = true then d0 else n - d0) = d
    cases bytesFromInt d with
    | error e => rw [error_bind, error_bind]
    | ok db =>
      conv => lhs; rw [ok_bind]
      conv => rhs; rw [ok_bind]
      rw [gen_tagged, ok_bind, gen_xor, ok_bind, gen_bytes_from_point]
      cases bytesFromInt px with
      | error e => rw [error_bind, error_bind]
      | ok pb =>
        conv => lhs; rw [ok_bind]
        conv => rhs; rw [ok_bind]
        rw [gen_tagged, ok_bind]
        generalize ofBE (taggedHash sha256 "BIP0340/nonce" (schnorrXor db (taggedHash sha256 "BIP0340/aux" aux) ++ pb ++ msg)) = h
        rw [← Int.natCast_emod]
        have hk : h % n < n := Nat.mod_lt _ hn
        generalize h % n = k0 at *
        have hz : (((k0 : Int) == 0) = true) ↔ k0 = 0 := by simp
        by_cases hk0 : k0 = 0
        · rw [if_pos (hz.2 hk0), if_pos hk0]
        rw [if_neg (fun hh => hk0 (hz.1 hh)), if_neg hk0, gen_point_mul, ok_bind]
        cases hR : mul G k0 with
        | none => rfl
        | some b =>
          obtain ⟨rx, ry⟩ := b
          simp only [castP_some, Option.isSome_some, Bool.not_true, Bool.false_eq_true, if_false]
          rw [show (some ((rx : Int), (ry : Int)) : Option (Int × Int)) = castP (some (rx, ry)) from rfl, gen_has_even_y]
          simp only [ok_bind]
          rw [gen_bytes_from_point]
          cases bytesFromInt rx with
          | error e => rw [error_bind, error_bind]
          | ok rb =>
            conv => lhs; rw [ok_bind]
            conv => rhs; rw [ok_bind]
            rw [gen_tagged, ok_bind]
            generalize ofBE (taggedHash sha256 "BIP0340/challenge" (rb ++ pb ++ msg)) = eh
            have ek : (if (!(ry % 2 == 0)) = true then ((n : Nat) : Int) - (k0 : Int) else (k0 : Int))
                = (((if (!(ry % 2 == 0)) = true then n - k0 else k0 : Nat)) : Int) := by
              split
              · omega
              · rfl
            rw [ek, ← Int.natCast_emod, ← Int.natCast_mul, ← Int.natCast_add, ← Int.natCast_emod, gen_bytes_from_int]
            cases bytesFromInt (((if (!(ry % 2 == 0)) = true then n - k0 else k0) + eh % n * d) % n) with
            | error e =>
              conv => lhs; rw [ok_bind, error_bind]
              conv => rhs; rw [error_bind]
            | ok sb =>
              conv => lhs; rw [ok_bind, ok_bind]
              conv => rhs; rw [ok_bind]
              rw [gen_schnorr_verify]
end bip340

end GenSchnorr
