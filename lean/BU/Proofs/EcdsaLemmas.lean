import BU.Py
import BU.Spec.Ecdsa
import BU.Spec.CurveLaws
import BU.Model.Sign
import BU.Proofs.DerLemmas
import Mathlib.Data.ZMod.Basic
import Mathlib.Tactic.Ring
/-! Helper lemmas for C06: `struct.pack("B", ·)`, byte 3 of a DER signature, the low-R grinding loop with a
general start index, and the modular arithmetic behind "s ↦ n − s keeps an ECDSA signature valid". -/
namespace EcdsaLemmas
open Py Spec Model Secp DerLemmas

theorem n_lt_two_pow_256 : Secp.n < 2 ^ 256 := by decide

theorem pack_B (ht : Nat) (h : ht < 256) : Py.pack "B" (ht : Int) = .ok [UInt8.ofNat ht] := by
  have e : Py.pack "B" (ht : Int) = packU 1 ht := rfl
  rw [e]
  unfold packU
  have : 0 ≤ (ht : Int) ∧ (ht : Int).toNat < 256 ^ 1 := by omega
  rw [if_pos this, Int.toNat_natCast]
  have : ht % 256 = ht := Nat.mod_eq_of_lt h
  simp only [leBytes, this]

/-- byte 3 of the encoding, as Python's `signature[3]` -/
theorem derEncode_get3 (r s : Nat) : (derEncode r s)[3]? = some (UInt8.ofNat (derInt r).length) := by
  rw [derEncode_eq]; rfl

/-- the low-R test `signature[3] == 33` is `r ≥ 2^255` -/
theorem byte3_eq_33 (r : Nat) (hr0 : 0 < r) (hr : r < 2 ^ 256) :
    (UInt8.ofNat (derInt r).length).toNat = 33 ↔ 2 ^ 255 ≤ r := by
  obtain ⟨a1, a2, _, _, _⟩ := derInt_props r hr0 hr
  rw [← derInt_length_33 r hr0 hr, UInt8.toNat_ofNat']
  omega

/-- the grinding loop started at attempt index `c` -/
theorem grind_from (atts : List (Nat × Nat)) (hw : ∀ a ∈ atts, 0 < a.1 ∧ a.1 < 2 ^ 256) (c : Nat)
    (sig : Bytes) (k : Nat) (h : grind (atts.map fun a => derEncode a.1 a.2) c = .ok (sig, k)) :
    c ≤ k ∧ ∃ r s, atts[k - c]? = some (r, s) ∧ sig = derEncode r s ∧ r < 2 ^ 255 ∧
      ∀ j, j < k - c → ∀ rj sj, atts[j]? = some (rj, sj) → 2 ^ 255 ≤ rj := by
  induction atts generalizing c with
  | nil => simp only [List.map_nil, grind] at h; cases h
  | cons a rest ih =>
    obtain ⟨ra, sa⟩ := a
    have hwa := hw (ra, sa) List.mem_cons_self
    simp only at hwa
    have hiff := byte3_eq_33 ra hwa.1 hwa.2
    simp only [List.map_cons, grind, derEncode_get3] at h
    by_cases hc : (UInt8.ofNat (derInt ra).length).toNat = 33
    · rw [if_pos hc] at h
      obtain ⟨hck, r, s, h1, h2, h3, h4⟩ := ih (fun a ha => hw a (List.mem_cons_of_mem _ ha)) (c + 1) h
      refine ⟨by omega, r, s, ?_, h2, h3, ?_⟩
      · rw [show k - c = (k - (c + 1)) + 1 by omega, List.getElem?_cons_succ]; exact h1
      · intro j hj rj sj hget
        cases j with
        | zero =>
          simp only [List.getElem?_cons_zero, Option.some.injEq, Prod.mk.injEq] at hget
          rw [← hget.1]; exact hiff.1 hc
        | succ j =>
          rw [List.getElem?_cons_succ] at hget
          exact h4 j (by omega) rj sj hget
    · rw [if_neg hc] at h
      simp only [Except.ok.injEq, Prod.mk.injEq] at h
      obtain ⟨h1, h2⟩ := h
      subst h2
      refine ⟨Nat.le_refl _, ra, sa, by simp, h1.symm, ?_, ?_⟩
      · have := mt hiff.2 hc; omega
      · intro j hj; omega

/-! ### modular arithmetic -/

/-- if `w`, `w'` are inverses of `s`, `m − s` modulo `m`, the verification scalar `u1 + d·u2` computed with `w'`
is the negation modulo `m` of the one computed with `w` -/
theorem scalar_neg (m : Nat) (hm : 0 < m) (s w w' z r d : Nat) (hs : s ≤ m)
    (hw : s * w % m = 1) (hw' : (m - s) * w' % m = 1) :
    (z % m * w' % m + d * (r * w' % m) % m) % m = (m - (z % m * w % m + d * (r * w % m) % m) % m) % m := by
  have : NeZero m := ⟨by omega⟩
  have hlt : (z % m * w % m + d * (r * w % m) % m) % m ≤ m := Nat.le_of_lt (Nat.mod_lt _ hm)
  rw [← ZMod.natCast_eq_natCast_iff']
  have e1 : ((s : ZMod m)) * (w : ZMod m) = 1 := by
    have h := congrArg (Nat.cast : Nat → ZMod m) hw
    rw [ZMod.natCast_mod] at h
    push_cast at h
    exact h
  have e2 : -((s : ZMod m)) * (w' : ZMod m) = 1 := by
    have h := congrArg (Nat.cast : Nat → ZMod m) hw'
    rw [ZMod.natCast_mod, Nat.cast_mul, Nat.cast_sub hs, ZMod.natCast_self] at h
    push_cast at h
    rw [zero_sub] at h
    exact h
  have e3 : (w' : ZMod m) = -(w : ZMod m) := by
    calc (w' : ZMod m) = ((s : ZMod m) * w) * w' := by rw [e1, one_mul]
      _ = -(w : ZMod m) * (-(s : ZMod m) * w') := by ring
      _ = -(w : ZMod m) := by rw [e2, mul_one]
  rw [Nat.cast_sub hlt, ZMod.natCast_self]
  simp only [Nat.cast_add, Nat.cast_mul, ZMod.natCast_mod]
  rw [e3]
  ring

theorem neg_x (P : Point) (x y : Nat) (h : P = some (x, y)) : ∃ y', Secp.neg P = some (x, y') := by
  subst h; exact ⟨_, rfl⟩

/-- replacing s by n − s keeps a signature under `d·G` valid -/
theorem verify_neg_s (laws : CurveLaws) (d : Nat) (hd : d < n) (z r s : Nat)
    (hs0 : 0 < s) (hsn : s < n) (hv : ecdsaVerify (mul G d) z r s = true) :
    ecdsaVerify (mul G d) z r (n - s) = true := by
  have hn256 := n_lt_two_pow_256
  have hn0 : 0 < n := by omega
  unfold ecdsaVerify at hv ⊢
  by_cases hc : r = 0 ∨ r ≥ n ∨ s = 0 ∨ s ≥ n
  · rw [if_pos hc] at hv; cases hv
  · rw [if_neg hc] at hv
    have hc' : ¬ (r = 0 ∨ r ≥ n ∨ n - s = 0 ∨ n - s ≥ n) := by omega
    rw [if_neg hc']
    simp only at hv ⊢
    have b1 : ∀ w, z % n * w % n < n := fun w => Nat.mod_lt _ hn0
    have b2 : ∀ w, r * w % n < n := fun w => Nat.mod_lt _ hn0
    have b3 : ∀ a, a % n < n := fun a => Nat.mod_lt _ hn0
    rw [laws.mul_mulG d _ hd (by have := b2 (invN s); omega), laws.add_mulG _ _ (b1 _) (b3 _)] at hv
    rw [laws.mul_mulG d _ hd (by have := b2 (invN (n - s)); omega), laws.add_mulG _ _ (b1 _) (b3 _)]
    rw [scalar_neg n hn0 s (invN s) (invN (n - s)) z r d (Nat.le_of_lt hsn)
      (laws.invN_mul s hs0 hsn) (laws.invN_mul (n - s) (by omega) (by omega)),
      ← laws.neg_mulG _ (b3 _)]
    generalize mul G ((z % n * invN s % n + d * (r * invN s % n) % n) % n) = P at hv ⊢
    cases P with
    | none => simp at hv
    | some xy =>
      obtain ⟨x, y⟩ := xy
      exact hv

end EcdsaLemmas
