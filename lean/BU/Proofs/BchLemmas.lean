import BU.Py
import BU.Model.Bech32
import BU.Proofs.Bech32Lemmas
/-!
# Linearity of the bech32 checksum register and the table of single-error syndromes

* `pstep_lin`: one round of `polymod` is XOR-linear in (register, symbol) — without any size hypothesis.
* `S i a`: the syndrome of a single error `a` at distance `i` from the end of the word.
* `single_ne`, `double_ne`: for `i, j < 59` and `a, b ∈ 1..31`, neither `S i a` nor `S i a ^^^ S j b` (`i ≠ j`)
  is `0` or `Delta = 1 ^^^ 0x2bc830a3`.  Both come from ONE kernel evaluation (`table_ok`) of a Boolean check on
  the computed table of the 1 829 values `S i a`.
-/
namespace BchLemmas
open Model.Bech32 Bech32Lemmas

/-! ### linearity -/

theorem gsel_xor (c : Consts) (s t i : Nat) : gsel c (s ^^^ t) i = gsel c s i ^^^ gsel c t i := by
  unfold gsel
  rw [Nat.shiftRight_xor_distrib, Nat.and_xor_distrib_right]
  simp only [Nat.and_one_is_mod]
  rcases Nat.mod_two_eq_zero_or_one (s >>> i) with h1 | h1 <;>
    rcases Nat.mod_two_eq_zero_or_one (t >>> i) with h2 | h2 <;> simp [h1, h2]

theorem foldl_xor_add (f g : Nat → Nat) (l : List Nat) :
    l.foldl (fun acc i => acc ^^^ (f i ^^^ g i)) 0
      = l.foldl (fun acc i => acc ^^^ f i) 0 ^^^ l.foldl (fun acc i => acc ^^^ g i) 0 := by
  induction l with
  | nil => simp
  | cons x xs ih =>
    simp only [List.foldl_cons, Nat.zero_xor]
    rw [foldl_xor_acc (fun i => f i ^^^ g i), foldl_xor_acc f, foldl_xor_acc g, ih]
    ac_rfl

theorem gmask_xor (c : Consts) (s t : Nat) : gmask c (s ^^^ t) = gmask c s ^^^ gmask c t := by
  unfold gmask
  simp only [gsel_xor]
  exact foldl_xor_add _ _ _

/-- one round of `polymod` is XOR-linear -/
theorem pstep_lin (c : Consts) (a b v w : Nat) :
    pstep c (a ^^^ b) (v ^^^ w) = pstep c a v ^^^ pstep c b w := by
  rw [pstep_eq, pstep_eq, pstep_eq, Nat.shiftRight_xor_distrib, gmask_xor, Nat.and_xor_distrib_right,
    Nat.shiftLeft_xor_distrib]
  ac_rfl

theorem xor_cancel {a b c : Nat} (h : a ^^^ b = c) : b = a ^^^ c := by
  subst h
  rw [← Nat.xor_assoc, Nat.xor_self, Nat.zero_xor]

theorem gmask_zero (c : Consts) : gmask c 0 = 0 := by
  have r5 : List.range 5 = [0, 1, 2, 3, 4] := by decide
  simp [gmask, gsel, r5]

theorem pstep_zero_left (c : Consts) (v : Nat) : pstep c 0 v = v := by
  rw [pstep_eq]
  simp [gmask_zero]

/-- the register after a word: XOR of the register after the zero word of the same length and the linear part -/
theorem foldl_pstep_split (c : Consts) (e : List Nat) (a b : Nat) :
    e.foldl (pstep c) (a ^^^ b) = (List.replicate e.length 0).foldl (pstep c) a ^^^ e.foldl (pstep c) b := by
  induction e generalizing a b with
  | nil => simp
  | cons x xs ih =>
    simp only [List.foldl_cons, List.length_cons, List.replicate_succ]
    rw [← ih]
    congr 1
    have := pstep_lin c a b 0 x
    rwa [Nat.zero_xor] at this

/-! ### single-error syndromes -/

/-- advance the register by one zero symbol -/
def adv (x : Nat) : Nat := pstep specConsts x 0

/-- syndrome of the error `a` followed by `i` zeros -/
def S (i a : Nat) : Nat := (List.replicate i 0).foldl (pstep specConsts) a

theorem S_zero (a : Nat) : S 0 a = a := rfl
theorem S_succ (i a : Nat) : S (i + 1) a = S i (adv a) := by
  simp [S, adv, List.replicate_succ]

theorem S_xor (i a b : Nat) : S i (a ^^^ b) = S i a ^^^ S i b := by
  have := foldl_pstep_split specConsts (List.replicate i 0) a b
  simpa [S] using this

theorem S_add (i j a : Nat) : S (i + j) a = S j (S i a) := by
  rw [S, S, S, ← List.replicate_append_replicate, List.foldl_append]

/-! ### kernel-friendly evaluation

The kernel reduces lazily; `force` makes it evaluate a number to a literal before it is passed on (otherwise the
unevaluated `advF (advF (… a))` terms are copied around). -/

def force {α : Type} (x : Nat) (f : Nat → α) : α :=
  match x with
  | 0 => f 0
  | n + 1 => f (Nat.succ n)

@[simp] theorem force_eq {α : Type} (x : Nat) (f : Nat → α) : force x f = f x := by
  cases x <;> rfl

def forceList {α : Type} : List Nat → (List Nat → α) → α
  | [], f => f []
  | x :: xs, f => force x fun x' => forceList xs fun xs' => f (x' :: xs')

@[simp] theorem forceList_eq {α : Type} (l : List Nat) (f : List Nat → α) : forceList l f = f l := by
  induction l generalizing f with
  | nil => rfl
  | cons x xs ih => simp [forceList, ih]

def gF (t : Nat) : Nat :=
  (if t &&& 1 ≠ 0 then 0x3b6a57b2 else 0)
    ^^^ (if (t >>> 1) &&& 1 ≠ 0 then 0x26508e6d else 0)
    ^^^ (if (t >>> 2) &&& 1 ≠ 0 then 0x1ea119fa else 0)
    ^^^ (if (t >>> 3) &&& 1 ≠ 0 then 0x3d4233dd else 0)
    ^^^ (if (t >>> 4) &&& 1 ≠ 0 then 0x2a1462b3 else 0)

/-- `adv` with the generator written out -/
def advF (x : Nat) : Nat :=
  force (x >>> 25) fun t => ((x &&& 0x1FFFFFF) <<< 5) ^^^ gF t

theorem gF_eq (t : Nat) : gF t = gmask specConsts t := by
  have r5 : List.range 5 = [0, 1, 2, 3, 4] := by decide
  unfold gmask gsel gF
  rw [gen_eq, r5]
  simp only [List.foldl_cons, List.foldl_nil, Nat.zero_xor, Nat.shiftRight_zero, List.getD_cons_zero,
    List.getD_cons_succ]

theorem advF_eq (x : Nat) : advF x = adv x := by
  unfold advF adv
  rw [force_eq, pstep_eq, gF_eq, Nat.xor_zero]

def Delta : Nat := 0x2bc830a2

theorem Delta_eq : Delta = 1 ^^^ specConsts.m := by
  rw [m_eq]; decide

def row0 : List Nat :=
  [1, 2, 3, 4, 5, 6, 7, 8, 9, 10, 11, 12, 13, 14, 15, 16, 17, 18, 19, 20, 21, 22, 23, 24, 25, 26, 27, 28, 29, 30, 31]

theorem mem_row0 (a : Nat) (h1 : 1 ≤ a) (h2 : a < 32) : a ∈ row0 := by
  have : row0 = List.range' 1 31 := by decide
  rw [this, List.mem_range'_1]
  omega

/-- the rows `r, adv r, adv² r, …` (n of them), concatenated -/
def rowsF : Nat → List Nat → List Nat
  | 0, _ => []
  | n + 1, r => r ++ forceList (r.map advF) (rowsF n)

theorem rowsF_eq (n : Nat) (r : List Nat) : rowsF n r = (List.range n).flatMap fun i => r.map (S i) := by
  induction n generalizing r with
  | zero => simp [rowsF]
  | succ n ih =>
    simp only [rowsF, forceList_eq]
    rw [ih, List.range_succ_eq_map, List.flatMap_cons, List.flatMap_map]
    congr 1
    · have : S 0 = id := rfl
      rw [this, List.map_id]
    · congr 1
      funext i
      rw [List.map_map]
      apply List.map_congr_left
      intro a _
      simp only [Function.comp, advF_eq, S_succ]

def okB (v : Nat) : Bool := !(Nat.beq v 0) && !(Nat.beq v 0x2bc830a2)

/-- `x` and `x ^^^ Delta` have the same normal form (bit 1 of `Delta` is set) -/
def nrm (x : Nat) : Nat := bif x.testBit 1 then x ^^^ 0x2bc830a2 else x

theorem nrm_ne (x y : Nat) (h : nrm x ≠ nrm y) : x ^^^ y ≠ 0 ∧ x ^^^ y ≠ Delta := by
  constructor
  · intro h0
    have := xor_cancel h0
    rw [Nat.xor_zero] at this
    exact h (by rw [this])
  · intro hD
    apply h
    have hy : y = x ^^^ Delta := xor_cancel hD
    subst hy
    have hb : (x ^^^ Delta).testBit 1 = !x.testBit 1 := by
      rw [Nat.testBit_xor]
      have : Delta.testBit 1 = true := by decide
      rw [this, Bool.xor_true]
    unfold nrm
    rw [hb]
    cases x.testBit 1
    · simp only [Bool.not_false, cond_true, cond_false, Delta]
      rw [Nat.xor_assoc, Nat.xor_self, Nat.xor_zero]
    · simp only [Bool.not_true, cond_true, cond_false, Delta]

/-! a merge sort the kernel can run; only "the result is a permutation" is proved, sortedness of the result
is *checked* (`strictB`) -/

def mergeF : Nat → List Nat → List Nat → List Nat
  | 0, xs, ys => xs ++ ys
  | _ + 1, [], ys => ys
  | _ + 1, x :: xs, [] => x :: xs
  | f + 1, x :: xs, y :: ys =>
    bif Nat.ble x y then x :: mergeF f xs (y :: ys) else y :: mergeF f (x :: xs) ys

def mergePairs : List (List Nat) → List (List Nat)
  | a :: b :: rest => mergeF 100000 a b :: mergePairs rest
  | [a] => [a]
  | [] => []

def sortPasses : Nat → List (List Nat) → List (List Nat)
  | 0, ls => ls
  | k + 1, ls => sortPasses k (mergePairs ls)

def strictB : List Nat → Bool
  | [] => true
  | [_] => true
  | x :: y :: rest => Nat.blt x y && strictB (y :: rest)

def sortCheck (t : List Nat) : Bool :=
  match sortPasses 11 (t.map fun x => [x]) with
  | [s] => strictB s
  | _ => false

theorem mergeF_perm (f : Nat) (xs ys : List Nat) : (mergeF f xs ys).Perm (xs ++ ys) := by
  induction f generalizing xs ys with
  | zero => simp [mergeF]
  | succ f ih =>
    cases xs with
    | nil => simp [mergeF]
    | cons x xs =>
      cases ys with
      | nil => simp [mergeF]
      | cons y ys =>
        simp only [mergeF]
        cases Nat.ble x y
        · simp only [cond_false]
          refine ((ih (x :: xs) ys).cons y).trans ?_
          exact (List.perm_middle (a := y) (l₁ := x :: xs) (l₂ := ys)).symm
        · simp only [cond_true]
          exact (ih xs (y :: ys)).cons x

theorem mergePairs_perm (ls : List (List Nat)) : (mergePairs ls).flatten.Perm ls.flatten := by
  fun_induction mergePairs ls with
  | case1 a b rest ih =>
    simp only [List.flatten_cons, ← List.append_assoc]
    exact (mergeF_perm _ a b).append ih
  | case2 a => exact List.Perm.refl _
  | case3 => exact List.Perm.refl _

theorem sortPasses_perm (k : Nat) (ls : List (List Nat)) : (sortPasses k ls).flatten.Perm ls.flatten := by
  induction k generalizing ls with
  | zero => exact List.Perm.refl _
  | succ k ih => exact (ih _).trans (mergePairs_perm ls)

theorem strictB_sound (l : List Nat) (h : strictB l = true) : l.Pairwise (· < ·) := by
  fun_induction strictB l with
  | case1 => exact List.Pairwise.nil
  | case2 x => simp
  | case3 x y rest ih =>
    simp only [Bool.and_eq_true] at h
    have hxy : x < y := by simpa [Nat.blt_eq] using h.1
    have ih0 := ih h.2
    have ih' := List.pairwise_cons.mp ih0
    rw [List.pairwise_cons]
    refine ⟨?_, ih0⟩
    intro z hz
    rw [List.mem_cons] at hz
    rcases hz with rfl | hz
    · exact hxy
    · exact Nat.lt_trans hxy (ih'.1 z hz)

theorem sortCheck_sound (t : List Nat) (h : sortCheck t = true) : t.Nodup := by
  unfold sortCheck at h
  have hp := sortPasses_perm 11 (t.map fun x => [x])
  have ht : (t.map fun x => [x]).flatten = t := by
    rw [← List.flatMap_def, List.flatMap_singleton']
  rw [ht] at hp
  split at h
  · rename_i s hs
    rw [hs, List.flatten_cons, List.flatten_nil, List.append_nil] at hp
    exact hp.nodup ((strictB_sound s h).imp (fun hlt => Nat.ne_of_lt hlt))
  · cases h

/-- the single kernel evaluation: no single-error syndrome is `0` or `Delta`, and the normal forms of the 1 829
values `S i a` are pairwise distinct -/
theorem table_ok :
    forceList (rowsF 59 row0) (fun t => t.all okB && forceList (t.map nrm) sortCheck) = true := by
  decide +kernel

def table : List Nat := (List.range 59).flatMap fun i => row0.map (S i)

theorem table_facts : (∀ x ∈ table, x ≠ 0 ∧ x ≠ Delta) ∧ (table.map nrm).Nodup := by
  have h := table_ok
  rw [forceList_eq, forceList_eq, rowsF_eq, Bool.and_eq_true, List.all_eq_true] at h
  refine ⟨?_, sortCheck_sound _ h.2⟩
  intro x hx
  have := h.1 x hx
  simp only [okB, Bool.and_eq_true, Bool.not_eq_true'] at this
  constructor
  · intro h0
    rw [h0] at this
    exact absurd this.1 (by decide)
  · intro h0
    rw [h0] at this
    exact absurd this.2 (by decide)

theorem mem_table (i a : Nat) (hi : i < 59) (h1 : 1 ≤ a) (h2 : a < 32) : S i a ∈ table := by
  unfold table
  rw [List.mem_flatMap]
  exact ⟨i, List.mem_range.mpr hi, List.mem_map.mpr ⟨a, mem_row0 a h1 h2, rfl⟩⟩

/-- a single error is never invisible -/
theorem single_ne (i a : Nat) (hi : i < 59) (h1 : 1 ≤ a) (h2 : a < 32) : S i a ≠ 0 ∧ S i a ≠ Delta :=
  table_facts.1 _ (mem_table i a hi h1 h2)

theorem inj_of_nodup_map {α β : Type} (f : α → β) (l : List α) (h : (l.map f).Nodup) :
    ∀ x ∈ l, ∀ y ∈ l, f x = f y → x = y := by
  induction l with
  | nil => intro x hx; cases hx
  | cons a l ih =>
    rw [List.map_cons, List.nodup_cons] at h
    intro x hx y hy hxy
    rw [List.mem_cons] at hx hy
    rcases hx with rfl | hx <;> rcases hy with rfl | hy
    · rfl
    · exact absurd (List.mem_map.mpr ⟨y, hy, hxy.symm⟩) h.1
    · exact absurd (List.mem_map.mpr ⟨x, hx, hxy⟩) h.1
    · exact ih h.2 x hx y hy hxy

def keys : List (Nat × Nat) := (List.range 59).flatMap fun i => row0.map fun a => (i, a)

theorem keys_map : keys.map (fun p => nrm (S p.1 p.2)) = table.map nrm := by
  unfold keys table
  simp only [List.map_flatMap, List.map_map]
  rfl

theorem mem_keys (i a : Nat) (hi : i < 59) (h1 : 1 ≤ a) (h2 : a < 32) : (i, a) ∈ keys := by
  unfold keys
  rw [List.mem_flatMap]
  exact ⟨i, List.mem_range.mpr hi, List.mem_map.mpr ⟨a, mem_row0 a h1 h2, rfl⟩⟩

/-- two errors at different positions are never invisible -/
theorem double_ne (i j a b : Nat) (hi : i < 59) (hj : j < 59) (hij : i ≠ j)
    (ha1 : 1 ≤ a) (ha2 : a < 32) (hb1 : 1 ≤ b) (hb2 : b < 32) :
    S i a ^^^ S j b ≠ 0 ∧ S i a ^^^ S j b ≠ Delta := by
  apply nrm_ne
  intro h
  have hn : (keys.map (fun p => nrm (S p.1 p.2))).Nodup := by rw [keys_map]; exact table_facts.2
  have := inj_of_nodup_map _ _ hn (i, a) (mem_keys i a hi ha1 ha2) (j, b) (mem_keys j b hj hb1 hb2) h
  exact hij (congrArg Prod.fst this)

end BchLemmas
