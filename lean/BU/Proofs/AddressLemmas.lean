import BU.Py
import BU.Spec.Base58
import BU.Model.Address
import BU.Proofs.Base58Lemmas
/-! Helper lemmas for C10 / C12: characterisation of `Model.isAddressValid`, alphabet membership of the
Base58 encoder's output. -/
namespace AddressLemmas
open Py Spec Model

/-- what a `true` verdict of `_is_address_valid` means -/
theorem isAddressValid_true {dsha : Bytes → Bytes} {pfx : Bytes} {s : String}
    (h : isAddressValid dsha pfx s = .ok true) :
    ∃ dc, B58.decode s = some dc ∧ dc.length = 25 ∧ dc.take 1 = pfx ∧
      (dsha (dc.take 21)).take 4 = dc.drop 21 := by
  unfold isAddressValid at h
  simp only at h
  split at h
  · simp at h
  · split at h
    · simp at h
    · split at h
      · simp at h
      · rename_i dc hdc
        split at h
        · simp at h
        · rename_i hlen
          have hlen : dc.length = 25 := by simpa using hlen
          split at h
          · simp at h
          · rename_i hpfx
            split at h
            · simp at h
            · rename_i hcs
              refine ⟨dc, hdc, hlen, ?_, ?_⟩
              · simpa using hpfx
              · have := hcs
                rw [hlen] at this
                simpa using this

/-- the converse: the conditions under which `_is_address_valid` answers `true` -/
theorem isAddressValid_of {dsha : Bytes → Bytes} {pfx : Bytes} {s : String} {dc : Bytes}
    (ha : s.toList.all (fun c => B58.alphabet.contains c) = true)
    (hw : 26 ≤ s.toList.length ∧ s.toList.length ≤ 35)
    (hdc : B58.decode s = some dc) (hlen : dc.length = 25) (hpfx : dc.take 1 = pfx)
    (hcs : (dsha (dc.take 21)).take 4 = dc.drop 21) :
    isAddressValid dsha pfx s = .ok true := by
  unfold isAddressValid
  simp only [ha, hdc]
  have hw' : ¬ (s.toList.length < 26 ∨ s.toList.length > 35) := by omega
  simp [hw', hlen, hpfx, hcs]

/-- every character the encoder emits is in the alphabet -/
theorem charOf_mem (d : Nat) (h : d < 58) : B58.alphabet.contains (B58.charOf d) = true := by
  have key : ∀ d : Fin 58, B58.alphabet.contains (B58.charOf d) = true := by decide
  exact key ⟨d, h⟩

theorem encode_all_alphabet (b : Bytes) :
    (B58.encode b).toList.all (fun c => B58.alphabet.contains c) = true := by
  unfold B58.encode
  rw [String.toList_ofList, List.all_eq_true]
  intro c hc
  obtain ⟨d, hd, rfl⟩ := List.mem_map.mp hc
  exact charOf_mem d (Base58Lemmas.encodeDigits_lt b d hd)

end AddressLemmas
