import BU.Proofs.Primes
import BU.Proofs.CurveLawsProof
/-! `Spec.CurveLaws` holds of the executable secp256k1 arithmetic: the field prime and the group order are prime
(Pratt certificates checked by the kernel through `lucas_primality`), `Secp.add` is Mathlib's Weierstrass group law
on y² = x³ + 7 over `ZMod p`, `n·G = 0` by kernel evaluation.  No hypothesis is left. -/
namespace CurveLawsFinal

theorem curveLaws : Spec.CurveLaws := CurveLawsProof.curveLaws Primes.p_prime Primes.n_prime

end CurveLawsFinal
