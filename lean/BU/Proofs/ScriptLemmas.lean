import BU.Py
import BU.Spec.Script
import BU.Spec.Disasm
import BU.Model.Script
/-!
Helper lemmas for C02 (script assembly / disassembly): association-list lookups, facts about the
consensus opcode table, and the per-push behaviour of `Model.scriptFromRaw` on a minimal push.
-/
namespace ScriptLemmas
open Py Spec Model

/-! ### association lists -/

theorem lookup_some_mem {α β : Type} [BEq α] [LawfulBEq α] {l : List (α × β)} {k : α} {v : β}
    (h : l.lookup k = some v) : (k, v) ∈ l := by
  induction l with
  | nil => simp at h
  | cons p ps ih =>
    obtain ⟨a, b⟩ := p
    by_cases hk : (k == a) = true
    · simp only [List.lookup, hk] at h
      have := eq_of_beq hk
      subst this
      simp at h
      subst h
      simp
    · have hk' : (k == a) = false := by simpa using hk
      simp only [List.lookup, hk'] at h
      exact List.mem_cons_of_mem _ (ih h)

/-! ### the consensus table -/

/-- no consensus opcode name denotes a direct-push length byte -/
theorem consensus_no_direct : consensusOpcodes.all (fun p => !(1 ≤ p.2.toNat && p.2.toNat ≤ 0x4b)) = true := by
  decide +kernel

/-- the three PUSHDATA bytes have exactly one name each -/
theorem consensus_pushdata : consensusOpcodes.all (fun p =>
    !(p.2 == 0x4c || p.2 == 0x4d || p.2 == 0x4e) ||
      ["OP_PUSHDATA1", "OP_PUSHDATA2", "OP_PUSHDATA4"].contains p.1) = true := by
  decide +kernel

theorem opcodeByte_not_direct {name : String} {b : UInt8} (h : opcodeByte? name = some b) :
    ¬ (1 ≤ b.toNat ∧ b.toNat ≤ 0x4b) := by
  have hm := lookup_some_mem h
  have := List.all_eq_true.1 consensus_no_direct _ hm
  simp at this
  omega

theorem opcodeByte_pushdata {name : String} {b : UInt8} (h : opcodeByte? name = some b)
    (hb : b = 0x4c ∨ b = 0x4d ∨ b = 0x4e) :
    ["OP_PUSHDATA1", "OP_PUSHDATA2", "OP_PUSHDATA4"].contains name = true := by
  have hm := lookup_some_mem h
  have := List.all_eq_true.1 consensus_pushdata _ hm
  simp only [Bool.or_eq_true, Bool.not_eq_true'] at this
  rcases this with h1 | h2
  · rcases hb with rfl | rfl | rfl <;> simp at h1
  · exact h2

/-! ### script numbers -/

theorem natBits_pos' {n : Nat} (h : 0 < n) : 0 < natBits n := by
  cases n with
  | zero => omega
  | succ q => rw [natBits]; omega

theorem scriptNum_ne_nil {k : Nat} (hk : 0 < k) : scriptNum k ≠ [] := by
  have hb : 0 < byteLen k := by
    have := natBits_pos' hk
    unfold byteLen; omega
  have hl : (leBytes (byteLen k) k).length ≠ 0 := by rw [leBytes_length]; omega
  have hne : leBytes (byteLen k) k ≠ [] := by
    intro h; rw [h] at hl; simp at hl
  unfold scriptNum
  have hk0 : k ≠ 0 := by omega
  simp only [hk0, if_false]
  split
  · simp
  · exact hne

/-! ### `scriptFromRaw` on one push -/

/-- a one-byte opcode other than the PUSHDATA bytes -/
theorem fromRaw_op (T : Tables) (seg : Bool) (b : UInt8) (nm : String) (rest : Bytes)
    (hl : T.codeOps.lookup [b] = some nm) (h1 : b ≠ 0x4c) (h2 : b ≠ 0x4d) (h3 : b ≠ 0x4e) :
    scriptFromRaw T seg (b :: rest) = .op nm :: scriptFromRaw T seg rest := by
  rw [scriptFromRaw]
  simp only [hl, h1, h2, h3, if_false]

/-- a direct push (length byte 1..75) -/
theorem fromRaw_direct (T : Tables) (seg : Bool) (d rest : Bytes) (h1 : 1 ≤ d.length) (h2 : d.length ≤ 75)
    (hn : T.codeOps.lookup [UInt8.ofNat d.length] = none) :
    scriptFromRaw T seg (UInt8.ofNat d.length :: (d ++ rest)) = .data d :: scriptFromRaw T seg rest := by
  rw [scriptFromRaw]
  have e : (UInt8.ofNat d.length).toNat = d.length := by simp [UInt8.toNat_ofNat']; omega
  have hv : viToInt ((UInt8.ofNat d.length :: (d ++ rest)).take 8) = (d.length, 1) := by
    have : d.length < 253 := by omega
    simp [viToInt, e, this]
  simp only [hn, hv]
  simp

theorem fromRaw_pushdata1 (T : Tables) (seg : Bool) (d rest : Bytes) (h2 : d.length ≤ 255)
    (hs : (T.codeOps.lookup [0x4c]).isSome = true) :
    scriptFromRaw T seg (0x4c :: UInt8.ofNat d.length :: (d ++ rest)) = .data d :: scriptFromRaw T seg rest := by
  rw [scriptFromRaw]
  obtain ⟨nm, hnm⟩ := Option.isSome_iff_exists.1 hs
  have e : (UInt8.ofNat d.length).toNat = d.length := by simp [UInt8.toNat_ofNat']; omega
  have hc : 1 + d.length = d.length + 1 := by omega
  simp only [hnm, if_true]
  simp [ofLE, e, hc]

theorem fromRaw_pushdata2 (T : Tables) (seg : Bool) (d rest : Bytes) (h2 : d.length < 256 ^ 2)
    (hs : (T.codeOps.lookup [0x4d]).isSome = true) :
    scriptFromRaw T seg (0x4d :: (leBytes 2 d.length ++ d ++ rest)) = .data d :: scriptFromRaw T seg rest := by
  rw [scriptFromRaw]
  obtain ⟨nm, hnm⟩ := Option.isSome_iff_exists.1 hs
  have e := ofLE_leBytes 2 d.length h2
  have hne : ¬ ((0x4d : UInt8) = 0x4c) := by decide
  have ht : (leBytes 2 d.length ++ d ++ rest).take 2 = leBytes 2 d.length := by
    rw [List.append_assoc, List.take_left' (leBytes_length _ _)]
  have hd : ∀ k, (leBytes 2 d.length ++ d ++ rest).drop (2 + k) = (d ++ rest).drop k := by
    intro k
    rw [List.append_assoc, ← List.drop_drop, List.drop_left' (leBytes_length _ _)]
  have hd0 := hd 0
  simp only [Nat.add_zero] at hd0
  simp only [hnm, hne, if_true, if_false, ht, e, hd, hd0, List.drop_zero]
  simp

theorem fromRaw_pushdata4 (T : Tables) (seg : Bool) (d rest : Bytes) (h2 : d.length < 256 ^ 4)
    (hs : (T.codeOps.lookup [0x4e]).isSome = true) :
    scriptFromRaw T seg (0x4e :: (leBytes 4 d.length ++ d ++ rest)) = .data d :: scriptFromRaw T seg rest := by
  rw [scriptFromRaw]
  obtain ⟨nm, hnm⟩ := Option.isSome_iff_exists.1 hs
  have e := ofLE_leBytes 4 d.length h2
  have hne : ¬ ((0x4e : UInt8) = 0x4c) := by decide
  have hne' : ¬ ((0x4e : UInt8) = 0x4d) := by decide
  have ht : (leBytes 4 d.length ++ d ++ rest).take 4 = leBytes 4 d.length := by
    rw [List.append_assoc, List.take_left' (leBytes_length _ _)]
  have hd : ∀ k, (leBytes 4 d.length ++ d ++ rest).drop (4 + k) = (d ++ rest).drop k := by
    intro k
    rw [List.append_assoc, ← List.drop_drop, List.drop_left' (leBytes_length _ _)]
  have hd0 := hd 0
  simp only [Nat.add_zero] at hd0
  simp only [hnm, hne, hne', if_true, if_false, ht, e, hd, hd0, List.drop_zero]
  simp

/-- disassembling the minimal push of non-empty data returns the data -/
theorem fromRaw_minimalPush (T : Tables) (seg : Bool) (d rest : Bytes) (h0 : d ≠ []) (hlen : d.length < 2 ^ 32)
    (hdirect : ∀ n, 1 ≤ n → n ≤ 75 → T.codeOps.lookup [UInt8.ofNat n] = none)
    (h4c : (T.codeOps.lookup [0x4c]).isSome = true) (h4d : (T.codeOps.lookup [0x4d]).isSome = true)
    (h4e : (T.codeOps.lookup [0x4e]).isSome = true) :
    scriptFromRaw T seg (minimalPush d ++ rest) = .data d :: scriptFromRaw T seg rest := by
  have hpos : 1 ≤ d.length := by
    cases d with
    | nil => exact absurd rfl h0
    | cons x xs => simp
  unfold minimalPush
  by_cases c1 : d.length ≤ 75
  · simp only [c1, if_true, List.cons_append]
    exact fromRaw_direct T seg d rest hpos c1 (hdirect _ hpos c1)
  · by_cases c2 : d.length ≤ 255
    · simp only [c1, c2, if_true, if_false, List.cons_append]
      exact fromRaw_pushdata1 T seg d rest c2 h4c
    · by_cases c3 : d.length ≤ 65535
      · simp only [c1, c2, c3, if_true, if_false, List.cons_append]
        exact fromRaw_pushdata2 T seg d rest (by omega) h4d
      · simp only [c1, c2, c3, if_false, List.cons_append]
        exact fromRaw_pushdata4 T seg d rest (by omega) h4e

end ScriptLemmas
