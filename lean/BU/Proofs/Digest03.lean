import BU.Py
import BU.Spec.Sighash
import BU.Model.Digest
import BU.Properties.C01
/-!
Helper lemmas for C03 (legacy signature hash): the temporaries of `Model.legacyDigest` in closed
form (as maps over `List.range`), their serialisation, and the match with `Spec.legacyInput` /
`Spec.legacyOutput`.
-/
namespace Digest03
open Py Spec Model TxLemmas

/-! ### generic list facts -/

theorem eq_range_map {α : Type} [Inhabited α] (l : List α) :
    l = (List.range l.length).map (fun k => l.getD k default) := by
  apply List.ext_getElem
  · simp
  · intro k h1 h2
    simp [List.getD_eq_getElem?_getD, List.getElem?_eq_getElem h1]

theorem getD_map_lt {α β : Type} [Inhabited α] [Inhabited β] (f : α → β) (l : List α) (k : Nat)
    (h : k < l.length) : (l.map f).getD k default = f (l.getD k default) := by
  simp [List.getD_eq_getElem?_getD, List.getElem?_eq_getElem h]

theorem flatMap_range_const {α : Type} (f : Nat → List α) (b : List α) (n : Nat) (h : ∀ k, k < n → f k = b) :
    (List.range n).flatMap f = (List.replicate n ()).flatMap (fun _ => b) := by
  induction n with
  | zero => simp
  | succ n ih =>
    rw [List.range_succ, List.flatMap_append, ih (fun k hk => h k (by omega)), List.replicate_succ',
      List.flatMap_append]
    simp [h n (by omega)]

theorem concatM_append (a b : List (Except PyErr Bytes)) (x y : Bytes) (ha : concatM a = .ok x)
    (hb : concatM b = .ok y) : concatM (a ++ b) = .ok (x ++ y) := by
  induction a generalizing x with
  | nil =>
    simp only [concatM] at ha
    obtain rfl := Except.ok.inj ha
    simpa using hb
  | cons u a ih =>
    simp only [concatM, List.cons_append] at ha ⊢
    cases u with
    | error e => simp [bind, Except.bind] at ha
    | ok u =>
      cases hr : concatM a with
      | error e => simp [hr, bind, Except.bind] at ha
      | ok r =>
        simp only [hr, bind, Except.bind, pure, Except.pure] at ha
        obtain rfl := Except.ok.inj ha
        simp only [ih r hr, bind, Except.bind, pure, Except.pure, List.append_assoc]

theorem concatM_replicate (b : Bytes) (n : Nat) :
    concatM (List.replicate n (Except.ok b)) = .ok ((List.replicate n ()).flatMap (fun _ => b)) := by
  induction n with
  | zero => simp [concatM]
  | succ n ih =>
    simp only [List.replicate_succ, concatM, List.flatMap_cons, ih, bind, Except.bind, pure, Except.pure]

/-! ### `struct.pack` instances -/

theorem pack_i (ht : Nat) (h : ht < 256) : Py.pack "<i" (ht : Int) = .ok (leBytes 4 ht) := by
  have e : Py.pack "<i" (ht : Int) = packS 4 ht := rfl
  rw [e]
  unfold packS
  have a : -((256 ^ 4 / 2 : Nat) : Int) ≤ (ht : Int) ∧ (ht : Int) < ((256 ^ 4 / 2 : Nat) : Int) := by
    constructor <;> omega
  have b : ((ht : Int) % ((256 ^ 4 : Nat) : Int)).toNat = ht := by omega
  simp only [a, and_self, if_true, b]

/-- the "null" output the code puts before the signed one under SIGHASH_SINGLE -/
def filler : TxOut := { amount := -1, script := [] }

theorem filler_bytes (T : Tables) : TxOut.toBytes T filler = .ok (List.replicate 8 0xff ++ [0x00]) := by
  have e : Py.pack "<q" (-1) = .ok (List.replicate 8 0xff) := by
    have e' : Py.pack "<q" (-1) = packS 8 (-1) := rfl
    rw [e']
    unfold packS
    rw [if_pos (by decide)]
    exact congrArg Except.ok (by decide)
  unfold TxOut.toBytes
  simp only [filler, e, scriptBytes, bind, Except.bind, pure, Except.pure]
  exact congrArg Except.ok (by decide)

/-! ### the temporary inputs in closed form -/

/-- the input at position `k` of the temporary transaction: scriptSig blanked or replaced by the script
code, sequence zeroed when `z` (NONE / SINGLE) and `k` is not the signed input -/
def tmpIn (code : List Tok) (i : Nat) (z : Bool) (k : Nat) (x : TxIn) : TxIn :=
  { txid := x.txid, index := x.index, scriptSig := if k = i then code else [],
    sequence := if k ≠ i ∧ z = true then [0, 0, 0, 0] else x.sequence }

theorem ins1_eq (l : List TxIn) (i : Nat) (code : List Tok) (x : TxIn)
    (hx : (l.map fun x => { x with scriptSig := [] })[i]? = some x) :
    (l.map fun x => { x with scriptSig := [] }).set i { x with scriptSig := code } =
      (List.range l.length).map (fun k => tmpIn code i false k (l.getD k default)) := by
  apply List.ext_getElem
  · simp
  · intro k h1 h2
    have hk1 : k < l.length := by simpa using h1
    simp only [List.getElem?_map, Option.map_eq_some_iff] at hx
    obtain ⟨y, hy, rfl⟩ := hx
    obtain ⟨hi, rfl⟩ := List.getElem?_eq_some_iff.mp hy
    have hd : l.getD k default = l[k] := by
      simp [List.getD_eq_getElem?_getD, List.getElem?_eq_getElem hk1]
    simp only [List.getElem_set, List.getElem_map, List.getElem_range, hd, tmpIn]
    by_cases hk : i = k
    · subst hk
      simp
    · have hk' : ¬ k = i := fun h => hk h.symm
      simp [hk, hk']

theorem ins2_eq (l : List TxIn) (i : Nat) (code : List Tok) :
    zeroOtherSequences ((List.range l.length).map (fun k => tmpIn code i false k (l.getD k default))) i =
      (List.range l.length).map (fun k => tmpIn code i true k (l.getD k default)) := by
  unfold zeroOtherSequences
  apply List.ext_getElem
  · simp
  · intro k h1 h2
    simp only [List.getElem_mapIdx, List.getElem_map, List.getElem_range, tmpIn]
    by_cases hk : k = i <;> simp [hk]

/-! ### serialising the temporaries -/

theorem toBytes_tmpIn (T : Tables) (code : List Tok) (c : Bytes) (hc : scriptBytes T code = .ok c)
    (i : Nat) (z : Bool) (k : Nat) (x : TxIn) (hz : x.txid ≠ zero32) (h0 : 0 ≤ x.index) (h1 : x.index < 2 ^ 32) :
    TxIn.toBytes T (tmpIn code i z k x) =
      .ok (x.txid.reverse ++ leBytes 4 x.index.toNat ++ (if k = i then withLen c else [0x00]) ++
        (if k ≠ i ∧ z = true then [0, 0, 0, 0] else x.sequence)) := by
  unfold TxIn.toBytes
  simp only [tmpIn]
  rw [pack_L x.index h0 h1]
  by_cases hk : k = i
  · simp [hk, hz, hc, withLen, bind, Except.bind, pure, Except.pure]
  · simp [hk, hz, scriptBytes, compactSize, bind, Except.bind, pure, Except.pure]

/-- position `k` of the temporary transaction serialises to the consensus `SerializeInput` -/
theorem toBytes_tmpIn_spec (T : Tables) (code : List Tok) (c : Bytes) (hc : scriptBytes T code = .ok c)
    (l : List TxIn) (hl : ∀ x ∈ l, x.txid ≠ zero32 ∧ 0 ≤ x.index ∧ x.index < 2 ^ 32)
    (i ht : Nat) (k : Nat) (hk : k < l.length) :
    TxIn.toBytes T (tmpIn code i (decide (ht &&& 0x1f = 2 ∨ ht &&& 0x1f = 3)) k (l.getD k default)) =
      .ok (legacyInput (l.map (C01.rawIn T)) i c ht k) := by
  have hm : l.getD k default ∈ l := by
    simp [List.getD_eq_getElem?_getD, List.getElem?_eq_getElem hk]
  obtain ⟨hz, h0, h1⟩ := hl _ hm
  rw [toBytes_tmpIn T code c hc i _ k _ hz h0 h1]
  unfold legacyInput
  simp only [getD_map_lt (C01.rawIn T) l k hk, outpoint, C01.rawIn, decide_eq_true_eq, zeros]
  rfl

/-! ### outputs -/

theorem outs_all (T : Tables) (l : List TxOut) (hl : ∀ o ∈ l, TxOut.toBytes T o = .ok (encOut (C01.rawOut T o)))
    (i ht : Nat) (hb : ht &&& 0x1f ≠ 3) :
    concatM (l.map (TxOut.toBytes T)) =
      .ok ((List.range l.length).flatMap (legacyOutput (l.map (C01.rawOut T)) i ht)) := by
  have e : l.map (TxOut.toBytes T) =
      (List.range l.length).map (fun k => TxOut.toBytes T (l.getD k default)) := by
    conv => lhs; rw [eq_range_map l]
    rw [List.map_map]
    rfl
  rw [e]
  apply concatM_map
  intro k hk
  have hk' : k < l.length := by simpa using hk
  have hm : l.getD k default ∈ l := by
    simp [List.getD_eq_getElem?_getD, List.getElem?_eq_getElem hk']
  rw [hl _ hm]
  unfold legacyOutput
  simp only [hb, false_and, if_false, getD_map_lt (C01.rawOut T) l k hk']

theorem outs_single (T : Tables) (l : List TxOut) (i ht : Nat) (hb : ht &&& 0x1f = 3) (o : TxOut)
    (ho : l[i]? = some o) (hl : TxOut.toBytes T o = .ok (encOut (C01.rawOut T o))) :
    concatM ((List.replicate i ({ amount := -1, script := [] } : TxOut) ++ [o]).map (TxOut.toBytes T)) =
      .ok ((List.range (i + 1)).flatMap (legacyOutput (l.map (C01.rawOut T)) i ht)) := by
  obtain ⟨hi, rfl⟩ := List.getElem?_eq_some_iff.mp ho
  rw [List.map_append, List.range_succ, List.flatMap_append]
  apply concatM_append
  · rw [flatMap_range_const (legacyOutput (l.map (C01.rawOut T)) i ht) (List.replicate 8 0xff ++ [0x00]) i]
    · rw [List.map_replicate]
      have := filler_bytes T
      unfold filler at this
      rw [this]
      exact concatM_replicate _ i
    · intro k hk
      unfold legacyOutput
      have : k ≠ i := by omega
      simp [hb, this]
  · simp only [List.map_cons, List.map_nil, concatM, hl, bind, Except.bind, pure, Except.pure,
      List.flatMap_cons, List.flatMap_nil, List.append_nil]
    unfold legacyOutput
    simp only [ne_eq, not_true_eq_false, and_false, if_false, getD_map_lt (C01.rawOut T) l i hi]
    simp [List.getD_eq_getElem?_getD, List.getElem?_eq_getElem hi]

/-! ### the last steps of the model -/

/-- `to_bytes(False)` as a function of the four fields it reads -/
def serNoWit (T : Tables) (v : Bytes) (ins : List TxIn) (outs : List TxOut) (lt : Bytes) : Except PyErr Bytes := do
  let i ← concatM (ins.map (TxIn.toBytes T))
  let o ← concatM (outs.map (TxOut.toBytes T))
  pure (v ++ [] ++ compactSize ins.length ++ i ++ compactSize outs.length ++ o ++ [] ++ lt)

/-- without the witness section the serialisation ignores `hasSegwit` and `witnesses` -/
theorem toBytes_false (T : Tables) (t : Tx) :
    t.toBytes T false = serNoWit T t.version t.inputs t.outputs t.locktime := rfl

theorem finish (sha256 : Bytes → Bytes) (T : Tables) (t : Tx) (ins3 : List TxIn) (outs : List TxOut)
    (insB outsB : Bytes) (ht : Nat) (hht : ht < 256)
    (h1 : concatM (ins3.map (TxIn.toBytes T)) = .ok insB)
    (h2 : concatM (outs.map (TxOut.toBytes T)) = .ok outsB) :
    (do
      let ser ← ({ t with inputs := ins3, outputs := outs } : Tx).toBytes T false
      let htb ← Py.pack "<i" (ht : Int)
      pure (sha256 (sha256 (ser ++ htb))) : Except PyErr Bytes) =
    .ok (sha256 (sha256 (t.version ++ compactSize ins3.length ++ insB ++ compactSize outs.length ++ outsB ++
      t.locktime ++ leBytes 4 ht))) := by
  rw [pack_i ht hht]
  unfold Tx.toBytes
  simp only [h1, h2, bind, Except.bind, pure, Except.pure, Bool.false_eq_true, if_false,
    List.append_nil, List.append_assoc]

/-- from the closed form of the inputs (before the ANYONECANPAY cut) and the serialised outputs to the
digest over the consensus input section -/
theorem finish2 (sha256 : Bytes → Bytes) (T : Tables) (t : Tx) (code : List Tok) (c : Bytes)
    (hc : scriptBytes T code = .ok c)
    (hl : ∀ x ∈ t.inputs, x.txid ≠ zero32 ∧ 0 ≤ x.index ∧ x.index < 2 ^ 32)
    (i : Nat) (hi : i < t.inputs.length) (ht : Nat) (hht : ht < 256)
    (z : Bool) (hz : z = decide (ht &&& 0x1f = 2 ∨ ht &&& 0x1f = 3))
    (outs : List TxOut) (outsB : Bytes) (h2 : concatM (outs.map (TxOut.toBytes T)) = .ok outsB) :
    (do
      let ser ← ({ t with
        inputs :=
          if ht &&& 0x80 ≠ 0 then
            (match ((List.range t.inputs.length).map (fun k =>
                tmpIn code i z k (t.inputs.getD k default)))[i]? with
             | some y => [y]
             | none => [])
          else (List.range t.inputs.length).map (fun k =>
            tmpIn code i z k (t.inputs.getD k default)),
        outputs := outs } : Tx).toBytes T false
      let htb ← Py.pack "<i" (ht : Int)
      pure (sha256 (sha256 (ser ++ htb))) : Except PyErr Bytes) =
    .ok (sha256 (sha256 (t.version ++
      compactSize (if ht &&& 0x80 ≠ 0 then 1 else t.inputs.length) ++
      (List.range (if ht &&& 0x80 ≠ 0 then 1 else t.inputs.length)).flatMap
        (fun k => legacyInput (t.inputs.map (C01.rawIn T)) i c ht (if ht &&& 0x80 ≠ 0 then i else k)) ++
      compactSize outs.length ++ outsB ++ t.locktime ++ leBytes 4 ht))) := by
  subst hz
  by_cases ha : ht &&& 0x80 ≠ 0
  · simp only [if_pos ha]
    have e : ((List.range t.inputs.length).map (fun k =>
        tmpIn code i (decide (ht &&& 0x1f = 2 ∨ ht &&& 0x1f = 3)) k (t.inputs.getD k default)))[i]? =
        some (tmpIn code i (decide (ht &&& 0x1f = 2 ∨ ht &&& 0x1f = 3)) i (t.inputs.getD i default)) := by
      simp [hi]
    rw [e]
    have h1 : concatM ([tmpIn code i (decide (ht &&& 0x1f = 2 ∨ ht &&& 0x1f = 3)) i
        (t.inputs.getD i default)].map (TxIn.toBytes T)) =
        .ok (legacyInput (t.inputs.map (C01.rawIn T)) i c ht i) := by
      simp only [List.map_cons, List.map_nil, concatM, toBytes_tmpIn_spec T code c hc t.inputs hl i ht i hi,
        bind, Except.bind, pure, Except.pure, List.append_nil]
    rw [finish sha256 T t _ outs _ outsB ht hht h1 h2]
    simp
  · simp only [if_neg ha]
    have h1 : concatM (((List.range t.inputs.length).map (fun k =>
        tmpIn code i (decide (ht &&& 0x1f = 2 ∨ ht &&& 0x1f = 3)) k (t.inputs.getD k default))).map
          (TxIn.toBytes T)) =
        .ok ((List.range t.inputs.length).flatMap (legacyInput (t.inputs.map (C01.rawIn T)) i c ht)) := by
      rw [List.map_map]
      apply concatM_map
      intro k hk
      exact toBytes_tmpIn_spec T code c hc t.inputs hl i ht k (by simpa using hk)
    rw [finish sha256 T t _ outs _ outsB ht hht h1 h2]
    simp

end Digest03
