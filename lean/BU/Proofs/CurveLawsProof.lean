import BU.Crypto.Secp256k1
import BU.Spec.CurveLaws
import BU.Proofs.KeyLemmas
import BU.Proofs.CurveOrder
import Mathlib.AlgebraicGeometry.EllipticCurve.Affine.Point
import Mathlib.FieldTheory.Finite.Basic
import Mathlib.Data.ZMod.Basic
import Mathlib.GroupTheory.OrderOfElement
import Mathlib.Tactic.Ring
import Mathlib.Tactic.FieldSimp
import Mathlib.Tactic.LinearCombination
/-! Discharge of `Spec.CurveLaws`: the executable secp256k1 arithmetic `Secp.add/mul/neg/liftX/onCurve/invN`
is connected to Mathlib's group law on the nonsingular points of the Weierstrass curve `y² = x³ + 7` over
`ZMod p`.  Primality of `p` and `n` are hypotheses (proved separately in `BU/Proofs/Primes.lean`).
The two kernel-evaluated facts (`n·G = 0`, `-7` is not a cube mod `p`) live in `BU/Proofs/CurveOrder.lean`. -/
namespace CurveLawsProof
open Secp KeyLemmas WeierstrassCurve.Affine

/-- the base field -/
abbrev F := ZMod Secp.p

section Field
variable [Fact (Nat.Prime Secp.p)]

/-! ### field bridge -/

theorem cast_inj {a b : ℕ} (ha : a < p) (hb : b < p) (h : (a : F) = (b : F)) : a = b := by
  rw [ZMod.natCast_eq_natCast_iff', Nat.mod_eq_of_lt ha, Nat.mod_eq_of_lt hb] at h
  exact h

theorem natCast_ne_zero {k : ℕ} (h0 : 0 < k) (hk : k < p) : (k : F) ≠ 0 := by
  rw [Ne, ZMod.natCast_eq_zero_iff]
  exact Nat.not_dvd_of_pos_of_lt h0 hk

theorem two_ne : (2 : F) ≠ 0 := by
  have := natCast_ne_zero (k := 2) (by decide) (by decide)
  simpa using this

theorem three_ne : (3 : F) ≠ 0 := by
  have := natCast_ne_zero (k := 3) (by decide) (by decide)
  simpa using this

theorem seven_ne : (7 : F) ≠ 0 := by
  have := natCast_ne_zero (k := 7) (by decide) (by decide)
  simpa using this

omit [Fact (Nat.Prime Secp.p)] in
theorem subMod_lt (a b : ℕ) : subMod a b p < p := Nat.mod_lt _ p_pos

theorem cast_subMod (a b : ℕ) : ((subMod a b p : ℕ) : F) = (a : F) - (b : F) := by
  unfold subMod
  rw [ZMod.natCast_mod, Nat.cast_add, ZMod.natCast_mod,
    Nat.cast_sub (Nat.le_of_lt (Nat.mod_lt _ p_pos)), ZMod.natCast_self, ZMod.natCast_mod]
  ring

theorem cast_powMod (b e : ℕ) : ((powMod b e p : ℕ) : F) = (b : F) ^ e := by
  rw [powMod_eq _ _ _ p_pos, ZMod.natCast_mod, Nat.cast_pow]

theorem cast_powMod_inv (a : ℕ) : ((powMod a (p - 2) p : ℕ) : F) = (a : F)⁻¹ := by
  rw [cast_powMod]
  by_cases h : (a : F) = 0
  · rw [h, inv_zero, zero_pow]
    decide
  · apply eq_inv_of_mul_eq_one_left
    rw [← pow_succ]
    have e : p - 2 + 1 = p - 1 := by decide
    rw [e]
    exact ZMod.pow_card_sub_one_eq_one h

theorem cast_p_sub (y : ℕ) (hy : y ≤ p) : ((p - y : ℕ) : F) = -(y : F) := by
  rw [Nat.cast_sub hy, ZMod.natCast_self, zero_sub]

/-! ### the curve `y² = x³ + 7` -/

/-- secp256k1 as a Weierstrass curve over `ZMod p` -/
def W : WeierstrassCurve.Affine F := { a₁ := 0, a₂ := 0, a₃ := 0, a₄ := 0, a₆ := 7 }

@[simp] theorem W_a₁ : W.a₁ = 0 := rfl
@[simp] theorem W_a₂ : W.a₂ = 0 := rfl
@[simp] theorem W_a₃ : W.a₃ = 0 := rfl
@[simp] theorem W_a₄ : W.a₄ = 0 := rfl
@[simp] theorem W_a₆ : W.a₆ = 7 := rfl

theorem equation_iff7 (x y : F) : W.Equation x y ↔ y ^ 2 = x ^ 3 + 7 := by
  rw [WeierstrassCurve.Affine.equation_iff]
  simp

theorem negY_eq (x y : F) : W.negY x y = -y := by
  simp [negY]

/-- `-7` is not a cube: there is no point with `y = 0` -/
theorem not_equation_zero (x : F) : ¬ W.Equation x 0 := by
  intro h
  rw [equation_iff7] at h
  have hx3 : x ^ 3 = -7 := by linear_combination -h
  have hx : x ≠ 0 := by
    rintro rfl
    apply seven_ne
    linear_combination hx3
  have h1 : x ^ (p - 1) = 1 := ZMod.pow_card_sub_one_eq_one hx
  have e : p - 1 = 3 * ((p - 1) / 3) := by decide
  rw [e, pow_mul, hx3] at h1
  have hc : ((p - 7 : ℕ) : F) = -7 := by
    rw [cast_p_sub 7 (by decide)]; simp
  have h2 : ((powMod (p - 7) ((p - 1) / 3) p : ℕ) : F) = ((1 : ℕ) : F) := by
    rw [cast_powMod, hc, h1, Nat.cast_one]
  exact neg7_not_cube (cast_inj (powMod_lt _ _ _ p_pos) (by decide) h2)

theorem nonsingular_of_equation {x y : F} (h : W.Equation x y) : W.Nonsingular x y := by
  rw [WeierstrassCurve.Affine.nonsingular_iff]
  refine ⟨h, Or.inr ?_⟩
  simp only [W_a₁, W_a₃, zero_mul, sub_zero]
  intro h2
  have h3 : 2 * y = 0 := by linear_combination h2
  rcases mul_eq_zero.mp h3 with h4 | h4
  · exact two_ne h4
  · subst h4; exact not_equation_zero x h

theorem onCurve_iff (x y : ℕ) :
    onCurve (some (x, y)) = true ↔ x < p ∧ y < p ∧ W.Equation (x : F) (y : F) := by
  have e : (y * y % p = (x * x * x + 7) % p) ↔ ((y : F) ^ 2 = (x : F) ^ 3 + 7) := by
    rw [← ZMod.natCast_eq_natCast_iff']
    push_cast
    constructor <;> intro h <;> linear_combination h
  rw [equation_iff7, ← e]
  simp only [onCurve, Bool.and_eq_true, decide_eq_true_eq, beq_iff_eq, and_assoc]

theorem y_pos_of_onCurve {x y : ℕ} (h : onCurve (some (x, y)) = true) : 0 < y := by
  rw [onCurve_iff] at h
  rcases Nat.eq_zero_or_pos y with h0 | h0
  · subst h0
    exact absurd (by simpa using h.2.2) (not_equation_zero (x : F))
  · exact h0

/-! ### points -/

open scoped Classical in
/-- the Mathlib point represented by an executable point (junk value `0` off the curve) -/
noncomputable def toPoint : Secp.Point → W.Point
  | none => 0
  | some (x, y) =>
    if h : W.Equation (x : F) (y : F) then Point.some _ _ (nonsingular_of_equation h) else 0

@[simp] theorem toPoint_none : toPoint none = 0 := rfl

theorem toPoint_eq {x y : ℕ} {X Y : F} (hx : (x : F) = X) (hy : (y : F) = Y) (h : W.Nonsingular X Y) :
    toPoint (some (x, y)) = Point.some X Y h := by
  subst hx hy
  simp only [toPoint]
  rw [dif_pos h.1]

theorem toPoint_some {x y : ℕ} (h : onCurve (some (x, y)) = true) :
    toPoint (some (x, y)) =
      Point.some (x : F) (y : F) (nonsingular_of_equation ((onCurve_iff x y).mp h).2.2) :=
  toPoint_eq rfl rfl _

theorem toPoint_inj {P Q : Secp.Point} (hP : onCurve P = true) (hQ : onCurve Q = true)
    (h : toPoint P = toPoint Q) : P = Q := by
  match P, Q with
  | none, none => rfl
  | none, some (x, y) =>
    rw [toPoint_some hQ, toPoint_none] at h
    exact absurd h.symm (Point.some_ne_zero _)
  | some (x, y), none =>
    rw [toPoint_some hP, toPoint_none] at h
    exact absurd h (Point.some_ne_zero _)
  | some (x1, y1), some (x2, y2) =>
    rw [toPoint_some hP, toPoint_some hQ, Point.some.injEq] at h
    rw [onCurve_iff] at hP hQ
    rw [cast_inj hP.1 hQ.1 h.1, cast_inj hP.2.1 hQ.2.1 h.2]

/-! ### addition -/

/-- the common tail of `Secp.add`, given that the computed slope `lam` is Mathlib's slope -/
theorem add_generic (x1 y1 x2 y2 lam : ℕ) (e1 : W.Equation (x1 : F) (y1 : F))
    (e2 : W.Equation (x2 : F) (y2 : F))
    (hxy : ¬((x1 : F) = (x2 : F) ∧ (y1 : F) = W.negY (x2 : F) (y2 : F)))
    (hl : (lam : F) = W.slope (x1 : F) (x2 : F) (y1 : F) (y2 : F)) :
    onCurve (some (subMod (subMod (lam * lam) x1 p) x2 p,
        subMod (lam * subMod x1 (subMod (subMod (lam * lam) x1 p) x2 p) p) y1 p)) = true ∧
      toPoint (some (subMod (subMod (lam * lam) x1 p) x2 p,
        subMod (lam * subMod x1 (subMod (subMod (lam * lam) x1 p) x2 p) p) y1 p)) =
        toPoint (some (x1, y1)) + toPoint (some (x2, y2)) := by
  have h1 := nonsingular_of_equation e1
  have h2 := nonsingular_of_equation e2
  have h3 := nonsingular_add h1 h2 hxy
  have hx3 : ((subMod (subMod (lam * lam) x1 p) x2 p : ℕ) : F) =
      W.addX (x1 : F) (x2 : F) (W.slope (x1 : F) (x2 : F) (y1 : F) (y2 : F)) := by
    simp only [cast_subMod, Nat.cast_mul, hl, addX, W_a₁, W_a₂]
    ring
  have hy3 : ((subMod (lam * subMod x1 (subMod (subMod (lam * lam) x1 p) x2 p) p) y1 p : ℕ) : F) =
      W.addY (x1 : F) (x2 : F) (y1 : F) (W.slope (x1 : F) (x2 : F) (y1 : F) (y2 : F)) := by
    rw [cast_subMod, Nat.cast_mul, cast_subMod, hx3, hl]
    simp only [addY, negAddY, negY, W_a₁, W_a₃]
    ring
  constructor
  · rw [onCurve_iff, hx3, hy3]
    exact ⟨subMod_lt _ _, subMod_lt _ _, h3.1⟩
  · rw [toPoint_eq hx3 hy3 h3, toPoint_eq rfl rfl h1, toPoint_eq rfl rfl h2, Point.add_some hxy]

/-- `Secp.add` is the group law on curve points -/
theorem add_spec (P Q : Secp.Point) (hP : onCurve P = true) (hQ : onCurve Q = true) :
    onCurve (Secp.add P Q) = true ∧ toPoint (Secp.add P Q) = toPoint P + toPoint Q := by
  match P, Q with
  | none, Q => exact ⟨hQ, by simp [Secp.add]⟩
  | some (x1, y1), none => exact ⟨hP, by simp [Secp.add]⟩
  | some (x1, y1), some (x2, y2) =>
    have hP' := (onCurve_iff x1 y1).mp hP
    have hQ' := (onCurve_iff x2 y2).mp hQ
    obtain ⟨hx1, hy1, e1⟩ := hP'
    obtain ⟨hx2, hy2, e2⟩ := hQ'
    have h1 := nonsingular_of_equation e1
    have h2 := nonsingular_of_equation e2
    by_cases hx : x1 = x2
    · subst hx
      by_cases hy : y1 = y2
      · -- doubling
        subst hy
        have hy0 : (y1 : F) ≠ 0 := natCast_ne_zero (y_pos_of_onCurve hP) hy1
        have hne : (y1 : F) ≠ W.negY (x1 : F) (y1 : F) := by
          rw [negY_eq]
          intro h
          have h3 : 2 * (y1 : F) = 0 := by linear_combination h
          rcases mul_eq_zero.mp h3 with h4 | h4
          · exact two_ne h4
          · exact hy0 h4
        have hxy : ¬((x1 : F) = (x1 : F) ∧ (y1 : F) = W.negY (x1 : F) (y1 : F)) := fun h => hne h.2
        have hadd : Secp.add (some (x1, y1)) (some (x1, y1)) =
            some (subMod (subMod ((3 * x1 * x1 * powMod (2 * y1) (p - 2) p) % p *
                ((3 * x1 * x1 * powMod (2 * y1) (p - 2) p) % p)) x1 p) x1 p,
              subMod ((3 * x1 * x1 * powMod (2 * y1) (p - 2) p) % p *
                subMod x1 (subMod (subMod ((3 * x1 * x1 * powMod (2 * y1) (p - 2) p) % p *
                ((3 * x1 * x1 * powMod (2 * y1) (p - 2) p) % p)) x1 p) x1 p) p) y1 p) := by
          simp [Secp.add]
        rw [hadd]
        apply add_generic x1 y1 x1 y1 _ e1 e1 hxy
        rw [slope_of_Y_ne rfl hne, ZMod.natCast_mod, Nat.cast_mul, cast_powMod_inv, negY_eq]
        push_cast
        simp only [W_a₁, W_a₂, W_a₄]
        rw [div_eq_mul_inv]
        congr 1
        · ring
        · congr 1; ring
      · -- opposite points
        have hadd : Secp.add (some (x1, y1)) (some (x1, y2)) = none := by
          simp [Secp.add, hy]
        have hneg : (y1 : F) = W.negY (x1 : F) (y2 : F) := by
          rcases Y_eq_of_X_eq e1 e2 rfl with h | h
          · exact absurd (cast_inj hy1 hy2 h) hy
          · exact h
        rw [hadd, toPoint_eq rfl rfl h1, toPoint_eq rfl rfl h2, Point.add_of_Y_eq rfl hneg]
        exact ⟨rfl, rfl⟩
    · have hxF : (x1 : F) ≠ (x2 : F) := fun h => hx (cast_inj hx1 hx2 h)
      have hxy : ¬((x1 : F) = (x2 : F) ∧ (y1 : F) = W.negY (x2 : F) (y2 : F)) := fun h => hxF h.1
      have hadd : Secp.add (some (x1, y1)) (some (x2, y2)) =
          some (subMod (subMod ((subMod y2 y1 p * powMod (subMod x2 x1 p) (p - 2) p) % p *
              ((subMod y2 y1 p * powMod (subMod x2 x1 p) (p - 2) p) % p)) x1 p) x2 p,
            subMod ((subMod y2 y1 p * powMod (subMod x2 x1 p) (p - 2) p) % p *
              subMod x1 (subMod (subMod ((subMod y2 y1 p * powMod (subMod x2 x1 p) (p - 2) p) % p *
              ((subMod y2 y1 p * powMod (subMod x2 x1 p) (p - 2) p) % p)) x1 p) x2 p) p) y1 p) := by
        simp [Secp.add, hx]
      rw [hadd]
      apply add_generic x1 y1 x2 y2 _ e1 e2 hxy
      rw [slope_of_X_ne hxF, ZMod.natCast_mod, Nat.cast_mul, cast_powMod_inv, cast_subMod, cast_subMod]
      have ha : (x1 : F) - (x2 : F) ≠ 0 := sub_ne_zero.mpr hxF
      have hb : (x2 : F) - (x1 : F) ≠ 0 := sub_ne_zero.mpr (Ne.symm hxF)
      field_simp
      ring

/-! ### negation -/

theorem neg_spec (P : Secp.Point) (hP : onCurve P = true) :
    onCurve (Secp.neg P) = true ∧ toPoint (Secp.neg P) = -toPoint P := by
  match P with
  | none => exact ⟨rfl, by simp [Secp.neg]⟩
  | some (x, y) =>
    obtain ⟨hx, hy, e⟩ := (onCurve_iff x y).mp hP
    have h := nonsingular_of_equation e
    have hc : (((p - y) % p : ℕ) : F) = W.negY (x : F) (y : F) := by
      rw [ZMod.natCast_mod, cast_p_sub y (Nat.le_of_lt hy), negY_eq]
    have h' : W.Nonsingular (x : F) (W.negY (x : F) (y : F)) := (nonsingular_neg ..).mpr h
    have hn : Secp.neg (some (x, y)) = some (x, (p - y) % p) := rfl
    rw [hn]
    constructor
    · rw [onCurve_iff, hc]
      exact ⟨hx, Nat.mod_lt _ p_pos, h'.1⟩
    · rw [toPoint_eq rfl hc h', toPoint_eq rfl rfl h, Point.neg_some]

/-! ### scalar multiplication -/

theorem mulLoop_spec (f : ℕ) : ∀ (P : Secp.Point) (k : ℕ) (R : Secp.Point),
    onCurve P = true → onCurve R = true →
    onCurve (mulLoop f P k R) = true ∧
      toPoint (mulLoop f P k R) = toPoint R + (k % 2 ^ f) • toPoint P := by
  induction f with
  | zero =>
    intro P k R hP hR
    simp [mulLoop, hR, Nat.mod_one]
  | succ f ih =>
    intro P k R hP hR
    obtain ⟨hPP, ePP⟩ := add_spec P P hP hP
    have hR' : onCurve (if k % 2 = 1 then Secp.add R P else R) = true ∧
        toPoint (if k % 2 = 1 then Secp.add R P else R) = toPoint R + (k % 2) • toPoint P := by
      split
      · rename_i h
        rw [h, one_nsmul]
        exact add_spec R P hR hP
      · rename_i h
        have h0 : k % 2 = 0 := by omega
        rw [h0, zero_nsmul, add_zero]
        exact ⟨hR, rfl⟩
    obtain ⟨h1, h2⟩ := ih (Secp.add P P) (k / 2) _ hPP hR'.1
    rw [mulLoop]
    refine ⟨h1, ?_⟩
    rw [h2, hR'.2, ePP]
    have e : k % 2 ^ (f + 1) = k % 2 + (k / 2 % 2 ^ f) * 2 := by
      rw [pow_succ', Nat.mod_mul, Nat.mul_comm]
    rw [e, add_smul (k % 2), mul_smul, two_smul, add_assoc]

theorem mul_spec (P : Secp.Point) (k : ℕ) (hP : onCurve P = true) :
    onCurve (Secp.mul P k) = true ∧ toPoint (Secp.mul P k) = (k % 2 ^ 256) • toPoint P := by
  have h := mulLoop_spec 256 P k none hP rfl
  rw [toPoint_none, zero_add] at h
  exact h

/-! ### the generator -/

/-- the generator as a Mathlib point -/
noncomputable def g : W.Point := toPoint G

omit [Fact (Nat.Prime Secp.p)] in
theorem n_lt : n < 2 ^ 256 := by decide

theorem mulG_spec (k : ℕ) :
    onCurve (Secp.mul G k) = true ∧ toPoint (Secp.mul G k) = (k % 2 ^ 256) • g :=
  mul_spec G k onCurve_G

theorem mulG_spec' (k : ℕ) (hk : k < 2 ^ 256) :
    onCurve (Secp.mul G k) = true ∧ toPoint (Secp.mul G k) = k • g := by
  have h := mulG_spec k
  rw [Nat.mod_eq_of_lt hk] at h
  exact h

theorem n_smul_g : n • g = 0 := by
  have h := (mulG_spec' n n_lt).2
  rw [mul_G_n, toPoint_none] at h
  exact h.symm

theorem g_ne_zero : g ≠ 0 := by
  unfold g G
  rw [toPoint_some onCurve_G]
  exact Point.some_ne_zero _

section Order
variable [Fact (Nat.Prime Secp.n)]

theorem addOrderOf_g : addOrderOf g = n := addOrderOf_eq_prime n_smul_g g_ne_zero

theorem smul_g_eq_zero_iff (k : ℕ) : k • g = 0 ↔ n ∣ k := by
  rw [← addOrderOf_dvd_iff_nsmul_eq_zero, addOrderOf_g]

theorem mod_smul_g (k : ℕ) : (k % n) • g = k • g := by
  have h := mod_addOrderOf_nsmul g k
  rw [addOrderOf_g] at h
  exact h

end Order

/-! ### `lift_x` -/

theorem liftX_spec (x y : ℕ) (h : onCurve (some (x, y)) = true) :
    liftX x = some (x, if y % 2 = 0 then y else p - y) := by
  have hy0 := y_pos_of_onCurve h
  obtain ⟨hx, hy, e⟩ := (onCurve_iff x y).mp h
  rw [equation_iff7] at e
  have hyF : (y : F) ≠ 0 := natCast_ne_zero hy0 hy
  obtain ⟨ySq, hySq⟩ : ∃ ySq, ySq = (powMod x 3 p + 7) % p := ⟨_, rfl⟩
  obtain ⟨r, hr⟩ : ∃ r, r = powMod ySq ((p + 1) / 4) p := ⟨_, rfl⟩
  have hySqlt : ySq < p := by rw [hySq]; exact Nat.mod_lt _ p_pos
  have hrlt : r < p := by rw [hr]; exact powMod_lt _ _ _ p_pos
  have cySq : (ySq : F) = (y : F) ^ 2 := by
    rw [hySq, ZMod.natCast_mod, Nat.cast_add, cast_powMod, e]
    simp
  have crsq : (r : F) ^ 2 = (y : F) ^ 2 := by
    rw [hr, cast_powMod, cySq, ← pow_mul, ← pow_mul]
    have e2 : 2 * ((p + 1) / 4 * 2) = (p - 1) + 2 := by decide
    rw [e2, pow_add, ZMod.pow_card_sub_one_eq_one hyF, one_mul]
  have hchk : powMod r 2 p = ySq := by
    apply cast_inj (powMod_lt _ _ _ p_pos) hySqlt
    rw [cast_powMod, crsq, cySq]
  have hl : liftX x = some (x, if r % 2 = 0 then r else p - r) := by
    unfold liftX
    rw [if_neg (by omega)]
    dsimp only
    rw [← hySq, ← hr, if_neg (not_not.mpr hchk)]
  rw [hl]
  have hcases : (r : F) = (y : F) ∨ (r : F) = -(y : F) := by
    have h0 : ((r : F) - y) * ((r : F) + y) = 0 := by linear_combination crsq
    rcases mul_eq_zero.mp h0 with h1 | h1
    · left; linear_combination h1
    · right; linear_combination h1
  have hpo := p_odd
  rcases hcases with h1 | h1
  · rw [cast_inj hrlt hy h1]
  · have hry : r = p - y := by
      apply cast_inj hrlt (by omega)
      rw [h1, cast_p_sub y (Nat.le_of_lt hy)]
    rw [hry]
    congr 2
    split <;> split <;> omega

end Field

/-! ### inverses modulo `n` -/

theorem n_pos : 0 < n := by decide

theorem invN_spec [Fact (Nat.Prime Secp.n)] (a : ℕ) (h0 : 0 < a) (ha : a < n) :
    a * invN a % n = 1 := by
  have hn1 : 1 < n := by decide
  have ha0 : (a : ZMod n) ≠ 0 := by
    rw [Ne, ZMod.natCast_eq_zero_iff]
    exact Nat.not_dvd_of_pos_of_lt h0 ha
  have e : n - 2 + 1 = n - 1 := by decide
  have h : ((a * invN a : ℕ) : ZMod n) = ((1 : ℕ) : ZMod n) := by
    unfold invN
    rw [Nat.cast_mul, powMod_eq _ _ _ n_pos, ZMod.natCast_mod, Nat.cast_pow, ← pow_succ', e,
      ZMod.pow_card_sub_one_eq_one ha0, Nat.cast_one]
  rw [ZMod.natCast_eq_natCast_iff'] at h
  rw [h, Nat.mod_eq_of_lt hn1]

/-! ### the laws -/

theorem lt_of_lt_n {a : ℕ} (ha : a < n) : a < 2 ^ 256 := Nat.lt_trans ha n_lt
theorem mod_n_lt (a : ℕ) : a % n < 2 ^ 256 := lt_of_lt_n (Nat.mod_lt _ n_pos)

section Laws
variable [Fact (Nat.Prime Secp.p)] [Fact (Nat.Prime Secp.n)]


theorem mulG_mod (k : ℕ) (hk : k < 2 ^ 256) : mul G k = mul G (k % n) := by
  obtain ⟨c1, e1⟩ := mulG_spec' k hk
  obtain ⟨c2, e2⟩ := mulG_spec' (k % n) (mod_n_lt k)
  exact toPoint_inj c1 c2 (by rw [e1, e2, mod_smul_g])

theorem mulG_ne_none (k : ℕ) (h0 : 0 < k) (hk : k < n) : mul G k ≠ none := by
  intro hnone
  have e := (mulG_spec' k (lt_of_lt_n hk)).2
  rw [hnone, toPoint_none] at e
  exact Nat.not_dvd_of_pos_of_lt h0 hk ((smul_g_eq_zero_iff k).mp e.symm)

omit [Fact (Nat.Prime Secp.n)] in
theorem mulG_zero : mul G 0 = none := by
  obtain ⟨c, e⟩ := mulG_spec' 0 (by decide)
  exact toPoint_inj c rfl (by rw [e, zero_nsmul, toPoint_none])

theorem add_mulG (a b : ℕ) (ha : a < n) (hb : b < n) :
    add (mul G a) (mul G b) = mul G ((a + b) % n) := by
  obtain ⟨ca, ea⟩ := mulG_spec' a (lt_of_lt_n ha)
  obtain ⟨cb, eb⟩ := mulG_spec' b (lt_of_lt_n hb)
  obtain ⟨cs, es⟩ := add_spec _ _ ca cb
  obtain ⟨cr, er⟩ := mulG_spec' ((a + b) % n) (mod_n_lt _)
  exact toPoint_inj cs cr (by rw [es, ea, eb, er, mod_smul_g, add_nsmul])

theorem mul_mulG (a b : ℕ) (ha : a < n) (hb : b < 2 ^ 256) :
    mul (mul G a) b = mul G (a * b % n) := by
  obtain ⟨ca, ea⟩ := mulG_spec' a (lt_of_lt_n ha)
  obtain ⟨cm, em⟩ := mul_spec (mul G a) b ca
  rw [Nat.mod_eq_of_lt hb] at em
  obtain ⟨cr, er⟩ := mulG_spec' (a * b % n) (mod_n_lt _)
  exact toPoint_inj cm cr (by rw [em, ea, er, mod_smul_g, mul_nsmul])

theorem neg_mulG (a : ℕ) (ha : a < n) : neg (mul G a) = mul G ((n - a) % n) := by
  obtain ⟨ca, ea⟩ := mulG_spec' a (lt_of_lt_n ha)
  obtain ⟨cn, en⟩ := neg_spec _ ca
  obtain ⟨cr, er⟩ := mulG_spec' ((n - a) % n) (mod_n_lt _)
  refine toPoint_inj cn cr ?_
  rw [en, ea, er, mod_smul_g]
  symm
  apply eq_neg_of_add_eq_zero_left
  rw [← add_nsmul, Nat.sub_add_cancel (Nat.le_of_lt ha), n_smul_g]

omit [Fact (Nat.Prime Secp.n)] in
theorem onCurve_mulG (k x y : ℕ) (h : mul G k = some (x, y)) : onCurve (some (x, y)) = true := by
  rw [← h]; exact (mulG_spec k).1

omit [Fact (Nat.Prime Secp.n)] in
theorem coords (k x y : ℕ) (h : mul G k = some (x, y)) : x < p ∧ 0 < y ∧ y < p := by
  have hc := onCurve_mulG k x y h
  obtain ⟨hx, hy, _⟩ := (onCurve_iff x y).mp hc
  exact ⟨hx, y_pos_of_onCurve hc, hy⟩

omit [Fact (Nat.Prime Secp.n)] in
theorem liftX_mulG (k x y : ℕ) (h : mul G k = some (x, y)) :
    liftX x = some (x, if y % 2 = 0 then y else p - y) :=
  liftX_spec x y (onCurve_mulG k x y h)

end Laws

/-- **`Spec.CurveLaws` holds** (given that `p` and `n` are prime). -/
theorem curveLaws (hp : Nat.Prime Secp.p) (hn : Nat.Prime Secp.n) : Spec.CurveLaws :=
  haveI := Fact.mk hp
  haveI := Fact.mk hn
  { mulG_mod := mulG_mod
    mulG_ne_none := mulG_ne_none
    mulG_zero := mulG_zero
    add_mulG := add_mulG
    mul_mulG := mul_mulG
    neg_mulG := neg_mulG
    coords := coords
    onCurve_mulG := onCurve_mulG
    liftX_mulG := liftX_mulG
    invN_mul := invN_spec }

end CurveLawsProof
