import BU.Proofs.MsgLemmas
import BU.Proofs.EcdsaLemmas
import BU.Proofs.SchnorrLemmas
/-! Group-law steps of C14 `sign_verifies`: the candidate key that `verify_message` reconstructs from a
multiple `κ·G` with the x coordinate of the signer's R, its ECDSA validity, and injectivity of `k ↦ k·G`. -/
namespace MsgSign
open Py Spec Model Secp MsgLemmas

theorem n_pos : 0 < n := by decide
theorem n_odd : n % 2 = 1 := by decide
theorem n_lt256 : n < 2 ^ 256 := by decide
theorem n_lt_p : n < p := by decide

private theorem mod_cancel_eq (m a b : Nat) (hm : 0 < m) (ha : a < m) (hb : b < m)
    (h : (b + (m - a) % m) % m = 0) : a = b := by
  by_cases ha0 : a = 0
  · subst ha0
    rw [Nat.sub_zero, Nat.mod_self, Nat.add_zero, Nat.mod_eq_of_lt hb] at h
    exact h.symm
  · have h1 : (m - a) % m = m - a := Nat.mod_eq_of_lt (by omega)
    rw [h1] at h
    by_cases hlt : b + (m - a) < m
    · rw [Nat.mod_eq_of_lt hlt] at h; omega
    · rw [Nat.mod_eq_sub_mod (by omega), Nat.mod_eq_of_lt (by omega)] at h
      omega

/-- `k ↦ k·G` is injective on `[0, n)` -/
theorem mulG_inj (laws : CurveLaws) (a b : Nat) (ha : a < n) (hb : b < n) (h : mul G a = mul G b) : a = b := by
  have hn := n_pos
  have hc : (n - a) % n < n := Nat.mod_lt _ hn
  have e1 := laws.add_mulG a ((n - a) % n) ha hc
  have e2 := laws.add_mulG b ((n - a) % n) hb hc
  rw [h] at e1
  rw [e1] at e2
  have hz : (a + (n - a) % n) % n = 0 := by
    by_cases ha0 : a = 0
    · subst ha0; simp
    · rw [Nat.mod_eq_of_lt (show n - a < n by omega), show a + (n - a) = n by omega, Nat.mod_self]
  rw [hz, laws.mulG_zero] at e2
  by_cases hne : (b + (n - a) % n) % n = 0
  · exact mod_cancel_eq n a b hn ha hb hne
  · exact absurd e2.symm (laws.mulG_ne_none _ (Nat.pos_of_ne_zero hne) (Nat.mod_lt _ hn))

/-! ### the byte layout of a compact signature -/
section layout
variable (h : UInt8) (r s : Nat) (hr : r < 2 ^ 256) (hs : s < 2 ^ 256)

theorem sig_length : ([h] ++ (beBytes 32 r ++ beBytes 32 s)).length = 65 := by simp

theorem sig_head : ([h] ++ (beBytes 32 r ++ beBytes 32 s)).getD 0 0 = h := by simp

include hr in
theorem sig_r : ofBE ((([h] ++ (beBytes 32 r ++ beBytes 32 s)).drop 1).take 32) = r := by
  have : (([h] ++ (beBytes 32 r ++ beBytes 32 s)).drop 1).take 32 = beBytes 32 r := by
    simp
  rw [this, ofBE_beBytes 32 r (by rw [SchnorrLemmas.pow256_32]; exact hr)]

include hs in
theorem sig_s : ofBE ((([h] ++ (beBytes 32 r ++ beBytes 32 s)).drop 33).take 32) = s := by
  have : (([h] ++ (beBytes 32 r ++ beBytes 32 s)).drop 33).take 32 = beBytes 32 s := by
    have e : [h] ++ (beBytes 32 r ++ beBytes 32 s) = ([h] ++ beBytes 32 r) ++ beBytes 32 s := by simp
    rw [e, List.drop_left' (by simp)]
    rw [List.take_of_length_le (by simp)]
  rw [this, ofBE_beBytes 32 s (by rw [SchnorrLemmas.pow256_32]; exact hs)]

end layout

/-! ### root selection -/

/-- `verify_message` picks, among the two square roots sympy returns, the y of the multiple of G whose parity the
recovery id names -/
theorem pickRoot_mulG (laws : CurveLaws) (κ x y recid : Nat) (hm : mul G κ = some (x, y))
    (hpar : (y + recid) % 2 = 0) :
    pickRoot (sqrtAll ((x ^ 3 + 7) % p)) recid = .ok y := by
  obtain ⟨_, hy0, hyp⟩ := laws.coords κ x y hm
  obtain ⟨r0, hr0, hr0p, hyr, hsq⟩ := KeyLemmas.sqrtAll_of_liftX x y hy0 hyp (laws.liftX_mulG κ x y hm)
  have hp := KeyLemmas.p_odd
  rw [hsq]
  unfold pickRoot
  by_cases hlt : r0 < p - r0
  · rw [if_pos hlt]
    rcases hyr with rfl | rfl
    · simp [hpar]
    · have : ¬ (r0 + recid) % 2 = 0 := by omega
      simp [this]
  · rw [if_neg hlt]
    rcases hyr with rfl | rfl
    · have : ¬ (p - y + recid) % 2 = 0 := by omega
      simp [this]
    · simp [hpar]

/-! ### the candidate key and its validity -/

/-- the scalar of the candidate key that `verify_message` / SEC1 recovery builds from `R = κ·G` -/
def candScalar (κ z r s : Nat) : Nat := ((κ * s % n + (n - z % n) % n) % n) * invN (r % n) % n

theorem invN_lt (a : Nat) : invN a < n := KeyLemmas.powMod_lt _ _ _ n_pos

/-- `r⁻¹ (s·R − z·G)` for `R = κ·G` is `candScalar·G` -/
theorem cand_point (laws : CurveLaws) (κ x y z r s : Nat) (hκ : κ < n) (hm : mul G κ = some (x, y)) (hs : s < n) :
    mul (add (mul (some (x, y)) s) (mul G ((n - z % n) % n))) (invN (r % n)) = mul G (candScalar κ z r s) := by
  have hn := n_pos
  have h256 := n_lt256
  rw [← hm, laws.mul_mulG κ s hκ (by omega),
    laws.add_mulG _ _ (Nat.mod_lt _ hn) (Nat.mod_lt _ hn),
    laws.mul_mulG _ _ (Nat.mod_lt _ hn) (by have := invN_lt (r % n); omega)]
  rfl

/-- every candidate key `e·G` reconstructed from `κ·G` with `x(κ·G) = r` passes ECDSA verification of (r, s) -/
theorem cand_verifies (laws : CurveLaws) (κ x y z r s : Nat) (hκ : κ < n) (hm : mul G κ = some (x, y))
    (hxr : x % n = r) (hr0 : r ≠ 0) (hrn : r < n) (hs0 : s ≠ 0) (hs : s < n)
    (q : Nat × Nat) (hq : mul G (candScalar κ z r s) = some q) :
    ecdsaVerify (some q) z r s = true := by
  have hn := n_pos
  have h256 := n_lt256
  unfold ecdsaVerify
  rw [if_neg (by omega)]
  simp only
  have hsw := laws.invN_mul s (by omega) hs
  have hrr := laws.invN_mul r (by omega) hrn
  have hcs : candScalar κ z r s < n := Nat.mod_lt _ hn
  rw [← hq, laws.mul_mulG _ _ hcs (by have : r * invN s % n < n := Nat.mod_lt _ hn; omega),
    laws.add_mulG _ _ (Nat.mod_lt _ hn) (Nat.mod_lt _ hn)]
  have hid := scalar_id n κ s z r (invN s) (invN (r % n)) hκ hsw (by rw [Nat.mod_eq_of_lt hrn]; exact hrr)
  unfold candScalar
  rw [hid, hm]
  simp [hxr]

/-- evaluation of `verify_message` on a compact signature whose header names the parity of `y(κ·G)`, `x(κ·G) = r < n` -/
theorem verify_cand (laws : CurveLaws) (z : Nat) (addrOf : Nat × Nat → Bool → String) (address : String)
    (κ x y r s : Nat) (hκ : κ < n) (hm : mul G κ = some (x, y))
    (hxr : x = r) (hr0 : r ≠ 0) (hrn : r < n) (hs0 : s ≠ 0) (hs : s < n)
    (hd : Nat) (hw : 27 ≤ hd ∧ hd ≤ 34) (recid : Nat) (hrec : (if hd ≥ 31 then hd - 31 else hd - 27) = recid)
    (hrec2 : recid < 2) (hpar : (y + recid) % 2 = 0)
    (q : Nat × Nat) (hq : mul G (candScalar κ z r s) = some q) :
    verifyN sqrtAll onCurve mul add G invN ecdsaVerifyDigest n p z addrOf address
        ([UInt8.ofNat hd] ++ (beBytes 32 r ++ beBytes 32 s)) =
      if addrOf q (decide (hd ≥ 31)) = address then .ok true else .ok false := by
  have hn := n_pos
  have h256 := n_lt256
  have hnp := n_lt_p
  have hhead : (([UInt8.ofNat hd] ++ (beBytes 32 r ++ beBytes 32 s)).getD 0 0).toNat = hd := by
    rw [sig_head]; simp; omega
  have hdiv : recid / 2 = 0 := by omega
  have hx0 : r + recid / 2 * n = r := by rw [hdiv]; simp
  have hxp : r % p = r := Nat.mod_eq_of_lt (by omega)
  have := verifyN_eval sqrtAll onCurve mul add G invN ecdsaVerifyDigest n p z addrOf address
    ([UInt8.ofNat hd] ++ (beBytes 32 r ++ beBytes 32 s)) (sig_length _ r s) (by rw [hhead]; omega)
    recid (by rw [hhead]; exact hrec) r s (sig_r _ r s (by omega)) (sig_s _ r s (by omega)) y
    (by rw [hx0, ← hxr]; exact pickRoot_mulG laws κ x y recid hm hpar)
    (by rw [hx0, hxp, ← hxr]; exact laws.onCurve_mulG κ x y hm)
    (by rw [Nat.mod_eq_of_lt hrn]; exact hr0) q
    (by rw [hx0, hxp, ← hxr, cand_point laws κ x y z x s hκ hm hs]; rw [hxr]; exact hq)
    ((verifyDigest_ok_iff _ _ _ _).2 (cand_verifies laws κ x y z r s hκ hm (by rw [hxr, Nat.mod_eq_of_lt hrn]) hr0 hrn hs0 hs q hq))
  rw [this, hhead]

/-- SEC1 recovery with the recovery id naming the parity of `y(κ·G)` reconstructs `candScalar·G` -/
theorem recover_cand (laws : CurveLaws) (κ x y z r s recid : Nat) (hκ : κ < n) (hm : mul G κ = some (x, y))
    (hxr : x = r) (hr0 : r ≠ 0) (hrn : r < n) (hs0 : s ≠ 0) (hs : s < n) (hrec2 : recid < 2)
    (hpar : (y + recid) % 2 = 0) :
    ecdsaRecover z r s recid = mul G (candScalar κ z r s) := by
  have hn := n_pos
  have hp := KeyLemmas.p_odd
  obtain ⟨_, hy0, hyp⟩ := laws.coords κ x y hm
  unfold ecdsaRecover
  rw [if_neg (by omega)]
  have hdiv : recid / 2 = 0 := by omega
  have hx0 : r + recid / 2 * n = r := by rw [hdiv]; simp
  simp only [hx0]
  rw [← hxr, laws.liftX_mulG κ x y hm]
  simp only
  have hy : (if recid % 2 = 0 then (if y % 2 = 0 then y else p - y) else p - (if y % 2 = 0 then y else p - y)) = y := by
    split <;> split <;> omega
  rw [hy, laws.neg_mulG (z % n) (Nat.mod_lt _ hn)]
  have := cand_point laws κ x y z x s hκ hm hs
  rw [Nat.mod_eq_of_lt (by omega : x < n)] at this
  rw [this]

end MsgSign
