import BU.Proofs.GenHexStr
import BU.Proofs.GenTweak
import BU.Proofs.KeyLemmas
import BU.Proofs.GenRmd2
import BU.Model.Keys
import BU.Properties.C09_Gen
import BU.Properties.C11_GenTop
import BU.Properties.C20_Gen
/-!
# `PublicKey.__init__(hex_str)`, `to_hex`, `to_x_only_hex`, `is_y_even`, `_to_hash160` as *generated* code = the hand model

`sympy.sqrt_mod(a, p, True)` and python-ecdsa's `VerifyingKey.from_string` enter the translated constructor as parameters; here they
are instantiated with the model's `sqrtAll` and `verifyingKeyFromString`.  The hex string handed to the constructor is a real string
(`List Char`): `strip`, `lower().startswith("0x")`, `[:2]`, `[2:]`, `bytes.fromhex`, `int(·, 16)` are PyRT functions with Python's
behaviour on ASCII strings (`BU/PyList.lean`), characterised on `hexOf b` in `Proofs/GenHexStr`.
-/
set_option linter.unusedSimpArgs false
namespace GenPub
open Py Model GenTweak GenHexStr Secp

theorem be32_last (y : Nat) : (beBytes 32 y).drop 31 = [UInt8.ofNat (y % 256)] := by
  unfold beBytes
  have : (leBytes 32 y) = UInt8.ofNat (y % 256) :: leBytes 31 (y / 256) := rfl
  rw [this, List.reverse_cons]
  have hl : (leBytes 31 (y / 256)).reverse.length = 31 := by simp
  rw [List.drop_append_of_le_length (by omega)]
  rw [List.drop_of_length_le (by omega)]
  rfl

theorem sliceFromL_m1 (x y : Nat) :
    Py.sliceFromL (beBytes 32 x ++ beBytes 32 y) (-1 : Int) = [UInt8.ofNat (y % 256)] := by
  unfold Py.sliceFromL
  have hl : (beBytes 32 x ++ beBytes 32 y).length = 64 := by simp [be32_length]
  simp only [hl]
  have : (if (-1 : Int) < 0 then (if (-1 : Int) + ((64 : Nat) : Int) < 0 then 0 else (-1 : Int) + ((64 : Nat) : Int)) else -1).toNat = 63 := by decide
  rw [this]
  have h32 : (beBytes 32 x).length = 32 := be32_length x
  rw [List.drop_append, h32, List.drop_of_length_le (by omega)]
  exact be32_last y

theorem hToI_single (v : Nat) (h : v < 256) : Py.hToI [UInt8.ofNat v] = .ok (v : Int) := by
  unfold Py.hToI
  simp only [List.isEmpty_cons, Bool.false_eq_true, if_false]
  have : ofBE [UInt8.ofNat v] = v := by
    unfold ofBE; simp only [List.reverse_singleton, ofLE]
    simp [UInt8.toNat_ofNat]; omega
  rw [this]

theorem sliceL_0_32 (x y : Nat) : Py.sliceL (beBytes 32 x ++ beBytes 32 y) (0 : Int) (32 : Int) = beBytes 32 x := by
  unfold Py.sliceL
  have hl : (beBytes 32 x ++ beBytes 32 y).length = 64 := by simp [be32_length]
  simp only [hl]
  have h32 : (beBytes 32 x).length = 32 := be32_length x
  have e1 : (if (0:Int) < 0 then (if (0:Int) + ((64:Nat):Int) < 0 then 0 else (0:Int) + ((64:Nat):Int)) else (if (0:Int) > ((64:Nat):Int) then ((64:Nat):Int) else 0)).toNat = 0 := by decide
  have e2 : (if (32:Int) < 0 then (if (32:Int) + ((64:Nat):Int) < 0 then 0 else (32:Int) + ((64:Nat):Int)) else (if (32:Int) > ((64:Nat):Int) then ((64:Nat):Int) else 32)).toNat = 32 := by decide
  rw [e1, e2, List.drop_zero, List.take_append_of_le_length (by omega), List.take_of_length_le (by omega)]

/-- `PublicKey.to_hex`: SEC encoding of the point — 02/03 ‖ x by the parity of y, or 04 ‖ x ‖ y -/
theorem gen_pubkey_to_hex (x y : Nat) (c : Bool) :
    Gen.pubkey_to_hex (beBytes 32 x ++ beBytes 32 y) c = .ok (pubToBytes (x, y) c) := by
  unfold Gen.pubkey_to_hex pubToBytes
  cases c with
  | false => rfl
  | true =>
    simp only [if_true, sliceFromL_m1, hToI_single (y % 256) (Nat.mod_lt _ (by decide)), ok_bind, sliceL_0_32]
    have e : ((((y % 256 : Nat) : Int) % 2) == 0) = (y % 2 == 0) := by
      rw [par_cast]; congr 1; omega
    rw [e]
    by_cases hy : y % 2 = 0
    · simp [hy]; rfl
    · simp [hy]; rfl

theorem gen_pubkey_to_x_only_hex (x y : Nat) :
    Gen.pubkey_to_x_only_hex (beBytes 32 x ++ beBytes 32 y) = .ok (pubXOnly (x, y)) := by
  unfold Gen.pubkey_to_x_only_hex pubXOnly
  simp only [sliceL_0_32]; rfl

theorem gen_pubkey_is_y_even (x y : Nat) (hy : y < 2 ^ 256) :
    Gen.pubkey_is_y_even (beBytes 32 x ++ beBytes 32 y) = .ok (y % 2 == 0) := by
  unfold Gen.pubkey_is_y_even
  simp only []
  have hl : (beBytes 32 x ++ beBytes 32 y).length = 64 := by simp [be32_length]
  have h32 : (beBytes 32 x).length = 32 := be32_length x
  rw [slice_32_end _ hl, List.drop_append, h32, List.drop_of_length_le (by omega)]
  simp only [Nat.sub_self, List.drop_zero, List.nil_append, hToI_be32 y hy, ok_bind, par_cast]
  rfl

theorem gen_pubkey_to_hash160 (sha256 : Bytes → Bytes) (hlen : ∀ b, (sha256 b).length < 2 ^ 61) (x y : Nat) (c : Bool) :
    Gen.pubkey_to_hash160 sha256 (beBytes 32 x ++ beBytes 32 y) c = .ok (pubHash160 sha256 C20Gen.genTabs (x, y) c) := by
  unfold Gen.pubkey_to_hash160 pubHash160 hash160
  rw [gen_pubkey_to_hex, ok_bind]
  simp only []
  rw [C20Gen.gen_ripemd160 _ (hlen _), ok_bind]
  rfl

theorem hexStr64_two (v w : Nat) (h : v < 2 ^ 256) (hw : w < 2 ^ 256) :
    Py.hexStrFmt64 [(v : Int), (w : Int)] = .ok (beBytes 32 v ++ beBytes 32 w) := by
  unfold Py.hexStrFmt64
  have a : ([(v : Int), (w : Int)].any (· < 0)) = false := by simp
  have b : ([(v : Int), (w : Int)].all (· < 2 ^ 256)) = true := by
    simp only [List.all_cons, List.all_nil, Bool.and_true, Bool.and_eq_true, decide_eq_true_eq]
    have : ((2 : Int) ^ 256) = ((2 ^ 256 : Nat) : Int) := by norm_cast
    omega
  rw [a, b]
  simp [beBytes]

theorem okb {α β : Type} (a : α) (f : α → Except PyErr β) : (Except.ok a >>= f) = f a := by rw [ok_bind]
theorem erb {α β : Type} (e : PyErr) (f : α → Except PyErr β) : ((Except.error e : Except PyErr α) >>= f) = .error e := by
  cases e <;> rfl

theorem thb {α β : Type} (e : PyErr) (f : α → Except PyErr β) : ((throw e : Except PyErr α) >>= f) = throw e := by
  cases e <;> rfl

/-- the choice of the root by parity, and the final `VerifyingKey.from_string`, on any list of candidate roots -/
theorem pick_eq (ys : List Nat) (x : Nat) (hx : x < 2 ^ 256) (hys : ∀ y ∈ ys, y < 2 ^ 256) (first : Nat) (tap : Bool) :
    (if (decide (first = 2) || tap) = true then do
        let t6 ← indexL (ys.map Int.ofNat) 0
        if (t6 % 2 == 0) = true then do
            let t7 ← indexL (ys.map Int.ofNat) 0
            let t12 ← hexStrFmt64 [(x : Int), t7]
            verifyingKeyFromString t12
          else do
            let t7 ← indexL (ys.map Int.ofNat) 1
            let t12 ← hexStrFmt64 [(x : Int), t7]
            verifyingKeyFromString t12
      else if decide (first = 3) = true then do
        let t9 ← indexL (ys.map Int.ofNat) 0
        if (t9 % 2 == 0) = true then do
            let t7 ← indexL (ys.map Int.ofNat) 1
            let t12 ← hexStrFmt64 [(x : Int), t7]
            verifyingKeyFromString t12
          else do
            let t7 ← indexL (ys.map Int.ofNat) 0
            let t12 ← hexStrFmt64 [(x : Int), t7]
            verifyingKeyFromString t12
      else throw PyErr.typeError : Except PyErr (Nat × Nat)).toOption =
    (match ys with
    | [] => (.error .indexError : Except PyErr (Nat × Nat))
    | y0 :: rest =>
      let y1? := rest.head?
      let pick : Except PyErr Nat :=
        if first = 0x02 ∨ tap then
          (if y0 % 2 = 0 then .ok y0 else match y1? with | some y1 => .ok y1 | none => .error .indexError)
        else if first = 0x03 then
          (if y0 % 2 = 0 then (match y1? with | some y1 => .ok y1 | none => .error .indexError) else .ok y0)
        else .error .typeError
      match pick with
      | .error e => .error e
      | .ok y =>
        if x ≥ 2 ^ 256 then .error .valueError
        else verifyingKeyFromString (beBytes 32 x ++ beBytes 32 y)).toOption := by
  have hx' : ¬ (x ≥ 2 ^ 256) := by omega
  have i0 : ∀ (y0 : Nat) (r : List Nat), indexL ((y0 :: r).map Int.ofNat) 0 = .ok (y0 : Int) := fun _ _ => rfl
  have i1 : ∀ (y0 y1 : Nat) (r : List Nat), indexL ((y0 :: y1 :: r).map Int.ofNat) 1 = .ok (y1 : Int) := fun _ _ _ => rfl
  have i1n : ∀ (y0 : Nat), indexL ([y0].map Int.ofNat) 1 = .error .indexError := fun _ => rfl
  have i0n : indexL (([] : List Nat).map Int.ofNat) 0 = .error .indexError := rfl
  by_cases c1 : (decide (first = 2) || tap) = true
  · have m1 : first = 0x02 ∨ tap = true := by simpa using c1
    rcases ys with _ | ⟨y0, _ | ⟨y1, rest⟩⟩
    · simp only [c1, if_true, i0n, erb]
    · have h0 := hys y0 (by simp)
      simp only [c1, if_true, i0, i1n, okb, erb, par_cast, m1, List.head?_nil, hx', if_false]
      by_cases hp : y0 % 2 = 0
      · simp only [hp, beq_self_eq_true, if_true, hexStr64_two x y0 hx h0, okb]
      · have : (y0 % 2 == 0) = false := by simpa using hp
        simp only [this, Bool.false_eq_true, if_false, hp]
    · have h0 := hys y0 (by simp)
      have h1 := hys y1 (by simp)
      simp only [c1, if_true, i0, i1, okb, par_cast, m1, List.head?_cons, hx', if_false]
      by_cases hp : y0 % 2 = 0
      · simp only [hp, beq_self_eq_true, if_true, hexStr64_two x y0 hx h0, okb]
      · have : (y0 % 2 == 0) = false := by simpa using hp
        simp only [this, Bool.false_eq_true, if_false, hp, hexStr64_two x y1 hx h1, okb]
  · have m1 : ¬ (first = 0x02 ∨ tap = true) := by simpa using c1
    have c1' : (decide (first = 2) || tap) = false := by simpa using c1
    by_cases c3 : first = 3
    · subst c3
      rcases ys with _ | ⟨y0, _ | ⟨y1, rest⟩⟩
      · simp only [c1', Bool.false_eq_true, if_false, decide_true, if_true, i0n, erb]
      · have h0 := hys y0 (by simp)
        simp only [c1', Bool.false_eq_true, if_false, decide_true, if_true, i0, i1n, okb, erb, par_cast, m1, List.head?_nil, hx']
        by_cases hp : y0 % 2 = 0
        · simp only [hp, beq_self_eq_true, if_true]
        · have : (y0 % 2 == 0) = false := by simpa using hp
          simp only [this, Bool.false_eq_true, if_false, hp, hexStr64_two x y0 hx h0, okb]
      · have h0 := hys y0 (by simp)
        have h1 := hys y1 (by simp)
        simp only [c1', Bool.false_eq_true, if_false, decide_true, if_true, i0, i1, okb, par_cast, m1, List.head?_cons, hx']
        by_cases hp : y0 % 2 = 0
        · simp only [hp, beq_self_eq_true, if_true, hexStr64_two x y1 hx h1, okb]
        · have : (y0 % 2 == 0) = false := by simpa using hp
          simp only [this, Bool.false_eq_true, if_false, hp, hexStr64_two x y0 hx h0, okb]
    · have d3 : decide (first = 3) = false := by simpa using c3
      rcases ys with _ | ⟨y0, rest⟩
      · simp only [c1', Bool.false_eq_true, if_false, d3]; rfl
      · simp only [c1', Bool.false_eq_true, if_false, d3, m1, c3]; rfl

def sqrtP (a _p : Int) : List Int := (sqrtAll a.toNat).map Int.ofNat

theorem pre0x (b : Bytes) : strStartswith (hexOf b) "0x".toList = false := (no_0x_prefix b).2

theorem first_cmp : ∀ n, n < 256 →
    ((hexOf [UInt8.ofNat n] == "02".toList) = decide ((UInt8.ofNat n).toNat = 2)) ∧
    ((hexOf [UInt8.ofNat n] == "03".toList) = decide ((UInt8.ofNat n).toNat = 3)) := by
  decide +kernel

theorem first_cmp' (u : UInt8) :
    ((hexOf [u] == "02".toList) = decide (u.toNat = 2)) ∧ ((hexOf [u] == "03".toList) = decide (u.toNat = 3)) := by
  have := first_cmp u.toNat u.toNat_lt
  rwa [UInt8.ofNat_toNat] at this

theorem sqrtAll_lt (c y : Nat) (h : y ∈ sqrtAll c) : y < 2 ^ 256 := by
  have hp : p < 2 ^ 256 := by decide
  have hr := KeyLemmas.powMod_lt c ((p + 1) / 4) p (by decide)
  unfold sqrtAll at h
  simp only [] at h
  split at h
  · simp at h
  · split at h
    · simp at h; omega
    · split at h <;> simp at h <;> omega

theorem cube_cast (x : Nat) :
    (((x : Int) ^ 3 + 7) % (115792089237316195423570985008687907853269984665640564039457584007908834671663 : Int)).toNat = (x ^ 3 + 7) % p := by
  have : ((x : Int) ^ 3 + 7) % (115792089237316195423570985008687907853269984665640564039457584007908834671663 : Int) = (((x ^ 3 + 7) % p : Nat) : Int) := by
    norm_cast
  rw [this, Int.toNat_natCast]

/-- the translated constructor accepts exactly the encodings the model accepts, with the same point -/
theorem gen_pubkey_from_hex (b : Bytes) (hl : b.length < 2 ^ 61) :
    (Gen.pubkey_from_hex sqrtP verifyingKeyFromString (hexOf b)).toOption = (pubFromBytes b).toOption := by
  cases b with
  | nil => rfl
  | cons u b' =>
  unfold Gen.pubkey_from_hex
  have hne : (!(hexOf (u :: b')).isEmpty) = true := by rw [hexOf_cons]; rfl
  simp only [hne, if_true, strStrip_hexOf, okb, (no_0x_prefix (u :: b')).1, pre0x, Bool.false_eq_true, if_false, bytesFromhex_hexOf]
  by_cases h33 : (u :: b').length > 33
  · have c : decide (len (u :: b') > 33) = true := by unfold Py.len; simp only [decide_eq_true_eq]; omega
    simp only [c, if_true]
    unfold pubFromBytes
    simp only [h33, if_true]
    rw [C09Gen.slice_from1 _ (by omega)]
  · have c : decide (len (u :: b') > 33) = false := by unfold Py.len; simp only [decide_eq_false_iff_not]; omega
    simp only [c, Bool.false_eq_true, if_false]
    by_cases h31 : (u :: b').length > 31
    · have c2 : decide (len (u :: b') > 31) = true := by unfold Py.len; simp only [decide_eq_true_eq]; omega
      simp only [c2, if_true]
      have hH : (hexOf (u :: b')).length < 2 ^ 62 := by rw [hexOf_length]; omega
      have s2 : sliceL (hexOf (u :: b')) 2 slEnd = hexOf b' := by
        rw [show (2 : Int) = ((2 : Nat) : Int) from rfl, C11GenTop.sliceL_drop _ 2 hH, hexOf_cons]; rfl
      have s0 : sliceL (hexOf (u :: b')) 0 2 = hexOf [u] := by
        rw [show (2 : Int) = ((2 : Nat) : Int) from rfl, C11GenTop.sliceL_take _ 2 (by rw [hexOf_length]; simp), hexOf_cons]; rfl
      have hb' : b' ≠ [] := by intro h; subst h; simp at h31
      simp only [s2, s0, (first_cmp' u).1, (first_cmp' u).2]
      unfold pubFromBytes
      simp only [h33, h31, if_false, if_true]
      have nt : (!true) = false := rfl
      by_cases h32 : (u :: b').length = 32
      · have c3 : (len (u :: b') == 32) = true := by unfold Py.len; simp only [beq_iff_eq]; omega
        have l32 : ((u :: b').length == 32) = true := by simpa using h32
        simp only [c3, if_true, intBase16_hexOf (u :: b') (by simp), okb, thb, nt, Bool.false_eq_true, if_false, sqrtP, cube_cast]
        rw [l32, if_pos (rfl : true = true), List.getD_cons_zero]
        have hx := SchnorrLemmas.ofBE_lt32 (u :: b') h32
        exact pick_eq _ _ hx (fun y hy => sqrtAll_lt _ y hy) _ true
      · have c3 : (len (u :: b') == 32) = false := by unfold Py.len; simp only [beq_eq_false_iff_ne, ne_eq]; omega
        have l32 : ((u :: b').length == 32) = false := by simpa using h32
        simp only [c3, Bool.false_eq_true, if_false, intBase16_hexOf b' hb', okb, thb, nt, sqrtP, cube_cast]
        rw [l32, if_neg (by decide : ¬ (false = true)), List.getD_cons_zero, List.drop_one, List.tail_cons]
        have hx := SchnorrLemmas.ofBE_lt32 b' (by simp at h31 h33 h32 ⊢; omega)
        exact pick_eq _ _ hx (fun y hy => sqrtAll_lt _ y hy) _ false
    · have c2 : decide (len (u :: b') > 31) = false := by unfold Py.len; simp only [decide_eq_false_iff_not]; omega
      simp only [c2, Bool.false_eq_true, if_false]
      unfold pubFromBytes
      simp only [h33, h31, if_false]
      rfl

end GenPub
