/-
PyRT — the fragment of Python semantics that the translator (`gen/py2lean.py`) targets and that the
hand models use: byte strings, exceptions, slices, `int.to_bytes`/`from_bytes`, `struct.pack/unpack`
for the formats the repository uses, `bit_length`, shifts and bitwise operators on unbounded ints.
Mathlib-free (the compiled driver links against this file).
-/
abbrev Bytes := List UInt8

inductive PyErr
  | valueError | overflowError | structError | indexError | typeError | assertion | fellThrough
  | runtimeError | other
  | unsupported      -- raised only by the stub the translator emits for a function outside its subset
deriving Repr, DecidableEq, Inhabited

namespace Py

inductive Order | little | big deriving Repr, DecidableEq

/-- `n` as exactly `k` little-endian bytes (truncating). -/
def leBytes : Nat → Nat → Bytes
  | 0, _ => []
  | k+1, n => UInt8.ofNat (n % 256) :: leBytes k (n / 256)

/-- little-endian bytes to number -/
def ofLE : Bytes → Nat
  | [] => 0
  | b :: bs => b.toNat + 256 * ofLE bs

def beBytes (k n : Nat) : Bytes := (leBytes k n).reverse
def ofBE (b : Bytes) : Nat := ofLE b.reverse

def len (b : Bytes) : Int := b.length

/-- stands for an omitted upper slice bound -/
def slEnd : Int := 0x7fffffffffffffff

/-- Python `b[lo:hi]` for non-negative bounds (negative bounds are outside the translated subset):
clamps, never raises. -/
def slice (b : Bytes) (lo hi : Int) : Bytes := (b.drop lo.toNat).take (hi.toNat - lo.toNat)

/-- Python `b[i]` on bytes, `i ≥ 0`: an int, raises IndexError outside. -/
def index (b : Bytes) (i : Int) : Except PyErr Int :=
  if i < 0 then .error .indexError
  else match b[i.toNat]? with
    | some x => .ok x.toNat
    | none => .error .indexError

/-- Python `bytes([i₁, …])` -/
def bytesOfInts (xs : List Int) : Except PyErr Bytes :=
  xs.mapM fun i => if 0 ≤ i ∧ i < 256 then .ok (UInt8.ofNat i.toNat) else .error .valueError

/-- Python `i.to_bytes(k, order)` (unsigned) -/
def toBytes (i : Int) (k : Int) (o : Order) : Except PyErr Bytes :=
  if i < 0 ∨ k < 0 then .error .overflowError
  else if i.toNat ≥ 256 ^ k.toNat then .error .overflowError
  else .ok (match o with
    | .little => leBytes k.toNat i.toNat
    | .big => beBytes k.toNat i.toNat)

/-- Python `int.from_bytes(b, order)` (unsigned) -/
def fromBytes (b : Bytes) (o : Order) : Int :=
  match o with
  | .little => ofLE b
  | .big => ofBE b

/-- (size in bytes, signed) of the single-value struct formats used by the repository -/
def fmtSize : String → Option (Nat × Bool)
  | "B" => some (1, false) | "<H" => some (2, false) | "<I" => some (4, false) | "<L" => some (4, false)
  | "<Q" => some (8, false) | "<q" => some (8, true) | "<i" => some (4, true) | _ => none

def packU (k : Nat) (i : Int) : Except PyErr Bytes :=
  if 0 ≤ i ∧ i.toNat < 256 ^ k then .ok (leBytes k i.toNat) else .error .structError

def packS (k : Nat) (i : Int) : Except PyErr Bytes :=
  if -((256 ^ k / 2 : Nat) : Int) ≤ i ∧ i < ((256 ^ k / 2 : Nat) : Int)
  then .ok (leBytes k (i % ((256 ^ k : Nat) : Int)).toNat) else .error .structError

/-- `struct.pack(fmt, i)` for one integer -/
def pack (fmt : String) (i : Int) : Except PyErr Bytes :=
  match fmtSize fmt with
  | some (k, false) => packU k i
  | some (k, true) => packS k i
  | none => .error .other

def unpackU (k : Nat) (b : Bytes) : Except PyErr Int :=
  if b.length = k then .ok (ofLE b) else .error .structError

/-- `struct.unpack(fmt, b)[0]` for one integer -/
def unpack1 (fmt : String) (b : Bytes) : Except PyErr Int :=
  match fmtSize fmt with
  | some (k, false) => unpackU k b
  | some (k, true) =>
      if b.length = k then
        .ok (let v : Int := ofLE b; if v ≥ ((256 ^ k / 2 : Nat) : Int) then v - ((256 ^ k : Nat) : Int) else v)
      else .error .structError
  | none => .error .other

/-- number of bits of a natural number (0 for 0) -/
def natBits : Nat → Nat
  | 0 => 0
  | n+1 => natBits ((n+1) / 2) + 1
decreasing_by omega

/-- Python `i.bit_length()` -/
def bitLength (i : Int) : Int := natBits i.natAbs

/-- Python `a << b` (raises ValueError on a negative shift count) -/
def shl (a b : Int) : Except PyErr Int := if b < 0 then .error .valueError else .ok (a * 2 ^ b.toNat)
/-- Python `a >> b` -/
def shr (a b : Int) : Except PyErr Int := if b < 0 then .error .valueError else .ok (a / 2 ^ b.toNat)

/-- Python `&` on unbounded two's-complement ints (`-[a+1]` is `~a`; `x &&& ~b` is written `x ^^^ (x &&& b)`) -/
def land : Int → Int → Int
  | .ofNat a, .ofNat b => ((a &&& b : Nat) : Int)
  | .ofNat a, .negSucc b => ((a ^^^ (a &&& b) : Nat) : Int)
  | .negSucc a, .ofNat b => ((b ^^^ (b &&& a) : Nat) : Int)
  | .negSucc a, .negSucc b => .negSucc (a ||| b)

/-- Python `|` on unbounded two's-complement ints -/
def lor : Int → Int → Int
  | .ofNat a, .ofNat b => ((a ||| b : Nat) : Int)
  | .ofNat a, .negSucc b => .negSucc (b ^^^ (b &&& a))
  | .negSucc a, .ofNat b => .negSucc (a ^^^ (a &&& b))
  | .negSucc a, .negSucc b => .negSucc (a &&& b)

/-! ### characterisation lemmas (simp-normal forms used by the proofs) -/

@[simp] theorem leBytes_length (k n : Nat) : (leBytes k n).length = k := by
  induction k generalizing n <;> simp [leBytes, *]

@[simp] theorem beBytes_length (k n : Nat) : (beBytes k n).length = k := by
  simp [beBytes]

theorem ofLE_leBytes (k n : Nat) (h : n < 256 ^ k) : ofLE (leBytes k n) = n := by
  induction k generalizing n with
  | zero => simp at h; simp [leBytes, ofLE, h]
  | succ k ih =>
    simp only [leBytes, ofLE]
    rw [ih]
    · simp [UInt8.toNat_ofNat']; omega
    · rw [Nat.pow_succ] at h; omega

theorem ofLE_lt (b : Bytes) : ofLE b < 256 ^ b.length := by
  induction b with
  | nil => simp [ofLE]
  | cons x xs ih =>
    simp only [ofLE, List.length_cons, Nat.pow_succ]
    have := x.toNat_lt
    omega

theorem leBytes_ofLE (b : Bytes) : leBytes b.length (ofLE b) = b := by
  induction b with
  | nil => simp [leBytes]
  | cons x xs ih =>
    simp only [List.length_cons, leBytes, ofLE]
    have hx := x.toNat_lt
    have h1 : (x.toNat + 256 * ofLE xs) % 256 = x.toNat := by omega
    have h2 : (x.toNat + 256 * ofLE xs) / 256 = ofLE xs := by omega
    rw [h1, h2, ih]
    simp

@[simp] theorem ofBE_beBytes (k n : Nat) (h : n < 256 ^ k) : ofBE (beBytes k n) = n := by
  simp [ofBE, beBytes, ofLE_leBytes k n h]

theorem leBytes_inj {k a b : Nat} (ha : a < 256 ^ k) (hb : b < 256 ^ k)
    (h : leBytes k a = leBytes k b) : a = b := by
  have := congrArg ofLE h
  rwa [ofLE_leBytes k a ha, ofLE_leBytes k b hb] at this

theorem ofLE_append (a b : Bytes) : ofLE (a ++ b) = ofLE a + 256 ^ a.length * ofLE b := by
  induction a with
  | nil => simp [ofLE]
  | cons x xs ih =>
    simp only [List.cons_append, ofLE, ih, List.length_cons, Nat.pow_succ]
    rw [Nat.mul_add, Nat.add_assoc]
    congr 2
    rw [← Nat.mul_assoc, Nat.mul_comm 256]

@[simp] theorem slice_zero (b : Bytes) (hi : Int) : slice b 0 hi = b.take hi.toNat := by
  simp [slice]

theorem index_cons_zero (x : UInt8) (xs : Bytes) : index (x :: xs) 0 = .ok x.toNat := by
  simp [index]

theorem index_nil (i : Int) : ∃ e, index [] i = .error e := by
  unfold index; split <;> simp

end Py
