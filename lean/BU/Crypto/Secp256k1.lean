import BU.Py
/-! secp256k1 over `Nat` (affine coordinates, `none` = point at infinity), in the exact shape of
`bitcoinutils/schnorr.py` (`point_add`, `point_mul`, `lift_x`; inverses by Fermat).  Executable and
Mathlib-free; used by the models (C20 transcribes schnorr.py onto these) and by the Spec predicates.
Validated against libsecp256k1 (coincurve) on every run. -/
namespace Secp

def p : Nat := 0xFFFFFFFFFFFFFFFFFFFFFFFFFFFFFFFFFFFFFFFFFFFFFFFFFFFFFFFEFFFFFC2F
def n : Nat := 0xFFFFFFFFFFFFFFFFFFFFFFFFFFFFFFFEBAAEDCE6AF48A03BBFD25E8CD0364141
def Gx : Nat := 0x79BE667EF9DCBBAC55A06295CE870B07029BFCDB2DCE28D959F2815B16F81798
def Gy : Nat := 0x483ADA7726A3C4655DA4FBFC0E1108A8FD17B448A68554199C47D08FFB10D4B8

abbrev Point := Option (Nat × Nat)
def G : Point := some (Gx, Gy)

/-- `pow(b, e, m)` by square-and-multiply (fuel = number of bits of `e`) -/
def powModFuel : Nat → Nat → Nat → Nat → Nat → Nat
  | 0, _, _, _, acc => acc
  | f+1, b, e, m, acc =>
    if e = 0 then acc
    else powModFuel f (b * b % m) (e / 2) m (if e % 2 = 1 then acc * b % m else acc)

def powMod (b e m : Nat) : Nat := powModFuel (Py.natBits e) (b % m) e m (1 % m)

/-- `a - b mod m` for residues (Python's `%` yields the canonical residue) -/
def subMod (a b m : Nat) : Nat := (a % m + (m - b % m)) % m

/-- `point_add` -/
def add (P1 P2 : Point) : Point :=
  match P1, P2 with
  | none, _ => P2
  | _, none => P1
  | some (x1, y1), some (x2, y2) =>
    if x1 = x2 ∧ y1 ≠ y2 then none
    else
      let lam :=
        if x1 = x2 ∧ y1 = y2 then (3 * x1 * x1 * powMod (2 * y1) (p - 2) p) % p
        else (subMod y2 y1 p * powMod (subMod x2 x1 p) (p - 2) p) % p
      let x3 := subMod (subMod (lam * lam) x1 p) x2 p
      some (x3, subMod (lam * subMod x1 x3 p) y1 p)

/-- `point_mul`: 256 iterations, least significant bit first -/
def mulLoop : Nat → Point → Nat → Point → Point
  | 0, _, _, R => R
  | f+1, P, k, R => mulLoop f (add P P) (k / 2) (if k % 2 = 1 then add R P else R)

def mul (P : Point) (k : Nat) : Point := mulLoop 256 P k none

/-- `lift_x`: the point with this x and even y, if x is a field element on the curve -/
def liftX (x : Nat) : Point :=
  if x ≥ p then none
  else
    let ySq := (powMod x 3 p + 7) % p
    let y := powMod ySq ((p + 1) / 4) p
    if powMod y 2 p ≠ ySq then none
    else some (x, if y % 2 = 0 then y else p - y)

def onCurve : Point → Bool
  | none => true
  | some (x, y) => x < p && y < p && (y * y) % p == (x * x * x + 7) % p

def neg : Point → Point
  | none => none
  | some (x, y) => some (x, (p - y) % p)

/-- modular inverse modulo the group order (Fermat; `n` is prime) -/
def invN (a : Nat) : Nat := powMod a (n - 2) n

end Secp
