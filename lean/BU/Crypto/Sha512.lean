import BU.Py
/-! Executable SHA-512 (FIPS 180-4), HMAC-SHA512 (RFC 2104) and PBKDF2-HMAC-SHA512 (RFC 8018) for the driver.
Not proved against the standards: validated against `hashlib`/`hmac` on every run. -/
namespace Crypto
namespace Sha512
def K : Array UInt64 := #[
0x428a2f98d728ae22,0x7137449123ef65cd,0xb5c0fbcfec4d3b2f,0xe9b5dba58189dbbc,0x3956c25bf348b538,0x59f111f1b605d019,0x923f82a4af194f9b,0xab1c5ed5da6d8118,
0xd807aa98a3030242,0x12835b0145706fbe,0x243185be4ee4b28c,0x550c7dc3d5ffb4e2,0x72be5d74f27b896f,0x80deb1fe3b1696b1,0x9bdc06a725c71235,0xc19bf174cf692694,
0xe49b69c19ef14ad2,0xefbe4786384f25e3,0x0fc19dc68b8cd5b5,0x240ca1cc77ac9c65,0x2de92c6f592b0275,0x4a7484aa6ea6e483,0x5cb0a9dcbd41fbd4,0x76f988da831153b5,
0x983e5152ee66dfab,0xa831c66d2db43210,0xb00327c898fb213f,0xbf597fc7beef0ee4,0xc6e00bf33da88fc2,0xd5a79147930aa725,0x06ca6351e003826f,0x142929670a0e6e70,
0x27b70a8546d22ffc,0x2e1b21385c26c926,0x4d2c6dfc5ac42aed,0x53380d139d95b3df,0x650a73548baf63de,0x766a0abb3c77b2a8,0x81c2c92e47edaee6,0x92722c851482353b,
0xa2bfe8a14cf10364,0xa81a664bbc423001,0xc24b8b70d0f89791,0xc76c51a30654be30,0xd192e819d6ef5218,0xd69906245565a910,0xf40e35855771202a,0x106aa07032bbd1b8,
0x19a4c116b8d2d0c8,0x1e376c085141ab53,0x2748774cdf8eeb99,0x34b0bcb5e19b48a8,0x391c0cb3c5c95a63,0x4ed8aa4ae3418acb,0x5b9cca4f7763e373,0x682e6ff3d6b2b8a3,
0x748f82ee5defb2fc,0x78a5636f43172f60,0x84c87814a1f0ab72,0x8cc702081a6439ec,0x90befffa23631e28,0xa4506cebde82bde9,0xbef9a3f7b2c67915,0xc67178f2e372532b,
0xca273eceea26619c,0xd186b8c721c0c207,0xeada7dd6cde0eb1e,0xf57d4f7fee6ed178,0x06f067aa72176fba,0x0a637dc5a2c898a6,0x113f9804bef90dae,0x1b710b35131c471b,
0x28db77f523047d84,0x32caab7b40c72493,0x3c9ebe0a15c9bebc,0x431d67c49c100d4c,0x4cc5d4becb3e42b6,0x597f299cfc657e2a,0x5fcb6fab3ad6faec,0x6c44198c4a475817]
@[inline] def rotr (x : UInt64) (n : UInt64) : UInt64 := (x >>> n) ||| (x <<< (64 - n))
def compress (h : Array UInt64) (blk : Array UInt8) (off : Nat) : Array UInt64 := Id.run do
  let mut w : Array UInt64 := Array.mkEmpty 80
  for i in [0:16] do
    let mut x : UInt64 := 0
    for j in [0:8] do x := (x <<< 8) ||| blk[off + 8*i + j]!.toUInt64
    w := w.push x
  for i in [16:80] do
    let w15 := w[i-15]!; let w2 := w[i-2]!
    let s0 := rotr w15 1 ^^^ rotr w15 8 ^^^ (w15 >>> 7)
    let s1 := rotr w2 19 ^^^ rotr w2 61 ^^^ (w2 >>> 6)
    w := w.push (w[i-16]! + s0 + w[i-7]! + s1)
  let mut a := h[0]!; let mut b := h[1]!; let mut c := h[2]!; let mut d := h[3]!
  let mut e := h[4]!; let mut f := h[5]!; let mut g := h[6]!; let mut hh := h[7]!
  for i in [0:80] do
    let s1 := rotr e 14 ^^^ rotr e 18 ^^^ rotr e 41
    let ch := (e &&& f) ^^^ ((~~~ e) &&& g)
    let t1 := hh + s1 + ch + K[i]! + w[i]!
    let s0 := rotr a 28 ^^^ rotr a 34 ^^^ rotr a 39
    let mj := (a &&& b) ^^^ (a &&& c) ^^^ (b &&& c)
    let t2 := s0 + mj
    hh := g; g := f; f := e; e := d + t1; d := c; c := b; b := a; a := t1 + t2
  return #[h[0]!+a,h[1]!+b,h[2]!+c,h[3]!+d,h[4]!+e,h[5]!+f,h[6]!+g,h[7]!+hh]
def hashA (msg : Array UInt8) : Array UInt8 := Id.run do
  let len := msg.size
  let mut m := msg.push 0x80
  let z := (239 - len % 128) % 128
  for _ in [0:z] do m := m.push 0
  let bits := len * 8
  for i in [0:16] do m := m.push (UInt8.ofNat ((bits >>> (8*(15-i))) % 256))
  let mut h : Array UInt64 := #[0x6a09e667f3bcc908,0xbb67ae8584caa73b,0x3c6ef372fe94f82b,0xa54ff53a5f1d36f1,
                                0x510e527fade682d1,0x9b05688c2b3e6c1f,0x1f83d9abfb41bd6b,0x5be0cd19137e2179]
  for b in [0:m.size/128] do h := compress h m (128*b)
  let mut out := Array.mkEmpty 64
  for x in h do
    for j in [0:8] do out := out.push (x >>> (UInt64.ofNat (8*(7-j)))).toUInt8
  return out
end Sha512
def sha512 (b : Bytes) : Bytes := (Sha512.hashA b.toArray).toList

/-- HMAC-SHA512 (block size 128) -/
def hmacSha512 (key msg : Bytes) : Bytes :=
  let k := if key.length > 128 then sha512 key else key
  let k := k ++ List.replicate (128 - k.length) 0
  let ipad := k.map (· ^^^ 0x36)
  let opad := k.map (· ^^^ 0x5c)
  sha512 (opad ++ sha512 (ipad ++ msg))

def xorB (a b : Bytes) : Bytes := (a.zip b).map fun p => p.1 ^^^ p.2

/-- PBKDF2-HMAC-SHA512, one 64-byte block (dkLen = 64) -/
def pbkdf2Sha512 (password salt : Bytes) (iters : Nat) : Bytes :=
  let u1 := hmacSha512 password (salt ++ [0, 0, 0, 1])
  let rec go : Nat → Bytes → Bytes → Bytes
    | 0, _, acc => acc
    | k+1, u, acc => let u' := hmacSha512 password u; go k u' (xorB acc u')
  go (iters - 1) u1 u1
end Crypto
