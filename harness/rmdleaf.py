"""Leaf-level correspondence for the RIPEMD-160 internals of bitcoinutils/ripemd160.py (rol, fi, compress):
a defect that needs one particular 32-bit word inside the 80 rounds (an all-ones word, a carry out of bit 31, a
negative or oversized intermediate) is reached about once in 2^24 whole-hash inputs, but immediately when the
leaves are driven with boundary words.  Shared by C12 and C20."""
from harness.common import Case, hx

M32 = 0xffffffff
WORDS = [0, 1, 2, 0x7fffffff, 0x80000000, 0x80000001, 0xfffffffe, 0xffffffff, 0x55555555, 0xaaaaaaaa, 0x0000ffff, 0xffff0000,
         0x67452301, 0xefcdab89, 0x98badcfe, 0x10325476, 0xc3d2e1f0]


def words(rng, n):
    return [rng.choice(WORDS) if rng.random() < 0.5 else rng.getrandbits(32) for _ in range(n)]


def unmask(rng, w):
    """the same 32-bit word as the larger (or negative) Python int the unmasked additions of compress produce"""
    r = rng.random()
    if r < 0.5: return w
    if r < 0.9: return w + (rng.randrange(1, 6) << 32)
    return w - (1 << 32)


def cases(ctx):
    rng = ctx.rng
    import bitcoinutils.ripemd160 as R
    have = {n: callable(getattr(R, n, None)) for n in ('rol', 'fi', 'compress')}
    ctx.count('rmd-leaves-present-' + ''.join(k[0] for k, v in have.items() if v))
    if have['rol']:
        for w in WORDS + words(rng, ctx.n(40, 2000)):
            for i in ([5, 6, 7, 8, 9, 10, 11, 12, 13, 14, 15] if w not in WORDS else range(0, 33)):
                x = unmask(rng, w)
                yield Case(f'rmd_rol {x} {i}', 'gms', nontrivial=True, tag='rmd-rol')
    if have['fi']:
        for _ in range(ctx.n(150, 5000)):
            x, y, z = (unmask(rng, w) for w in words(rng, 3))
            yield Case(f'rmd_fi {x} {y} {z} {rng.randrange(5)}', 'gms', nontrivial=True, tag='rmd-fi')
    if have['compress']:
        for k in range(ctx.n(120, 4000)):
            h = words(rng, 5)
            blk = b''.join(w.to_bytes(4, 'little') for w in words(rng, 16))
            if k % 3 == 0:
                # make the very first left-line addition come out as a chosen boundary word:
                # al + f(bl,cl,dl) + x[0] + 0 = target (mod 2^32)
                target = rng.choice(WORDS)
                x0 = (target - h[0] - (h[1] ^ h[2] ^ h[3])) & M32
                blk = x0.to_bytes(4, 'little') + blk[4:]
            hs = [unmask(rng, w) if w + (5 << 32) >= 0 else w for w in h]
            yield Case('rmd_compress ' + ' '.join(str(v) for v in hs) + ' ' + hx(blk), 'ms', nontrivial=True, tag='rmd-compress')


def impl(op, a, ctx):
    import bitcoinutils.ripemd160 as R
    if op == 'rmd_rol':
        return f'ok {R.rol(int(a[0]), int(a[1])) & M32}'
    if op == 'rmd_fi':
        return f'ok {R.fi(int(a[0]), int(a[1]), int(a[2]), int(a[3])) & M32}'
    if op == 'rmd_compress':
        r = R.compress(*[int(v) for v in a[:5]], bytes.fromhex(a[5]))
        return 'ok ' + ' '.join(str(v & M32) for v in r)
    return None
