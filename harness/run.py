#!/venv/bin/python
"""./check Cnn quick|thorough   and   ./check Cnn --replay FILE

Flow (DESIGN.md §3): regenerate BU/Gen from /repo -> build driver + property module -> axiom audit ->
parameter validation -> correspondence (impl vs hand model / generated code) + direct spec comparison
-> on a broken tie: failing-input search (impl vs Spec) -> evidence.
exit 0 = held, 1 = VIOLATION printed, 2 = machinery fault / timeout."""
import os, sys, json, time, re, subprocess, importlib, fcntl, traceback, glob

sys.dont_write_bytecode = True
HERE = os.path.dirname(os.path.abspath(__file__))
sys.path.insert(0, os.path.dirname(HERE))
from harness import common as C
from harness.common import Case, Ctx

FORBIDDEN = re.compile(r'\bsorry\b|\badmit\b|^\s*axiom\s|native_decide|bv_decide|implemented_by|\bunsafe\s|maxHeartbeats\s+0\b', re.M)


DEV = os.environ.get('BU_DEV') == '1'   # development only: proofs in progress may still contain sorry


def log(*a):
    print(*a, file=sys.stderr, flush=True)


def strip_comments(src):
    src = re.sub(r'/-.*?-/', '', src, flags=re.S)
    return re.sub(r'--.*', '', src)


class Lock:
    def __enter__(self):
        os.makedirs(os.path.join(C.LEAN, '.lake'), exist_ok=True)
        self.f = open(os.path.join(C.LEAN, '.lake', 'verif.lock'), 'w')
        fcntl.flock(self.f, fcntl.LOCK_EX)
        return self

    def __exit__(self, *a):
        fcntl.flock(self.f, fcntl.LOCK_UN); self.f.close()


def sh(cmd, cwd=C.LEAN, timeout=3600):
    p = subprocess.run(cmd, cwd=cwd, stdout=subprocess.PIPE, stderr=subprocess.STDOUT, timeout=timeout)
    return p.returncode, p.stdout.decode(errors='replace')


def prop_files(prop):
    """BU/Properties/<prop>.lean and its continuation modules BU/Properties/<prop>_*.lean"""
    d = os.path.join(C.LEAN, 'BU', 'Properties')
    # a continuation module still under construction (contains `sorry`) is not yet part of the claim
    def finished(f):
        # ... in the module itself or in anything of the project it imports
        rel = os.path.relpath(f, C.LEAN)
        return not any(re.search(r'\bsorry\b', strip_comments(open(os.path.join(C.LEAN, g)).read())) for g in lean_deps([rel]))
    cont = [f for f in sorted(glob.glob(os.path.join(d, prop + '_*.lean'))) if finished(f)]
    return [os.path.join(d, prop + '.lean')] + cont


def prop_modules(prop):
    return ['BU.Properties.' + os.path.basename(f)[:-5] for f in prop_files(prop)]


def theorems_of(prop):
    """names of the property theorems (and T-ties) stated in BU/Properties/<prop>.lean (+ continuation modules)"""
    names = []
    for path in prop_files(prop):
        names += theorems_in(path)
    return names


def theorems_in(path):
    src = strip_comments(open(path).read())
    names = []
    ns = []
    for line in src.split('\n'):
        m = re.match(r'\s*namespace\s+(\S+)', line)
        if m: ns.append(m.group(1))
        m = re.match(r'\s*end\s+(\S+)', line)
        if m and ns and ns[-1] == m.group(1): ns.pop()
        m = re.match(r'\s*(?:@\[[^\]]*\]\s*)?(?:private\s+|protected\s+)?theorem\s+([^\s:({\[]+)', line)
        if m: names.append('.'.join(ns + [m.group(1)]))
    return names


def theorem_at(prop, lineno):
    path = os.path.join(C.LEAN, 'BU', 'Properties', prop + '.lean')
    best = None
    for i, line in enumerate(open(path), 1):
        m = re.match(r'\s*(?:@\[[^\]]*\]\s*)?theorem\s+([^\s:({\[]+)', line)
        if m and i <= lineno: best = m.group(1)
    return best


def regenerate():
    rc, out = sh(['/venv/bin/python', os.path.join(C.VERIF, 'gen', 'py2lean.py'), C.REPO,
                  os.path.join(C.LEAN, 'BU', 'Gen')], cwd=C.VERIF)
    return rc == 0, out.strip()


def build(prop):
    """returns (driver_ok, proofs_ok, broken: list of str, log)"""
    rc, out = sh(['lake', 'build', 'budriver', 'BU.Driver.Core'])
    if rc != 0:
        return False, False, ['driver build'], out
    rc, out = sh(['lake', 'build'] + prop_modules(prop))
    if rc == 0:
        return True, True, [], out
    broken = []
    for m in re.finditer(r'error: (\S+?\.lean):(\d+):(\d+): (.*)', out):
        f, ln, msg = m.group(1), int(m.group(2)), m.group(4)
        if f.endswith(f'Properties/{prop}.lean'):
            broken.append(f'BU.Properties.{prop}.{theorem_at(prop, ln)} ({f}:{ln}: {msg[:120]})')
        else:
            broken.append(f'{f}:{ln}: {msg[:120]}')
    if not broken:
        broken = ['lake build BU.Properties.%s failed' % prop]
    return True, False, broken, out


def audit(prop, names):
    """#print axioms for every property theorem; forbidden-token grep over the Lean sources"""
    path = os.path.join(C.LEAN, 'BU', 'Audit', prop + '.lean')
    text = ''.join(f'import {m}\n' for m in prop_modules(prop)) + ''.join(f'#print axioms {n}\n' for n in names)
    os.makedirs(os.path.dirname(path), exist_ok=True)
    if not os.path.exists(path) or open(path).read() != text:
        open(path, 'w').write(text)
    rc, out = sh(['lake', 'env', 'lean', path])
    if rc != 0:
        raise C.MachineryFault('axiom audit failed to run:\n' + out[-3000:])
    axioms = {}
    flat = re.sub(r'\n\s+', ' ', out)
    for n in names:
        m = re.search(r"'%s' depends on axioms: \[([^\]]*)\]" % re.escape(n), flat)
        if m:
            axioms[n] = sorted(a.strip() for a in m.group(1).split(',') if a.strip())
        elif re.search(r"'%s' does not depend on any axioms" % re.escape(n), flat):
            axioms[n] = []
        else:
            raise C.MachineryFault(f'axiom audit: no answer for {n}:\n{out[-2000:]}')
        bad = set(axioms[n]) - C.ALLOWED_AXIOMS
        if bad and not DEV:
            raise C.MachineryFault(f'axiom audit: {n} depends on {sorted(bad)}')
    hits = []
    for f in sorted(lean_deps([os.path.relpath(x, C.LEAN) for x in prop_files(prop)] + ['Main.lean', 'GenMain.lean'])):
        for m in FORBIDDEN.finditer(strip_comments(open(os.path.join(C.LEAN, f)).read())):
            hits.append(f'{f}: {m.group(0).strip()}')
    if hits and not DEV:
        raise C.MachineryFault('forbidden tokens in Lean sources: ' + '; '.join(hits[:10]))
    return axioms


def lean_deps(roots):
    """the project's own Lean files reachable through `import BU.…` from the given files"""
    seen = set(); todo = list(roots)
    while todo:
        f = todo.pop()
        if f in seen or not os.path.exists(os.path.join(C.LEAN, f)): continue
        seen.add(f)
        for m in re.finditer(r'^import\s+(BU(?:\.\w+)+)', open(os.path.join(C.LEAN, f)).read(), re.M):
            todo.append(m.group(1).replace('.', '/') + '.lean')
    return seen


def load_prop(prop):
    return importlib.import_module('harness.props.' + prop.lower())


def run_cases(mod, ctx, cases, kinds_wanted='mgs'):
    """returns list of result dicts, one per case"""
    C_ = C
    t_start = time.time()
    lines_m, lines_g, lines_s = [C_.tables_line()], [], []
    idx_m, idx_g, idx_s = [], [], []
    res = []
    for k, c in enumerate(cases):
        f = c.line.split(' ')
        if c.setup: c.setup()
        ans, exc = C_.impl_answer(mod.impl, f[0], f[1:], ctx)
        r = {'case': c, 'impl': ans, 'exc': exc, 'm': None, 'g': None, 's': None, 'sexp': None, 'sline': None, 'mexp': ans}
        res.append(r)
        if 'm' in c.kinds and 'm' in kinds_wanted:
            if c.model is not None:
                ml, mexp = c.model(ans)
                if ml is not None:
                    r['mexp'] = mexp
                    lines_m.append(ml); idx_m.append(k)
            else:
                lines_m.append('m:' + c.line); idx_m.append(k)
        if 'g' in c.kinds and 'g' in kinds_wanted:
            lines_g.append('g:' + c.line); idx_g.append(k)
        if 's' in c.kinds and c.domain and 's' in kinds_wanted:
            if c.spec is not None:
                sl, sexp = c.spec(ans)
            else:
                sl, sexp = 's:' + c.line, ans
            if sl is not None:
                r['sline'] = sl; r['sexp'] = sexp
                lines_s.append(sl); idx_s.append(k)
    # the compiled driver answers model and spec lines in one pass
    t_impl = time.time()
    both = lines_m[1:] + lines_s
    stateful = getattr(mod, 'STATEFUL', False)
    if stateful:
        # model requests carry state: one process, in order; spec requests are stateless: spread out
        out = C_.run_driver(lines_m, parallel=False)[1:] + C_.run_driver(lines_s, prefix=lines_m[0])
    else:
        out = C_.run_driver(both, prefix=lines_m[0])
    for j, k in enumerate(idx_m): res[k]['m'] = out[j]
    off = len(lines_m) - 1
    for j, k in enumerate(idx_s): res[k]['s'] = out[off + j]
    log(f'  [timing] implementation+generation {t_impl - t_start:.1f}s, driver {time.time() - t_impl:.1f}s for {len(both)} lines')
    if lines_g:
        # the generated code is *interpreted* (it changes with the source, so it is not compiled): bound the work per run by an
        # even stride over the stream (every tag keeps its share); the model/Spec comparisons above still cover every case
        # (by request volume: short leaf requests by the hundred thousand are cheap, a digest over a 2 kB transaction is not)
        cap = int(os.environ.get('VERIF_G_CAP_BYTES', str(6 * 1024 * 1024)))
        total = sum(len(l) for l in lines_g)
        if total > cap:
            n_keep = max(1, int(len(lines_g) * cap / total))
            step = len(lines_g) / n_keep
            keep = sorted({int(j * step) for j in range(n_keep)})
            lines_g = [lines_g[j] for j in keep]; idx_g = [idx_g[j] for j in keep]
        outg = C_.run_driver(lines_g, gen=True)
        for j, k in enumerate(idx_g): res[k]['g'] = outg[j]
    for r in res:
        for key in ('m', 'g', 's'):
            if r[key] is not None and (r[key].startswith('bad-')):
                if key == 's' and r['case'].spec is not None and r['sline'] != 's:' + r['case'].line:
                    continue      # the Spec request embeds the implementation's answer: unparsable answer = disagreement
                raise C_.MachineryFault(f'driver could not parse request `{r["case"].line[:200]}` ({key}): {r[key]}')
    return res


def write_replay(prop, seed, kind, payload):
    d = os.path.join(C.VERIF, 'evidence', 'replay')
    os.makedirs(d, exist_ok=True)
    path = os.path.join(d, f'{prop}-{seed}-{kind}.json')
    json.dump(payload, open(path, 'w'), indent=1)
    return os.path.relpath(path, C.VERIF)


def analyse(res, known):
    """-> (spec_violations, known_hits, tie_breaks)"""
    viol, knownhits, ties = [], [], []
    for r in res:
        c = r['case']
        if r['s'] is not None and r['s'] != r['sexp']:
            hit = None
            for rx, text in known:
                if rx.search(c.line): hit = text
            if hit: knownhits.append((r, hit))
            else: viol.append(r)
        else:
            if r['m'] is not None and r['m'] != r['mexp']: ties.append(('model', r))
            # `unsupported`: the translator emitted a stub for a function outside its subset — no comparison; whether a property is
            # affected is decided by whether its theorems still check
            if r['g'] is not None and r['g'] != 'unsupported' and r['g'] != r['impl']: ties.append(('generated', r))
    return viol, knownhits, ties


def shrink(mod, ctx, r):
    """property modules may offer `shrink(line) -> candidate lines`; keep the smallest that still fails"""
    if not hasattr(mod, 'shrink'):
        return r
    cur = r
    for _ in range(200):
        better = None
        for cand in mod.shrink(cur['case'].line):
            c0 = cur['case']
            c = Case(cand, c0.kinds, c0.nontrivial, c0.tag, c0.domain, c0.spec, c0.setup)
            try:
                rr = run_cases(mod, ctx, [c], 's')[0]
            except Exception:
                continue
            if rr['s'] is not None and rr['s'] != rr['sexp']:
                better = rr; break
        if better is None: break
        cur = better
    return cur


def res_json(r):
    c = r['case']
    return {'request': c.line, 'tag': c.tag, 'implementation': r['impl'], 'implementation_exception': r['exc'],
            'model': r['m'], 'generated': r['g'], 'spec_request': r['sline'], 'spec': r['s'], 'spec_expected': r['sexp']}


def replay(prop, path):
    mod = load_prop(prop)
    d = json.load(open(path))
    ctx = Ctx(prop, 'quick', d.get('seed', C.DEFAULT_SEED))
    if 'request' not in d:
        print('replay file names a broken tie, no concrete input:', json.dumps(d, indent=1)); return 1
    c = Case(d['request'], d.get('kinds', 'ms'))
    for cc in mod.cases(ctx):   # find the spec builder of the same op, if it needs one
        if cc.line.split(' ')[0] == c.line.split(' ')[0]:
            c.spec = cc.spec; c.kinds = cc.kinds; break
    r = run_cases(mod, ctx, [c])[0]
    print(json.dumps(res_json(r), indent=1))
    bad = r['s'] is not None and r['s'] != r['sexp']
    print('VIOLATION reproduced' if bad else 'no violation on this tree')
    return 1 if bad else 0


def main():
    if len(sys.argv) < 3:
        print(__doc__); return 2
    prop = sys.argv[1]
    if sys.argv[2] == '--replay':
        return replay(prop, sys.argv[3])
    tier = os.environ.get('VERIF_TIER') or sys.argv[2]
    if tier not in ('quick', 'thorough'): tier = 'quick'
    seed = int(os.environ.get('VERIF_SEED', C.DEFAULT_SEED))
    t0 = time.time()
    mod = load_prop(prop)
    ev = {'property_id': prop, 'tier': tier, 'seed': seed, 'level': 'proof', 'coverage': {}, 'assumptions': [],
          'wall_s': 0.0, 'violations': 0}
    broken = []        # names of ties that no longer check
    with Lock():
        ok, gen_msg = regenerate()
        unsupported = {}
        if not ok:
            broken.append('translator gen/py2lean.py: ' + gen_msg[-300:])
            # keep the previously generated files so that the rest still builds, if it can
        else:
            try: unsupported = json.loads(gen_msg.strip().split('\n')[-1]).get('unsupported', {})
            except Exception: unsupported = {}
            if unsupported:
                # stubs were generated for these; a property is affected iff one of its theorems no longer checks (below)
                log(f'[{prop}] translator: outside the translated subset: ' + '; '.join(f'{k}: {v[:160]}' for k, v in unsupported.items()))
        driver_ok, proofs_ok, b, blog = build(prop)
        if not driver_ok:
            log(blog[-4000:]); raise C.MachineryFault('the driver does not build')
        broken += b
        names = theorems_of(prop)
        axioms = {}
        if proofs_ok:
            axioms = audit(prop, names)
        if tier == 'thorough' and proofs_ok:
            rc, out = sh(['lake', 'env', 'leanchecker'] + prop_modules(prop), timeout=3600)
            if rc != 0:
                raise C.MachineryFault('leanchecker rejected the property module:\n' + out[-2000:])
            ev['coverage']['leanchecker'] = 'ok'
        # the interpreted Gen driver needs the generated modules; build them if we can
        gen_ok = True
        if any('g' in k for k in getattr(mod, 'KINDS', 'ms')):
            rc, out = sh(['lake', 'build', 'BU.Gen.Codec', 'BU.Gen.Tables'])
            if rc != 0:
                gen_ok = False
                broken.append('generated code does not elaborate: ' + out[-300:].replace('\n', ' '))
    known = C.load_known(prop)
    ctx = Ctx(prop, tier, seed)
    pv = mod.param_validation(ctx) if hasattr(mod, 'param_validation') else None
    cases = list(mod.cases(ctx))
    res = run_cases(mod, ctx, cases, 'mgs' if gen_ok else 'ms')
    viol, knownhits, ties = analyse(res, known)
    for kind, r in ties[:1]:
        broken.append(f'correspondence implementation vs {kind}: `{r["case"].line[:160]}` impl={str(r["impl"])[:80]} {kind}={str(r["m"] if kind == "model" else r["g"])[:80]}')
    searched = 0
    if broken and not viol:
        # failing-input search: implementation vs executable Spec on a 10x stream
        log(f'[{prop}] tie broken ({broken[0][:200]}); searching for a failing input')
        ctx2 = Ctx(prop, tier, seed + 1, scale=10)
        cases2 = list(mod.cases(ctx2))
        res2 = run_cases(mod, ctx2, cases2, 's')
        searched = len(res2)
        v2, k2, _ = analyse(res2, known)
        viol += v2; knownhits += k2
    seen = set()
    for r, text in knownhits:
        if text not in seen:
            seen.add(text); print(f'KNOWN-FINDING: property={prop} {text}')
    rc = 0
    replay_path = None
    if viol:
        r = shrink(mod, ctx, viol[0])
        payload = dict(res_json(r), property=prop, seed=seed, tier=tier, kinds=r['case'].kinds, broken_ties=broken,
                       how='`./check %s --replay <this file>` re-runs the request on the implementation and the Spec' % prop)
        replay_path = write_replay(prop, seed, 'input', payload)
        print(f'VIOLATION property={prop} replay={replay_path}')
        rc = 1
    elif broken:
        payload = {'property': prop, 'seed': seed, 'tier': tier, 'no_longer_checks': broken,
                   'searched_inputs': searched + len(res), 'note': 'no input found on which implementation and Spec differ'}
        replay_path = write_replay(prop, seed, 'tie', payload)
        print(f'VIOLATION property={prop} replay={replay_path} no-failing-input-found')
        rc = 1
    # ---- evidence
    distinct = set(); samples = []
    for r in res:
        c = r['case']
        if c.nontrivial and c.line not in distinct:
            distinct.add(c.line)
            if len(samples) < 5: samples.append({'request': c.line[:400], 'implementation': str(r['impl'])[:200]})
    nth = len(names)
    cov = ev['coverage']
    cov.update({
        'obligations': nth, 'discharged': nth if proofs_ok else 0,
        'theorems': names, 'axioms': axioms,
        'checker_cmd': f'cd /verif/lean && lake build BU.Properties.{prop} && lake env lean BU/Audit/{prop}.lean'
                       + (' && lake env leanchecker BU.Properties.%s' % prop if tier == 'thorough' else ''),
        'trusted_base': getattr(mod, 'TRUSTED', []) + ['Lean 4.33.0 kernel', 'axioms: propext, Classical.choice, Quot.sound only',
                                                       'gen/py2lean.py + BU/Py.lean (translator semantics)',
                                                       'harness generators/canonicalisation (correspondence is sampling)'],
        'evaluations': len(res) + searched,
        'distinct_nontrivial': len(distinct),
        'rule': getattr(mod, 'RULE', ''),
        'samples': samples or [{'request': res[0]['case'].line[:400]}] if res else [],
        'distribution': ctx.dist,
        'traces_validated_against_impl': sum(1 for r in res if r['m'] is not None or r['g'] is not None),
        'spec_comparisons': sum(1 for r in res if r['s'] is not None),
        'param_validation': pv,
        'broken_ties': broken,
        'translator_unsupported': unsupported,
        'known_findings_hit': sorted(seen),
    })
    ev['assumptions'] = getattr(mod, 'ASSUMPTIONS', [])
    ev['violations'] = len(viol) + (1 if (broken and not viol) else 0)
    ev['wall_s'] = round(time.time() - t0, 2)
    os.makedirs(os.path.join(C.VERIF, 'evidence'), exist_ok=True)
    json.dump(ev, open(os.path.join(C.VERIF, 'evidence', prop + '.json'), 'w'), indent=1)
    log(f'[{prop}] {tier} seed={seed}: {len(res)} cases, {len(distinct)} distinct non-trivial, {nth} theorems '
        f'{"checked" if proofs_ok else "BROKEN"}, {ev["wall_s"]}s -> exit {rc}')
    return rc


if __name__ == '__main__':
    try:
        sys.exit(main())
    except C.MachineryFault as ex:
        log('MACHINERY FAULT:', ex); sys.exit(2)
    except subprocess.TimeoutExpired as ex:
        log('TIMEOUT:', ex); sys.exit(2)
    except Exception:
        traceback.print_exc(); sys.exit(2)
