"""Real-chain signature oracle: the signatures found in the mainnet block fixtures certify a digest as the
consensus digest (a digest under which a mainnet signature verifies with libsecp256k1 *is* the consensus one).
Each entry: the library computes the digest for the spend, libsecp256k1 (coincurve) verifies the chain signature
against it, and the Spec digest of the same spend (driver) must equal the library's."""
import hashlib
from harness import fixtures as FX
from harness.common import hx, tx_to_line, toks_str

N = 0xFFFFFFFFFFFFFFFFFFFFFFFFFFFFFFFEBAAEDCE6AF48A03BBFD25E8CD0364141
_lib = {}


def lib_tx(name, i):
    from bitcoinutils.transactions import Transaction
    key = (name, i)
    if key not in _lib:
        _lib[key] = Transaction.from_raw(FX.block(name)['txs'][i]['raw'].hex())
    return _lib[key]


def lax_der(sig):
    """(r, s) from a possibly non-strict DER signature (without hash-type byte); None if hopeless"""
    try:
        if sig[0] != 0x30: return None
        o = 2 if sig[1] < 0x80 else 2 + (sig[1] & 0x7f)
        if sig[o] != 2: return None
        lr = sig[o + 1]; r = int.from_bytes(sig[o + 2:o + 2 + lr], 'big'); o += 2 + lr
        if sig[o] != 2: return None
        ls = sig[o + 1]; s = int.from_bytes(sig[o + 2:o + 2 + ls], 'big')
        return r, s
    except Exception:
        return None


def secp_verify(pub, digest, r, s):
    import coincurve
    from ecdsa.util import sigencode_der
    if s > N // 2: s = N - s          # libsecp256k1 verifies normalised signatures only
    try:
        return coincurve.PublicKey(pub).verify(sigencode_der(r, s, N), digest, hasher=None)
    except Exception:
        return False


def schnorr_verify(pk32, digest, sig64):
    import coincurve
    try:
        return coincurve.PublicKeyXOnly(pk32).verify(sig64, digest)
    except Exception:
        return False


def is_push_only_two(script):
    """scriptSig = <sig> <pubkey>"""
    try:
        l1 = script[0]
        if not (9 <= l1 <= 73): return None
        sig = script[1:1 + l1]
        l2 = script[1 + l1]
        pub = script[2 + l1:2 + l1 + l2]
        if l2 not in (33, 65) or 2 + l1 + l2 != len(script): return None
        return sig, pub
    except Exception:
        return None


def h160(b):
    from Crypto.Hash import RIPEMD160
    return RIPEMD160.new(hashlib.sha256(b).digest()).digest()


def index_block(name):
    b = FX.block(name)
    return {t['txid']: k for k, t in enumerate(b['txs'])}


def p2pkh_spends():
    """(block, tx index, input index, sig, pub) for every input whose scriptSig is <sig> <pubkey>"""
    for name in FX.FILES:
        for k, t in enumerate(FX.block(name)['txs']):
            for j, i in enumerate(t['ins']):
                r = is_push_only_two(i['script'])
                if r and not (t['seg'] and t['wits'][j]):
                    yield name, k, j, r[0], r[1]


def p2wpkh_spends():
    """inputs with witness <sig> <pubkey> whose spent output is in the same block and is P2WPKH (or P2SH-P2WPKH) of that key"""
    for name in ('v0', 'v1'):
        b = FX.block(name); idx = index_block(name)
        for k, t in enumerate(b['txs']):
            if not t['seg']: continue
            for j, i in enumerate(t['ins']):
                w = t['wits'][j]
                if len(w) != 2 or len(w[1]) != 33 or not (9 <= len(w[0]) <= 73): continue
                src = idx.get(i['prev'][::-1])
                if src is None: continue
                out = b['txs'][src]['outs'][i['index']]
                prog = b'\x00\x14' + h160(w[1])
                if out['script'] == prog or (i['script'] == bytes([len(prog)]) + prog and out['script'][:2] == b'\xa9\x14'):
                    yield name, k, j, w[0], w[1], out['value']


def taproot_spends():
    """taproot inputs all of whose transaction's prevouts are in the same block.
    yields (block, tx, input, kind, sig, key, leaf_script|None, spent scripts, spent amounts)"""
    name = 'v1'
    b = FX.block(name); idx = index_block(name)
    for k, t in enumerate(b['txs']):
        if not t['seg'] or k == 0: continue
        srcs = [idx.get(i['prev'][::-1]) for i in t['ins']]
        if any(s is None for s in srcs): continue
        spent = [b['txs'][s]['outs'][i['index']] for s, i in zip(srcs, t['ins'])]
        for j, i in enumerate(t['ins']):
            spk = spent[j]['script']
            if len(spk) != 34 or spk[:2] != b'\x51\x20': continue
            w = list(t['wits'][j])
            if w and w[-1][:1] == b'\x50': w = w[:-1]        # annex (not supported by the library): skip those
            if len(t['wits'][j]) != len(w): continue
            if len(w) == 1 and len(w[0]) in (64, 65):
                yield name, k, j, 'key', w[0], spk[2:], None, [s['script'] for s in spent], [s['value'] for s in spent]
            elif len(w) == 3 and len(w[0]) in (64, 65) and len(w[1]) >= 34 and w[1][0] == 0x20 and w[1][33] == 0xac \
                    and (w[2][0] & 0xfe) == 0xc0:
                yield name, k, j, 'script', w[0], w[1][1:33], w[1], [s['script'] for s in spent], [s['value'] for s in spent]


def pick(rng, items, quick_n, thorough):
    items = list(items)
    if thorough or len(items) <= quick_n: return items
    return [items[i] for i in sorted(rng.sample(range(len(items)), quick_n))]
