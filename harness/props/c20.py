"""C20 — bundled RIPEMD-160, tagged hash, BIP340"""
import hashlib
from harness.common import Case, hx, unhx, Fields, run_driver, MachineryFault
from harness import gen as G

KINDS = 'gms'
RULE = ('RIPEMD-160 on every length 0..300 and random lengths (thorough: to 100000) incl. the padding boundaries 55/56/63/64/119/120; both '
        'tagged_hash copies on random tags/data; BIP340 sign on secrets across [1,n-1] incl. 1, n-1 and the refused 0, n, with random messages and '
        'aux; verification of valid and mutated signatures (bit flips, r >= p, s >= n, negated R, other message/key) and off-curve keys, with '
        'libsecp256k1 (coincurve) as cross-oracle for accept/reject. non-trivial: message length >= 56, or a mutated signature, or an edge secret')
TRUSTED = ['SHA-256 parameter (BU/Crypto/Sha256.lean, checked against hashlib); BU/Crypto/Secp256k1.lean checked against libsecp256k1',
           'RIPEMD-160 modelled over 32-bit words (Python ints are masked in rol and at output): covered by correspondence',
           'CurveLaws hypothesis in sign_never_fails']
ASSUMPTIONS = ['CurveLaws (hypothesis of sign_never_fails only)']
N = 0xFFFFFFFFFFFFFFFFFFFFFFFFFFFFFFFEBAAEDCE6AF48A03BBFD25E8CD0364141
P = 0xFFFFFFFFFFFFFFFFFFFFFFFFFFFFFFFFFFFFFFFFFFFFFFFFFFFFFFFEFFFFFC2F
P_FIELD = P


def param_validation(ctx):
    from Crypto.Hash import RIPEMD160
    msgs = [G.rbytes(ctx.rng, n) for n in (0, 1, 55, 56, 63, 64, 119, 120, 1000)]
    out = run_driver([f's:rmd {hx(m)}' for m in msgs])
    for m, o in zip(msgs, out):
        if o != 'ok ' + RIPEMD160.new(m).hexdigest():
            raise MachineryFault('Spec RIPEMD-160 disagrees with pycryptodome')
    return {'spec_ripemd160_vs_pycryptodome': len(msgs)}


def cases(ctx):
    rng = ctx.rng
    lens = list(range(0, ctx.n(301))) + [rng.randrange(301, 5000) for _ in range(ctx.n(20, 300))]
    if ctx.thorough: lens += [rng.randrange(5000, 100001) for _ in range(40)] + [100000]
    for ln in lens:
        ctx.count('rmd')
        # the generated (translated) ripemd160 is run too, interpreted: on the short lengths and a sample of the longer ones
        kinds = 'gms' if (ln <= 130 or rng.random() < 0.05) else 'ms'
        yield Case(f'rmd {hx(G.rbytes(rng, ln) if ln > 64 else bytes(rng.getrandbits(8) for _ in range(ln)))}', kinds, nontrivial=ln >= 56, tag='rmd')
    from harness import rmdleaf
    yield from rmdleaf.cases(ctx)
    for _ in range(ctx.n(100, 3000)):
        tag = rng.choice(['TapLeaf', 'TapBranch', 'TapTweak', 'TapSighash', 'BIP0340/aux', 'BIP0340/nonce', 'BIP0340/challenge', 'x', 'Tag%d' % rng.randrange(100)])
        yield Case(f'tagged {tag} {hx(G.rbytes(rng, rng.randrange(0, 200)))}', 's', nontrivial=True, tag='tagged')
    secrets = [1, 2, N - 1, N - 2, 2 ** 255, 3] + [rng.randrange(1, N) for _ in range(ctx.n(20, 400))]
    sigs = []
    for d in secrets:
        msg = G.rbytes(rng, 32); aux = rng.choice([bytes(32), G.rbytes(rng, 32)])
        ctx.count('sign')
        # a few also through the generated (translated) schnorr_sign, interpreted (about a second each)
        gk = 'gms' if len(sigs) < ctx.n(6, 40) else 'ms'
        yield Case(f'schnorr_sign {hx(msg)} {hx(d.to_bytes(32, "big"))} {hx(aux)}', gk, nontrivial=True, tag='sign',
                   spec=lambda ans, msg=msg, d=d, aux=aux: (f's:bip340_sign {hx(msg)} {hx(d.to_bytes(32, "big"))} {hx(aux)}', ans))
        sigs.append((msg, d, aux))
    # leading zero bytes in every byte string that enters the nonce: message, aux, and t = bytes(d') xor H_aux(aux)
    from bitcoinutils.schnorr import full_pubkey_gen
    def tag(t, m):
        th = hashlib.sha256(t.encode()).digest(); return hashlib.sha256(th + th + m).digest()
    for d in secrets[:ctx.n(8, 200)]:
        pk = full_pubkey_gen(d.to_bytes(32, 'big'))
        de = d if pk[63] % 2 == 0 else N - d
        want = rng.choice([1, 1, 2])
        aux = None
        for _ in range(300000):
            cand = rng.getrandbits(256).to_bytes(32, 'big')
            t = bytes(a ^ b for a, b in zip(de.to_bytes(32, 'big'), tag('BIP0340/aux', cand)))
            if t[:want] == bytes(want): aux = cand; break
        for msg, ax in [(G.rbytes(rng, 32), aux), (bytes(2) + G.rbytes(rng, 30), G.rbytes(rng, 32)), (G.rbytes(rng, 32), bytes(3) + G.rbytes(rng, 29))]:
            if ax is None: continue
            ctx.count('sign-leading-zero')
            yield Case(f'schnorr_sign {hx(msg)} {hx(d.to_bytes(32, "big"))} {hx(ax)}', 'ms', nontrivial=True, tag='sign-leading-zero',
                       spec=lambda ans, msg=msg, d=d, ax=ax: (f's:bip340_sign {hx(msg)} {hx(d.to_bytes(32, "big"))} {hx(ax)}', ans))
    for d in (0, N, N + 1, 2 ** 256 - 1):
        yield Case(f'schnorr_sign {hx(bytes(32))} {hx(d.to_bytes(32, "big"))} {hx(bytes(32))}', 'ms', nontrivial=True, tag='sign-badkey',
                   spec=lambda ans, d=d: (f's:bip340_sign {hx(bytes(32))} {hx(d.to_bytes(32, "big"))} {hx(bytes(32))}', ans))
    yield Case(f'schnorr_sign {hx(bytes(31))} {hx((5).to_bytes(32, "big"))} {hx(bytes(32))}', 'm', nontrivial=True, tag='sign-badlen', domain=False)
    # verification: valid + mutated
    from bitcoinutils.schnorr import schnorr_sign, pubkey_gen
    for msg, d, aux in sigs[:ctx.n(10, 400)]:
        sk = d.to_bytes(32, 'big')
        pk = pubkey_gen(sk); sig = schnorr_sign(msg, sk, aux)
        muts = [('valid', msg, pk, sig)]
        b = rng.randrange(512)
        flipped = bytearray(sig); flipped[b // 8] ^= 1 << (b % 8)
        muts.append(('bitflip', msg, pk, bytes(flipped)))
        muts.append(('r>=p', msg, pk, (P + rng.randrange(0, 100)).to_bytes(32, 'big') + sig[32:]))
        muts.append(('s>=n', msg, pk, sig[:32] + (N + rng.randrange(0, 100)).to_bytes(32, 'big')))
        muts.append(('s+n-wrap', msg, pk, sig[:32] + ((int.from_bytes(sig[32:], 'big') + N) % 2 ** 256).to_bytes(32, 'big')))
        muts.append(('neg-s', msg, pk, sig[:32] + (N - int.from_bytes(sig[32:], 'big')).to_bytes(32, 'big')))
        # the signature that verifies only if the even-y requirement on R is dropped: same r, s' = -k + e*d (so s'G - eP = -R)
        import coincurve
        Pfull = coincurve.PrivateKey(sk).public_key.format(compressed=False)
        dd = d if Pfull[64] % 2 == 0 else N - d
        e = int.from_bytes(tag('BIP0340/challenge', sig[:32] + pk + msg), 'big') % N
        k = (int.from_bytes(sig[32:], 'big') - e * dd) % N
        muts.append(('neg-R', msg, pk, sig[:32] + ((-k + e * dd) % N).to_bytes(32, 'big')))
        muts.append(('other-msg', G.rbytes(rng, 32), pk, sig))
        muts.append(('other-key', msg, pubkey_gen(rng.randrange(1, N).to_bytes(32, 'big')), sig))
        offc = rng.getrandbits(256).to_bytes(32, 'big')
        muts.append(('maybe-offcurve-key', msg, offc, sig))
        muts.append(('key>=p', msg, (P + 5).to_bytes(32, 'big'), sig))
        for kind, m, k, s in muts:
            ctx.count('verify-' + kind)
            gv = 'gms' if (msg, d, aux) in sigs[:ctx.n(2, 12)] else 'ms'
            yield Case(f'schnorr_verify {hx(m)} {hx(k)} {hx(s)}', gv, nontrivial=kind != 'valid', tag='verify-' + kind,
                       spec=lambda ans, m=m, k=k, s=s: (f's:bip340_verify {hx(m)} {hx(k)} {hx(s)}', ans))
    yield Case(f'schnorr_verify {hx(bytes(32))} {hx(bytes(33))} {hx(bytes(64))}', 'm', nontrivial=True, tag='verify-badlen', domain=False)
    for sk in (1, N - 1, rng.randrange(1, N), 0, N):
        yield Case(f'full_pubkey {hx(sk.to_bytes(32, "big"))}', 'm', nontrivial=True, tag='pubkey')
    yield from curve_cases(ctx)


def pts(P):
    return '0' if P is None else f'1 {P[0]} {P[1]}'


def curve_cases(ctx):
    """the curve arithmetic of schnorr.py against the *generated* code (tier T): point_add / point_mul / lift_x / has_even_y on
    points incl. infinity, P + P, P + (-P), scalars 0, 1, n-1, n, n+1 and beyond 2^256 (bits above 255 are ignored by the loop),
    x on and off the curve, x >= p"""
    import coincurve
    rng = ctx.rng
    def mulG(k):
        b = coincurve.PrivateKey((k % N).to_bytes(32, 'big')).public_key.format(compressed=False)
        return (int.from_bytes(b[1:33], 'big'), int.from_bytes(b[33:], 'big'))
    ks = [1, 2, 3, N - 1, N - 2] + [rng.randrange(1, N) for _ in range(ctx.n(6, 60))]
    P = [mulG(k) for k in ks]
    neg = lambda Q: (Q[0], (P_FIELD - Q[1]) % P_FIELD)
    pairs = [(None, None), (None, P[0]), (P[0], None), (P[0], P[0]), (P[0], neg(P[0])), (P[3], P[0]), (P[1], P[2])]
    pairs += [(rng.choice(P), rng.choice(P)) for _ in range(ctx.n(10, 200))]
    pairs += [(Q, Q) for Q in P[5:5 + ctx.n(3, 30)]] + [(Q, neg(Q)) for Q in P[5:5 + ctx.n(3, 30)]]
    for A, B in pairs:
        ctx.count('gen-pt_add')
        yield Case(f'pt_add {pts(A)} {pts(B)}', 'g', nontrivial=True, tag='gen-curve')
    scalars = [0, 1, 2, N - 1, N, N + 1, 2 ** 255, 2 ** 256 - 1, 2 ** 256 + 5, 2 ** 300 + 7] + [rng.randrange(1, N) for _ in range(ctx.n(4, 60))]
    for k in scalars:
        ctx.count('gen-pt_mul')
        yield Case(f'pt_mul {pts(rng.choice(P[:6]))} {k}', 'g', nontrivial=True, tag='gen-curve')
    yield Case(f'pt_mul 0 {rng.randrange(1, N)}', 'g', nontrivial=True, tag='gen-curve')
    xs = [0, 1, 2, 5, P_FIELD - 1, P_FIELD, P_FIELD + 1, 2 ** 256 - 1] + [Q[0] for Q in P[:8]] + [rng.randrange(0, P_FIELD) for _ in range(ctx.n(10, 200))]
    for x in xs:
        ctx.count('gen-lift_x')
        yield Case(f'lift_x {x}', 'g', nontrivial=True, tag='gen-curve')
    for Q in [None] + P[:8] + [neg(Q) for Q in P[:4]]:
        yield Case(f'even_y {pts(Q)}', 'g', nontrivial=True, tag='gen-curve')


def impl(op, a, ctx):
    from bitcoinutils.ripemd160 import ripemd160
    from bitcoinutils import utils, schnorr
    if op.startswith('rmd_'):
        from harness import rmdleaf
        return rmdleaf.impl(op, a, ctx)
    F = Fields(a)
    if op == 'rmd':
        return 'ok ' + hx(ripemd160(F.bytes()))
    if op == 'tagged':
        tag = F.next(); d = F.bytes()
        h1 = utils.tagged_hash(d, tag); h2 = schnorr.tagged_hash(tag, d)
        return 'ok ' + (hx(h1) if h1 == h2 else 'copies-differ')
    if op == 'schnorr_sign':
        msg = F.bytes(); sk = F.bytes(); aux = F.bytes()
        return 'ok ' + hx(schnorr.schnorr_sign(msg, sk, aux))
    if op == 'schnorr_verify':
        import coincurve
        msg = F.bytes(); pk = F.bytes(); sig = F.bytes()
        r = schnorr.schnorr_verify(msg, pk, sig)
        try:
            lib = coincurve.PublicKeyXOnly(pk).verify(sig, msg)
        except Exception:
            lib = False
        return f'ok {1 if r else 0}' + ('' if lib == r else ' libsecp256k1-disagrees')
    if op in ('pt_add', 'pt_mul', 'lift_x', 'even_y'):
        def pt():
            return None if F.nat() == 0 else (F.int(), F.int())
        if op == 'pt_add': return 'ok ' + pts(schnorr.point_add(pt(), pt()))
        if op == 'pt_mul': return 'ok ' + pts(schnorr.point_mul(pt(), F.int()))
        if op == 'lift_x': return 'ok ' + pts(schnorr.lift_x(F.int()))
        return 'ok ' + ('1' if schnorr.has_even_y(pt()) else '0')
    if op == 'full_pubkey':
        return 'ok ' + hx(schnorr.full_pubkey_gen(F.bytes()))
    raise ValueError(op)
