"""C14 — signed messages"""
import base64, hashlib
from harness.common import Case, hx, unhx, Fields
from harness import gen as G
from harness.props.c08 import param_validation  # noqa

KINDS = 'gms'
RULE = ('keys across [1,n-1], messages of 0..70000 characters incl. non-ASCII and the 252/253 byte boundary, compressed and uncompressed, '
        'mainnet and testnet: digest vs Bitcoin Core MessageHash; sign (header search replayed through the model with the (r,s) python-ecdsa '
        'produced), the signature must verify against the signer address under the Spec recovery and the recovered key must be d*G (all four '
        'header classes occur); verification of valid and forged triples (bit flips in r, s and header, all headers 26..36, random 65-byte '
        'signatures, swapped message / address, other network) where success must coincide with the Spec (SEC1 4.1.6 / libsecp256k1 semantics) '
        'and libsecp256k1 (coincurve) recovery is an additional cross-oracle. non-trivial: non-ASCII or >= 253-byte message, or a forged triple')
TRUSTED = ['python-ecdsa signing / verify_digest / public key recovery order are parameters (their outputs are inputs of the model)',
           'sympy sqrt_mod = all square roots; base64 codec', 'CurveLaws hypothesis in sign_verifies']
ASSUMPTIONS = ['CurveLaws (hypothesis of the sign-then-verify theorem)']
N = 0xFFFFFFFFFFFFFFFFFFFFFFFFFFFFFFFEBAAEDCE6AF48A03BBFD25E8CD0364141
NETS = ['mainnet', 'testnet']


def magic():
    from bitcoinutils.utils import add_magic_prefix
    m = add_magic_prefix('')
    return m[:-1]       # everything before the (one-byte) length of the empty message


def pfx(net):
    from bitcoinutils.constants import NETWORK_P2PKH_PREFIXES
    return NETWORK_P2PKH_PREFIXES[net]


def np(net): return f'{net}:{hx(pfx(net))}'
def sh(s): return hx(s.encode())


def messages(rng, n):
    base = ['', 'a', 'The test!', 'é' * 200, 'é' * 126, 'é' * 127, 'x' * 252, 'x' * 253, 'x' * 254, '漢字' * 40, 'x' * 65535, 'y' * 65536, 'z' * 70000,
            'line\nbreak\t tab', '\x00\x01', '😀 emoji',
            # strings that a Unicode normalisation (NFC/NFKC/NFD) would change: the bytes signed are the UTF-8 of the string as given
            'e\u0301le\u0300ve', 'A\u030a \u212b \u2126 \u212a', '\u1112\u1161\u11ab', '\uf900\uf901', '\ufb01 \u00bd \uff21', 'caf\u00e9 vs cafe\u0301']
    out = list(base)
    for _ in range(n):
        ln = rng.choice([1, 5, 20, 100, 252, 253, 300] + [v for v in G.source_literals() if v <= 1000])
        alphabet = rng.choice(['abcdefghijklmnopqrstuvwxyz ', 'äöüßéè漢字', 'abc😀'])
        out.append(''.join(rng.choice(alphabet) for _ in range(ln)))
    return out


def cases(ctx):
    from bitcoinutils.setup import setup
    from bitcoinutils.keys import PrivateKey
    rng = ctx.rng
    mg = magic()
    msgs = messages(rng, ctx.n(20, 600))
    for m in msgs:
        b = m.encode()
        nt = len(b) >= 253 or any(ord(c) > 127 for c in m)
        ctx.count('digest')
        yield Case(f'msg_digest {hx(mg)} {hx(b)}', 'ms', nontrivial=nt, tag='digest', spec=lambda ans, b=b: (f's:msg_digest {hx(b)}', ans))
        if len(b) <= 1000:
            yield Case(f'msg_prefix {hx(b)}', 'g', nontrivial=nt, tag='gen-prefix')      # the generated (translated) add_magic_prefix
    triples = []
    small = [m for m in msgs if len(m) <= 300]
    keys = [1, 2, N - 1] + [rng.randrange(1, N) for _ in range(ctx.n(10, 350))]
    keys = keys + [rng.choice(keys) for _ in range(ctx.n(8, 300))]      # keys that sign several messages / networks / compressions
    for d in keys:
        net = rng.choice(NETS); c = rng.random() < 0.5
        m = rng.choice(small if rng.random() < 0.9 else msgs)
        if m == '': m = 'non-empty'          # the recovery constructor refuses an empty message by design
        b = m.encode()
        nt = len(b) >= 253 or any(ord(ch) > 127 for ch in m)
        setup(net)
        k = PrivateKey(secret_exponent=d)
        pub = k.get_public_key().to_bytes()
        addr = k.get_public_key().get_address(compressed=c).to_string()
        def model(ans, net=net, pub=pub, c=c, b=b):
            if not ans.startswith('ok ') or ans == 'ok none': return (None, None)
            sig = unhx(ans[3:])
            return (f'm:msg_sign_hdr {hx(mg)} {np(net)} {hx(pub[:32])} {hx(pub[32:])} {1 if c else 0} {hx(sig[1:])} {hx(b)}', ans)
        def spec(ans, net=net, addr=addr, b=b):
            if not ans.startswith('ok ') or ans == 'ok none': return ('s:echo sign-failed', 'ok 1')
            return (f's:msg_accepts {np(net)} {sh(addr)} {ans[3:]} {hx(b)}', 'ok 1')
        ctx.count('sign-' + ('c' if c else 'u'))
        yield Case(f'msg_sign {net} {d} {1 if c else 0} {hx(b)}', 'ms', nontrivial=nt, tag='sign', model=model, spec=spec)
        yield Case(f'msg_sign_recover {net} {d} {1 if c else 0} {hx(b)}', 's', nontrivial=nt, tag='recover',
                   spec=lambda ans, d=d: (f'secp_mul {hx(d.to_bytes(32, "big"))}', ans))
        triples.append((net, d, c, m, addr))
    # verification of valid and forged triples
    for net, d, c, m, addr in triples[:ctx.n(8, 400)]:
        setup(net)
        k = PrivateKey(secret_exponent=d)
        sig = base64.b64decode(k.sign_message(m, compressed=c))
        b = m.encode()
        forged = [('valid', addr, sig, b)]
        i = rng.randrange(8 * 32); f = bytearray(sig); f[1 + i // 8] ^= 1 << (i % 8); forged.append(('flip-r', addr, bytes(f), b))
        i = rng.randrange(8 * 32); f = bytearray(sig); f[33 + i // 8] ^= 1 << (i % 8); forged.append(('flip-s', addr, bytes(f), b))
        for h in range(26, 37):
            if h != sig[0]: forged.append((f'header-{h}', addr, bytes([h]) + sig[1:], b))
        forged.append(('high-s', addr, sig[:33] + (N - int.from_bytes(sig[33:], 'big')).to_bytes(32, 'big'), b))
        forged.append(('r-zero', addr, sig[:1] + bytes(32) + sig[33:], b))
        forged.append(('s-zero', addr, sig[:33] + bytes(32), b))
        forged.append(('r>=n', addr, sig[:1] + (N + 5).to_bytes(32, 'big') + sig[33:], b))
        forged.append(('random', addr, bytes([rng.randrange(27, 35)]) + G.rbytes(rng, 64), b))
        forged.append(('other-msg', addr, sig, b + b'!'))
        o = rng.choice(triples)
        forged.append(('other-addr', o[4] if o[4] != addr else addr[:-1] + 'x', sig, b))
        forged.append(('short', addr, sig[:64], b))
        # addresses that carry the signer's hash160 but are not the signer's P2PKH address on this network
        import base58check
        raw = base58check.b58decode(addr.encode())
        h160 = raw[1:21]
        def b58c(pl): return base58check.b58encode(pl + hashlib.sha256(hashlib.sha256(pl).digest()).digest()[:4]).decode()
        forged.append(('same-hash-p2sh', b58c((b'\x05' if net == 'mainnet' else b'\xc4') + h160), sig, b))
        forged.append(('same-hash-other-net', b58c((b'\x6f' if net == 'mainnet' else b'\x00') + h160), sig, b))
        forged.append(('same-hash-bad-checksum', base58check.b58encode(raw[:21] + bytes([raw[21] ^ 1]) + raw[22:]).decode(), sig, b))
        forged.append(('same-hash-segwit', 'bc1q' + 'q' * 38, sig, b))
        for kind, a, s, bb in forged:
            ctx.count('verify-' + kind.split('-')[0])
            def spec(ans, net=net, a=a, s=s, bb=bb):
                if 'disagrees' in ans: return ('s:raw libsecp256k1-recovery-disagrees-with-the-implementation', 'ok')
                return (f's:msg_accepts {np(net)} {sh(a)} {hx(s)} {hx(bb)}', 'ok 1' if ans == 'ok 1' else 'ok 0')
            yield Case(f'msg_verify {hx(mg)} {np(net)} {sh(a)} {hx(s)} {hx(bb)}', 'ms', nontrivial=kind != 'valid', tag='verify-' + kind, spec=spec)
            # the translated recovery branch of PublicKey.__init__ (interpreted; python-ecdsa's recovery replaced by the Spec's) on a sample
            if kind in ('valid', 'r-zero', 'random', 'short', 'other-msg') and rng.random() < (0.25 if not ctx.thorough else 0.03):
                ctx.count('gen-recover')
                yield Case(f'msg_recover_g {hx(bb) if bb else "-"} {hx(s)}', 'g', nontrivial=True, tag='gen-recover', domain=kind == 'valid')


KEYS = {}


def synth_cases(ctx, mg):
    """valid triples synthesized without a private key: choose (r, s), recover the key with libsecp256k1, take its
    address — reaches values a signer never produces (tiny r with x = r + n, tiny s) and their out-of-range aliases"""
    import coincurve
    from bitcoinutils.ripemd160 import ripemd160
    import base58check
    rng = ctx.rng
    P = 0xFFFFFFFFFFFFFFFFFFFFFFFFFFFFFFFFFFFFFFFFFFFFFFFFFFFFFFFEFFFFFC2F
    def addr_of(ser, net):
        pl = {'mainnet': b'\x00', 'testnet': b'\x6f'}[net] + ripemd160(hashlib.sha256(ser).digest())
        return base58check.b58encode(pl + hashlib.sha256(hashlib.sha256(pl).digest()).digest()[:4]).decode()
    out = []
    for _ in range(ctx.n(6, 200)):
        net = rng.choice(NETS); b = G.rbytes(rng, rng.randrange(1, 40)).hex().encode()
        from bitcoinutils.utils import add_magic_prefix
        digest = hashlib.sha256(hashlib.sha256(add_magic_prefix(b.decode())).digest()).digest()
        kind = rng.choice(['x=r+n', 'small-s', 'plain'])
        for attempt in range(200):
            if kind == 'x=r+n':
                r = rng.randrange(1, P - N); recid = 2 + rng.randrange(2)        # R.x = r + n (< p)
            else:
                r = rng.randrange(1, N); recid = rng.randrange(2)
            s = rng.randrange(1, 2 ** 120) if kind == 'small-s' else rng.randrange(1, N)
            c = rng.random() < 0.5
            try:
                rec = coincurve.PublicKey.from_signature_and_message(r.to_bytes(32, 'big') + s.to_bytes(32, 'big') + bytes([recid]), digest, hasher=None)
            except Exception:
                continue
            a = addr_of(rec.format(compressed=c), net)
            hdr = 27 + recid + (4 if c else 0)
            sig = bytes([hdr]) + r.to_bytes(32, 'big') + s.to_bytes(32, 'big')
            out.append((f'synth-{kind}', net, a, sig, b))
            if kind == 'x=r+n':      # the same point written with the out-of-range r' = r + n and a header that says x = r'
                out.append(('synth-r+n-alias', net, a, bytes([hdr - 2]) + (r + N).to_bytes(32, 'big') + s.to_bytes(32, 'big'), b))
            if kind == 'small-s':    # s' = s + n is congruent but out of range
                out.append(('synth-s+n-alias', net, a, sig[:33] + (s + N).to_bytes(32, 'big'), b))
            out.append(('synth-s=0', net, a, sig[:33] + bytes(32), b))
            break
    for kind, net, a, s, bb in out:
        ctx.count('verify-' + kind)
        def spec(ans, net=net, a=a, s=s, bb=bb):
            if 'disagrees' in ans: return ('s:raw libsecp256k1-recovery-disagrees-with-the-implementation', 'ok')
            return (f's:msg_accepts {np(net)} {sh(a)} {hx(s)} {hx(bb)}', 'ok 1' if ans == 'ok 1' else 'ok 0')
        yield Case(f'msg_verify {hx(mg)} {np(net)} {sh(a)} {hx(s)} {hx(bb)}', 'ms', nontrivial=True, tag='verify-' + kind, spec=spec)


_cases_base = cases


def forced_cases(ctx):
    """the header search with python-ecdsa's (r, s) and the message digest both chosen: reaches the point the
    sign-then-verify theorem excludes (`hinf`: R has odd y and 2z + r d = 0 mod n, where the first candidate key is
    the point at infinity and the library raises) and its neighbours.  The model must behave like the code there too."""
    import coincurve
    rng = ctx.rng
    for j in range(ctx.n(12, 200)):
        net = rng.choice(NETS); c = rng.random() < 0.5
        d = rng.randrange(1, N)
        kind = ['inf-odd', 'inf-even', 'plain'][j % 3]
        while True:
            k = rng.randrange(1, N)
            R = coincurve.PrivateKey(k.to_bytes(32, 'big')).public_key.format(compressed=False)
            x, y = int.from_bytes(R[1:33], 'big'), int.from_bytes(R[33:], 'big')
            if x >= N: continue
            if kind == 'inf-odd' and y % 2 == 0: continue
            if kind == 'inf-even' and y % 2 == 1: continue
            break
        r = x
        z = (-(r * d) * pow(2, -1, N)) % N if kind != 'plain' else rng.randrange(0, 2 ** 256)
        s = pow(k, -1, N) * (z + r * d) % N
        if s == 0: continue
        ctx.count('forced-' + kind)
        pub = coincurve.PrivateKey(d.to_bytes(32, 'big')).public_key.format(compressed=False)[1:]
        rs = r.to_bytes(32, 'big') + s.to_bytes(32, 'big')
        zb = z.to_bytes(32, 'big')
        def model(ans, net=net, pub=pub, c=c, rs=rs, zb=zb):
            return (f'm:msg_sign_hdr_z {np(net)} {hx(pub[:32])} {hx(pub[32:])} {1 if c else 0} {hx(rs)} {hx(zb)}', ans)
        yield Case(f'msg_sign_forced {net} {d} {1 if c else 0} {hx(rs)} {hx(zb)}', 'm', nontrivial=True, tag='forced-' + kind, model=model)


def cases(ctx):  # noqa: F811
    yield from _cases_base(ctx)
    yield from synth_cases(ctx, magic())
    yield from forced_cases(ctx)


class _FakeHash:
    def __init__(self, d): self.d = d
    def digest(self): return self.d
    def hexdigest(self): return self.d.hex()


class _HashShim:
    """stands in for the `hashlib` name inside bitcoinutils.keys: SHA-256 of one chosen input is replaced"""
    def __init__(self, real, trigger, out): self.real = real; self.trigger = trigger; self.out = out
    def sha256(self, data=b''):
        if bytes(data) == self.trigger: return _FakeHash(self.out)
        return self.real.sha256(data)
    def __getattr__(self, n): return getattr(self.real, n)


class _SigStub:
    def __init__(self, key, rs): self.key = key; self.rs = rs
    def sign_digest_deterministic(self, digest, **kw): return self.rs
    def __getattr__(self, n): return getattr(self.key, n)


def impl(op, a, ctx):
    from bitcoinutils.setup import setup
    from bitcoinutils.keys import PrivateKey, PublicKey
    from bitcoinutils.utils import add_magic_prefix
    F = Fields(a)
    if op == 'msg_prefix':
        return 'ok ' + hx(add_magic_prefix(F.bytes().decode()))
    if op == 'msg_digest':
        F.bytes(); m = F.bytes().decode()
        return 'ok ' + hashlib.sha256(hashlib.sha256(add_magic_prefix(m)).digest()).hexdigest()
    if op in ('msg_sign', 'msg_sign_recover'):
        net = F.next(); d = F.int(); c = F.bool(); m = F.bytes().decode(); setup(net)
        k = KEYS.setdefault(d, PrivateKey(secret_exponent=d))       # one object per secret for the whole run
        s = k.sign_message(m, compressed=c)
        if s is None: return 'ok none'
        if s != k.sign_message(m, compressed=c): return 'ok nondeterministic'
        raw = base64.b64decode(s)
        if op == 'msg_sign': return 'ok ' + hx(raw)
        p = PublicKey(message=m, signature=raw).to_bytes()
        p2 = PublicKey.from_message_signature(m, raw).to_bytes()
        if p != p2: return 'ok constructors-differ'
        return f'ok {p[:32].hex()} {p[32:].hex()}'
    if op == 'msg_sign_forced':
        import bitcoinutils.keys as K
        net = F.next(); d = F.int(); c = F.bool(); rs = F.bytes(); z = F.bytes(); setup(net)
        m = 'm'
        inner = hashlib.sha256(add_magic_prefix(m)).digest()
        k = PrivateKey(secret_exponent=d)
        k.key = _SigStub(k.key, rs)
        real = K.hashlib
        K.hashlib = _HashShim(real, inner, z)
        try:
            sgn = k.sign_message(m, compressed=c)
        finally:
            K.hashlib = real
        return 'ok none' if sgn is None else 'ok ' + hx(base64.b64decode(sgn))
    if op == 'msg_recover_g':
        m = F.bytes().decode(); sig = F.bytes()
        p = PublicKey(message=m, signature=sig).to_bytes()
        return f'ok {p[:32].hex()} {p[32:].hex()}'
    if op == 'msg_verify':
        import coincurve
        F.bytes(); net = F.next().split(':')[0]; addr = F.bytes().decode(); sig = F.bytes(); m = F.bytes().decode(); setup(net)
        r = PublicKey.verify_message(addr, base64.b64encode(sig).decode(), m)
        # libsecp256k1 cross-oracle
        lib = False
        try:
            if len(sig) == 65 and 27 <= sig[0] <= 34:
                digest = hashlib.sha256(hashlib.sha256(add_magic_prefix(m)).digest()).digest()
                rec = coincurve.PublicKey.from_signature_and_message(sig[1:] + bytes([(sig[0] - 27) & 3]), digest, hasher=None)
                ser = rec.format(compressed=sig[0] >= 31)
                from bitcoinutils.ripemd160 import ripemd160
                import base58check
                pl = {'mainnet': b'\x00', 'testnet': b'\x6f'}[net] + ripemd160(hashlib.sha256(ser).digest())
                lib = base58check.b58encode(pl + hashlib.sha256(hashlib.sha256(pl).digest()).digest()[:4]).decode() == addr
        except Exception:
            lib = False
        return f'ok {1 if r else 0}' + ('' if bool(r) == lib else ' libsecp256k1-disagrees')
    raise ValueError(op)
