"""C18 — timelock helpers"""
from harness.common import Case, hx, unhx

KINDS = 'gs'
RULE = ('every relative value 1..65535 for both unit types (exhaustive), rejected neighbours, the absolute / RBF '
        'types, locktimes incl. 499999999/500000000/2^32-1 and out-of-range, script integers 0..2^40 at byte-length '
        'boundaries and random up to 2^300. non-trivial: value within +-3 of a boundary, or > 2^16, or 512-second units')
TRUSTED = []
ASSUMPTIONS = []


def cases(ctx):
    rng = ctx.rng
    step = 1 if ctx.scale >= 1 else 1
    for blk in (1, 0):
        for v in list(range(-2, ctx.n(65540))) + [2 ** 22, 2 ** 31, 2 ** 32, -65535]:
            nt = (blk == 0) or v <= 3 or v >= 65533 or any(abs(v - b) <= 3 for b in (128, 256, 32768))
            def spec(ans, v=v, blk=blk):
                return (f's:seq 513 {v} {blk}', ans)
            yield Case(f'seq 513 {v} {blk}', 'gs', nontrivial=nt, tag='rel', spec=spec)
            if 1 <= v <= 65535 and (v % 251 == 0 or nt):
                # BIP112: input sequence and script number from the same helper satisfy each other (tx version 2)
                def spec2(ans, v=v, blk=blk):
                    if not ans.startswith('ok '): return (f's:csv_ok 2 - 0', 'helper raised')
                    _, seq, n = ans.split(' ')
                    return (f's:csv_ok 2 {seq} {n}', 'ok 1')
                yield Case(f'seq 513 {v} {blk}', 's', nontrivial=nt, tag='csv', spec=spec2)
    absvals = [0, 1, 500000000, 65536, 2 ** 32, 499999999, 500000001, 800000, 1610612736, 1 << 22, (1 << 22) - 1, 2 ** 31, 2 ** 32 - 1]
    absvals += [rng.getrandbits(32) for _ in range(ctx.n(60, 3000))] + [rng.randrange(0, 10 ** 6) for _ in range(ctx.n(30, 1000))]
    for ty in (0x101, 0x301, 0, 7):
        for v in absvals:
            for blk in (1, 0):     # the unit flag is meaningless for these types: a unix-time CLTV is naturally built with False
                def spec3(ans, ty=ty):
                    if ty in (0x101, 0x301) and ans.startswith('ok '):
                        return (f's:nonfinal {ans.split(" ")[1]}', 'ok 1')
                    return (None, None)
                yield Case(f'seq {ty} {v} {blk}', 'gs' if ty in (0x101, 0x301) else 'g', nontrivial=True, tag='abs', spec=spec3)
                if ty == 0x101 and 0 <= v < 2 ** 32:
                    # BIP65: the number the helper puts before OP_CHECKLOCKTIMEVERIFY is the value itself, so that a
                    # transaction whose nLockTime is Locktime(v) satisfies it
                    yield Case(f'seq {ty} {v} {blk}', 's', nontrivial=True, tag='cltv',
                               spec=lambda ans, v=v: ('s:raw ' + (ans.rsplit(' ', 1)[0] + f' {v}' if ans.startswith('ok ') else 'ok'), ans))
    lts = [0, 1, 499999999, 500000000, 500000001, 2 ** 31 - 1, 2 ** 31, 2 ** 32 - 1, 2 ** 32, 2 ** 32 + 1, -1, 2 ** 40]
    lts += [rng.getrandbits(32) for _ in range(ctx.n(2000, 100000))]
    for v in lts:
        yield Case(f'locktime {v}', 'gs', nontrivial=v > 2 ** 16, tag='locktime')
    ks = list(range(0, ctx.n(70000)))
    for bits in range(7, 42):
        ks += [2 ** bits + d for d in (-2, -1, 0, 1)]
    ks += [rng.getrandbits(rng.choice([16, 24, 31, 32, 39, 40, 41, 64, 300])) for _ in range(ctx.n(3000, 100000))]
    ks += [-1, -5]
    # byte strings of 255/256 and 65535/65536 bytes (the push-form boundaries) arise from numbers this large
    ks += [2 ** (8 * 254 + 3), 2 ** (8 * 255 + 3), 2 ** (8 * 255 + 7)]
    for k in ks:
        nt = k > 2 ** 16 or any(abs(k - 2 ** b) <= 2 for b in (7, 8, 15, 16))
        yield Case(f'push_int {k}', 'gs', nontrivial=nt, tag='push_int')
        if k >= 1:   # _push_integer(0) raises (1 << -1); Script.to_bytes uses OP_0..OP_16 for 0..16
            def spec4(ans, k=k):
                # payload decodes back to k and is minimal
                return (f's:scriptnum {k}', None)
            yield Case(f'scriptnum {k}', 's', nontrivial=nt, tag='scriptnum', spec=lambda ans, k=k: (f's:scriptnum {k}', ans))


def _payload(push):
    """strip the push opcode from the bytes _push_integer returned"""
    if not push: return b''
    op = push[0]
    if op <= 75: return push[1:]
    if op == 0x4c: return push[2:]
    if op == 0x4d: return push[3:]
    return push[5:]


def impl(op, a, ctx):
    from bitcoinutils.transactions import Sequence, Locktime
    from bitcoinutils.script import Script
    if op == 'seq':
        s = Sequence(int(a[0]), int(a[1]), a[2] == '1')
        def fs():
            try: return str(s.for_script())
            except ValueError: return 'err'
        def fi():
            x = s.for_input_sequence(); return hx(x) if x is not None else 'none'
        # the same object asked in a pseudo-random order and repeatedly: the answers must not depend on it
        order = (int(a[1]) + int(a[2])) % 3
        if order == 0: x = fi(); n = fs()
        elif order == 1: n = fs(); x = fi()
        else:
            fi(); n0 = fs(); x = fi(); n = fs()
            if n != n0: n = 'script-number-changed'
        if fi() != x: x = 'input-sequence-changed'
        return f'ok {x} {n}'
    if op == 'locktime':
        return 'ok ' + hx(Locktime(int(a[0])).for_transaction())
    if op == 'push_int':
        return 'ok ' + hx(Script([])._push_integer(int(a[0])))
    if op == 'scriptnum':
        k = int(a[0])
        p = _payload(Script([])._push_integer(k))
        # decode with an independent reader (sign-magnitude little-endian) and test minimality as Core does
        if not p:
            v, minimal = 0, 1
        else:
            v = int.from_bytes(p, 'little')
            if p[-1] & 0x80: v = -(v - (0x80 << (8 * (len(p) - 1))))
            minimal = 0 if ((p[-1] & 0x7f) == 0 and (len(p) <= 1 or (p[-2] & 0x80) == 0)) else 1
        return f'ok {hx(p)} {v} {minimal}'
    raise ValueError(op)
