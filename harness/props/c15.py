"""C15 — block and header parsing"""
import hashlib, io, contextlib
from harness.common import Case, hx, unhx, tx_to_line, Fields
from harness import gen as G, fixtures as FX

KINDS = 'gms'
RULE = ('random and fixture 80-byte headers (parse, re-serialise, hash) and wrong lengths; compact targets with exponent 0..40; '
        "the length scanner on C01's generated transactions followed by random bytes; synthetic framed blocks of 1..300 generated "
        'transactions (legacy/segwit/mixed, count boundaries 252/253) where every parsed transaction must equal the parse of its own '
        'slice and re-serialise to it; the three mainnet fixture blocks in full incl. merkle root of the implementation '
        'txids = header merkle root and wtxids -> coinbase witness commitment. non-trivial: block with >= 2 transactions, header, '
        'target with exponent != 3, segwit scanner input')
TRUSTED = ['SHA-256 parameter instantiated by BU/Crypto/Sha256.lean (checked against hashlib)']
ASSUMPTIONS = []
MAGIC = bytes.fromhex('f9beb4d9')


def cs(n):
    if n < 253: return bytes([n])
    if n < 2 ** 16: return b'\xfd' + n.to_bytes(2, 'little')
    return b'\xfe' + n.to_bytes(4, 'little')


def tx_digest(tx):
    return hashlib.sha256(tx_to_line(tx).encode()).hexdigest()


def block_line(b):
    h = b.header
    return (f'{hx(b.magic)} {b.block_size} {h.version} {hx(h.previous_block_hash)} {hx(h.merkle_root)} {h.timestamp} '
            f'{h.target_bits} {h.nonce} {b.transaction_count} ' + ' '.join([str(len(b.transactions))] + [tx_digest(t) for t in b.transactions]))


def nonminimal_variant(rng, tx):
    """the wire bytes of `tx` with one scriptSig data push of 1..75 bytes written with OP_PUSHDATA1 (consensus-valid, not minimal)"""
    cands = [i for i, x in enumerate(tx.inputs)
             if any(isinstance(t, str) and not t.startswith('OP_') and 2 <= len(t) <= 150 for t in x.script_sig.script)
             and x.txid != '00' * 32]
    if not cands: return None
    x = tx.inputs[rng.choice(cands)]
    old_in = x.to_bytes()
    S = x.script_sig.to_bytes()
    tok = rng.choice([t for t in x.script_sig.script if isinstance(t, str) and not t.startswith('OP_') and 2 <= len(t) <= 150])
    d = bytes.fromhex(tok); enc = bytes([len(d)]) + d
    if S.count(enc) != 1: return None
    S2 = S.replace(enc, b'\x4c' + enc, 1)
    new_in = bytes.fromhex(x.txid)[::-1] + old_in[32:36] + cs(len(S2)) + S2 + x.sequence
    full = tx.to_bytes(tx.has_segwit)
    if full.count(old_in) != 1: return None
    return full.replace(old_in, new_in, 1)


def block_cases(ctx, raw, slices, tag, nt=True, reser=True):
    from bitcoinutils.transactions import Transaction
    def spec(ans, raw=raw, slices=slices):
        if not ans.startswith('ok '): return ('s:echo block-parse-raised', 'ok 1')
        f = ans.split(' ')
        head = f[:10]
        exp = [tx_digest(Transaction.from_raw(s.hex())) for s in slices]
        return ('s:echo ' + ' '.join(head[1:] + [str(len(exp))] + exp), ans)
    # the translated Block.from_raw is interpreted: run it on blocks of moderate size (the theorem covers every size)
    yield Case(f'blk_parse {hx(raw)}', 'gms' if len(raw) <= 60000 else 'ms', nontrivial=nt, tag=tag, spec=spec)
    if not reser: return          # a non-minimal push is re-serialised minimally: the slice itself is not reproduced (outside C15)
    # faithful to the raw block: every parsed transaction re-serialises to its own slice
    exp = hashlib.sha256(b''.join(slices)).hexdigest()
    yield Case(f'blk_reser {hx(raw)}', 's', nontrivial=nt, tag=tag + '-reser', spec=lambda ans, exp=exp: (f's:echo {len(slices)} {exp}', ans))


def cases(ctx):
    rng = ctx.rng
    names = G.op_names()
    hdrs = [G.rbytes(rng, 80) if rng.random() < 0.5 else bytes(rng.getrandbits(8) for _ in range(80)) for _ in range(ctx.n(200, 5000))]
    hdrs += [FX.block(n)['header'] for n in FX.FILES]
    hdrs += [bytes(80), b'\xff' * 80]
    for h in hdrs:
        ctx.count('header')
        yield Case(f'hdr_parse {hx(h)}', 'gm', nontrivial=True, tag='hdr')
        yield Case(f'hdr_ser {hx(h)}', 'gms', nontrivial=True, tag='hdr', spec=lambda ans, h=h: (f's:echo {hx(h)}', ans))
        yield Case(f'hdr_hash {hx(h)}', 'gms', nontrivial=True, tag='hdr')
    for ln in (0, 1, 79, 81, 160):
        yield Case(f'hdr_parse {hx(bytes(ln))}', 'gm', nontrivial=True, tag='hdr-badlen', domain=False)
        yield Case(f'hdr_hash {hx(bytes(ln))}', 'ms', nontrivial=True, tag='hdr-badlen')
    for e in range(0, 41):
        for m in (0, 1, 0x7fffff, 0x800000, 0xffffff, rng.getrandbits(24)):
            bits = (e << 24) | m
            ctx.count('target')
            yield Case(f'target {bits}', 'gms', nontrivial=e != 3, tag='target')
    for b in FX.FILES:
        bits = int.from_bytes(FX.block(b)['header'][72:76], 'little')
        yield Case(f'target {bits}', 'gms', nontrivial=True, tag='target-fixture')
    # length scanner
    for _ in range(ctx.n(200, 8000)):
        tx = G.gen_tx(rng, names, max_in=rng.choice([3, 8, 40]), max_out=rng.choice([3, 8]), big=rng.random() < 0.05)
        raw = tx.to_bytes(tx.has_segwit)
        rest = G.rbytes(rng, rng.choice([0, 0, 1, 7, 100]))
        ctx.count('scanner-' + ('segwit' if tx.has_segwit else 'legacy'))
        yield Case(f'tx_len {hx(raw + rest)}', 'gms', nontrivial=tx.has_segwit, tag='scanner',
                   spec=lambda ans, raw=raw: (f's:echo {len(raw)}', ans))
    for cut in (0, 4, 5, 6, 10, 41, 42, 50):
        yield Case(f'tx_len {hx(G.rbytes(rng, cut))}', 'gm', nontrivial=True, tag='scanner-short', domain=False)
    # synthetic blocks
    sizes = [1, 2, 3, 5, 17] + ([252, 253] if ctx.scale <= 1 else [252, 253, 300])
    sizes += [rng.randrange(1, 60) for _ in range(ctx.n(12, 300))]
    for n in sizes:
        txs = [G.gen_tx(rng, names, kind='coinbase' if i == 0 else None, max_in=4, max_out=4, big=False) for i in range(n)]
        slices = [t.to_bytes(t.has_segwit) for t in txs]
        reser = True
        if n >= 2 and rng.random() < 0.35:
            # one transaction (not the last, so that a dropped tail shows) carries a consensus-valid but non-minimal push
            k = rng.randrange(0, n - 1)
            v = nonminimal_variant(rng, txs[k])
            if v is not None:
                slices[k] = v; reser = False; ctx.count('synthetic-block-nonminimal-push')
        body = b''.join(slices)
        # the frame's magic is four opaque bytes to the parser: the listed networks, testnet4, a custom signet, anything
        magic = rng.choice([MAGIC, MAGIC, bytes.fromhex('0b110907'), bytes.fromhex('fabfb5da'), bytes.fromhex('0a03cf40'),
                            bytes.fromhex('1c163f28'), bytes(4), b'\xff' * 4, G.rbytes(rng, 4)])
        ctx.count('synthetic-block-magic-' + magic.hex())
        raw = magic + (80 + len(cs(n)) + len(body)).to_bytes(4, 'little') + G.rbytes(rng, 80) + cs(n) + body
        ctx.count('synthetic-block'); ctx.count('synthetic-block-txs', n)
        yield from block_cases(ctx, raw, slices, f'block-{n}', nt=n >= 2, reser=reser)
    # a block whose declared count exceeds what follows: the loop stops silently
    yield Case(f'blk_parse {hx(MAGIC + (81).to_bytes(4, "little") + bytes(80) + cs(3))}', 'gm', nontrivial=True, tag='block-short', domain=False)
    yield Case(f'blk_parse {hx(MAGIC + bytes(50))}', 'gm', nontrivial=True, tag='block-short', domain=False)
    # fixtures
    for name in FX.FILES:
        b = FX.block(name)
        slices = [t['raw'] for t in b['txs']]
        ctx.count('fixture-block-' + name)
        yield from block_cases(ctx, b['raw'], slices, 'fixture-' + name)
        yield Case(f'fx_merkle {name}', 's', nontrivial=True, tag='fixture-merkle-' + name, spec=merkle_spec(name))
        if name != 'legacy':
            yield Case(f'fx_wcommit {name}', 's', nontrivial=True, tag='fixture-wcommit-' + name, spec=wcommit_spec(name))


_blocks = {}


def impl_block(name):
    from bitcoinutils.block import Block
    if name not in _blocks:
        with contextlib.redirect_stdout(io.StringIO()):
            _blocks[name] = Block.from_raw(FX.block(name)['raw'])
    return _blocks[name]


def merkle_spec(name):
    def spec(ans):
        b = impl_block(name)
        ids = [bytes.fromhex(t.get_txid())[::-1] for t in b.transactions]
        return ('s:merkle ' + ' '.join([str(len(ids))] + [hx(i) for i in ids]), ans)
    return spec


def wcommit_spec(name):
    def spec(ans):
        b = impl_block(name)
        ids = [bytes.fromhex(t.get_wtxid())[::-1] for t in b.transactions]
        reserved = bytes.fromhex(b.transactions[0].witnesses[0].stack[0])
        return ('s:wcommit ' + ' '.join([str(len(ids))] + [hx(i) for i in ids]) + ' ' + hx(reserved), ans)
    return spec


def impl(op, a, ctx):
    from bitcoinutils.block import Block, BlockHeader
    from bitcoinutils.utils import get_transaction_length
    F = Fields(a)
    if op == 'hdr_parse':
        h = BlockHeader.from_raw(F.bytes())
        return f'ok {h.version} {hx(h.previous_block_hash)} {hx(h.merkle_root)} {h.timestamp} {h.target_bits} {h.nonce}'
    if op == 'hdr_ser':
        return 'ok ' + hx(BlockHeader.from_raw(F.bytes()).serialize_header())
    if op == 'hdr_hash':
        return 'ok ' + BlockHeader.from_raw(F.bytes()).get_block_hash()
    if op == 'target':
        t = BlockHeader(target_bits=F.nat()).get_target_bits()
        return f'ok {int(t, 16)}' if len(t) >= 64 else 'ok bad-width'
    if op == 'tx_len':
        return f'ok {get_transaction_length(F.bytes())}'
    if op == 'blk_parse':
        with contextlib.redirect_stdout(io.StringIO()):
            b = Block.from_raw(F.bytes())
        return 'ok ' + block_line(b)
    if op == 'blk_reser':
        with contextlib.redirect_stdout(io.StringIO()):
            b = Block.from_raw(F.bytes())
        return f'ok {len(b.transactions)} ' + hashlib.sha256(b''.join(bytes.fromhex(t.to_hex()) for t in b.transactions)).hexdigest()
    if op == 'fx_merkle':
        return 'ok ' + hx(impl_block(a[0]).header.merkle_root[::-1])
    if op == 'fx_wcommit':
        cb = impl_block(a[0]).transactions[0]
        for o in cb.outputs:
            raw = o.script_pubkey.to_bytes()
            if raw[:6] == bytes.fromhex('6a24aa21a9ed'):
                return 'ok ' + hx(raw[6:38])
        return 'ok none'
    raise ValueError(op)
