"""C16 — size and virtual size"""
from harness.common import Case, hx, tx_to_line, line_to_tx, Fields
from harness import gen as G, fixtures as FX

KINDS = 'gms'
RULE = ("C01's transaction generator plus witness stacks with 0, 1, 127, 128, 252, 253 and 300 items and items of 0..70000 bytes; "
        'size and vsize compared between implementation, hand model and the Spec computed from the two wire encodings; fixture '
        'transactions (sample / all) by parse + sizes. non-trivial: segwit transaction with at least one non-empty stack')
TRUSTED = ['binary64 `x / 4` and math.ceil are exact for sizes below 2^51 (the model uses integer arithmetic)']
ASSUMPTIONS = ['transaction sizes below 2^51 bytes']


def cases(ctx):
    from bitcoinutils.transactions import Transaction, TxInput, TxOutput, TxWitnessInput
    from bitcoinutils.script import Script
    rng = ctx.rng
    names = G.op_names()
    def c(tx, tag):
        nt = tx.has_segwit and any(w.stack for w in tx.witnesses)
        line = tx_to_line(tx)
        return Case(f'tx_sizes {line}', 'gms' if len(line) < 20000 else 'ms', nontrivial=nt, tag=tag)
    for k in range(ctx.n(300, 10000)):
        tx = G.gen_tx(rng, names, max_in=rng.choice([3, 8, 40]), max_out=rng.choice([3, 8]), big=rng.random() < 0.05)
        ctx.count('gen-' + ('segwit' if tx.has_segwit else 'legacy'))
        yield c(tx, 'gen')
    for n in sorted(set([0, 1, 2, 3, 127, 128, 129, 252, 253, 254, 300] + [v for v in G.source_literals() if v <= 300])):
        for itemlen in (0, 1, 64, 253, 70000 if n <= 3 else 75):
            for nin in (1, 2, 3):
                ins = [TxInput(G.rbytes(rng, 32).hex(), i) for i in range(nin)]
                wits = [TxWitnessInput([G.rbytes(rng, itemlen).hex()] * n)] + [TxWitnessInput([]) for _ in ins[1:]]
                tx = Transaction(ins, [TxOutput(1000, Script(['OP_1', 'aa' * 32]))], has_segwit=True, witnesses=wits)
                ctx.count(f'stack-{n}')
                yield c(tx, f'stack-{n}-{itemlen}')
    # has_segwit set but no witness stacks attached yet (an unsigned transaction used for fee estimation)
    for nin in (1, 2, 3, 5):
        for k in range(0, nin):
            ins = [TxInput(G.rbytes(rng, 32).hex(), i) for i in range(nin)]
            tx = Transaction(ins, [TxOutput(1000, Script(['OP_1', 'aa' * 32]))], has_segwit=True,
                             witnesses=[TxWitnessInput([G.rbytes(rng, 64).hex()]) for _ in range(k)])
            ctx.count('unsigned-segwit')
            yield c(tx, f'unsigned-{nin}-{k}')
    for _ in range(ctx.n(60, 3000)):
        tx = G.gen_tx(rng, names, max_in=4, max_out=4, big=False)
        muts = G.random_mutations(rng, tx, names)
        line0 = tx_to_line(tx)
        G.apply_mutations(tx, muts)
        line1 = tx_to_line(tx)
        ctx.count('after-mutation')
        yield Case(f'tx_sizes_after {line0} {G.muts_line(muts)}', 'ms', nontrivial=True, tag='after-mutation',
                   model=lambda ans, line1=line1: (f'm:tx_sizes {line1}', ans), spec=lambda ans, line1=line1: (f's:tx_sizes {line1}', ans))
    allfx = list(FX.all_txs())
    pick = allfx if ctx.thorough else [allfx[i] for i in sorted(rng.sample(range(len(allfx)), ctx.n(150)))]
    for name, i, t in pick:
        full = len(t['raw']); stripped = len(t['stripped'])
        ctx.count('fixture-' + name)
        yield Case(f'fx_sizes {hx(t["raw"])}', 's', nontrivial=t['seg'], tag=f'fixture-{name}-{i}',
                   spec=lambda ans, full=full, stripped=stripped: (f's:echo {full} {(3 * stripped + full + 3) // 4}', ans))


def impl(op, a, ctx):
    from bitcoinutils.transactions import Transaction
    F = Fields(a)
    if op == 'tx_sizes':
        tx = line_to_tx(F); F.done()
        return f'ok {tx.get_size()} {tx.get_vsize()}'
    if op == 'tx_sizes_after':
        tx = line_to_tx(F); muts = G.parse_muts(F); F.done()
        G.exercise(tx); G.apply_mutations(tx, muts)
        return f'ok {tx.get_size()} {tx.get_vsize()}'
    if op == 'fx_sizes':
        tx = Transaction.from_raw(F.bytes().hex())
        return f'ok {tx.get_size()} {tx.get_vsize()}'
    raise ValueError(op)
