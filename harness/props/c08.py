"""C08 — taproot addresses and control blocks"""
from harness.common import Case, hx, unhx, toks_str, Fields, run_driver, MachineryFault
from harness import gen as G, taptree as TT

KINDS = 'gms'
RULE = ('all full binary tree shapes with 1..5 leaves (thorough: 1..7) plus single-element list wrappers, random shapes to depth 8, every leaf '
        'index of each tree, leaf scripts of 1..70000 bytes incl. duplicates, internal keys of both parities, output keys of both parities; '
        'merkle root, address program + parity, control block on implementation vs hand model; the Spec recomputes the root independently and '
        'runs the BIP341 script-path verifier on every generated control block. non-trivial: tree with >= 2 leaves or an odd parity')
TRUSTED = ['SHA-256 parameter instantiated by BU/Crypto/Sha256.lean; curve arithmetic BU/Crypto/Secp256k1.lean checked against libsecp256k1 (coincurve) each run',
           'CurveLaws hypothesis (group law on multiples of G, lift_x) in the curve-dependent theorems']
ASSUMPTIONS = ['CurveLaws (hypothesis of the theorems that mention point arithmetic)']


def priv_with_parity(rng, want_odd):
    from bitcoinutils.keys import PrivateKey
    while True:
        d = rng.randrange(1, 2 ** 256 - 2 ** 129)
        k = PrivateKey(secret_exponent=d)
        if (not k.get_public_key().is_y_even()) == want_odd:
            return k


def param_validation(ctx):
    import coincurve
    rng = ctx.rng
    ks = [1, 2, 3, 2 ** 255, 0xFFFFFFFFFFFFFFFFFFFFFFFFFFFFFFFEBAAEDCE6AF48A03BBFD25E8CD0364140] + \
         [rng.randrange(1, 2 ** 256 - 2 ** 129) for _ in range(ctx.n(12, 200))]
    out = run_driver([f'secp_mul {k.to_bytes(32, "big").hex()}' for k in ks])
    for k, o in zip(ks, out):
        pk = coincurve.PrivateKey(k.to_bytes(32, 'big')).public_key.format(compressed=False)
        if o != f'ok {pk[1:33].hex()} {pk[33:].hex()}':
            raise MachineryFault(f'Lean secp256k1 k*G disagrees with libsecp256k1 for k={k}')
    return {'secp_mul_vs_libsecp256k1': len(ks)}


def _tree_output_x(pub, tree):
    """output key x for a single-leaf tree by hashlib + libsecp256k1 (independent of the library under test)"""
    import coincurve, hashlib
    from bitcoinutils.script import Script
    def tag(t, m):
        th = hashlib.sha256(t).digest(); return hashlib.sha256(th + th + m).digest()
    raw = Script(list(tree[1])).to_bytes()
    ln = bytes([len(raw)]) if len(raw) < 253 else b'\xfd' + len(raw).to_bytes(2, 'little')
    leaf = tag(b'TapLeaf', b'\xc0' + ln + raw)
    px = pub.to_bytes()[:32]
    return coincurve.PublicKey(b'\x02' + px).add(tag(b'TapTweak', px + leaf)).format(compressed=True)[1:].hex()


def tree_cases(ctx, pub, tree, tag, every_leaf=True):
    rng = ctx.rng
    from bitcoinutils.utils import ControlBlock
    pub64 = pub.to_bytes()
    tl = TT.line(tree)
    lv = TT.leaves(tree)
    nt = len(lv) >= 2
    yield Case(f'tr_root {tl}', 'gms' if len(tl) < 20000 else 'ms', nontrivial=nt, tag=tag)
    # the translated to_taproot_hex is interpreted (a scalar multiplication per call): run it on a third of the tree cases
    yield Case(f'tr_addr {hx(pub64)} S {tl}', 'gms' if sum(pub64[:4]) % 3 == 0 else 'ms', nontrivial=nt, tag=tag)
    # the address's program/parity, from the implementation, is what every control block must verify against
    prog, odd = pub.to_taproot_hex(TT.to_py(tree))
    idxs = range(len(lv)) if every_leaf else sorted(rng.sample(range(len(lv)), min(3, len(lv))))
    for k in idxs:
        def spec(ans, leaf=lv[k], prog=prog, odd=odd):
            if not ans.startswith('ok '): return ('s:echo control-block-raised', 'ok 1')
            return (f's:tr_verify {ans[3:]} {toks_str(leaf)}', f'ok {prog} {1 if odd else 0}')
        ctx.count('control-block'); ctx.count('odd-output' if odd else 'even-output')
        yield Case(f'tr_cb {hx(pub64)} {tl} {k} {1 if odd else 0}', 'gms' if len(tl) < 20000 else 'ms', nontrivial=nt or odd, tag=tag + '-cb', spec=spec)


def cases(ctx):
    rng = ctx.rng
    keys = [priv_with_parity(rng, False).get_public_key(), priv_with_parity(rng, True).get_public_key()]
    maxn = 7 if ctx.thorough else 5
    for n in range(1, maxn + 1):
        for sh in TT.shapes(n):
            pub = rng.choice(keys)
            dup = rng.random() < 0.2
            base = TT.leaf_script(rng)
            it = iter([base if dup and rng.random() < 0.5 else TT.leaf_script(rng, big=rng.random() < 0.25) for _ in range(n)])
            wrap = (lambda: rng.random() < 0.15)
            tree = TT.fill(sh, it, wrap)
            ctx.count(f'shape-{n}')
            yield from tree_cases(ctx, pub, tree, f'shape{n}')
    for _ in range(ctx.n(25, 1500)):
        sh = TT.random_shape(rng, 8)
        nl = len(TT.leaves(TT.fill(sh, iter([[]] * 300))))
        it = iter([TT.leaf_script(rng, big=rng.random() < 0.02) for _ in range(nl)])
        tree = TT.fill(sh, it, lambda: rng.random() < 0.1)
        pub = priv_with_parity(rng, rng.random() < 0.5).get_public_key()
        ctx.count('random-shape'); ctx.count('random-leaves', nl)
        yield from tree_cases(ctx, pub, tree, 'random', every_leaf=nl <= 8)
    # output keys whose x coordinate starts with a zero byte (searched over a counter in a leaf)
    found = 0
    pub = keys[0]
    for cnt in range(1, 4000):
        if found >= ctx.n(2, 10): break
        tree = ('L', [cnt, 'OP_DROP', pub.to_x_only_hex(), 'OP_CHECKSIG'])
        prog, odd = pub.to_taproot_hex(TT.to_py(tree))
        if _tree_output_x(pub, tree).startswith('00'):
            found += 1; ctx.count('output-x-leading-zero')
            yield from tree_cases(ctx, pub, tree, 'leading-zero-x')
    # key-path-only and raw-root addresses
    for _ in range(ctx.n(20, 500)):
        pub = priv_with_parity(rng, rng.random() < 0.5).get_public_key()
        yield Case(f'tr_addr {hx(pub.to_bytes())} N', 'gms', nontrivial=not pub.is_y_even(), tag='keyonly')
        yield Case(f'tr_addr_obj {hx(pub.to_bytes())} N', 'g', nontrivial=True, tag='gen-address-object')
        root = G.rbytes(rng, 32)
        yield Case(f'tr_addr {hx(pub.to_bytes())} R {hx(root)}', 'gms', nontrivial=True, tag='rawroot')
    # the two hash leaves against the *generated* code (tier T): TapBranch on ordered / reversed / equal / prefix-related children,
    # TapLeaf on scripts incl. the 252/253-byte CompactSize boundary
    from harness.common import toks_str
    pairs = []
    for _ in range(ctx.n(20, 300)):
        a, b = G.rbytes(rng, 32), G.rbytes(rng, 32)
        pairs += [(a, b), (b, a)]
    x = G.rbytes(rng, 32)
    pairs += [(x, x), (x[:31] + bytes([x[31] ^ 1]), x), (bytes(32), bytes([0] * 31 + [1])), (x[:16], x), (x, x[:16]), (b'', x), (b'', b'')]
    for a, b in pairs:
        ctx.count('gen-tapbranch')
        yield Case(f'tapbranch {hx(a)} {hx(b)}', 'g', nontrivial=True, tag='gen-hash')
    for ln in [1, 2, 75, 76, 200, 249, 250, 251, 252, 253, 254, 300] + [rng.randrange(1, 400) for _ in range(ctx.n(10, 100))]:
        toks = [G.rbytes(rng, max(1, ln - 3)).hex(), 'OP_DROP', 'OP_1'] if ln > 3 else ['OP_1'] * ln
        ctx.count('gen-tapleaf')
        yield Case(f'tapleaf {toks_str(toks)}', 'g', nontrivial=True, tag='gen-hash')
    # out-of-range leaf index: the code returns a path with no target (model correspondence only)
    tree = TT.fill(('T', ('L',), ('L',)), iter([['OP_1'], ['OP_2']]))
    yield Case(f'tr_cb {hx(keys[0].to_bytes())} {TT.line(tree)} 5 0', 'gm', nontrivial=True, tag='bad-index', domain=False)


def impl(op, a, ctx):
    from bitcoinutils.keys import PublicKey
    from bitcoinutils.utils import get_tag_hashed_merkle_root, ControlBlock
    F = Fields(a)
    if op == 'tapbranch':
        from bitcoinutils.utils import tapbranch_tagged_hash
        a1 = F.bytes(); b1 = F.bytes()
        return 'ok ' + hx(tapbranch_tagged_hash(a1, b1))
    if op == 'tapleaf':
        from bitcoinutils.utils import tapleaf_tagged_hash
        from bitcoinutils.script import Script
        return 'ok ' + hx(tapleaf_tagged_hash(Script(F.toks())))
    if op == 'tr_root':
        t = TT.parse(F); F.done()
        return 'ok ' + hx(get_tag_hashed_merkle_root(TT.to_py(t)))
    if op == 'tr_addr_obj':
        pub = PublicKey('04' + F.bytes().hex()); s = TT.parse_scripts(F); F.done()
        addr = pub.get_taproot_address(TT.scripts_py(s))
        return f'ok {addr.segwit_num_version} {addr.to_witness_program()} {1 if addr.is_odd() else 0}'
    if op == 'tr_addr':
        pub = PublicKey('04' + F.bytes().hex()); s = TT.parse_scripts(F); F.done()
        prog, odd = pub.to_taproot_hex(TT.scripts_py(s))
        addr = pub.get_taproot_address(TT.scripts_py(s))
        assert addr.to_witness_program() == prog and addr.is_odd() == odd
        return f'ok {prog} {1 if odd else 0}'
    if op == 'tr_cb':
        pub = PublicKey('04' + F.bytes().hex()); t = TT.parse(F); k = F.nat(); odd = F.bool(); F.done()
        return 'ok ' + hx(ControlBlock(pub, TT.to_py(t), k, is_odd=odd).to_bytes())
    raise ValueError(op)
