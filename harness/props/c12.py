"""C12 — locking scripts and script-hash commitments"""
from harness.common import Case, hx, unhx, Fields, toks_str
from harness import gen as G

KINDS = 'gms'
RULE = ('locking scripts of all five address types for random 20/32-byte hashes and keys on all networks: bytes vs the standard templates; '
        "script-hash commitments (P2SH hash160, P2WSH sha256) and the two Script helpers on redeem/witness scripts from C02's generator "
        '(1..70000 bytes) vs the Spec computed from the script bytes; the helper output equals the locking script of the address created from '
        'the same script. non-trivial: script of >= 2 tokens or > 75 bytes, or a non-default network')
TRUSTED = ['SHA-256 / RIPEMD-160 executables checked against hashlib / pycryptodome']
ASSUMPTIONS = []
NETS = ['mainnet', 'testnet', 'regtest', 'signet']


def cases(ctx):
    rng = ctx.rng
    names = G.op_names()
    for _ in range(ctx.n(60, 3000)):
        for ty, ln in (('p2pkh', 20), ('p2sh', 20), ('p2wpkh', 20), ('p2wsh', 32), ('p2tr', 32)):
            h = G.rbytes(rng, ln); net = rng.choice(NETS)
            ctx.count('spk-' + ty)
            yield Case(f'spk {ty} {hx(h)} {net}', 'gms', nontrivial=net != 'testnet', tag='spk',
                       spec=lambda ans, ty=ty, h=h: (f's:spk {ty} {hx(h)}', ans))
    from harness import rmdleaf
    yield from rmdleaf.cases(ctx)
    # a locking script obtained earlier is still the same after another one of the same kind was requested
    # (objects are held un-serialised across the second request)
    for _ in range(ctx.n(40, 1500)):
        ty, ln = rng.choice([('p2pkh', 20), ('p2sh', 20), ('p2wpkh', 20), ('p2wsh', 32), ('p2tr', 32)])
        ty2 = ty if rng.random() < 0.7 else rng.choice(['p2pkh', 'p2sh', 'p2wpkh', 'p2wsh', 'p2tr'])
        ln2 = 20 if ty2 in ('p2pkh', 'p2sh', 'p2wpkh') else 32
        h, h2 = G.rbytes(rng, ln), G.rbytes(rng, ln2); net = rng.choice(NETS)
        ctx.count('spk-then')
        yield Case(f'spk_then {ty} {hx(h)} {net} {ty2} {hx(h2)}', 'ms', nontrivial=True, tag='spk-then',
                   model=lambda ans, ty=ty, h=h, net=net: (f'm:spk {ty} {hx(h)} {net}', ans),
                   spec=lambda ans, ty=ty, h=h: (f's:spk {ty} {hx(h)}', ans))
    for _ in range(ctx.n(40, 1500)):
        toks = G.script_tokens(rng, names, 6, big=False) or ['OP_1']
        toks2 = G.script_tokens(rng, names, 6, big=False) or ['OP_2']
        ctx.count('commit-then')
        yield Case(f'script_commit_then {toks_str(toks)} {toks_str(toks2)}', 'ms', nontrivial=True, tag='commit-then',
                   model=lambda ans, t=toks: (f'm:script_commit {toks_str(t)}', ans),
                   spec=lambda ans, t=toks: (f's:script_commit {toks_str(t)}', ans))
    # an address keeps committing to the script it was created from, whatever happens to that Script object (or to the
    # list the caller built it from) afterwards
    for _ in range(ctx.n(30, 1000)):
        toks = G.script_tokens(rng, names, 6, big=False) or ['OP_1']
        extra = G.script_tokens(rng, names, 3, big=False) or ['OP_DROP']
        ctx.count('address-then-mutate')
        yield Case(f'addr_then_mutate {toks_str(toks)} {toks_str(extra)}', 'ms', nontrivial=True, tag='addr-then-mutate',
                   model=lambda ans, t=toks: (f'm:script_commit {toks_str(t)}', ans),
                   spec=lambda ans, t=toks: (f's:script_commit {toks_str(t)}', ans))
    # redeem / witness scripts that themselves look like the standard templates (hash locks, nested P2SH, ...)
    shaped = []
    for _ in range(ctx.n(6, 200)):
        h20 = G.rbytes(rng, 20).hex(); h32 = G.rbytes(rng, 32).hex()
        shaped += [['OP_HASH160', h20, 'OP_EQUAL'], ['OP_DUP', 'OP_HASH160', h20, 'OP_EQUALVERIFY', 'OP_CHECKSIG'], ['OP_0', h20], ['OP_0', h32],
                   ['OP_1', h32], ['OP_SHA256', h32, 'OP_EQUAL'], ['OP_HASH256', h32, 'OP_EQUAL'], ['OP_RIPEMD160', h20, 'OP_EQUAL'], [h20], [h32], []]
    for toks in shaped:
        ctx.count('commit-template-shaped')
        yield Case(f'script_commit {toks_str(toks)}', 'gms', nontrivial=True, tag='commit-shaped')
    # the same Script object after its helpers were used and its token list was then changed in place
    for _ in range(ctx.n(40, 1500)):
        toks = G.script_tokens(rng, names, 6, big=False) or ['OP_1']
        extra = G.script_tokens(rng, names, 3, big=False) or ['OP_DROP']
        ctx.count('commit-after-mutation')
        yield Case(f'script_commit_after {toks_str(toks)} {toks_str(extra)}', 'ms', nontrivial=True, tag='commit-after',
                   model=lambda ans, t=toks + extra: (f'm:script_commit {toks_str(t)}', ans),
                   spec=lambda ans, t=toks + extra: (f's:script_commit {toks_str(t)}', ans))
    for _ in range(ctx.n(250, 10000)):
        toks = G.script_tokens(rng, names, 12, big=rng.random() < 0.08)
        if not toks: toks = ['OP_1']
        nt = len(toks) >= 2 or any(isinstance(t, str) and not t.startswith('OP_') and len(t) > 150 for t in toks)
        ctx.count('commit')
        yield Case(f'script_commit {toks_str(toks)}', 'gms' if len(toks_str(toks)) < 2000 else 'ms', nontrivial=nt, tag='commit')


def impl(op, a, ctx):
    from bitcoinutils.setup import setup
    from bitcoinutils.keys import P2pkhAddress, P2shAddress, P2wpkhAddress, P2wshAddress, P2trAddress
    from bitcoinutils.script import Script
    if op.startswith('rmd_'):
        from harness import rmdleaf
        return rmdleaf.impl(op, a, ctx)
    F = Fields(a)
    def mk(ty, h):
        if ty == 'p2pkh': return P2pkhAddress(hash160=h.hex())
        if ty == 'p2sh': return P2shAddress(hash160=h.hex())
        if ty == 'p2wpkh': return P2wpkhAddress(witness_program=h.hex())
        if ty == 'p2wsh': return P2wshAddress(witness_program=h.hex())
        return P2trAddress(witness_program=h.hex())
    if op == 'spk':
        ty = F.next(); h = F.bytes(); net = F.next(); setup(net)
        return 'ok ' + hx(mk(ty, h).to_script_pub_key().to_bytes())
    if op == 'spk_then':
        ty = F.next(); h = F.bytes(); net = F.next(); setup(net)
        first = mk(ty, h).to_script_pub_key()
        ty2 = F.next(); h2 = F.bytes()
        mk(ty2, h2).to_script_pub_key().to_bytes()
        return 'ok ' + hx(first.to_bytes())
    if op == 'script_commit_then':
        setup('testnet')
        s = Script(F.toks()); s2 = Script(F.toks())
        a1 = P2shAddress(script=s); a2 = P2wshAddress(script=s)
        held = [a1.to_script_pub_key(), a2.to_script_pub_key(), s.to_p2sh_script_pub_key(), s.to_p2wsh_script_pub_key()]
        for o in (P2shAddress(script=s2).to_script_pub_key(), P2wshAddress(script=s2).to_script_pub_key(),
                  s2.to_p2sh_script_pub_key(), s2.to_p2wsh_script_pub_key()):
            o.to_bytes()
        b = [o.to_bytes() for o in held]
        if b[0] != b[2] or b[1] != b[3]: return 'ok helper-and-address-disagree'
        return f'ok {a1.to_hash160()} {a2.to_witness_program()} {hx(b[2])} {hx(b[3])}'
    if op == 'addr_then_mutate':
        setup('testnet')
        lst = F.toks(); s = Script(lst); extra = F.toks()
        a1 = P2shAddress(script=s); a2 = P2wshAddress(script=s)
        strs = (a1.to_string(), a2.to_string())
        lst.extend(extra)
        if s.get_script() is not lst: s.get_script().extend(extra)
        if hasattr(s, 'script') and s.script is not lst and s.script is not s.get_script(): s.script.extend(extra)
        b1 = a1.to_script_pub_key().to_bytes(); b2 = a2.to_script_pub_key().to_bytes()
        if (a1.to_string(), a2.to_string()) != strs: return 'ok address-string-changed'
        return f'ok {a1.to_hash160()} {a2.to_witness_program()} {hx(b1)} {hx(b2)}'
    if op in ('script_commit', 'script_commit_after'):
        setup('testnet')
        s = Script(F.toks())
        if op == 'script_commit_after':
            s.to_p2sh_script_pub_key(); s.to_p2wsh_script_pub_key(); s.to_bytes(); s.to_hex()
            s.get_script().extend(F.toks())
        a1 = P2shAddress(script=s); a2 = P2wshAddress(script=s)
        spk1 = s.to_p2sh_script_pub_key().to_bytes(); spk2 = s.to_p2wsh_script_pub_key().to_bytes()
        # the helper's output equals the locking script of the address created from the same script
        if a1.to_script_pub_key().to_bytes() != spk1 or a2.to_script_pub_key().to_bytes() != spk2:
            return 'ok helper-and-address-disagree'
        return f'ok {a1.to_hash160()} {a2.to_witness_program()} {hx(spk1)} {hx(spk2)}'
    raise ValueError(op)
