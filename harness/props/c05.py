"""C05 — BIP341 / BIP342 signature message"""
from harness.common import Case, hx, tx_to_line, line_to_tx, toks_str, Fields
from harness import gen as G

KINDS = 'gms'
RULE = ('transactions of 1..8 inputs and 1..8 outputs; every input index valid for the hash type; spent scriptPubKeys and output scripts '
        'of 0..70000 bytes incl. 252/253/255/256/65535/65536; amounts 0..2^63-1; seven hash types; key path and script path with leaf '
        'scripts of 1..70000 bytes. non-trivial: >= 2 inputs and (hash type != default or index > 0 or a script >= 253 bytes)')
TRUSTED = ['SHA-256 parameter instantiated by BU/Crypto/Sha256.lean (checked against hashlib in C01)']
ASSUMPTIONS = []
TYPES = [0, 1, 2, 3, 0x81, 0x82, 0x83]
BLENS = [248, 249, 250, 251, 252, 253, 254, 255, 256, 300, 65535, 65536, 70000]


def exact_len_script(rng, total):
    """a script of exactly `total` encoded bytes: one push + OP_DROP OP_1"""
    body = total - 2
    ln = body - (1 if body - 1 <= 75 else 2 if body - 2 <= 255 else 3 if body - 3 <= 65535 else 5)
    return [G.rbytes(rng, ln).hex(), 'OP_DROP', 'OP_1']


def spk(rng, names):
    r = rng.random()
    if r < 0.12:
        return exact_len_script(rng, rng.choice([252, 253, 254, 65534, 65535, 65536, 65537] + [v for v in G.source_literals() if v >= 80]))
    if r < 0.5: return ['OP_1', G.rbytes(rng, 32).hex()]
    if r < 0.7: return G.std_script(rng, names)
    if r < 0.9: return [G.rbytes(rng, rng.choice(BLENS)).hex()]
    return []


def cases(ctx):
    from bitcoinutils.transactions import TxOutput
    from bitcoinutils.script import Script
    rng = ctx.rng
    names = G.op_names()
    for _ in range(ctx.n(150, 6000)):
        tx = G.gen_tx(rng, names, kind=rng.choice(['segwit', 'segwit', 'mixed', 'legacy']), max_in=8, max_out=8, min_out=1, big=False)
        if rng.random() < 0.3:
            k = rng.randrange(len(tx.outputs))
            tx.outputs[k] = TxOutput(tx.outputs[k].amount, Script([G.rbytes(rng, rng.choice(BLENS)).hex()] if rng.random() < 0.5 else
                                                                  exact_len_script(rng, rng.choice([252, 253, 254, 65534, 65535, 65536, 65537]))))
        line = tx_to_line(tx)
        n = len(tx.inputs)
        spks = [spk(rng, names) for _ in range(n)]
        amts = [rng.choice([0, 1, 2 ** 63 - 1, rng.randrange(0, 21 * 10 ** 14)]) for _ in range(n)]
        sp = ' '.join([str(n)] + [toks_str(s) for s in spks]) + ' ' + ' '.join([str(n)] + [str(x) for x in amts])
        idxs = range(n) if rng.random() < 0.3 else [rng.randrange(n)]
        for i in idxs:
            ext = rng.randrange(2)
            leaf = [G.rbytes(rng, 32).hex(), 'OP_CHECKSIG'] if rng.random() < 0.6 else [G.rbytes(rng, rng.choice([1, 75, 76] + BLENS)).hex()]
            if rng.random() < 0.15: leaf = exact_len_script(rng, rng.choice([252, 253, 254, 65534, 65535, 65536, 65537]))
            if ext == 0 and rng.random() < 0.7: leaf = []
            hts = TYPES if rng.random() < 0.5 else [rng.choice(TYPES)]
            for ht in hts:
                dom = not (ht & 3 == 3 and i >= len(tx.outputs))
                ctx.count(f'ht-{ht:02x}-ext{ext}')
                big = any(isinstance(t, str) and not t.startswith('OP_') and len(t) >= 490
                          for s in spks + [leaf] + [o.script_pubkey.script for o in tx.outputs] for t in s)
                small = len(line) + len(sp) < 20000       # the generated code is interpreted, not compiled
                yield Case(f'dig_v1 {line} {i} {sp} {ext} {toks_str(leaf)} {ht}', (('g' if small else '') + 'ms') if dom else ('gm' if small else 'm'),
                           nontrivial=n >= 2 and (ht != 0 or i > 0 or big), tag='v1', domain=dom)
    for _ in range(ctx.n(50, 2500)):
        tx = G.gen_tx(rng, names, kind='segwit', max_in=4, max_out=4, min_out=1, big=False)
        muts = [m for m in G.random_mutations(rng, tx, names) if m[0] != 'addin' and not (m[0] in ('seq', 'sig') and m[1] >= len(tx.inputs))]     # keep the number of inputs
        if not muts: muts = [('lock', '01020304')]
        line0 = tx_to_line(tx)
        G.apply_mutations(tx, muts)
        line1 = tx_to_line(tx)
        n = len(tx.inputs); i = rng.randrange(n); ht = rng.choice(TYPES)
        if ht & 3 == 3 and i >= len(tx.outputs): ht = 0
        sp = ' '.join([str(n)] + [toks_str(['OP_1', G.rbytes(rng, 32).hex()])] * n) + ' ' + ' '.join([str(n)] + [str(1000 + k) for k in range(n)])
        rest = f'{i} {sp} 0 0 {ht}'
        ctx.count('after-mutation')
        yield Case(f'dig_v1_after {line0} {G.muts_line(muts)} {rest}', 'ms', nontrivial=True, tag='after-mutation',
                   model=lambda ans, l=line1, r=rest: (f'm:dig_v1 {l} {r}', ans), spec=lambda ans, l=line1, r=rest: (f's:dig_v1 {l} {r}', ans))
    tx = G.gen_tx(rng, names, kind='segwit', max_in=2, max_out=2, min_out=1, big=False)
    n = len(tx.inputs)
    sp = ' '.join([str(n)] + [toks_str(['OP_1'])] * n) + ' ' + ' '.join([str(n)] + ['5'] * n)
    for ht in (4, 0x84, 256, 0x41):
        yield Case(f'dig_v1 {tx_to_line(tx)} 0 {sp} 0 0 {ht}', 'gm', nontrivial=True, tag='undefined-type', domain=False)
    yield Case(f'dig_v1 {tx_to_line(tx)} 0 {sp.replace(" 5", " -5")} 0 0 0', 'gm', nontrivial=True, tag='neg-amount', domain=False)
    # out-of-range indices with ANYONECANPAY / SINGLE: the IndexError paths of the generated code and of the model
    for ht, idx in ((0x81, n), (0x83, n + 3), (3, 7), (0x83, 0)):
        yield Case(f'dig_v1 {tx_to_line(tx)} {idx} {sp} 0 0 {ht}', 'gm', nontrivial=True, tag='bad-index', domain=False)
    # fewer spent scripts / amounts than inputs under ANYONECANPAY
    sp_short = ' '.join(['1', toks_str(['OP_1'])]) + ' ' + ' '.join(['1', '5'])
    yield Case(f'dig_v1 {tx_to_line(tx)} {n - 1} {sp_short} 1 {toks_str(["OP_1"])} {0x81}', 'gm', nontrivial=True, tag='short-spent', domain=False)


def impl(op, a, ctx):
    from bitcoinutils.script import Script
    F = Fields(a)
    tx = line_to_tx(F)
    muts = None
    if op == 'dig_v1_after':
        muts = G.parse_muts(F)
    i = F.nat()
    spks = [Script(s) for s in F.list(F.toks)]; amts = F.list(F.int); ext = F.nat(); leaf = F.toks(); ht = F.nat(); F.done()
    if muts is not None:
        G.exercise(tx)
        try: tx.get_transaction_taproot_digest(i, spks, amts, ext, Script(leaf), sighash=ht)
        except Exception: pass
        G.apply_mutations(tx, muts)
    return 'ok ' + hx(tx.get_transaction_taproot_digest(i, spks, amts, ext, Script(leaf), sighash=ht))


# ---- real-chain signature oracle
from harness import fxsig as _S
_base_cases = cases
_base_impl = impl
_spends = {}


def _all_spends():
    if not _spends:
        for x in _S.taproot_spends(): _spends[(x[1], x[2])] = x
    return _spends


def cases(ctx):  # noqa: F811
    yield from _base_cases(ctx)
    from bitcoinutils.script import Script
    allsp = list(_all_spends().values())
    key = _S.pick(ctx.rng, [x for x in allsp if x[3] == 'key'], ctx.n(25), ctx.thorough)
    scr = _S.pick(ctx.rng, [x for x in allsp if x[3] == 'script'], ctx.n(25), ctx.thorough)
    for name, k, j, kind, sig, pk, leaf, scripts, amounts in key + scr:
        ht = sig[64] if len(sig) == 65 else 0
        tx = _S.lib_tx(name, k)
        spks = [Script.from_raw(s.hex()).script for s in scripts]
        leaf_toks = Script.from_raw(leaf.hex()).script if leaf else []
        n = len(spks)
        sp = ' '.join([str(n)] + [toks_str(s) for s in spks]) + ' ' + ' '.join([str(n)] + [str(x) for x in amounts])
        ctx.count('fixture-sig-' + kind); ctx.count(f'fixture-ht-{ht:02x}')
        def spec(ans, tx=tx, j=j, sp=sp, kind=kind, leaf_toks=leaf_toks, ht=ht):
            return (f's:dig_v1 {tx_to_line(tx)} {j} {sp} {1 if kind == "script" else 0} {toks_str(leaf_toks)} {ht}',
                    ans.replace(' chain-signature-verifies', ''))
        yield Case(f'fx_sig_v1 {k} {j}', 's', nontrivial=True, tag='fixture-sig-' + kind, spec=spec)


def impl(op, a, ctx):  # noqa: F811
    if op != 'fx_sig_v1':
        return _base_impl(op, a, ctx)
    from bitcoinutils.script import Script
    k, j = int(a[0]), int(a[1])
    name, _, _, kind, sig, pk, leaf, scripts, amounts = _all_spends()[(k, j)]
    ht = sig[64] if len(sig) == 65 else 0
    tx = _S.lib_tx(name, k)
    spks = [Script.from_raw(s.hex()) for s in scripts]
    if kind == 'key':
        d = tx.get_transaction_taproot_digest(j, spks, amounts, 0, sighash=ht)
    else:
        d = tx.get_transaction_taproot_digest(j, spks, amounts, 1, script=Script.from_raw(leaf.hex()), sighash=ht)
    ok = _S.schnorr_verify(pk, d, sig[:64])
    return f'ok {hx(d)}' + (' chain-signature-verifies' if ok else ' CHAIN-SIGNATURE-DOES-NOT-VERIFY')
