"""C04 — BIP143 signature hash"""
from harness.common import Case, hx, tx_to_line, line_to_tx, toks_str, Fields
from harness import gen as G
from harness.props.c03 import code_script, nontrivial, TYPES

KINDS = 'ms'
RULE = ('transactions of 1..8 inputs and 0..8 outputs; every input index; script codes and output scripts of 0..70000 bytes incl. the '
        'CompactSize boundaries 252/253/255/256/65535/65536; amounts 0..2^63-1; six hash types (+ undefined ones for the model only); '
        'SINGLE with and without matching output. non-trivial: >= 2 inputs and (hash type != ALL or index > 0 or a script >= 253 bytes)')
TRUSTED = ['SHA-256 parameter instantiated by BU/Crypto/Sha256.lean (checked against hashlib in C01)']
ASSUMPTIONS = ['hash types with none of the undefined bits 0x70 (the six defined types)']


def cases(ctx):
    from bitcoinutils.transactions import TxOutput
    from bitcoinutils.script import Script
    rng = ctx.rng
    names = G.op_names()
    for _ in range(ctx.n(160, 6000)):
        tx = G.gen_tx(rng, names, kind=rng.choice(['legacy', 'segwit', 'segwit', 'mixed']), max_in=8, max_out=8, big=False)
        if tx.outputs and rng.random() < 0.3:   # an output script across the CompactSize boundary
            k = rng.randrange(len(tx.outputs))
            ln = rng.choice([248, 249, 250, 251, 252, 253, 254, 255, 256, 65535, 65536])
            tx.outputs[k] = TxOutput(tx.outputs[k].amount, Script([G.rbytes(rng, ln).hex()]))
        line = tx_to_line(tx)
        idxs = range(len(tx.inputs)) if rng.random() < 0.3 else [rng.randrange(len(tx.inputs))]
        for i in idxs:
            code = code_script(rng, names, ctx)
            amt = rng.choice([0, 1, 2 ** 63 - 1, rng.randrange(0, 21 * 10 ** 14), rng.randrange(0, 2 ** 63)])
            hts = TYPES if rng.random() < 0.5 else [rng.choice(TYPES)]
            for ht in hts:
                ctx.count(f'ht-{ht:02x}')
                if ht & 0x1f == 3: ctx.count('single-' + ('in' if i < len(tx.outputs) else 'out-of-range'))
                yield Case(f'dig_v0 {line} {i} {toks_str(code)} {amt} {ht}', 'ms',
                           nontrivial=nontrivial(tx, i, ht, [code] + [o.script_pubkey.script for o in tx.outputs]), tag='v0')
            if rng.random() < 0.1:
                ht = rng.choice([0, 4, 0x41, 0x80, 0x84, 0x91, 0xc1, 0xff])
                yield Case(f'dig_v0 {line} {i} {toks_str(code)} {amt} {ht}', 'm', nontrivial=True, tag='v0-undefined', domain=False)
    tx = G.gen_tx(rng, names, kind='segwit', max_in=2, max_out=2, big=False)
    yield Case(f'dig_v0 {tx_to_line(tx)} 7 {toks_str(["OP_1"])} 5 1', 'm', nontrivial=True, tag='bad-index', domain=False)
    yield Case(f'dig_v0 {tx_to_line(tx)} 0 {toks_str(["OP_1"])} {2 ** 63} 1', 'm', nontrivial=True, tag='bad-amount', domain=False)


def impl(op, a, ctx):
    from bitcoinutils.script import Script
    F = Fields(a)
    tx = line_to_tx(F); i = F.nat(); code = F.toks(); amt = F.int(); ht = F.nat(); F.done()
    return 'ok ' + hx(tx.get_transaction_segwit_digest(i, Script(code), amt, ht))
