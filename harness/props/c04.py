"""C04 — BIP143 signature hash"""
from harness.common import Case, hx, tx_to_line, line_to_tx, toks_str, Fields
from harness import gen as G
from harness.props.c03 import code_script, nontrivial, TYPES

KINDS = 'gms'
RULE = ('transactions of 1..8 inputs and 0..8 outputs; every input index; script codes and output scripts of 0..70000 bytes incl. the '
        'CompactSize boundaries 252/253/255/256/65535/65536; amounts 0..2^63-1; six hash types (+ undefined ones for the model only); '
        'SINGLE with and without matching output. non-trivial: >= 2 inputs and (hash type != ALL or index > 0 or a script >= 253 bytes)')
TRUSTED = ['SHA-256 parameter instantiated by BU/Crypto/Sha256.lean (checked against hashlib in C01)']
ASSUMPTIONS = ['hash types with none of the undefined bits 0x70 (the six defined types)']


def cases(ctx):
    from bitcoinutils.transactions import TxOutput
    from bitcoinutils.script import Script
    rng = ctx.rng
    names = G.op_names()
    for _ in range(ctx.n(160, 6000)):
        tx = G.gen_tx(rng, names, kind=rng.choice(['legacy', 'segwit', 'segwit', 'mixed']), max_in=8, max_out=8, big=False)
        if tx.outputs and rng.random() < 0.3:   # an output script across the CompactSize boundary
            k = rng.randrange(len(tx.outputs))
            ln = rng.choice([248, 249, 250, 251, 252, 253, 254, 255, 256, 65535, 65536])
            tx.outputs[k] = TxOutput(tx.outputs[k].amount, Script([G.rbytes(rng, ln).hex()]))
            if rng.random() < 0.4:
                from harness.props.c05 import exact_len_script
                tx.outputs[k] = TxOutput(tx.outputs[k].amount, Script(exact_len_script(rng, rng.choice([252, 253, 254, 65534, 65535, 65536, 65537]))))
        line = tx_to_line(tx)
        idxs = range(len(tx.inputs)) if rng.random() < 0.3 else [rng.randrange(len(tx.inputs))]
        for i in idxs:
            code = code_script(rng, names, ctx)
            if rng.random() < 0.15:      # BIP143 keeps OP_CODESEPARATOR in the script code
                pk1, pk2 = G.rbytes(rng, 33).hex(), G.rbytes(rng, 33).hex()
                code = rng.choice([[pk1, 'OP_CHECKSIGVERIFY', 'OP_CODESEPARATOR', pk2, 'OP_CHECKSIG'], ['OP_CODESEPARATOR'] + list(code), list(code) + ['OP_CODESEPARATOR']])
            amt = rng.choice([0, 1, 2 ** 63 - 1, 2 ** 53 + 1, 2 ** 60 + 12345, rng.randrange(0, 21 * 10 ** 14), rng.randrange(0, 2 ** 63)])
            hts = TYPES if rng.random() < 0.5 else [rng.choice(TYPES)]
            for ht in hts:
                ctx.count(f'ht-{ht:02x}')
                if ht & 0x1f == 3: ctx.count('single-' + ('in' if i < len(tx.outputs) else 'out-of-range'))
                yield Case(f'dig_v0 {line} {i} {toks_str(code)} {amt} {ht}', 'gms' if len(line) < 20000 else 'ms',
                           nontrivial=nontrivial(tx, i, ht, [code] + [o.script_pubkey.script for o in tx.outputs]), tag='v0')
            if rng.random() < 0.1:
                ht = rng.choice([0, 4, 0x41, 0x80, 0x84, 0x91, 0xc1, 0xff])
                yield Case(f'dig_v0 {line} {i} {toks_str(code)} {amt} {ht}', 'gm' if len(line) < 20000 else 'm', nontrivial=True, tag='v0-undefined', domain=False)
    for _ in range(ctx.n(50, 2500)):
        tx = G.gen_tx(rng, names, kind=rng.choice(['legacy', 'segwit']), max_in=4, max_out=4, min_out=1, big=False)
        muts = G.random_mutations(rng, tx, names)
        line0 = tx_to_line(tx)
        G.apply_mutations(tx, muts)
        line1 = tx_to_line(tx)
        i = rng.randrange(len(tx.inputs)); ht = rng.choice(TYPES)
        code = code_script(rng, names, ctx); amt = rng.randrange(0, 21 * 10 ** 14)
        rest = f'{i} {toks_str(code)} {amt} {ht}'
        ctx.count('after-mutation')
        yield Case(f'dig_v0_after {line0} {G.muts_line(muts)} {rest}', 'ms', nontrivial=True, tag='after-mutation',
                   model=lambda ans, l=line1, r=rest: (f'm:dig_v0 {l} {r}', ans), spec=lambda ans, l=line1, r=rest: (f's:dig_v0 {l} {r}', ans))
    tx = G.gen_tx(rng, names, kind='segwit', max_in=2, max_out=2, big=False)
    yield Case(f'dig_v0 {tx_to_line(tx)} 7 {toks_str(["OP_1"])} 5 1', 'm', nontrivial=True, tag='bad-index', domain=False)
    yield Case(f'dig_v0 {tx_to_line(tx)} 0 {toks_str(["OP_1"])} {2 ** 63} 1', 'm', nontrivial=True, tag='bad-amount', domain=False)


def impl(op, a, ctx):
    from bitcoinutils.script import Script
    F = Fields(a)
    tx = line_to_tx(F)
    muts = None
    if op == 'dig_v0_after':
        muts = G.parse_muts(F)
    i = F.nat(); code = F.toks(); amt = F.int(); ht = F.nat(); F.done()
    if muts is not None:
        G.exercise(tx)
        try: tx.get_transaction_segwit_digest(i, Script(code), amt, ht)
        except Exception: pass
        G.apply_mutations(tx, muts)
    return 'ok ' + hx(tx.get_transaction_segwit_digest(i, Script(code), amt, ht))


# ---- real-chain signature oracle
from harness import fxsig as _S
_base_cases = cases
_base_impl = impl


def cases(ctx):  # noqa: F811
    yield from _base_cases(ctx)
    spends = _S.pick(ctx.rng, _S.p2wpkh_spends(), ctx.n(50), ctx.thorough)
    for name, k, j, sig, pub, amount in spends:
        ht = sig[-1]
        tx = _S.lib_tx(name, k)
        code = ['OP_DUP', 'OP_HASH160', _S.h160(pub).hex(), 'OP_EQUALVERIFY', 'OP_CHECKSIG']
        ctx.count('fixture-sig-' + name); ctx.count(f'fixture-ht-{ht:02x}')
        def spec(ans, tx=tx, j=j, code=code, ht=ht, amount=amount):
            return (f's:dig_v0 {tx_to_line(tx)} {j} {toks_str(code)} {amount} {ht}', ans.replace(' chain-signature-verifies', ''))
        yield Case(f'fx_sig_v0 {name} {k} {j}', 's', nontrivial=True, tag='fixture-sig', spec=spec)


def impl(op, a, ctx):  # noqa: F811
    if op != 'fx_sig_v0':
        return _base_impl(op, a, ctx)
    from bitcoinutils.script import Script
    name, k, j = a[0], int(a[1]), int(a[2])
    hit = [x for x in _S.p2wpkh_spends() if x[0] == name and x[1] == k and x[2] == j][0]
    sig, pub, amount = hit[3], hit[4], hit[5]
    rs = _S.lax_der(sig[:-1])
    tx = _S.lib_tx(name, k)
    code = Script(['OP_DUP', 'OP_HASH160', _S.h160(pub).hex(), 'OP_EQUALVERIFY', 'OP_CHECKSIG'])
    d = tx.get_transaction_segwit_digest(j, code, amount, sig[-1])
    ok = rs is not None and _S.secp_verify(pub, d, *rs)
    return f'ok {hx(d)}' + (' chain-signature-verifies' if ok else ' CHAIN-SIGNATURE-DOES-NOT-VERIFY')
