"""C02 — script assembly / disassembly"""
from harness.common import Case, hx, unhx, toks_str, tok_str, parse_tok, Fields
from harness import gen as G

KINDS = 'gms'
RULE = ('every named opcode singly; pushes of every length 0..600 and 75/76/255/256/65535/65536 and random up to 70000; '
        'integers 0..2^63 at byte-length boundaries; random token sequences of 0..60 tokens; both values of has_segwit; '
        'arbitrary byte strings (fallback paths) for model correspondence only. non-trivial: >= 2 tokens or a PUSHDATA form')
TRUSTED = []
ASSUMPTIONS = []


def nontrivial(toks):
    return len(toks) >= 2 or any(isinstance(t, str) and not t.startswith('OP_') and len(t) > 150 for t in toks)


def script_cases(ctx, toks, tag):
    from bitcoinutils.script import Script
    ts = toks_str(toks)
    nt = nontrivial(toks)
    # assembly also through the generated (translated) Script.to_bytes, interpreted: scripts below 3000 hex characters
    yield Case(f'asm {ts}', 'gms' if len(ts) < 3000 else 'ms', nontrivial=nt, tag=tag)
    try:
        raw = Script(list(toks)).to_bytes()
    except Exception:
        return
    for seg in (0, 1):
        def spec(ans, ts=ts):
            if not ans.startswith('ok '): return ('s:echo disasm-raised', 'ok 1')
            return (f's:renders {ts} {ans[3:]}', 'ok 1')
        yield Case(f'disasm {hx(raw)} {seg}', 'gms' if len(raw) < 1500 else 'ms', nontrivial=nt, tag=tag + '-dis', spec=spec)
        yield Case(f'reasm {hx(raw)} {seg}', 'ms', nontrivial=nt, tag=tag + '-re',
                   spec=lambda ans, raw=raw: (f's:echo {hx(raw)}', ans))


def cases(ctx):
    rng = ctx.rng
    names = G.op_names()
    for nm in names:
        ctx.count('single-op')
        yield from script_cases(ctx, [nm], 'op')
    lens = sorted(set(list(range(0, ctx.n(601))) + [65535, 65536, 65537, 70000] + G.source_literals()))
    for ln in lens:
        ctx.count('push-len')
        yield from script_cases(ctx, [G.rbytes(rng, ln).hex()], 'push')
    ints = list(range(0, 20)) + [2 ** b + d for b in (7, 8, 15, 16, 23, 24, 31, 32, 39, 40, 47, 55, 56, 62, 63) for d in (-1, 0, 1)]
    ints += [rng.getrandbits(rng.choice([8, 16, 32, 63])) for _ in range(ctx.n(200, 5000))]
    for k in ints:
        if k > 2 ** 63: continue
        ctx.count('int')
        yield from script_cases(ctx, [k], 'int')
    yield from script_cases(ctx, [-1], 'neg')
    # an integer and a data token that print the same (1000 vs "1000"), in both orders within one process
    for k in [17, 18, 99, 1000, 1234, 2024, 500000, 65536, 16777216, 10 ** 9 + 7, 4000000000] + [rng.randrange(17, 10 ** 8) for _ in range(ctx.n(10, 300))]:
        d = str(k) if len(str(k)) % 2 == 0 else '0' + str(k)
        for toks in ([k], [d], [str(k)] if len(str(k)) % 2 == 0 else [d], [k, d], [d, k]):
            ctx.count('int-vs-data')
            yield from script_cases(ctx, toks, 'int-vs-data')
    # a parsed script is edited in place, then the same bytes are parsed again
    for _ in range(ctx.n(40, 1500)):
        toks = [G.token(rng, names, big=False) for _ in range(rng.choice([1, 2, 3, 5]))]
        try:
            from bitcoinutils.script import Script
            raw = Script(list(toks)).to_bytes()
        except Exception:
            continue
        seg = rng.randrange(2)
        ts = toks_str(toks)
        ctx.count('parse-mutate-parse')
        yield Case(f'disasm_after {hx(raw)} {seg} {tok_str(G.token(rng, names, big=False))}', 'ms', nontrivial=True, tag='parse-mutate-parse',
                   model=lambda ans, raw=raw, seg=seg: (f'm:disasm {hx(raw)} {seg}', ans),
                   spec=lambda ans, ts=ts: (f's:renders {ts} {ans[3:]}', 'ok 1') if ans.startswith('ok ') else ('s:echo raised', 'ok 1'))
    for _ in range(ctx.n(700, 30000)):
        n = rng.choice([0, 2, 3, 4, 5, 8, 12, 20, 40, 60])
        toks = [G.token(rng, names, big=(rng.random() < 0.03)) for _ in range(n)]
        ctx.count(f'seq')
        yield from script_cases(ctx, toks, 'seq')
    # arbitrary bytes: bytes not in the table, truncated pushes, PUSHDATA with short length fields
    for _ in range(ctx.n(600, 20000)):
        b = G.rbytes(rng, rng.randrange(0, 40)) if rng.random() < 0.7 else bytes(rng.getrandbits(8) for _ in range(rng.randrange(1, 12)))
        if rng.random() < 0.3:
            b = bytes([rng.choice([0x4c, 0x4d, 0x4e, 0xfd, 0xfe, 0xff, 0x50, 0x7e])]) + b
        ctx.count('raw-bytes')
        yield Case(f'disasm {hx(b)} {rng.randrange(2)}', 'gm' if len(b) < 1500 else 'm', nontrivial=True, tag='raw', domain=False)
        yield Case(f'reasm {hx(b)} {rng.randrange(2)}', 'm', nontrivial=True, tag='raw', domain=False)


def impl(op, a, ctx):
    from bitcoinutils.script import Script
    F = Fields(a)
    if op == 'asm':
        toks = F.toks(); F.done()
        return 'ok ' + hx(Script(toks).to_bytes())
    if op == 'disasm':
        b = F.bytes(); seg = F.bool()
        return 'ok ' + toks_str(Script.from_raw(b.hex(), has_segwit=seg).script)
    if op == 'disasm_after':
        b = F.bytes(); seg = F.bool(); t = F.tok()
        s1 = Script.from_raw(b.hex(), has_segwit=seg)
        s1.get_script().append(t); s1.get_script().insert(0, t)
        if s1.script: s1.script[len(s1.script) // 2] = t
        return 'ok ' + toks_str(Script.from_raw(b.hex(), has_segwit=not seg if False else seg).script)
    if op == 'reasm':
        b = F.bytes(); seg = F.bool()
        return 'ok ' + hx(Script.from_raw(b.hex(), has_segwit=seg).to_bytes())
    raise ValueError(op)


def shrink(line):
    f = line.split(' ')
    if f[0] != 'asm': return
    toks = f[2:]
    for i in range(len(toks)):
        rest = toks[:i] + toks[i + 1:]
        yield ' '.join(['asm', str(len(rest))] + rest)
    for i, t in enumerate(toks):
        if t.startswith('d:') and len(t) > 6:
            h = t[2:]
            for cut in (len(h) // 4 * 2, len(h) - 2):
                if 0 < cut < len(h):
                    yield ' '.join(['asm', str(len(toks))] + toks[:i] + ['d:' + h[:cut]] + toks[i + 1:])
