"""C10 — Base58Check addresses"""
import hashlib
from harness.common import Case, hx, unhx, Fields, toks_str
from harness import gen as G

KINDS = 'gms'
RULE = ('all-random 20-byte hashes incl. 1..20 leading zero bytes, networks mainnet/testnet/regtest/signet, P2PKH and P2SH: address string vs '
        'Base58Check Spec, decode back, construction from address; rejection stream: every kind of single-character substitution (sampled over '
        'positions and symbols), other type / other network version byte, valid-checksum payloads of 19 and 21 bytes, characters outside the '
        'alphabet, strings of 25..36 characters; addresses from public keys (compressed/uncompressed) vs HASH160 of the SEC encoding. non-trivial: '
        'leading-zero hash, non-default network, or a rejection case')
TRUSTED = ['base58check package = Spec.B58 (checked by correspondence); SHA-256 / RIPEMD-160 executables checked against hashlib / pycryptodome']
ASSUMPTIONS = []
NETS = ['mainnet', 'testnet', 'regtest', 'signet']
ALPH = '123456789ABCDEFGHJKLMNPQRSTUVWXYZabcdefghijkmnopqrstuvwxyz'


def prefix(ty, net):
    from bitcoinutils.constants import NETWORK_P2PKH_PREFIXES, NETWORK_P2SH_PREFIXES
    return (NETWORK_P2PKH_PREFIXES if ty == 'p2pkh' else NETWORK_P2SH_PREFIXES)[net]


def np(ty, net): return f'{ty}/{net}:{hx(prefix(ty, net))}'
def sh(s): return hx(s.encode())


def b58c(payload):
    import base58check
    return base58check.b58encode(payload + hashlib.sha256(hashlib.sha256(payload).digest()).digest()[:4]).decode()


def cases(ctx):
    rng = ctx.rng
    hashes = [bytes(z) + G.rbytes(rng, 20 - z) for z in range(0, 21)] + [G.rbytes(rng, 20) for _ in range(ctx.n(150, 8000))]
    # the length window of the validator (26..35 characters): every hash with 19 leading zero bytes on mainnet P2PKH
    # (26- and 27-character addresses), and the longest forms
    edge = [(bytes(19) + bytes([b]), 'p2pkh', 'mainnet') for b in range(256)] + \
           [(bytes(18) + bytes([b, rng.randrange(256)]), 'p2pkh', 'mainnet') for b in range(0, 256, 5)] + \
           [(b'\xff' * 20, ty, net) for ty in ('p2pkh', 'p2sh') for net in NETS] + [(bytes(20), ty, net) for ty in ('p2pkh', 'p2sh') for net in NETS]
    for h, ty, net in edge:
        if h == bytes(20) and ty == 'p2pkh' and net == 'mainnet': continue      # the one payload outside the code's 26..35 window (25 chars)
        s_ = b58c(prefix(ty, net) + h)
        ctx.count(f'edge-len-{len(s_)}')
        yield Case(f'b58_addr {np(ty, net)} {hx(h)}', 'gms', nontrivial=True, tag='edge')
        yield Case(f'b58_accept {np(ty, net)} {sh(s_)}', 'gms', nontrivial=True, tag='edge-accept')
    for h in hashes:
        ty = rng.choice(['p2pkh', 'p2sh']); net = rng.choice(NETS)
        nt = h[0] == 0 or net != 'testnet'
        ctx.count(f'addr-{ty}-{net}')
        yield Case(f'b58_addr {np(ty, net)} {hx(h)}', 'gms', nontrivial=nt, tag='addr')
        if rng.random() < 0.3:      # the same object again on another network
            net2 = rng.choice([n for n in NETS if n != net])
            yield Case(f'b58_addr {np(ty, net2)} {hx(h)}', 'gms', nontrivial=True, tag='addr-other-net')
        s = b58c(prefix(ty, net) + h)
        yield Case(f'b58_accept {np(ty, net)} {sh(s)}', 'gms', nontrivial=nt, tag='accept-valid')
        if rng.random() < 0.4:
            # the very same string, just accepted above, offered to the other address type and on another network
            oty = 'p2sh' if ty == 'p2pkh' else 'p2pkh'
            onet = rng.choice([n for n in NETS if prefix(ty, n) != prefix(ty, net)])
            yield Case(f'b58_accept {np(oty, net)} {sh(s)}', 'gms', nontrivial=True, tag='reject-same-string-other-type')
            yield Case(f'b58_accept {np(ty, onet)} {sh(s)}', 'gms', nontrivial=True, tag='reject-same-string-other-net')
    for _ in range(ctx.n(120, 5000)):
        ty = rng.choice(['p2pkh', 'p2sh']); net = rng.choice(NETS); h = G.rbytes(rng, 20)
        if rng.random() < 0.2: h = bytes(rng.randrange(1, 4)) + h[3:] + b'\x01\x02\x03'[:0]
        h = h[:20]
        s = b58c(prefix(ty, net) + h)
        muts = []
        for _ in range(3):
            i = rng.randrange(len(s))
            muts.append(('subst', s[:i] + rng.choice([x for x in ALPH if x != s[i]]) + s[i + 1:]))
        i = rng.randrange(len(s))
        muts.append(('nonalpha', s[:i] + rng.choice('0OIl+/_ ') + s[i + 1:]))
        oty = 'p2sh' if ty == 'p2pkh' else 'p2pkh'
        muts.append(('other-type', b58c(prefix(oty, net) + h)))
        onet = 'mainnet' if net != 'mainnet' else 'testnet'
        muts.append(('other-net', b58c(prefix(ty, onet) + h)))
        for _ in range(3):      # any other version byte, valid checksum (some share the leading character of the right one)
            v = bytes([rng.choice([x for x in range(256) if bytes([x]) != prefix(ty, net)])])
            muts.append(('other-version', b58c(v + h)))
        pv = prefix(ty, net)[0]
        for v in (pv - 1, pv + 1, pv ^ 2):
            if 0 <= v < 256: muts.append(('near-version', b58c(bytes([v]) + h)))
        muts.append(('payload19', b58c(prefix(ty, net) + h[:19])))
        muts.append(('payload21', b58c(prefix(ty, net) + h + b'\x07')))
        muts.append(('payload19-z', b58c(prefix(ty, net) + bytes(3) + h[:16])))
        muts.append(('bad-checksum', __import__('base58check').b58encode(prefix(ty, net) + h + bytes(4)).decode()))
        muts.append(('truncate', s[:-1])); muts.append(('extend', s + rng.choice(ALPH)))
        # non-canonical Base58: a leading '1' stands for a leading zero BYTE, so adding or dropping one changes the decoded length
        # (26 / 24 bytes) although the number the digits denote, and hence a big-integer decoder's view of it, stays the same
        muts.append(('extra-leading-1', '1' + s)); muts.append(('extra-leading-11', '11' + s))
        if s.startswith('1'): muts.append(('dropped-leading-1', s[1:]))
        else:
            z = b58c(b'\x00' + (bytes(rng.randrange(0, 3)) + h)[:20])         # a mainnet-P2PKH-shaped string (version 0) with its '1's dropped
            muts.append(('dropped-leading-1s', z.lstrip('1')))
            muts.append(('dropped-one-leading-1', z[1:]))
        muts.append(('len%d' % rng.randrange(25, 37), ''.join(rng.choice(ALPH) for _ in range(rng.randrange(25, 37)))))
        for kind, m in muts:
            ctx.count('reject-' + kind)
            yield Case(f'b58_accept {np(ty, net)} {sh(m)}', 'gms', nontrivial=True, tag='reject-' + kind)
    # addresses from public keys
    from bitcoinutils.keys import PrivateKey
    for d in [d for _, d in G.telling_secrets()] + [rng.randrange(1, 2 ** 255) for _ in range(ctx.n(25, 800))]:
        pub = PrivateKey(secret_exponent=d).get_public_key().to_bytes()
        net = rng.choice(NETS)
        for c in rng.choice([(1, 0), (0, 1), (1, 0, 1)]):
            yield Case(f'pub_addr {np("p2pkh", net)} {hx(pub[:32])} {hx(pub[32:])} {c}', 'gms', nontrivial=True, tag='pubaddr',
                       spec=lambda ans, pub=pub, c=c, net=net: (f's:pub_addr_spec {np("p2pkh", net)} {hx(pub[:32])} {hx(pub[32:])} {c}', ans))
    # the constructor called with hash160=<string>: what the translated code stores against what the object stores — valid hashes and the
    # strings around them (case, length 39/41, non-hex, and the 40-character strings int(., 16) accepts: 0x prefix, sign, underscores, padding)
    for _ in range(ctx.n(40, 1500)):
        h = G.rbytes(rng, 20).hex()
        ws = rng.choice([' ', '\t', '\n', '\x0b', '\x1c'])
        for v in (h, h.upper(), h[:39], h + '0', 'g' + h[1:], '0x' + h[2:], '0X' + h[2:], '+' + h[1:], '-' + h[1:], h[:7] + '_' + h[8:],
                  '_' + h[1:], h[:39] + '_', h[:7] + '__' + h[9:], ws + h[1:], h[:39] + ws, h[:20] + ws + h[21:], '', '0' * 40, 'é' + h[1:]):
            ctx.count('gen-hash160-init')
            yield Case(f'h160_init {np("p2pkh", "mainnet")} {sh(v)}', 'g', nontrivial=True, tag='gen-hash160-init', domain=False)


PUBS = {}
ADDRS = {}


def impl(op, a, ctx):
    from bitcoinutils.setup import setup
    from bitcoinutils.keys import P2pkhAddress, P2shAddress, PublicKey
    F = Fields(a)
    tn = F.next().split(':')[0]; ty, net = tn.split('/'); setup(net)
    cls = P2pkhAddress if ty == 'p2pkh' else P2shAddress
    if op == 'b58_addr':
        h = F.bytes()
        a1 = ADDRS.setdefault((ty, h), cls(hash160=h.hex()))      # re-used across networks
        return 'ok ' + sh(a1.to_string())
    if op == 'b58_accept':
        s = F.bytes().decode()
        return 'ok ' + cls(address=s).to_hash160()
    if op == 'h160_init':
        return 'ok ' + sh(cls(hash160=F.bytes().decode()).to_hash160())
    if op == 'pub_addr':
        x = F.bytes(); y = F.bytes(); c = F.bool()
        pub = PUBS.setdefault((x, y), PublicKey('04' + x.hex() + y.hex()))       # one object per key for the whole run
        return 'ok ' + sh(pub.get_address(compressed=c).to_string())
    raise ValueError(op)
