"""C09 — private/public key encodings"""
from harness.common import Case, hx, unhx, Fields
from harness import gen as G
from harness.props.c08 import param_validation  # noqa

KINDS = 'gms'
RULE = ('secrets across [1,n-1] plus the edge values 0, 1, n-1, n (as WIF, bytes and explicit exponent, and 0/empty arguments that must not '
        'silently yield a random key); WIF export/import compressed and uncompressed on mainnet/testnet/regtest/signet, every single-character '
        'corruption class of a WIF (substitution inside/outside the alphabet, deletion, other network version byte, bad checksum, wrong length); '
        'SEC compressed / uncompressed / x-only encodings emitted and re-parsed, x coordinates with leading zero bytes forced, both y parities, x '
        'not on the curve, x >= p. non-trivial: edge secret, non-default network, leading-zero x, or a rejection case')
TRUSTED = ['base58check.b58encode/b58decode = Spec.B58; python-ecdsa key constructors (range / on-curve checks) and d*G; sympy sqrt_mod returns all roots',
           'CurveLaws hypothesis in sec_roundtrip']
ASSUMPTIONS = ['CurveLaws (hypothesis of the SEC round-trip theorem)']
N = 0xFFFFFFFFFFFFFFFFFFFFFFFFFFFFFFFEBAAEDCE6AF48A03BBFD25E8CD0364141
P = 0xFFFFFFFFFFFFFFFFFFFFFFFFFFFFFFFFFFFFFFFFFFFFFFFFFFFFFFFEFFFFFC2F
NETS = ['mainnet', 'testnet', 'regtest', 'signet']
ALPH = '123456789ABCDEFGHJKLMNPQRSTUVWXYZabcdefghijkmnopqrstuvwxyz'


def pfx(net):
    from bitcoinutils.constants import NETWORK_WIF_PREFIXES
    return NETWORK_WIF_PREFIXES[net]


def sh(s): return hx(s.encode())


def np(net): return f'{net}:{hx(pfx(net))}'


def cases(ctx):
    import base58check, hashlib
    from bitcoinutils.setup import setup
    from bitcoinutils.keys import PrivateKey
    rng = ctx.rng
    secrets = [1, 2, N - 1, N - 2, 2 ** 255, 255, 256] + [rng.randrange(1, N) for _ in range(ctx.n(40, 2000))]
    # leading-zero x coordinates: search a few
    lz = []
    d = 1
    while len(lz) < ctx.n(3, 20):
        d += 1
        setup('mainnet')
        k = PrivateKey(secret_exponent=d)
        if k.get_public_key().to_bytes()[0] == 0: lz.append(d)
    # x coordinates whose first byte looks like a SEC prefix (02, 03, 04) or is zero: x-only parsing must not read it as one
    pre = []
    d = 1; want = {2, 3, 4}
    while want and d < 5000:
        d += 1
        b0 = PrivateKey(secret_exponent=d).get_public_key().to_bytes()[0]
        if b0 in want: want.discard(b0); pre.append(d)
    # secrets whose own first / last bytes look like WIF framing: the version bytes 0x80 / 0xef (also repeated), the Base58 address
    # version bytes, 0x00, and a trailing 0x01 (the compression marker) or 0x0101
    framed = []
    for first in (b'\x80', b'\xef', b'\x80\x80', b'\xef\xef\xef', b'\x00', b'\x00\x00\x80', b'\x6f', b'\xc4', b'\x05', b'\x01'):
        for last in (b'', b'\x01', b'\x01\x01', b'\x80', b'\xef'):
            body = G.rbytes(rng, 32 - len(first) - len(last))
            v = int.from_bytes(first + body + last, 'big')
            if 1 <= v < N: framed.append(v)
    ctx.count('secret-framed', len(framed))
    for d in secrets + lz + pre + framed:
        db = d.to_bytes(32, 'big')
        for net, c in [(rng.choice(NETS), rng.choice([0, 1])) for _ in range(3)]:
            ctx.count('wif-' + net)
            yield Case(f'wif_enc {np(net)} {hx(db)} {c}', 'gms', nontrivial=net != 'testnet' or d in (1, N - 1) or d in framed, tag='wif',
                       spec=lambda ans, net=net, db=db, c=c: (f's:wif_spec {np(net)} {hx(db)} {c}', ans))
        yield Case(f'pub_of {hx(db)}', 'ms', nontrivial=d in lz or d in pre or d < 3 or d > N - 3, tag='pub',
                   spec=lambda ans, db=db: (f'secp_mul {hx(db)}', ans))
        # round trip through the three encodings
        yield Case(f'pub_roundtrip {hx(db)}', 'ms', nontrivial=True, tag='sec')
    # constructor dispatch
    for net in NETS:
        for args in [('none', 'none', 'none'), ('none', '0', 'none'), ('none', 'none', '-'), (sh(''), 'none', 'none'),
                     ('none', '1', 'none'), ('none', str(N - 1), 'none'), ('none', str(N), 'none'), ('none', '-5', 'none'),
                     ('none', 'none', hx(bytes(32))), ('none', 'none', hx(bytes(31) + b'\x01')), ('none', 'none', hx(N.to_bytes(32, 'big'))),
                     ('none', 'none', hx(bytes(33))), ('none', '7', hx((9).to_bytes(32, 'big')))]:
            ctx.count('priv-init')
            yield Case(f'priv_init {np(net)} {args[0]} {args[1]} {args[2]}', 'gms', nontrivial=True, tag='init',
                       spec=lambda ans, args=args: explicit_spec(ans, args))
    # WIF import: valid, and every corruption class
    for _ in range(ctx.n(40, 1500)):
        net = rng.choice(NETS); d = rng.randrange(1, N); c = rng.random() < 0.5
        setup(net)
        wif = PrivateKey(secret_exponent=d).to_wif(compressed=c)
        muts = [('valid', wif)]
        i = rng.randrange(len(wif))
        muts.append(('subst', wif[:i] + rng.choice([x for x in ALPH if x != wif[i]]) + wif[i + 1:]))
        muts.append(('nonalpha', wif[:i] + rng.choice('0OIl+/ ') + wif[i + 1:]))
        muts.append(('delete', wif[:i] + wif[i + 1:]))
        muts.append(('extend', wif + rng.choice(ALPH)))
        other = b'\x80' if pfx(net) != b'\x80' else b'\xef'
        raw = other + d.to_bytes(32, 'big') + (b'\x01' if c else b'')
        muts.append(('other-net', base58check.b58encode(raw + hashlib.sha256(hashlib.sha256(raw).digest()).digest()[:4]).decode()))
        raw = pfx(net) + d.to_bytes(32, 'big') + (b'\x01' if c else b'')
        muts.append(('bad-checksum', base58check.b58encode(raw + bytes(4)).decode()))
        raw = pfx(net) + d.to_bytes(32, 'big')[:31]
        muts.append(('short-key', base58check.b58encode(raw + hashlib.sha256(hashlib.sha256(raw).digest()).digest()[:4]).decode()))
        raw = pfx(net) + bytes(32)
        muts.append(('zero-key', base58check.b58encode(raw + hashlib.sha256(hashlib.sha256(raw).digest()).digest()[:4]).decode()))
        # the very same (just accepted) string after the configured network changed to one with another version byte
        onet = rng.choice([x for x in NETS if pfx(x) != pfx(net)])
        yield Case(f'wif_dec {np(net)} {sh(wif)}', 'gms', nontrivial=True, tag='wifdec-valid-first',
                   spec=lambda ans, net=net, w=wif: (f's:wif_dec_spec {np(net)} {sh(w)}', ans))
        yield Case(f'wif_dec {np(onet)} {sh(wif)}', 'gms', nontrivial=True, tag='wifdec-same-string-other-net',
                   spec=lambda ans, onet=onet, w=wif: (f's:wif_dec_spec {np(onet)} {sh(w)}', ans))
        for kind, w in muts:
            ctx.count('wifdec-' + kind)
            yield Case(f'wif_dec {np(net)} {sh(w)}', 'gms', nontrivial=kind != 'valid', tag='wifdec-' + kind,
                       spec=lambda ans, net=net, w=w: (f's:wif_dec_spec {np(net)} {sh(w)}', ans))
    # public-key parsing of arbitrary encodings
    for _ in range(ctx.n(60, 3000)):
        x = rng.getrandbits(256) if rng.random() < 0.8 else rng.choice([0, 1, P - 1, P, P + 1, 2 ** 256 - 1, rng.getrandbits(240)])
        xb = x.to_bytes(32, 'big')
        for enc in (b'\x02' + xb, b'\x03' + xb, xb, b'\x05' + xb, b'\x04' + xb + G.rbytes(rng, 32)):
            ctx.count('pub-parse-raw')
            yield Case(f'pub_parse {hx(enc)}', 'ms', nontrivial=True, tag='parse',
                       domain=enc[0] in (2, 3) and len(enc) == 33 or len(enc) == 32)
    for ln in (0, 1, 31, 34, 64, 66):
        yield Case(f'pub_parse {hx(bytes(ln))}', 'm', nontrivial=True, tag='parse-len', domain=False)
    # the translated constructor / renderings (tier T) run against the implementation: clean hex of every kind of encoding, and
    # the string glue around it (case, 0x prefix, surrounding / embedded whitespace, signs, underscores, odd lengths)
    for i in range(ctx.n(40, 1500)):
        d = rng.choice(secrets + lz + pre)
        raw = PrivateKey(secret_exponent=d).get_public_key().to_bytes()
        x, y = raw[:32], raw[32:]
        yield Case(f'pk_render {hx(raw)}', 'g', nontrivial=True, tag='gen-render')
        encs = [bytes([2 + y[-1] % 2]) + x, bytes([3 - y[-1] % 2]) + x, x, b'\x04' + raw, b'\x05' + x, b'\x04' + x + G.rbytes(rng, 32),
                bytes([rng.choice([2, 3])]) + G.rbytes(rng, 32), G.rbytes(rng, 32), G.rbytes(rng, rng.choice([0, 1, 16, 31, 34, 63, 64, 66]))]
        for enc in encs:
            h = enc.hex()
            yield Case(f'pk_parse {sh(h)}', 'g', nontrivial=True, tag='gen-parse-clean')
            if i % 4: continue
            ws = rng.choice([' ', '\t', '\n', '\r', '\x0b', '\x0c', '\x1c', '\x1f', '  '])
            cut = 2 * rng.randrange(0, len(enc) + 1)
            odd = rng.randrange(0, len(h) + 1)
            variants = [h.upper(), h[:2] + h[2:].upper(), '0x' + h, '0X' + h, '0x' + h.upper(), ws + h, h + ws, ws + '0x' + h + ws, '0x' + ws + h,
                        h[:cut] + ws + h[cut:], h[:odd] + ws + h[odd:], h[:2] + ws + h[2:], h[:2] + '_' + h[2:], h[:4] + '_' + h[4:],
                        h[:2] + '+' + h[2:], h[:2] + '-' + h[2:], '+' + h, '-' + h, h[:2] + '0x' + h[2:], '0x0x' + h, h + '_', h[:-1],
                        h + '0', 'x' + h, h.replace('a', 'g', 1), '0x', '', ws, h[:2], '0x' + h[:2] + ws + '0x' + h[2:]]
            for v in variants:
                ctx.count('gen-parse-glue')
                yield Case(f'pk_parse {sh(v)}', 'g', nontrivial=True, tag='gen-parse-glue', domain=False)


def explicit_spec(ans, args):
    """an explicit secret is either held exactly or construction fails; (none,none,none) is the only way to a random key"""
    w, e, b = args
    if (w, e, b) == ('none', 'none', 'none'): return ('s:raw ok random', ans)
    if w != 'none': return ('s:raw err', ans)          # the empty WIF must fail
    if b != 'none':
        bb = unhx(b)
        d = int.from_bytes(bb, 'big')
        return ('s:raw ' + ('ok ' + hx(bb) if len(bb) == 32 and 1 <= d < N else 'err'), ans)
    d = int(e)
    return ('s:raw ' + ('ok ' + hx(d.to_bytes(32, 'big')) if 1 <= d < N else 'err'), ans)


PRIVS = {}


def impl(op, a, ctx):
    from bitcoinutils.setup import setup
    from bitcoinutils.keys import PrivateKey, PublicKey
    F = Fields(a)
    if op == 'wif_enc':
        net = F.next().split(':')[0]; d = F.bytes(); c = F.bool(); setup(net)
        k = PRIVS.setdefault(d, PrivateKey(b=d))        # one object per secret for the whole run
        return 'ok ' + sh(k.to_wif(compressed=c))
    if op == 'wif_dec':
        net = F.next().split(':')[0]; w = F.bytes().decode(); setup(net)
        return 'ok ' + hx(PrivateKey(wif=w).to_bytes())
    if op == 'priv_init':
        net = F.next().split(':')[0]; setup(net)
        w = F.next(); e = F.next(); b = F.next()
        kw = {}
        if w != 'none': kw['wif'] = unhx(w).decode()
        if e != 'none': kw['secret_exponent'] = int(e)
        if b != 'none': kw['b'] = unhx(b)
        k = PrivateKey(**kw)
        if not kw: return 'ok random'
        return 'ok ' + hx(k.to_bytes())
    if op == 'pub_of':
        setup('testnet')
        p = PrivateKey(b=F.bytes()).get_public_key().to_bytes()
        return f'ok {p[:32].hex()} {p[32:].hex()}'
    if op == 'pub_parse':
        p = PublicKey(F.bytes().hex()).to_bytes()
        return f'ok {p[:32].hex()} {p[32:].hex()}'
    if op == 'pk_parse':
        p = PublicKey(F.bytes().decode()).to_bytes()
        return f'ok {p[:32].hex()} {p[32:].hex()}'
    if op == 'pk_render':
        raw = F.bytes()
        pub = PublicKey('04' + raw.hex())
        return (f'ok {pub.to_hex(True)} {pub.to_hex(False)} {pub.to_x_only_hex()} {1 if pub.is_y_even() else 0} '
                f'{pub._to_hash160(True).hex()} {pub._to_hash160(False).hex()}')
    if op == 'pub_roundtrip':
        pub = PrivateKey(b=F.bytes()).get_public_key()
        raw = pub.to_bytes()
        c, u, xo = pub.to_hex(True), pub.to_hex(False), pub.to_x_only_hex()
        ok = PublicKey(c).to_bytes() == raw and PublicKey(u).to_bytes() == raw
        xr = PublicKey(xo).to_bytes()
        ok = ok and xr[:32] == raw[:32] and xr[63] % 2 == 0 and PublicKey(xo).is_y_even()
        return f'ok {c} {u} {xo} {1 if pub.is_y_even() else 0} {1 if ok else 0}'
    raise ValueError(op)
