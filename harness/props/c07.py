"""C07 — taproot Schnorr signatures"""
from harness.common import Case, hx, unhx, toks_str, Fields, tx_to_line, line_to_tx
from harness import gen as G, taptree as TT
from harness.props.c08 import priv_with_parity, param_validation  # noqa: same curve validation

KINDS = 'gms'
RULE = ('secrets across [1,n-1] with both parities of d*G forced and output keys of both parities occurring; script trees of C08 (all shapes '
        '<= 4 leaves, random deeper ones), raw 32-byte roots, no tree; seven hash types; key path (tweak) and script path (no tweak); final bytes '
        'compared with the Lean transcription; every implementation signature is checked with the Spec BIP340 verifier under the output key of the '
        'address the library derives for the same key and tree (key path) or the x-only internal key (script path); plus full sign_taproot_input '
        'runs on generated transactions. non-trivial: odd parity of internal or output key, or a tree with >= 2 leaves, or non-default hash type')
TRUSTED = ['SHA-256 / secp256k1 executables checked against hashlib / libsecp256k1 each run', 'CurveLaws hypothesis in the key-path theorems']
ASSUMPTIONS = ['CurveLaws (hypothesis of keypath_key_matches / keypath_sig_verifies)']
TYPES = [0, 1, 2, 3, 0x81, 0x82, 0x83]


def tweak_cases(ctx):
    """the key tweaks of utils.py (and full_pubkey_gen): implementation vs the code generated from the current source"""
    from bitcoinutils.keys import PrivateKey
    rng = ctx.rng
    N = 0xFFFFFFFFFFFFFFFFFFFFFFFFFFFFFFFEBAAEDCE6AF48A03BBFD25E8CD0364141
    # (the generated code is interpreted: a scalar multiplication takes a fraction of a second, hence the small quick-tier volume)
    tell = [d for _, d in G.telling_secrets()]
    secrets = (tell if ctx.thorough else rng.sample(tell, min(3, len(tell)))) + [1, N - 1] + [rng.randrange(1, N) for _ in range(ctx.n(2, 30))]
    for d in secrets:
        k = d.to_bytes(32, 'big')
        pub = PrivateKey(secret_exponent=d).get_public_key().to_bytes()
        yield Case(f'full_pubkey {hx(k)}', 'g', nontrivial=True, tag='tweak-fullpub')
        yield Case(f'negate {hx(k)}', 'g', nontrivial=True, tag='tweak-negate')
        ts = [0, 1, N - 1, N - d, rng.randrange(N), rng.getrandbits(256)]
        for t in rng.sample(ts, 3 if ctx.thorough else 2):       # (interpreted scalar multiplications: minutes per thousand)
            yield Case(f'tweak_pub {hx(pub)} {t}', 'g', nontrivial=True, tag='tweak-pub')
            yield Case(f'tweak_priv {hx(k)} {t}', 'g', nontrivial=True, tag='tweak-priv')
    # out-of-range secrets and malformed public keys: the error paths
    for k in (bytes(32), N.to_bytes(32, 'big'), b'\xff' * 32, b'', b'\x01', bytes(31) + b'\x01' + b'\x00'):
        yield Case(f'full_pubkey {hx(k) if k else "-"}', 'g', nontrivial=True, tag='tweak-bad-secret', domain=False)
        yield Case(f'tweak_priv {hx(k) if k else "-"} 5', 'g', nontrivial=True, tag='tweak-bad-secret', domain=False)
    for pub in (bytes(64), b'\x01' * 32, b'', b'\x02' * 33):
        yield Case(f'tweak_pub {hx(pub) if pub else "-"} 7', 'g', nontrivial=True, tag='tweak-bad-pub', domain=False)


def cases(ctx):
    yield from tweak_cases(ctx)
    rng = ctx.rng
    names = G.op_names()
    trees = []
    for n in range(1, 5 if ctx.thorough else 4):
        for sh in TT.shapes(n):
            trees.append(TT.fill(sh, iter([TT.leaf_script(rng) for _ in range(n)]), lambda: rng.random() < 0.15))
    for _ in range(ctx.n(2, 200)):
        sh = TT.random_shape(rng, 6)
        nl = len(TT.leaves(TT.fill(sh, iter([[]] * 100))))
        trees.append(TT.fill(sh, iter([TT.leaf_script(rng, big=rng.random() < 0.03) for _ in range(nl)])))
    scr = [None, None] + [G.rbytes(rng, 32) for _ in range(3)] + trees
    want_odd = False
    pool = {False: [priv_with_parity(rng, False) for _ in range(2)], True: [priv_with_parity(rng, True) for _ in range(2)]}
    for s in scr * (1 if ctx.scale <= 1 and not ctx.thorough else 4):
        want_odd = not want_odd
        # mostly keys that already signed for other trees (the implementation side re-uses one object per secret)
        priv = rng.choice(pool[want_odd]) if rng.random() < 0.8 else priv_with_parity(rng, want_odd)
        pub = priv.get_public_key()
        digest = G.rbytes(rng, 32) if rng.random() < 0.7 else bytes(2) + G.rbytes(rng, 30)
        for ht in ([rng.choice(TYPES)] if rng.random() < 0.8 else [0, rng.choice(TYPES[1:])]):
            for tweak in (1, 0):
                prog, odd = pub.to_taproot_hex(TT.scripts_py(s))
                pk = prog if tweak else pub.to_x_only_hex()
                nt = want_odd or odd or ht != 0 or (isinstance(s, tuple) and len(TT.leaves(s)) >= 2)
                ctx.count('keypath' if tweak else 'scriptpath'); ctx.count(f'ht-{ht:02x}')
                ctx.count('internal-odd' if want_odd else 'internal-even'); ctx.count('output-odd' if odd else 'output-even')
                def spec(ans, digest=digest, pk=pk, ht=ht):
                    if not ans.startswith('ok '): return ('s:echo sign-raised', 'ok 1')
                    sig = unhx(ans[3:])
                    okshape = (len(sig) == 64 if ht == 0 else (len(sig) == 65 and sig[-1] == ht))
                    if not okshape: return ('s:echo bad-length-or-hashtype-byte', 'ok 1')
                    return (f's:bip340_verify {hx(digest)} {pk} {hx(sig[:64])}', 'ok 1')
                # a sample also through the generated (translated, interpreted) _sign_taproot_input / calculate_tweak / merkle root
                gk = 'g' if rng.random() < (0.12 if not ctx.thorough else 0.02) else ''
                yield Case(f'tr_sign {hx(priv.to_bytes())} {hx(pub.to_bytes())} {TT.scripts_line(s)} {hx(digest)} {ht} {tweak}', gk + 'ms',
                           nontrivial=nt, tag='sign', spec=spec)
                if gk:
                    yield Case(f'tr_tweak {hx(pub.to_bytes())} {TT.scripts_line(s)}', 'g', nontrivial=True, tag='tweak-int')
    # all seven hash types on both paths, with one key
    priv = pool[True][0]; pub = priv.get_public_key()
    for ht in TYPES:
        for tweak in (1, 0):
            digest = G.rbytes(rng, 32)
            prog, odd = pub.to_taproot_hex(None)
            pk = prog if tweak else pub.to_x_only_hex()
            def spec(ans, digest=digest, pk=pk, ht=ht):
                if not ans.startswith('ok '): return ('s:echo sign-raised', 'ok 1')
                sig = unhx(ans[3:])
                if not (len(sig) == 64 if ht == 0 else (len(sig) == 65 and sig[-1] == ht)): return ('s:echo bad-length-or-hashtype-byte', 'ok 1')
                return (f's:bip340_verify {hx(digest)} {pk} {hx(sig[:64])}', 'ok 1')
            ctx.count(f'ht-{ht:02x}')
            yield Case(f'tr_sign {hx(priv.to_bytes())} {hx(pub.to_bytes())} N {hx(digest)} {ht} {tweak}', 'ms', nontrivial=True, tag='sign-all-types', spec=spec)
    # output keys whose x starts with a zero byte (searched over small secrets, no script tree)
    from bitcoinutils.keys import PrivateKey
    found = 0
    for d in range(2, 3000):
        if found >= ctx.n(2, 8): break
        k = PrivateKey(secret_exponent=d); pb = k.get_public_key()
        prog, odd = pb.to_taproot_hex(None)
        if _output_x(pb.to_bytes()[:32]).startswith('00'):
            found += 1; ctx.count('output-x-leading-zero')
            digest = G.rbytes(rng, 32)
            def spec(ans, digest=digest, prog=prog):
                if not ans.startswith('ok '): return ('s:echo sign-raised', 'ok 1')
                return (f's:bip340_verify {hx(digest)} {prog} {ans[3:131]}', 'ok 1')
            yield Case(f'tr_sign {hx(k.to_bytes())} {hx(pb.to_bytes())} N {hx(digest)} 0 1', 'ms', nontrivial=True, tag='sign-leading-zero-x', spec=spec)
            yield Case(f'tr_addr {hx(pb.to_bytes())} N', 'ms', nontrivial=True, tag='addr-leading-zero-x')
    # determinism: the same request twice (implementation against itself via the model's fixed answer)
    # full flow through sign_taproot_input on generated transactions
    for _ in range(ctx.n(16, 300)):
        tx = G.gen_tx(rng, names, kind='segwit', max_in=4, max_out=4, min_out=1, big=False)
        n = len(tx.inputs); i = rng.randrange(n)
        priv = priv_with_parity(rng, rng.random() < 0.5); pub = priv.get_public_key()
        tree = rng.choice(trees)
        script_path = rng.random() < 0.4
        leaf = rng.choice(TT.leaves(tree))
        spks = [['OP_1', G.rbytes(rng, 32).hex()] for _ in range(n)]
        amts = [rng.randrange(0, 21 * 10 ** 14) for _ in range(n)]
        ht = rng.choice(TYPES)
        if ht & 3 == 3 and i >= len(tx.outputs): ht = 1
        sp = ' '.join([str(n)] + [toks_str(s) for s in spks]) + ' ' + ' '.join([str(n)] + [str(x) for x in amts])
        prog, odd = pub.to_taproot_hex(TT.to_py(tree))
        pk = pub.to_x_only_hex() if script_path else prog
        line = f'{tx_to_line(tx)} {i} {sp} {1 if script_path else 0} {toks_str(leaf)} {ht}'
        def spec(ans, pk=pk, ht=ht, line=line):
            if not ans.startswith('ok '): return ('s:echo sign-raised', 'ok 1')
            sig = unhx(ans.split(' ')[1])
            return (f's:tr_verify_tx {line} {pk} {hx(sig[:64])}', 'ok 1')
        ctx.count('full-flow')
        yield Case(f'tr_sign_tx {hx(priv.to_bytes())} {TT.line(tree)} {line}', 's', nontrivial=True, tag='full', spec=spec)
        # a sample through the translated public method (digest of the transaction object, then the translated Schnorr signer; interpreted)
        if rng.random() < (0.2 if not ctx.thorough else 0.02):
            ctx.count('gen-wrapper')
            yield Case(f'pk_sign_tr {hx(priv.to_bytes())} {hx(pub.to_bytes())} {tx_to_line(tx)} {i} {sp} {1 if script_path else 0} '
                       f'{toks_str(leaf)} {"N" if script_path else TT.scripts_line(tree)} {ht} {0 if script_path else 1}', 'g', nontrivial=True,
                       tag='gen-wrapper')


def _output_x(px):
    """x of lift_x(px) + H_TapTweak(px)*G by libsecp256k1 (independent of the library under test)"""
    import coincurve, hashlib
    th = hashlib.sha256(b'TapTweak').digest()
    t = hashlib.sha256(th + th + px).digest()
    q = coincurve.PublicKey(b'\x02' + px).add(t)
    return q.format(compressed=True)[1:].hex()


KEYS = {}


KEYS = {}


def impl(op, a, ctx):
    if op == 'tr_tweak':
        from bitcoinutils.keys import PublicKey
        from bitcoinutils.utils import calculate_tweak
        F = Fields(a)
        pub = PublicKey('04' + F.bytes().hex()); s = TT.parse_scripts(F); F.done()
        return f'ok {calculate_tweak(pub, TT.scripts_py(s))}'
    if op in ('full_pubkey', 'negate', 'tweak_pub', 'tweak_priv'):
        from bitcoinutils import utils as U, schnorr as S
        F = Fields(a)
        k = F.bytes()
        if op == 'full_pubkey': return 'ok ' + hx(S.full_pubkey_gen(k))
        if op == 'negate': return 'ok ' + U.negate_privkey(k)
        t = F.int()
        if op == 'tweak_pub':
            q, odd = U.tweak_taproot_pubkey(k, t); return f'ok {hx(q)} {1 if odd else 0}'
        return 'ok ' + hx(U.tweak_taproot_privkey(k, t))
    from bitcoinutils.keys import PrivateKey
    from bitcoinutils.script import Script
    F = Fields(a)
    if op == 'tr_sign':
        kb = F.bytes(); F.bytes()
        priv = KEYS.setdefault(kb, PrivateKey(b=kb))         # one object per secret for the whole run
        s = TT.parse_scripts(F); digest = F.bytes(); ht = F.nat(); tweak = F.bool(); F.done()
        sig1 = priv._sign_taproot_input(digest, ht, TT.scripts_py(s), tweak)
        sig2 = priv._sign_taproot_input(digest, ht, TT.scripts_py(s), tweak)
        return 'ok ' + (sig1 if sig1 == sig2 else 'nondeterministic')
    if op == 'tr_addr':
        from bitcoinutils.keys import PublicKey
        pub = PublicKey('04' + F.bytes().hex()); s = TT.parse_scripts(F); F.done()
        prog, odd = pub.to_taproot_hex(TT.scripts_py(s))
        return f'ok {prog} {1 if odd else 0}'
    if op == 'pk_sign_tr':
        priv = PrivateKey(b=F.bytes()); F.bytes(); tx = line_to_tx(F); i = F.nat()
        spks = [Script(s) for s in F.list(F.toks)]; amts = F.list(F.int); sp = F.bool(); leaf = F.toks(); s_ = TT.parse_scripts(F)
        ht = F.nat(); tw = F.bool(); F.done()
        return 'ok ' + priv.sign_taproot_input(tx, i, spks, amts, script_path=sp, tapleaf_script=Script(leaf), tapleaf_scripts=TT.scripts_py(s_),
                                               sighash=ht, tweak=tw)
    if op == 'tr_sign_tx':
        priv = PrivateKey(b=F.bytes()); tree = TT.parse(F); tx = line_to_tx(F); i = F.nat()
        spks = [Script(s) for s in F.list(F.toks)]; amts = F.list(F.int); sp = F.bool(); leaf = F.toks(); ht = F.nat(); F.done()
        before = tx.to_hex()
        if sp:
            sig = priv.sign_taproot_input(tx, i, spks, amts, script_path=True, tapleaf_script=Script(leaf), sighash=ht, tweak=False)
        else:
            sig = priv.sign_taproot_input(tx, i, spks, amts, False, tapleaf_scripts=TT.to_py(tree), sighash=ht)
        assert tx.to_hex() == before
        return 'ok ' + sig
    raise ValueError(op)
