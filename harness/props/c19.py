"""C19 — HD wallet keys equal BIP32/BIP39 derivation on the configured network"""
import hashlib, hmac as hm
from harness.common import Case, hx, unhx, Fields, run_driver, MachineryFault
from harness import gen as G

KINDS = 'gms'
STATEFUL = True
RULE = ('random 12..24-word mnemonics and random extended private keys (xprv/tprv), paths of depth 0..8 with indices across 0..2^31-1 hardened and '
        'not, sequences of 1..5 path changes on one wallet object, networks mainnet/testnet/regtest: after construction and after every path change '
        'the key handed back by get_private_key is compared with the hand model of the wrapper over the parameter model of the third-party object, '
        'and with the Spec: BIP39 PBKDF2 seed (or the given extended key) -> BIP32 CKDpriv chain from the ROOT along the last path; the parameter '
        'model itself is validated by driving the real hdwallet object with and without clean_derivation. non-trivial: >= 2 path changes, or a '
        'hardened step, or a non-default network')
TRUSTED = ['third-party hdwallet library (BIP32/BIP39): modelled as {root, current}; its agreement with BIP32 on all seeds is evidence by correspondence only',
           'Lean SHA-512 / HMAC / PBKDF2 / secp256k1 executables, checked against hashlib / hmac / libsecp256k1 each run']
ASSUMPTIONS = ['hdwallet derives index by index from the current key and clean_derivation resets to the root (validated each run)']
NETS = ['mainnet', 'testnet', 'regtest']
H = 2 ** 31


def param_validation(ctx):
    rng = ctx.rng
    msgs = [G.rbytes(rng, n) for n in (0, 1, 111, 112, 127, 128, 129, 239, 240, 1000)]
    out = run_driver([f'sha512 {hx(m)}' for m in msgs] + [f'hmac512 {hx(m[:40] or b"k")} {hx(m)}' for m in msgs] +
                     ['pbkdf2 ' + hx(b'password') + ' ' + hx(b'salt') + ' 50'])
    for m, o in zip(msgs, out[:len(msgs)]):
        if o != 'ok ' + hashlib.sha512(m).hexdigest(): raise MachineryFault('Lean SHA-512 disagrees with hashlib')
    for m, o in zip(msgs, out[len(msgs):2 * len(msgs)]):
        if o != 'ok ' + hm.new(m[:40] or b'k', m, hashlib.sha512).hexdigest(): raise MachineryFault('Lean HMAC-SHA512 disagrees with hmac')
    if out[-1] != 'ok ' + hashlib.pbkdf2_hmac('sha512', b'password', b'salt', 50, 64).hex(): raise MachineryFault('Lean PBKDF2 disagrees with hashlib')
    return {'sha512/hmac/pbkdf2_vs_hashlib': 2 * len(msgs) + 1}


def rpath(rng):
    depth = rng.choice([0, 1, 2, 3, 5, 5, 8])
    idx = []
    for _ in range(depth):
        i = rng.choice([0, 1, 44, 84, 86, rng.randrange(0, H), H - 1])
        if rng.random() < 0.5: i += H
        idx.append(i)
    return idx


def pstr(idx):
    return 'm' + ''.join('/' + (f"{i - H}'" if i >= H else str(i)) for i in idx)


def pline(idx): return ' '.join([str(len(idx))] + [str(i) for i in idx])


def wif_pfx(net):
    from bitcoinutils.constants import NETWORK_WIF_PREFIXES
    return NETWORK_WIF_PREFIXES[net]


def cases(ctx):
    from hdwallet.mnemonics import BIP39Mnemonic
    from hdwallet.entropies import BIP39Entropy, BIP39_ENTROPY_STRENGTHS
    from hdwallet import HDWallet as ext
    from hdwallet.cryptocurrencies import Bitcoin
    from hdwallet.hds import BIP32HD
    rng = ctx.rng
    wno = 0
    for _ in range(ctx.n(14, 500)):
        net = rng.choice(NETS)
        wno += 1; name = f'w{wno}'
        if rng.random() < 0.6:
            strength = rng.choice([128, 160, 192, 224, 256])
            mn = BIP39Mnemonic.from_entropy(entropy=G.rbytes(rng, strength // 8).hex(), language='english')
            root = 'mn ' + hx(mn.encode())
            first = []
            yield Case(f'hd_new {name} {net} {root} 0', 'ms', nontrivial=net != 'testnet', tag='new-mn',
                       spec=lambda ans, root=root: (f's:bip32 {root} 0', ans))
        else:
            # a random extended private key of the right network, produced by the third-party library from random entropy
            w = ext(cryptocurrency=Bitcoin, network='mainnet' if net == 'mainnet' else 'testnet', hd=BIP32HD)
            w.from_entropy(BIP39Entropy(G.rbytes(rng, 16).hex()))
            pre = rpath(rng)[:2]
            from hdwallet.derivations import CustomDerivation
            w.from_derivation(CustomDerivation(pstr(pre)))
            x = w.xprivate_key()
            root = 'x ' + hx(x.encode())
            first = rpath(rng)
            yield Case(f'hd_new {name} {net} {root} {pline(first)}', 'ms', nontrivial=True, tag='new-x',
                       spec=lambda ans, root=root, first=first: (f's:bip32 {root} {pline(first)}', ans))
            # the translated wrapper (interpreted; an EC multiplication per normal step): construction, a few path changes, hand-over
            if (not ctx.thorough) or rng.random() < 0.05:
                ps = [[i for i in first if True] or [0]] + [rpath(rng)[:2] or [1] for _ in range(rng.choice([0, 1, 2]))]
                ctx.count('gen-wrapper')
                yield Case(f'hd_run {1 if net == "mainnet" else 0} {net}:{hx(wif_pfx(net))} {hx(x.encode())} ' +
                           ' '.join([str(len(ps))] + [pline(p_) for p_ in ps]), 'g', nontrivial=True, tag='gen-wrapper')
        nch = rng.choice([1, 2, 3, 5])
        prev = None
        for k in range(nch):
            p = rpath(rng)
            if prev is not None and prev and rng.random() < 0.5:
                r = rng.random()
                last = prev[-1]
                if r < 0.4:      # the previous path is a textual prefix of the new one, ending mid-index (m/0/1 -> m/0/12)
                    base = last - H if last >= H else last
                    ext_i = int(str(base) + str(rng.randrange(10)))
                    if ext_i < H: p = prev[:-1] + [ext_i + (H if rng.random() < 0.3 else 0)] + rpath(rng)[:1]
                elif r < 0.7:    # a genuine extension
                    p = prev + rpath(rng)[:2]
                else:            # back up the tree / a sibling
                    p = prev[:-1] + ([] if rng.random() < 0.5 else [rng.randrange(0, 100)])
            prev = p
            ctx.count('path-change'); ctx.count(f'depth-{len(p)}')
            yield Case(f'hd_path {name} {net} {pline(p)}', 'ms', nontrivial=nch >= 2 or any(i >= H for i in p) or net != 'testnet', tag='path',
                       spec=lambda ans, root=root, p=p: (f's:bip32 {root} {pline(p)}', ans))
            yield Case(f'hd_key {name} {net} {1 if net == "mainnet" else 0} {net}:{hx(wif_pfx(net))}', 'ms', nontrivial=True, tag='key',
                       spec=lambda ans, root=root, p=p: (f's:bip32 {root} {pline(p)}', ans))
    # keys with a telling first or last byte: a 32-byte secret that starts with the network's own WIF version byte (0x80 / 0xef), with
    # 0x00, or ends in 0x01 (the WIF compression marker) survives any amount of random sampling untested (1 in 128 keys).  Hardened
    # children of the master key need only HMAC-SHA512, so the harness searches m/i' for them directly.
    NN = 0xFFFFFFFFFFFFFFFFFFFFFFFFFFFFFFFEBAAEDCE6AF48A03BBFD25E8CD0364141
    for _ in range(ctx.n(2, 40)):
        mn = BIP39Mnemonic.from_entropy(entropy=G.rbytes(rng, 16).hex(), language='english')
        seed = hashlib.pbkdf2_hmac('sha512', mn.encode(), b'mnemonic', 2048, 64)
        I = hm.new(b'Bitcoin seed', seed, hashlib.sha512).digest()
        k, c = int.from_bytes(I[:32], 'big'), I[32:]
        hits = {}
        for i in range(H, H + ctx.n(1500, 6000)):
            J = hm.new(c, b'\x00' + k.to_bytes(32, 'big') + i.to_bytes(4, 'big'), hashlib.sha512).digest()
            ck = ((int.from_bytes(J[:32], 'big') + k) % NN).to_bytes(32, 'big')
            cls = ('first-80' if ck[0] == 0x80 else 'first-ef' if ck[0] == 0xef else 'first-00' if ck[0] == 0 else
                   'last-01' if ck[-1] == 1 else 'first-6f-c4' if ck[0] in (0x6f, 0xc4, 0x05) else None)
            if cls and len(hits.setdefault(cls, [])) < 2: hits[cls].append(i)
        root = 'mn ' + hx(mn.encode())
        for net in NETS:
            wno += 1; name = f'w{wno}'
            yield Case(f'hd_new {name} {net} {root} 0', 'ms', nontrivial=True, tag='new-mn', spec=lambda ans, root=root: (f's:bip32 {root} 0', ans))
            for cls, idxs in sorted(hits.items()):
                for i in idxs:
                    ctx.count('key-byte-' + cls)
                    yield Case(f'hd_path {name} {net} 1 {i}', 'ms', nontrivial=True, tag='path-' + cls,
                               spec=lambda ans, root=root, i=i: (f's:bip32 {root} 1 {i}', ans))
                    yield Case(f'hd_key {name} {net} {1 if net == "mainnet" else 0} {net}:{hx(wif_pfx(net))}', 'ms', nontrivial=True, tag='key-' + cls,
                               spec=lambda ans, root=root, i=i: (f's:bip32 {root} 1 {i}', ans))
    # the parameter model of the third-party object: with and without clean_derivation
    for _ in range(ctx.n(8, 200)):
        mn = BIP39Mnemonic.from_entropy(entropy=G.rbytes(rng, 16).hex(), language='english')
        steps = []
        for _ in range(rng.randrange(1, 4)):
            if rng.random() < 0.35: steps.append(None)
            steps.append(rpath(rng)[:3])
        line = ' '.join([str(len(steps))] + ['clean' if s is None else 'p ' + pline(s) for s in steps])
        ctx.count('ext-model')
        yield Case(f'hd_ext mn {hx(mn.encode())} {line}', 'm', nontrivial=True, tag='ext', domain=False)


WALLETS = {}


def parse_path(F): return F.list(F.nat)


def impl(op, a, ctx):
    from bitcoinutils.setup import setup
    from bitcoinutils.hdwallet import HDWallet
    F = Fields(a)
    if op == 'hd_new':
        name = F.next(); net = F.next(); setup(net)
        kind = F.next(); src = F.bytes().decode(); path = parse_path(F)
        if kind == 'mn':
            w = HDWallet(mnemonic=src)
        else:
            w = HDWallet(xprivate_key=src, path=pstr(path))
        WALLETS[name] = (w, net)
        return 'ok ' + hx(w.get_private_key().to_bytes())
    if op == 'hd_run':
        mainnet = F.bool(); net = F.next().split(':')[0]; setup(net); x = F.bytes().decode()
        ps = [parse_path(F) for _ in range(F.nat())]
        w = HDWallet(xprivate_key=x, path=pstr(ps[0]))
        for p_ in ps[1:]: w.from_path(pstr(p_))
        return 'ok ' + hx(w.get_private_key().to_bytes())
    if op == 'hd_path':
        name = F.next(); net = F.next(); setup(net); path = parse_path(F)
        w, _ = WALLETS[name]
        w.from_path(pstr(path))
        return 'ok ' + hx(w.get_private_key().to_bytes())
    if op == 'hd_key':
        name = F.next(); net = F.next(); setup(net)
        w, _ = WALLETS[name]
        return 'ok ' + hx(w.get_private_key().to_bytes())
    if op == 'hd_ext':
        from hdwallet import HDWallet as ext
        from hdwallet.cryptocurrencies import Bitcoin
        from hdwallet.hds import BIP32HD
        from hdwallet.mnemonics import BIP39Mnemonic
        from hdwallet.derivations import CustomDerivation
        F.next(); mn = F.bytes().decode()
        w = ext(cryptocurrency=Bitcoin, network='mainnet', hd=BIP32HD)
        w.from_mnemonic(mnemonic=BIP39Mnemonic(mnemonic=mn))
        for _ in range(F.nat()):
            k = F.next()
            if k == 'clean': w.clean_derivation()
            else: w.from_derivation(CustomDerivation(pstr(parse_path(F))))
        return 'ok ' + w.private_key()
    raise ValueError(op)
