"""C06 — ECDSA input signatures: strict DER, low-S, low-R, valid, deterministic"""
import hashlib
from harness.common import Case, hx, unhx, Fields, tx_to_line, line_to_tx, toks_str
from harness import gen as G
from harness.props.c08 import param_validation  # noqa: curve arithmetic vs libsecp256k1

KINDS = 'gms'
RULE = ('(a) the normalisation step alone with a stub in place of python-ecdsa that returns chosen (r, s) per attempt: every class — s just '
        'below/above n/2, s with high bit set, n-s with 1..3 leading zero bytes, short r, high r forcing 1..3 grinding attempts — and random pairs; '
        '(b) real signing: sign_input / sign_segwit_input on generated transactions, keys across [1,n-1], six hash types, with a recording proxy '
        'around the real SigningKey whose per-attempt DER outputs are replayed through the model; the Spec predicate (strict DER, low S, low R, '
        'hash-type byte, valid under d*G for the library digest) is evaluated on every implementation signature; each call is repeated and '
        're-made after unrelated operations for determinism. non-trivial: s > n/2, or a byte length of r, s or n-s below 32, or >= 1 grinding retry')
TRUSTED = ['python-ecdsa (RFC6979 signing, sigencode_der/sigdecode_der) is a parameter: its per-attempt output is fed to the model; DER codec assumed = Spec.derEncode/derDecode, checked by correspondence',
           'BU/Crypto/Secp256k1.lean checked against libsecp256k1 each run']
ASSUMPTIONS = ['CurveLaws (hypothesis of lowS_preserves_validity)']
N = 0xFFFFFFFFFFFFFFFFFFFFFFFFFFFFFFFEBAAEDCE6AF48A03BBFD25E8CD0364141
TYPES = [1, 2, 3, 0x81, 0x82, 0x83]


def der(r, s):
    from ecdsa.util import sigencode_der
    return sigencode_der(r, s, N)


def classes(rng):
    half = N // 2
    out = []
    for s in (1, 2, half - 1, half, half + 1, half + 2, N - 1, N - 2, 2 ** 255 - 1, 2 ** 255, 2 ** 255 + 1, 2 ** 254, 2 ** 248, 2 ** 247, 255, 256):
        out.append(('s-edge', rng.randrange(1, 2 ** 255), s))
    for z in (1, 2, 3):   # n - s with z leading zero bytes
        t = rng.randrange(2 ** (8 * (32 - z) - 9), 2 ** (8 * (32 - z) - 1))
        out.append((f'n-s-short{z}', rng.randrange(1, 2 ** 255), N - t))
        out.append((f's-short{z}', rng.randrange(1, 2 ** 255), t))
    for z in (1, 2, 5):
        out.append((f'r-short{z}', rng.randrange(1, 2 ** (8 * (32 - z) - 1)), rng.randrange(1, N)))
    out.append(('r-top', 2 ** 255 - 1, rng.randrange(1, N)))
    return out


def cases(ctx):
    rng = ctx.rng
    names = G.op_names()
    # (a) normaliser + grinder with chosen signatures
    pairs = classes(rng) + [('random', rng.randrange(1, 2 ** 255), rng.randrange(1, N)) for _ in range(ctx.n(1500, 60000))]
    for kind, r, s in pairs:
        ht = rng.choice(TYPES)
        k = rng.choice([0, 0, 0, 0, 1, 2, 3, 7, 8, 9, 10, 15, 16, 17, 31, 32, 33, 64] + [v for v in G.source_literals() if v <= 70])      # number of high-R attempts before the good one
        atts = [der(rng.randrange(2 ** 255, N), rng.randrange(1, N)) for _ in range(k)] + [der(r, s)]
        nt = s > N // 2 or k > 0 or min(r.bit_length(), s.bit_length(), (N - s).bit_length()) <= 248
        ctx.count('norm-' + kind.split('-')[0]); ctx.count('norm-retries-' + (str(k) if k < 4 else '4..8' if k <= 8 else '9..64'))
        def spec(ans, r=r, s=s, ht=ht, k=k):
            if not ans.startswith('ok '): return ('s:echo normaliser-raised', 'ok 1')
            sig, used = ans[3:].split(' ')
            low = s if s <= N // 2 else N - s
            exp = der(r, low) + bytes([ht])      # python-ecdsa's own encoder on the low-S pair …
            return (f's:der_roundtrip {r.to_bytes(32, "big").hex()} {low.to_bytes(32, "big").hex()}', 'ok ' + sig[:-2]) \
                if (sig == exp.hex() and int(used) == k) else ('s:echo wrong-normalisation', 'ok 1')
        yield Case('der_norm ' + ' '.join([str(len(atts))] + [hx(a) for a in atts]) + f' {ht}', 'ms', nontrivial=nt, tag='norm-' + kind, spec=spec)
        # the same through the generated (translated) _sign_input, python-ecdsa replaced by the logged attempts and the Spec DER codec
        yield Case('sign_norm ' + ' '.join([str(len(atts))] + [hx(a) for a in atts]) + f' {ht}', 'g', nontrivial=nt, tag='gen-norm-' + kind)
    # (b) real signing
    from bitcoinutils.keys import PrivateKey
    from bitcoinutils.script import Script
    keys = [1, 2, N - 1, N - 2, 424242] + [rng.randrange(1, N) for _ in range(ctx.n(12, 400))]
    for d in keys:
        for _ in range(ctx.n(3, 12)):
            tx = G.gen_tx(rng, names, kind=rng.choice(['legacy', 'segwit']), max_in=3, max_out=3, min_out=1, big=False)
            i = rng.randrange(len(tx.inputs))
            code = ['OP_DUP', 'OP_HASH160', G.rbytes(rng, 20).hex(), 'OP_EQUALVERIFY', 'OP_CHECKSIG']
            ht = rng.choice(TYPES)
            if ht & 0x1f == 3 and i >= len(tx.outputs): ht = 1
            segwit = rng.random() < 0.5
            amt = rng.randrange(0, 21 * 10 ** 14)
            ctx.count('sign-segwit' if segwit else 'sign-legacy')
            yield Case(f'sign {d} {1 if segwit else 0} {tx_to_line(tx)} {i} {toks_str(code)} {amt} {ht}', 's', nontrivial=True, tag='sign',
                       spec=sign_spec)
            # the translated public methods (sign_input / sign_segwit_input: digest of the transaction object, then the grinding signer) against
            # the implementation, python-ecdsa replaced on both sides by a signer that answers with the logged attempts for the expected digest only
            if rng.random() < 0.5:
                try:
                    k = PrivateKey(secret_exponent=d); pr = Proxy(k.key); k.key = pr
                    if segwit: k.sign_segwit_input(tx, i, Script(code), amt, ht)
                    else: k.sign_input(tx, i, Script(code), ht)
                except Exception:
                    pr = None
                if pr is not None and pr.log and pr.digests:
                    ctx.count('gen-wrapper')
                    want = pr.digests[0]
                    for dg in (want, bytes([want[0] ^ 1]) + want[1:]):         # … and for a digest the signer was not asked about
                        yield Case(f'pk_sign {1 if segwit else 0} {tx_to_line(tx)} {i} {toks_str(code)} {amt} {ht} {hx(dg)} ' +
                                   ' '.join([str(len(pr.log))] + [hx(x) for x in pr.log]), 'g', nontrivial=True,
                                   tag='gen-wrapper' if dg == want else 'gen-wrapper-other-digest', domain=dg == want)


def refuse_cases(ctx):
    rng = ctx.rng; names = G.op_names()
    for _ in range(ctx.n(6, 100)):
        tx = G.gen_tx(rng, names, kind='legacy', max_in=3, max_out=1, min_out=0, big=False)
        while len(tx.inputs) < 2 or len(tx.outputs) > 1:
            tx = G.gen_tx(rng, names, kind='legacy', max_in=3, max_out=1, min_out=0, big=False)
        i = len(tx.inputs) - 1
        code = ['OP_DUP', 'OP_HASH160', G.rbytes(rng, 20).hex(), 'OP_EQUALVERIFY', 'OP_CHECKSIG']
        for ht in (3, 0x83):
            ctx.count('single-out-of-range')
            yield Case(f'sign {rng.randrange(1, N)} 0 {tx_to_line(tx)} {i} {toks_str(code)} 0 {ht}', 's', nontrivial=True, tag='sign-refuse',
                       spec=lambda ans: ('s:raw err', ans))
    # several keys sign the same digest one after the other through short-lived objects
    for _ in range(ctx.n(4, 100)):
        tx = G.gen_tx(rng, names, kind='legacy', max_in=2, max_out=2, min_out=1, big=False)
        code = ['OP_2', G.rbytes(rng, 33).hex(), G.rbytes(rng, 33).hex(), G.rbytes(rng, 33).hex(), 'OP_3', 'OP_CHECKMULTISIG']
        ht = rng.choice(TYPES[:2])
        for d in [rng.randrange(1, N) for _ in range(4)]:
            ctx.count('same-digest-many-keys')
            yield Case(f'sign {d} 0 {tx_to_line(tx)} 0 {toks_str(code)} 0 {ht}', 's', nontrivial=True, tag='sign-cosigners', spec=sign_spec)


def sign_spec(ans):
    # the implementation returned: final sig, pub, digest, ht, and the per-attempt log; the model must reproduce the
    # final bytes from the log, and the Spec predicate must hold on the final bytes
    if not ans.startswith('ok '): return ('s:echo sign-raised', 'ok 1')
    f = ans.split(' ')
    if len(f) < 5: return ('s:raw ' + '-'.join(f[1:]), 'ok 1')       # a marker instead of a signature: disagreement
    sig, pub, digest, ht = f[1], f[2], f[3], f[4]
    return (f's:sig_check {pub} {digest} {sig} {ht}', 'ok 1')


_cases0 = cases


def cases(ctx):  # noqa: F811
    yield from _cases0(ctx)
    yield from refuse_cases(ctx)


class Proxy:
    """records what python-ecdsa returns for every attempt"""
    def __init__(self, key): self.key = key; self.log = []; self.digests = []
    def sign_digest_deterministic(self, *a, **kw):
        r = self.key.sign_digest_deterministic(*a, **kw); self.log.append(r); self.digests.append(a[0] if a else kw.get('digest')); return r
    def __getattr__(self, n): return getattr(self.key, n)


class DStub:
    """answers with the logged attempts when handed the expected digest, with nothing otherwise"""
    def __init__(self, want, atts): self.want = want; self.atts = list(atts)
    def sign_digest_deterministic(self, digest, extra_entropy=b'', **kw):
        if digest != self.want: return b''
        k = int.from_bytes(extra_entropy, 'big') if extra_entropy else 0
        return self.atts[k] if k < len(self.atts) else b''


class Stub:
    def __init__(self, atts): self.atts = list(atts); self.i = 0
    def sign_digest_deterministic(self, digest, extra_entropy=b'', **kw):
        expect = b'' if self.i == 0 else self.i.to_bytes(32, 'big')
        assert extra_entropy == expect, 'unexpected extra_entropy sequence'
        r = self.atts[self.i]; self.i += 1; return r


def impl(op, a, ctx):
    from bitcoinutils.keys import PrivateKey
    from bitcoinutils.script import Script
    F = Fields(a)
    if op == 'sign_norm':
        atts = F.list(F.bytes); ht = F.nat(); F.done()
        k = PrivateKey(secret_exponent=1)
        k.key = Stub(atts)
        return 'ok ' + k._sign_input(bytes(32), ht)
    if op == 'pk_sign':
        segwit = F.bool(); tx = line_to_tx(F); i = F.nat(); code = Script(F.toks()); amt = F.int(); ht = F.nat(); want = F.bytes()
        atts = F.list(F.bytes); F.done()
        k = PrivateKey(secret_exponent=1); k.key = DStub(want, atts)
        return 'ok ' + (k.sign_segwit_input(tx, i, code, amt, ht) if segwit else k.sign_input(tx, i, code, ht))
    if op == 'der_norm':
        atts = F.list(F.bytes); ht = F.nat(); F.done()
        k = PrivateKey(secret_exponent=1)
        st = Stub(atts); k.key = st
        sig = k._sign_input(bytes(32), ht)
        return f'ok {sig} {st.i - 1}'
    if op == 'sign':
        d = F.int(); segwit = F.bool(); tx = line_to_tx(F); i = F.nat(); code = Script(F.toks()); amt = F.int(); ht = F.nat(); F.done()
        k = PrivateKey(secret_exponent=d)
        pub = k.get_public_key().to_bytes()
        before = tx.to_hex()
        pr = Proxy(k.key); k.key = pr
        if segwit:
            sig = k.sign_segwit_input(tx, i, code, amt, ht); digest = tx.get_transaction_segwit_digest(i, code, amt, ht)
        else:
            sig = k.sign_input(tx, i, code, ht)
            try: digest = tx.get_transaction_digest(i, code, ht)
            except ValueError: return 'ok signed-although-the-digest-is-refused'  
        log = list(pr.log)
        if not log: return 'ok signature-returned-without-calling-the-signer'

        # determinism: again, and with a fresh key object after unrelated work
        k2 = PrivateKey(secret_exponent=d); k2.sign_input(tx, 0, Script(['OP_1']), 1)
        sig2 = k2.sign_segwit_input(tx, i, code, amt, ht) if segwit else k2.sign_input(tx, i, code, ht)
        if sig2 != sig or tx.to_hex() != before: return 'ok nondeterministic-or-mutating'
        # replay the log through the hand model
        from harness.common import run_driver
        m = run_driver(['m:der_norm ' + ' '.join([str(len(log))] + [hx(x) for x in log]) + f' {ht}'], parallel=False)[0]
        if m != f'ok {sig} {len(log) - 1}': return f'ok model-replay-differs {m}'
        return f'ok {sig} {pub.hex()} {digest.hex()} {ht} {len(log)}'
    raise ValueError(op)
