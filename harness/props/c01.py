"""C01 — transaction wire format"""
from harness.common import Case, hx, unhx, tx_to_line, line_to_tx, Fields
from harness import gen as G, fixtures as FX

KINDS = 'gms'
RULE = ('transactions built through the object API: 1..40 inputs/outputs plus counts 252/253/300, legacy / segwit / mixed / '
        'coinbase, random versions, locktimes, sequences, indices incl. 0 and 2^32-1, amounts incl. 0 and 2^63-1, scripts from '
        "C02's generator, witness stacks of 0..300 items of 0..70000 bytes with empty stacks forced next to non-empty ones; "
        'each is serialised (both flags), parsed, re-serialised and its ids computed on implementation, hand model and Spec; '
        'fixture transactions of the three mainnet blocks (quick: a fixed sample incl. those with empty witness stacks / PUSHDATA; '
        'thorough: all 4347) are parsed and re-serialised and their txid/wtxid compared with the independently sliced bytes. '
        'non-trivial: >= 2 inputs, or a witness, or a push > 75 bytes, or a count >= 253')
TRUSTED = ['SHA-256 is a parameter of the theorems; the driver instantiates it with BU/Crypto/Sha256.lean, checked against hashlib']
ASSUMPTIONS = ['byte strings and counts below 2^32 (WFTx)']


def tx_cases(ctx, tx, tag):
    line = tx_to_line(tx)
    nt = G.is_nontrivial_tx(tx)
    for seg in (0, 1):
        # serialisation also through the generated (translated) Transaction.to_bytes, interpreted: requests below 20000 characters
        yield Case(f'tx_ser {line} {seg}', 'gms' if len(line) < 20000 else 'ms', nontrivial=nt, tag=tag)
    yield Case(f'tx_ids {line}', 'gms' if len(line) < 20000 else 'ms', nontrivial=nt, tag=tag)
    try:
        raw = tx.to_bytes(tx.has_segwit)
    except Exception:
        return
    # parsing also through the generated (translated) Transaction.from_raw / TxInput.from_raw / TxOutput.from_raw, interpreted
    yield Case(f'tx_parse {hx(raw)}', 'gm' if len(raw) < 10000 else 'm', nontrivial=nt, tag=tag + '-parse')
    yield Case(f'tx_reser {hx(raw)}', 'ms', nontrivial=nt, tag=tag + '-reser',
               spec=lambda ans, raw=raw: (f's:echo {hx(raw)}', ans))


def param_validation(ctx):
    import hashlib
    from harness.common import run_driver
    rng = ctx.rng
    msgs = [G.rbytes(rng, n) for n in (0, 1, 55, 56, 63, 64, 65, 119, 120, 127, 128, 1000, 70000)] + \
           [G.rbytes(rng, rng.randrange(0, 300)) for _ in range(50)]
    out = run_driver([f'sha256 {hx(m)}' for m in msgs])
    bad = [m for m, o in zip(msgs, out) if o != 'ok ' + hashlib.sha256(m).hexdigest()]
    if bad:
        from harness.common import MachineryFault
        raise MachineryFault('Lean SHA-256 disagrees with hashlib on a %d-byte message' % len(bad[0]))
    return {'sha256_vs_hashlib': len(msgs)}


def cases(ctx):
    from bitcoinutils.transactions import Transaction, TxInput, TxOutput, TxWitnessInput
    from bitcoinutils.script import Script
    rng = ctx.rng
    names = G.op_names()
    for k in range(ctx.n(220, 8000)):
        big = rng.random() < 0.08
        mx = rng.choice([3, 3, 8, 8, 40])
        tx = G.gen_tx(rng, names, max_in=mx, max_out=mx, big=big)
        ctx.count('gen-' + ('segwit' if tx.has_segwit else 'legacy'))
        ctx.count('gen-emptystack', sum(1 for w in tx.witnesses if not w.stack))
        yield from tx_cases(ctx, tx, 'gen')
    # CompactSize-boundary counts
    for n in ([252, 253, 300] if ctx.scale <= 1 else [252, 253, 254, 300]):
        for what in ('in', 'out', 'wit'):
            ins = [TxInput(G.rbytes(rng, 32).hex(), i) for i in range(n if what == 'in' else 2)]
            outs = [TxOutput(i, Script(['OP_1'])) for i in range(n if what == 'out' else 1)]
            wits = [TxWitnessInput([]) for _ in ins]
            if what == 'wit':
                wits[0] = TxWitnessInput(['aa'] * n)
            tx = Transaction(ins, outs, has_segwit=True, witnesses=wits)
            ctx.count('count-boundary')
            yield from tx_cases(ctx, tx, f'count-{what}-{n}')
    # the same object after it has been used and then changed through its public attributes (stale caches, leaked state)
    for _ in range(ctx.n(60, 3000)):
        tx = G.gen_tx(rng, names, max_in=4, max_out=4, big=False)
        muts = G.random_mutations(rng, tx, names)
        line0 = tx_to_line(tx)
        G.apply_mutations(tx, muts)
        line1 = tx_to_line(tx)
        ctx.count('after-mutation')
        yield Case(f'tx_ids_after {line0} {G.muts_line(muts)}', 'ms', nontrivial=True, tag='after-mutation',
                   model=lambda ans, line1=line1: (f'm:tx_ids {line1}', ans), spec=lambda ans, line1=line1: (f's:tx_ids {line1}', ans))
    for _ in range(ctx.n(40, 1500)):
        tx = G.gen_tx(rng, names, max_in=3, max_out=3, big=False)
        if len(tx.outputs) >= 2 and rng.random() < 0.5:
            tx.outputs[1] = TxOutput(tx.outputs[1].amount, Script(list(tx.outputs[0].script_pubkey.script)))    # two identical scripts
        try: raw = tx.to_bytes(tx.has_segwit)
        except Exception: continue
        ctx.count('parse-mutate-parse')
        yield Case(f'tx_reser_after {hx(raw)}', 'ms', nontrivial=True, tag='parse-mutate-parse',
                   model=lambda ans, raw=raw: (f'm:tx_reser {hx(raw)}', ans), spec=lambda ans, raw=raw: (f's:echo {hx(raw)}', ans))
    # no outputs at all / segwit flag with every stack empty
    yield from tx_cases(ctx, Transaction([TxInput('aa' * 32, 1)], []), 'no-outputs')
    yield from tx_cases(ctx, Transaction([TxInput('aa' * 32, 1)], [TxOutput(5, Script([]))], has_segwit=True,
                                         witnesses=[TxWitnessInput([])]), 'empty-stacks')
    # malformed stream (ok/err only): truncations and garbage
    base = Transaction([TxInput('aa' * 32, 1, Script(['OP_1']))], [TxOutput(5, Script(['OP_DUP']))]).to_bytes(False)
    for cut in range(0, len(base)):
        yield Case(f'tx_parse {hx(base[:cut])}', 'gm' if cut < 10000 else 'm', nontrivial=True, tag='truncated', domain=False)
    for _ in range(ctx.n(100, 3000)):
        yield Case(f'tx_parse {hx(G.rbytes(rng, rng.randrange(0, 120)))}', 'gm', nontrivial=True, tag='garbage', domain=False)
    # fixtures
    allfx = list(FX.all_txs())
    if ctx.thorough:
        pick = allfx
    else:
        special = [x for x in allfx if x[2]['seg'] and any(len(w) == 0 for w in x[2]['wits'])][:12]
        special += [x for x in allfx if any(b in (0x4c, 0x4d) for i in x[2]['ins'] for b in i['script'][:1])][:12]
        pick = special + [allfx[i] for i in sorted(rng.sample(range(len(allfx)), ctx.n(120)))]
    for name, i, t in pick:
        raw = t['raw']
        ctx.count('fixture-' + name)
        yield Case(f'tx_reser {hx(raw)}', 'ms', nontrivial=True, tag=f'fixture-{name}-{i}',
                   spec=lambda ans, raw=raw: (f's:echo {hx(raw)}', ans))
        yield Case(f'tx_parse {hx(raw)}', 'gm' if len(raw) < 10000 else 'm', nontrivial=True, tag=f'fixture-{name}-{i}')
        yield Case(f'fx_ids {hx(raw)}', 's', nontrivial=True, tag=f'fixture-{name}-{i}',
                   spec=lambda ans, t=t: (f's:echo {hx(t["txid"])} {hx(t["wtxid"])}', ans))


def impl(op, a, ctx):
    from bitcoinutils.transactions import Transaction
    F = Fields(a)
    if op == 'tx_ser':
        tx = line_to_tx(F); seg = F.bool(); F.done()
        return 'ok ' + hx(tx.to_bytes(seg))
    if op == 'tx_ids':
        tx = line_to_tx(F); F.done()
        return f'ok {tx.get_txid()} {tx.get_wtxid()}'
    if op == 'tx_ids_after':
        tx = line_to_tx(F); muts = G.parse_muts(F); F.done()
        G.exercise(tx); G.apply_mutations(tx, muts)
        return f'ok {tx.get_txid()} {tx.get_wtxid()}'
    if op == 'tx_reser_after':
        h = F.bytes().hex()
        t1 = Transaction.from_raw(h)
        for i in t1.inputs: i.script_sig.script.append('OP_1')
        for o in t1.outputs: o.script_pubkey.script.insert(0, 'OP_DROP')
        for w in t1.witnesses: w.stack.append('aa')
        t1.to_hex()
        return 'ok ' + Transaction.from_raw(h).to_hex()
    if op == 'tx_parse':
        return 'ok ' + tx_to_line(Transaction.from_raw(F.bytes().hex()))
    if op == 'tx_reser':
        return 'ok ' + Transaction.from_raw(F.bytes().hex()).to_hex()
    if op == 'fx_ids':
        tx = Transaction.from_raw(F.bytes().hex())
        return f'ok {tx.get_txid()} {tx.get_wtxid()}'
    raise ValueError(op)
