"""C13 — digests and signing are pure and order-independent; copies share no state"""
import itertools
from harness.common import Case, hx, unhx, Fields, tx_to_line, line_to_tx, toks_str, tok_str, parse_tok
from harness import gen as G

KINDS = 'ms'
STATEFUL = True
RULE = ('(1) object histories on a pool of named transactions: construct (incl. inputs built with the defaulted script_sig), Transaction / '
        'TxInput / TxOutput / TxWitnessInput / Script copy helpers, in-place mutation of every reachable list, attribute rebinding, explicit '
        'aliasing by the caller, and the three digest functions; after EVERY operation implementation (Python id()) and heap model (references) '
        'print all serialisations and the sharing partition of attribute paths; the Spec check per step: a mutation changes only the mutated '
        'transaction (and those the caller aliased to it), digests change nothing and agree when repeated. (2) order independence: every '
        'permutation (<= 4 inputs; random ones up to 8) of sign-and-attach operations over mixed legacy / segwit-v0 / taproot inputs and all hash '
        'types gives the same final bytes. non-trivial: history with >= 1 copy and >= 1 mutation, or >= 2 signs in non-index order')
TRUSTED = ['Python object identity modelled by heap indices; id() of live objects is injective']
ASSUMPTIONS = ['signers are deterministic functions of (key, digest) — RFC6979 / hashed aux, observed by repetition']
N = 0xFFFFFFFFFFFFFFFFFFFFFFFFFFFFFFFEBAAEDCE6AF48A03BBFD25E8CD0364141

POOL = {}
SHARED = {}      # tx name -> set of names it was explicitly aliased with


ALIASED = set()  # transactions some of whose sub-objects were aliased on purpose (h_share / h_copy* of elements)


def reset():
    POOL.clear(); SHARED.clear(); ALIASED.clear()


def dump():
    names = sorted(POOL)
    sers = []
    for n in names:
        t = POOL[n]
        try:
            ser = t.to_bytes(t.has_segwit)
            # the id is a function of the present state of the object, not of what it was when first asked
            import hashlib
            if t.get_txid() != hashlib.sha256(hashlib.sha256(t.to_bytes(False)).digest()).digest()[::-1].hex():
                sers.append(f'{n}=txid-does-not-match-current-bytes')
            else:
                sers.append(f'{n}={hx(ser)}')
        except Exception: sers.append(f'{n}=err')
    paths = []
    for n in names:
        t = POOL[n]
        paths += [(f'{n}.ins', t.inputs), (f'{n}.outs', t.outputs), (f'{n}.wits', t.witnesses)]
        for i, x in enumerate(t.inputs):
            paths += [(f'{n}.in[{i}]', x), (f'{n}.in[{i}].ss', x.script_sig), (f'{n}.in[{i}].ss.l', x.script_sig.script)]
        for i, x in enumerate(t.outputs):
            paths += [(f'{n}.out[{i}]', x), (f'{n}.out[{i}].spk', x.script_pubkey), (f'{n}.out[{i}].spk.l', x.script_pubkey.script)]
        for i, x in enumerate(t.witnesses):
            paths += [(f'{n}.wit[{i}]', x), (f'{n}.wit[{i}].l', x.stack)]
    by = {}
    for p, o in paths: by.setdefault(id(o), []).append(p)
    classes = sorted('+'.join(sorted(v)) for v in by.values() if len(v) >= 2)
    return ' '.join(sers) + ' | ' + ','.join(classes)


COMPONENTS = {}      # tx name -> component serialisations after the last operation (side channel for the spec closures)


def components():
    """per transaction: the serialisation of every input, output and witness stack separately"""
    out = {}
    for n, t in POOL.items():
        comp = []
        for grp, xs in (('in', t.inputs), ('out', t.outputs), ('wit', t.witnesses)):
            for i, x in enumerate(xs):
                try: comp.append((f'{grp}[{i}]', bytes(x.to_bytes())))
                except Exception: comp.append((f'{grp}[{i}]', b'err'))
        out[n] = comp
    return out


def sers_of(d):
    return dict(x.split('=') for x in d.split(' | ')[0].split(' ') if '=' in x)


def parse_tx(rng, names):
    """a transaction whose serialisation parses back to the same shape (legacy, or segwit with one stack per input);
    repeated scripts inside it on purpose"""
    from bitcoinutils.transactions import Transaction, TxWitnessInput, TxOutput
    from bitcoinutils.script import Script
    seg = rng.random() < 0.5
    t = G.gen_tx(rng, names, kind='segwit' if seg else 'legacy', max_in=3, max_out=3, min_out=2, big=False)
    t.outputs[1] = TxOutput(t.outputs[1].amount, Script(list(t.outputs[0].script_pubkey.script)))     # two outputs, one script
    if rng.random() < 0.5:
        for x in t.inputs: x.script_sig = Script([])                                                      # unsigned
    if seg:
        t.has_segwit = True
        t.witnesses = [TxWitnessInput([G.rbytes(rng, rng.randrange(1, 40)).hex() for _ in range(rng.randrange(0, 3))]) for _ in t.inputs]
    else:
        t.has_segwit = False; t.witnesses = []
    try:
        raw = t.to_hex(); u = Transaction.from_raw(raw)
        if u.to_hex() != raw or len(u.witnesses) != len(t.witnesses) or u.has_segwit != t.has_segwit: return None
        if tx_to_line(u) != tx_to_line(t): return None
    except Exception:
        return None
    return t


def history(ctx, rng, names_ops):
    """yields (line, kind, target) for one random history"""
    names = G.op_names()
    live = []
    def fresh():
        n = 't%d' % len(live); live.append(n); return n
    n0 = fresh()
    tx = G.gen_tx(rng, names, kind=rng.choice(['legacy', 'segwit', 'mixed']), max_in=4, max_out=3, min_out=1, big=False)
    defaults = [i for i in range(len(tx.inputs)) if rng.random() < 0.4]
    yield (f'h_newtx {n0} {tx_to_line(tx)} ' + ' '.join([str(len(defaults))] + [str(i) for i in defaults]), 'new', n0)
    shape = {n0: (len(tx.inputs), len(tx.outputs), len(tx.witnesses))}
    for _ in range(rng.randrange(6, 22)):
        a = rng.choice(live); ni, no, nw = shape[a]
        r = rng.random()
        if r < 0.15 and len(live) < 5:
            b = fresh(); shape[b] = shape[a]
            yield (f'h_copytx {a} {b}', 'copy', b)
        elif r < 0.22 and len(live) < 5:
            b = fresh()
            t2 = G.gen_tx(rng, names, kind='segwit', max_in=3, max_out=2, min_out=1, big=False)
            dfl = [i for i in range(len(t2.inputs)) if rng.random() < 0.6]
            shape[b] = (len(t2.inputs), len(t2.outputs), len(t2.witnesses))
            yield (f'h_newtx {b} {tx_to_line(t2)} ' + ' '.join([str(len(dfl))] + [str(i) for i in dfl]), 'new', b)
        elif r < 0.27 and len(live) < 5:
            # transactions obtained by parsing: the same bytes parsed twice, outputs paying the same script, empty scriptSigs
            t2 = parse_tx(rng, names)
            if t2 is not None:
                for _ in range(rng.choice([1, 2])):
                    if len(live) < 5:
                        b = fresh(); shape[b] = (len(t2.inputs), len(t2.outputs), len(t2.witnesses))
                        yield (f'h_parsetx {b} {tx_to_line(t2)}', 'new', b)
        elif r < 0.32:
            b = rng.choice(live)
            what = rng.choice(['in', 'out', 'wit', 'script'])
            cnt_a = {'in': ni, 'out': no, 'wit': nw, 'script': ni}[what]
            cnt_b = {'in': shape[b][0], 'out': shape[b][1], 'wit': shape[b][2], 'script': shape[b][0]}[what]
            if cnt_a and cnt_b:
                yield (f'h_copy{what} {a} {rng.randrange(cnt_a)} {b} {rng.randrange(cnt_b)}', 'copyelem', b)
        elif r < 0.36:
            b = rng.choice(live)
            if a != b and ni and shape[b][0]:
                yield (f'h_share {a} {rng.randrange(ni)} {b} {rng.randrange(shape[b][0])}', 'share', (a, b))
        elif r < 0.50 and ni:
            yield (f'h_append_sig {a} {rng.randrange(ni)} {tok_str(G.token(rng, names, big=False))}', 'mut', a)
        elif r < 0.58 and no:
            yield (f'h_append_spk {a} {rng.randrange(no)} {tok_str(G.token(rng, names, big=False))}', 'mut', a)
        elif r < 0.66 and nw:
            yield (f'h_append_wit {a} {rng.randrange(nw)} {hx(G.rbytes(rng, rng.randrange(0, 40)))}', 'mut', a)
        elif r < 0.72 and ni:
            yield (f'h_set_sig {a} {rng.randrange(ni)} {toks_str(G.std_script(rng, names))}', 'mut', a)
        elif r < 0.76 and ni:
            yield (f'h_set_seq {a} {rng.randrange(ni)} {hx(G.rbytes(rng, 4))}', 'mut', a)
        elif r < 0.80 and nw:
            items = [G.rbytes(rng, rng.randrange(0, 70)) for _ in range(rng.randrange(0, 3))]
            yield (f'h_set_wit {a} {rng.randrange(nw)} ' + ' '.join([str(len(items))] + [hx(x) for x in items]), 'mut', a)
        elif ni:
            i = rng.randrange(ni)
            code = ['OP_DUP', 'OP_HASH160', G.rbytes(rng, 20).hex(), 'OP_EQUALVERIFY', 'OP_CHECKSIG']
            if rng.random() < 0.35:
                # scripts a digest function might want to "normalise": code separators, several of them, first / last
                code = [G.rbytes(rng, 33).hex(), 'OP_CHECKSIGVERIFY', G.rbytes(rng, 33).hex(), 'OP_CHECKSIG']
                for _ in range(rng.randrange(1, 3)): code.insert(rng.randrange(0, len(code) + 1), 'OP_CODESEPARATOR')
            k = rng.random()
            if k < 0.5:
                ht = rng.choice([1, 2, 3, 0x81, 0x82, 0x83])
                line = f'h_dig_legacy {a} {i} {toks_str(code)} {ht}'
            elif k < 0.75:
                ht = rng.choice([1, 2, 3, 0x81, 0x82, 0x83])
                line = f'h_dig_v0 {a} {i} {toks_str(code)} {rng.randrange(0, 10 ** 12)} {ht}'
            else:
                ht = rng.choice([0, 1, 2, 0x81, 0x82])
                sp = ' '.join([str(ni)] + [toks_str(['OP_1', G.rbytes(rng, 32).hex()])] * ni) + ' ' + ' '.join([str(ni)] + ['1000'] * ni)
                line = f'h_dig_v1 {a} {i} {sp} 0 0 {ht}'
            yield (line, 'digest', a)
            yield (line, 'digest-repeat', a)


def with_redigests(rng, ops):
    """after a mutation of a transaction, ask again for the digests that were asked of it before (a value kept from the first
    call would now be stale)"""
    last = {}
    for line, kind, target in ops:
        yield (line, kind, target)
        if kind == 'digest': last.setdefault(target, {})[line.split(' ')[0] + line.rsplit(' ', 1)[1]] = line
        elif kind == 'mut' and target in last:
            for l in list(last[target].values())[-3:]:
                if rng.random() < 0.7: yield (l, 'digest', target)


def cases(ctx):
    rng = ctx.rng
    for hno in range(ctx.n(40, 1500)):
        reset_case = Case('h_reset', 'm', nontrivial=False, tag='reset', domain=False)
        yield reset_case
        ops = list(with_redigests(rng, history(ctx, rng, None)))
        has_copy = any(k in ('copy', 'copyelem') for _, k, _ in ops); has_mut = any(k == 'mut' for _, k, _ in ops)
        prev = {'dump': None, 'ans': None, 'comp': None}
        for line, kind, target in ops:
            ctx.count('op-' + line.split(' ')[0])
            def spec(ans, kind=kind, target=target, prev=prev, line=line):
                # derived from the implementation's own previous answer: what must not have changed
                old = prev['dump']; new = ans.split(' | ', 1)[1] if ans.startswith('ok') and ' | ' in ans else None
                res = ('s:raw ok', 'ok')
                if new is None:
                    res = ('s:raw op-raised', 'ok')
                elif old is not None:
                    so, sn = sers_of(old), sers_of(new)
                    if kind in ('digest', 'digest-repeat'):
                        if old != new: res = ('s:raw digest-changed-state', 'ok')
                        if kind == 'digest-repeat' and prev['ans'] is not None and ans.split(' | ')[0] != prev['ans'].split(' | ')[0]:
                            res = ('s:raw repeated-digest-differs', 'ok')
                    elif kind == 'mut':
                        allowed = {target} | SHARED.get(target, set())
                        bad = [n for n in so if n not in allowed and so[n] != sn.get(n)]
                        if bad: res = (f's:raw mutation-of-{target}-changed-{"-".join(bad)}', 'ok')
                        # one in-place edit of one sub-object changes at most one component of the transaction it belongs to
                        # (unless this history aliased sub-objects on purpose)
                        oc, nc = (prev['comp'] or {}).get(target), COMPONENTS.get(target)
                        if not bad and oc is not None and nc is not None and len(oc) == len(nc) and not SHARED.get(target) \
                                and target not in ALIASED:
                            ch = [a[0] for a, b in zip(oc, nc) if a != b]
                            if len(ch) > 1: res = (f's:raw one-edit-of-{target}-changed-{"-and-".join(ch)}', 'ok')
                    elif kind in ('copy', 'new', 'copyelem'):
                        bad = [n for n in so if n != target and so[n] != sn.get(n)]
                        if bad: res = (f's:raw copy-changed-{"-".join(bad)}', 'ok')
                        if kind in ('copy', 'new'):
                            classes = new.split(' | ')[1].split(',') if ' | ' in new else []
                            cross = [c for c in classes if c and any(p.split('.')[0] == target for p in c.split('+')) and
                                     any(p.split('.')[0] != target for p in c.split('+'))]
                            if cross: res = (f's:raw fresh-object-shares-state:{cross[0]}', 'ok')
                prev['dump'] = new; prev['ans'] = ans; prev['comp'] = dict(COMPONENTS)
                return res
            yield Case(line, 'ms', nontrivial=has_copy and has_mut, tag='hist-' + kind, spec=spec)
    # (2) order independence
    yield Case('h_reset', 'm', nontrivial=False, tag='reset', domain=False)
    names = G.op_names()
    for _ in range(ctx.n(12, 90)):
        n = rng.choice([2, 3, 4]) if rng.random() < 0.8 else rng.randrange(5, 9)
        tx = G.gen_tx(rng, names, kind='segwit', max_in=n, max_out=3, min_out=n if n <= 3 else 1, big=False)
        while len(tx.inputs) != n:
            tx = G.gen_tx(rng, names, kind='segwit', max_in=n, max_out=3, min_out=1, big=False)
        from bitcoinutils.transactions import TxWitnessInput
        tx.witnesses = [TxWitnessInput([]) for _ in range(n)]
        for t in tx.inputs: t.script_sig.script.clear() if False else None
        kinds = [rng.choice(['legacy', 'v0', 'v1']) for _ in range(n)]
        hts = [rng.choice([1, 2, 0x81, 0x82] if k != 'v1' else [0, 1, 2, 0x81]) for k in kinds]
        pool = [rng.randrange(1, N) for _ in range(rng.choice([1, 2, n]))]          # often one key signs several inputs
        keys = [rng.choice(pool) for _ in range(n)]
        trees = [rng.randrange(3) for _ in range(n)]                                  # taproot inputs commit to different script trees
        if rng.random() < 0.4:       # one key, all taproot, distinct trees: state kept on the key object would make the order matter
            kinds = ['v1'] * n; keys = [pool[0]] * n; trees = [i % 3 for i in range(n)]; hts = [rng.choice([0, 1, 2, 0x81]) for _ in range(n)]
        base = f'{tx_to_line(tx)} ' + ' '.join([str(n)] + [f'{kinds[i]}:{hts[i]}:{keys[i]}:{trees[i]}' for i in range(n)])
        perms = list(itertools.permutations(range(n))) if n <= (4 if ctx.thorough else 3) else [tuple(rng.sample(range(n), n)) for _ in range(6)]
        ref = {'ans': None}
        for pm in [tuple(range(n))] + [p for p in perms if p != tuple(range(n))]:
            def spec(ans, ref=ref):
                if 'changed-its-argument' in ans: return ('s:raw signing-leaves-its-arguments-alone', ans)
                if ref['ans'] is None: ref['ans'] = ans
                return (f's:raw {ref["ans"]}', ans)
            ctx.count('perm')
            yield Case(f'perm_sign {base} ' + ' '.join(str(i) for i in pm), 's', nontrivial=pm != tuple(range(n)), tag='perm', spec=spec)


def impl(op, a, ctx):
    from bitcoinutils.transactions import Transaction, TxInput, TxOutput, TxWitnessInput
    from bitcoinutils.script import Script
    F = Fields(a)
    if op == 'h_reset':
        reset(); return 'ok  | ' + dump()
    if op == 'perm_sign':
        return perm_sign(F)
    out = ''
    if op == 'h_newtx':
        n = F.next(); version = F.bytes(); locktime = F.bytes(); seg = F.bool()
        ins = []
        raw_ins = []
        for _ in range(F.nat()):
            raw_ins.append((F.bytes().hex(), F.int(), F.toks(), F.bytes()))
        outs = [(F.int(), F.toks()) for _ in range(F.nat())]
        wits = [[b.hex() for b in F.list(F.bytes)] for _ in range(F.nat())]
        dfl = F.list(F.nat)
        for i, (txid, idx, s, seq) in enumerate(raw_ins):
            ins.append(TxInput(txid, idx, sequence=seq) if i in dfl else TxInput(txid, idx, Script(s), seq))
        POOL[n] = Transaction(ins, [TxOutput(am, Script(s)) for am, s in outs], locktime, version, seg, [TxWitnessInput(w) for w in wits])
    elif op == 'h_parsetx':
        n = F.next(); POOL[n] = Transaction.from_raw(line_to_tx(F).to_hex()); SHARED.pop(n, None)
    elif op == 'h_copytx':
        a_, b_ = F.next(), F.next(); POOL[b_] = Transaction.copy(POOL[a_])
        SHARED.pop(b_, None)
    elif op in ('h_copyin', 'h_copyout', 'h_copywit', 'h_copyscript', 'h_share'):
        a_ = F.next(); i = F.nat(); b_ = F.next(); j = F.nat()
        A, B = POOL[a_], POOL[b_]
        if op == 'h_copyin': B.inputs[j] = TxInput.copy(A.inputs[i])
        elif op == 'h_copyout': B.outputs[j] = TxOutput.copy(A.outputs[i])
        elif op == 'h_copywit': B.witnesses[j] = TxWitnessInput.copy(A.witnesses[i])
        elif op == 'h_copyscript': B.inputs[j].script_sig = Script.copy(A.inputs[i].script_sig)
        else:
            B.inputs[j].script_sig = A.inputs[i].script_sig
            grp = SHARED.get(a_, {a_}) | SHARED.get(b_, {b_})
            for n in grp: SHARED[n] = grp
    elif op == 'h_append_sig':
        n = F.next(); i = F.nat(); POOL[n].inputs[i].script_sig.script.append(F.tok())
    elif op == 'h_append_spk':
        n = F.next(); i = F.nat(); POOL[n].outputs[i].script_pubkey.script.append(F.tok())
    elif op == 'h_append_wit':
        n = F.next(); i = F.nat(); POOL[n].witnesses[i].stack.append(F.bytes().hex())
    elif op == 'h_set_sig':
        n = F.next(); i = F.nat(); POOL[n].inputs[i].script_sig = Script(F.toks())
    elif op == 'h_set_seq':
        n = F.next(); i = F.nat(); POOL[n].inputs[i].sequence = F.bytes()
    elif op == 'h_set_wit':
        n = F.next(); i = F.nat(); POOL[n].witnesses[i] = TxWitnessInput([b.hex() for b in F.list(F.bytes)])
    elif op == 'h_dig_legacy':
        n = F.next(); i = F.nat(); code = Script(F.toks()); ht = F.nat()
        args = [code]; before = snap(args)
        try: out = hx(POOL[n].get_transaction_digest(i, code, ht))
        except Exception: out = 'err'
        if snap(args) != before: out = 'digest-changed-its-argument'
    elif op == 'h_dig_v0':
        n = F.next(); i = F.nat(); code = Script(F.toks()); amt = F.int(); ht = F.nat()
        args = [code]; before = snap(args)
        try: out = hx(POOL[n].get_transaction_segwit_digest(i, code, amt, ht))
        except Exception: out = 'err'
        if snap(args) != before: out = 'digest-changed-its-argument'
    elif op == 'h_dig_v1':
        n = F.next(); i = F.nat(); spks = [Script(s) for s in F.list(F.toks)]; amts = F.list(F.int); ext = F.nat(); leaf = Script(F.toks()); ht = F.nat()
        args = spks + [leaf]; before = (snap(args), list(amts), len(spks))
        try: out = hx(POOL[n].get_transaction_taproot_digest(i, spks, amts, ext, leaf, sighash=ht))
        except Exception: out = 'err'
        if (snap(args), list(amts), len(spks)) != before: out = 'digest-changed-its-argument'
    else:
        raise ValueError(op)
    COMPONENTS.clear(); COMPONENTS.update(components())
    return f'ok {out} | ' + dump()


def snap(scripts):
    """the caller's view of the Script objects it passed in"""
    return [list(x.script) for x in scripts]


def perm_sign(F):
    from bitcoinutils.keys import PrivateKey
    from bitcoinutils.script import Script
    from bitcoinutils.transactions import TxWitnessInput
    tx = line_to_tx(F)
    specs = [F.next().split(':') for _ in range(F.nat())]
    order = []
    while F.i < len(F.f): order.append(F.nat())
    n = len(tx.inputs)
    spks = [Script(['OP_1', ('%02x' % (i + 1)) * 32]) for i in range(n)]
    amts = [1000 + i for i in range(n)]
    keyobjs = {}; codes = {}
    def flat(t): return [t] if not isinstance(t, list) else [y for x in t for y in flat(x)]
    TREES = [None, [Script(['OP_1'])], [[Script(['OP_2']), Script(['OP_3'])], Script(['OP_4'])]]
    for i in order:
        kind, ht, d, tr = specs[i][0], int(specs[i][1]), int(specs[i][2]), int(specs[i][3])
        k = keyobjs.setdefault(d, PrivateKey(secret_exponent=d)); pub = k.get_public_key()       # one object per key
        code = Script(['OP_DUP', 'OP_HASH160', pub.to_hash160(), 'OP_EQUALVERIFY', 'OP_CHECKSIG'])
        if d % 3 == 0:    # a script with code separators (one object per key, shared by all the inputs that key signs)
            code = codes.setdefault(d, Script([pub.to_hex(), 'OP_CHECKSIGVERIFY', 'OP_CODESEPARATOR', pub.to_hex(), 'OP_CHECKSIG']))
        watched = [code] + spks + [x for t in TREES if t for x in flat(t)]
        before = snap(watched)
        if kind == 'legacy':
            if ht & 0x1f == 3 and i >= len(tx.outputs): ht = 1
            sig = k.sign_input(tx, i, code, ht)
            tx.inputs[i].script_sig = Script([sig, pub.to_hex()])
        elif kind == 'v0':
            if ht & 0x1f == 3 and i >= len(tx.outputs): ht = 1
            sig = k.sign_segwit_input(tx, i, code, amts[i], ht)
            tx.witnesses[i] = TxWitnessInput([sig, pub.to_hex()])
        else:
            sig = k.sign_taproot_input(tx, i, spks, amts, tapleaf_scripts=TREES[tr], sighash=ht)
            tx.witnesses[i] = TxWitnessInput([sig])
        if snap(watched) != before: return 'ok signing-changed-its-argument'
    return 'ok ' + tx.to_hex()
