"""C03 — legacy signature hash"""
from harness.common import Case, hx, tx_to_line, line_to_tx, toks_str, Fields
from harness import gen as G

KINDS = 'gms'
RULE = ('transactions of 1..8 inputs and 0..8 outputs with arbitrary outpoints, sequences, versions, locktimes and existing scriptSigs '
        '(legacy/segwit/mixed flags); every input index; script codes 0..70000 bytes incl. the CompactSize boundaries; the six defined hash '
        'types plus undefined ones; SINGLE with and without a matching output. non-trivial: >= 2 inputs and (hash type != ALL or index > 0 '
        'or a script >= 253 bytes)')
TRUSTED = ['SHA-256 parameter instantiated by BU/Crypto/Sha256.lean (checked against hashlib in C01)']
ASSUMPTIONS = ['script code free of OP_CODESEPARATOR (as the property states)', 'no input spends the null outpoint hash']
TYPES = [1, 2, 3, 0x81, 0x82, 0x83]


def code_script(rng, names, ctx):
    r = rng.random()
    if r < 0.5: return ['OP_DUP', 'OP_HASH160', G.rbytes(rng, 20).hex(), 'OP_EQUALVERIFY', 'OP_CHECKSIG']
    if r < 0.6: return []
    if r < 0.75:
        ln = rng.choice([245, 246, 247, 248, 249, 250, 251, 252, 253, 254, 255, 256, 300, 65530, 65535, 65536, 70000])
        if rng.random() < 0.5:
            # total encoded script length exactly at a CompactSize boundary (push overhead: 3 bytes up to 65535, 5 beyond)
            total = rng.choice([252, 253, 254, 65534, 65535, 65536, 65537] + [v for v in G.source_literals() if v >= 80])
            body = total - 2                                   # trailing OP_DROP OP_1
            ln = body - (2 if body - 2 <= 255 else 3 if body - 3 <= 65535 else 5)
            return [G.rbytes(rng, ln).hex(), 'OP_DROP', 'OP_1']
        return [G.rbytes(rng, ln).hex()]
    toks = [t for t in G.script_tokens(rng, names, 10, big=False) if t != 'OP_CODESEPARATOR']
    return toks


def nontrivial(tx, i, ht, scripts):
    big = any(isinstance(t, str) and not t.startswith('OP_') and len(t) >= 490 for s in scripts for t in s)
    return len(tx.inputs) >= 2 and (ht != 1 or i > 0 or big)


def cases(ctx):
    rng = ctx.rng
    names = G.op_names()
    for _ in range(ctx.n(160, 6000)):
        tx = G.gen_tx(rng, names, kind=rng.choice(['legacy', 'legacy', 'segwit', 'mixed']), max_in=8, max_out=8, big=False)
        line = tx_to_line(tx)
        idxs = range(len(tx.inputs)) if rng.random() < 0.3 else [rng.randrange(len(tx.inputs))]
        for i in idxs:
            code = code_script(rng, names, ctx)
            hts = TYPES if rng.random() < 0.5 else [rng.choice(TYPES)]
            if rng.random() < 0.1: hts = list(hts) + [rng.choice([0, 4, 0x41, 0x80, 0x84, 0x91, 0xff])]
            for ht in hts:
                ctx.count(f'ht-{ht:02x}')
                if ht & 0x1f == 3: ctx.count('single-' + ('in' if i < len(tx.outputs) else 'out-of-range'))
                yield Case(f'dig_legacy {line} {i} {toks_str(code)} {ht}', 'gms' if len(line) + sum(len(str(t)) for t in code) < 20000 else 'ms',
                           nontrivial=nontrivial(tx, i, ht, [code]), tag='legacy')
    # the same object after use and in-place change through public attributes (stale caches / leaked state)
    for _ in range(ctx.n(50, 2500)):
        tx = G.gen_tx(rng, names, kind=rng.choice(['legacy', 'segwit']), max_in=4, max_out=4, min_out=1, big=False)
        muts = G.random_mutations(rng, tx, names)
        line0 = tx_to_line(tx)
        G.apply_mutations(tx, muts)
        line1 = tx_to_line(tx)
        i = rng.randrange(len(tx.inputs)); ht = rng.choice(TYPES)
        if ht & 0x1f == 3 and i >= len(tx.outputs): ht = 1
        code = code_script(rng, names, ctx)
        rest = f'{i} {toks_str(code)} {ht}'
        ctx.count('after-mutation')
        yield Case(f'dig_legacy_after {line0} {G.muts_line(muts)} {rest}', 'ms', nontrivial=True, tag='after-mutation',
                   model=lambda ans, l=line1, r=rest: (f'm:dig_legacy {l} {r}', ans), spec=lambda ans, l=line1, r=rest: (f's:dig_legacy {l} {r}', ans))
    # malformed stream: a null-hash input next to the signed one (the code raises), index out of range
    tx = G.gen_tx(rng, names, kind='coinbase', max_in=3, max_out=2, big=False)
    yield Case(f'dig_legacy {tx_to_line(tx)} 0 {toks_str(["OP_1"])} 1', 'gm', nontrivial=True, tag='null-input', domain=False)
    yield Case(f'dig_legacy {tx_to_line(tx)} 9 {toks_str(["OP_1"])} 1', 'gm', nontrivial=True, tag='bad-index', domain=False)
    tx = G.gen_tx(rng, names, kind='legacy', max_in=3, max_out=1, min_out=1, big=False)
    for ht in (3, 0x83):       # SINGLE without a matching output: ValueError from the code, the model and the generated code
        yield Case(f'dig_legacy {tx_to_line(tx)} {len(tx.outputs) + 1} {toks_str(["OP_1"])} {ht}', 'gm', nontrivial=True, tag='single-refused', domain=False)
    yield Case(f'dig_legacy {tx_to_line(tx)} 0 {toks_str(["OP_1"])} {2 ** 31}', 'gm', nontrivial=True, tag='bad-hashtype', domain=False)


def impl(op, a, ctx):
    from bitcoinutils.script import Script
    F = Fields(a)
    tx = line_to_tx(F)
    muts = None
    if op == 'dig_legacy_after':
        muts = G.parse_muts(F)
    i = F.nat(); code = F.toks(); ht = F.nat(); F.done()
    if muts is not None:
        G.exercise(tx)
        try: tx.get_transaction_digest(i, Script(code), ht)       # same call before the change
        except Exception: pass
        G.apply_mutations(tx, muts)
    return 'ok ' + hx(tx.get_transaction_digest(i, Script(code), ht))


# ---- real-chain signature oracle (appended to the generated stream)
from harness import fxsig as _S
_base_cases = cases
_base_impl = impl


def cases(ctx):  # noqa: F811
    yield from _base_cases(ctx)
    spends = _S.pick(ctx.rng, _S.p2pkh_spends(), ctx.n(60), ctx.thorough)
    for name, k, j, sig, pub in spends:
        ht = sig[-1]
        tx = _S.lib_tx(name, k)
        code = ['OP_DUP', 'OP_HASH160', _S.h160(pub).hex(), 'OP_EQUALVERIFY', 'OP_CHECKSIG']
        ctx.count('fixture-sig-' + name); ctx.count(f'fixture-ht-{ht:02x}')
        def spec(ans, tx=tx, j=j, code=code, ht=ht):
            return (f's:dig_legacy {tx_to_line(tx)} {j} {toks_str(code)} {ht}', ans.replace(' chain-signature-verifies', ''))
        yield Case(f'fx_sig_legacy {name} {k} {j}', 's', nontrivial=True, tag='fixture-sig', spec=spec)


def impl(op, a, ctx):  # noqa: F811
    if op != 'fx_sig_legacy':
        return _base_impl(op, a, ctx)
    from bitcoinutils.script import Script
    name, k, j = a[0], int(a[1]), int(a[2])
    t = _S.FX.block(name)['txs'][k]
    sig, pub = _S.is_push_only_two(t['ins'][j]['script'])
    rs = _S.lax_der(sig[:-1])
    tx = _S.lib_tx(name, k)
    code = Script(['OP_DUP', 'OP_HASH160', _S.h160(pub).hex(), 'OP_EQUALVERIFY', 'OP_CHECKSIG'])
    d = tx.get_transaction_digest(j, code, sig[-1])
    ok = rs is not None and _S.secp_verify(pub, d, *rs)
    return f'ok {hx(d)}' + (' chain-signature-verifies' if ok else ' CHAIN-SIGNATURE-DOES-NOT-VERIFY')
