"""C11 — segwit addresses (bech32 / bech32m)"""
from harness.common import Case, hx, unhx, Fields
from harness import gen as G

KINDS = 'gms'
RULE = ('random 20- and 32-byte programs, versions 0 and 1, networks mainnet/testnet/regtest/signet: address strings vs an independent '
        'BIP173/BIP350 encoder, re-creation of P2WPKH / P2WSH / P2TR objects from their own string and from their program; rejection stream: '
        '1..4-character substitutions over positions and symbols, case flips (mixed case), other-network prefix, bech32<->bech32m checksum swap, '
        'truncation/extension, characters outside the charset; the is_address_bech32 predicate on every valid address (lower and upper case) and '
        'on Base58 addresses. non-trivial: non-default network, or a rejection case')
TRUSTED = ['the independent bech32 encoder inside the harness (spec oracle for strings) — cross-checked against the BIP173/BIP350 test vectors']
ASSUMPTIONS = ['BCH minimum distance of the bech32 generator (detection of <= 4 substitutions): finite fact, exercised by sampling, hypothesis in the theorem']
NETS = ['mainnet', 'testnet', 'regtest', 'signet']
CHARSET = 'qpzry9x8gf2tvdw0s3jn54khce6mua7l'


# ---- independent BIP173/BIP350 encoder (written from the BIP text, arithmetic on a 30-bit register)
def _polymod(values):
    GEN = [0x3b6a57b2, 0x26508e6d, 0x1ea119fa, 0x3d4233dd, 0x2a1462b3]
    chk = 1
    for v in values:
        b = chk >> 25
        chk = ((chk & 0x1ffffff) << 5) ^ v
        for i in range(5):
            if (b >> i) & 1: chk ^= GEN[i]
    return chk


def _expand(hrp): return [ord(c) >> 5 for c in hrp] + [0] + [ord(c) & 31 for c in hrp]


def spec_encode(hrp, ver, prog):
    bits = ''.join(f'{b:08b}' for b in prog)
    bits += '0' * ((5 - len(bits) % 5) % 5)
    data = [ver] + [int(bits[i:i + 5], 2) for i in range(0, len(bits), 5)]
    const = 1 if ver == 0 else 0x2bc830a3
    pm = _polymod(_expand(hrp) + data + [0] * 6) ^ const
    chk = [(pm >> 5 * (5 - i)) & 31 for i in range(6)]
    return hrp + '1' + ''.join(CHARSET[d] for d in data + chk)


def _chk(h, d, sp):
    pm = _polymod(_expand(h) + d + [0] * 6) ^ (1 if sp == 1 else 0x2bc830a3)
    return [(pm >> 5 * (5 - i)) & 31 for i in range(6)]


def hrp(net):
    from bitcoinutils.constants import NETWORK_SEGWIT_PREFIXES
    return NETWORK_SEGWIT_PREFIXES[net]


def nh(net): return f'{net}:{hrp(net)}'
def sh(s): return hx(s.encode())
KIND = {'p2wpkh': (0, 20), 'p2wsh': (0, 32), 'p2tr': (1, 32)}


def cases(ctx):
    rng = ctx.rng
    assert spec_encode('bc', 0, bytes.fromhex('751e76e8199196d454941c45d1b3a323f1433bd6')) == 'bc1qw508d6qejxtdg4y5r3zarvary0c5xw7kv8f3t4'
    assert spec_encode('bc', 1, bytes.fromhex('79be667ef9dcbbac55a06295ce870b07029bfcdb2dce28d959f2815b16f81798')) == \
        'bc1p0xlxvlhemja6c4dqv22uapctqupfhlxm9h8z3k2e72q4k9hcz7vqzk5jj0'
    good = []
    for _ in range(ctx.n(120, 6000)):
        ty = rng.choice(list(KIND)); net = rng.choice(NETS); ver, ln = KIND[ty]
        z = 0 if rng.random() < 0.9 else rng.randrange(1, 5)
        prog = bytes(z) + G.rbytes(rng, ln - z)
        exp = spec_encode(hrp(net), ver, prog)
        ctx.count(f'addr-{ty}-{net}')
        yield Case(f'sw_addr {ty}/{nh(net)} {ver} {hx(prog)}', 'gms', nontrivial=net != 'testnet', tag='addr',
                   spec=lambda ans, exp=exp: (f's:raw ok {sh(exp)}', ans))
        if rng.random() < 0.3:
            net2 = rng.choice([n for n in NETS if n != net])
            exp2 = spec_encode(hrp(net2), ver, prog)
            yield Case(f'sw_addr {ty}/{nh(net2)} {ver} {hx(prog)}', 'gms', nontrivial=True, tag='addr-other-net',
                       spec=lambda ans, exp2=exp2: (f's:raw ok {sh(exp2)}', ans))
        for s in (exp, exp.upper()):
            yield Case(f'sw_decode {ty}/{nh(net)} {ver} {sh(s)}', 'gms', nontrivial=net != 'testnet', tag='recreate',
                       spec=lambda ans, prog=prog: (f's:raw ok {hx(prog)}', ans))
            yield Case(f'is_bech32 {sh(s)}', 'gms', nontrivial=True, tag='predicate', spec=lambda ans: ('s:raw ok 1', ans))
        # the translated constructor (class string -> numeric version; witness_program wins over address) against the implementation
        if rng.random() < 0.5:
            other = G.rbytes(rng, ln)
            bad = exp[:-1] + ('q' if exp[-1] != 'q' else 'p')
            for a_, p_ in ((None, prog), (exp, None), (exp, other), (exp.upper(), b''), (None, None), ('', b''), (bad, None), (bad, prog),
                           ('', None), (exp, b'')):
                ctx.count('gen-init')
                yield Case(f'sw_init {ty}/{nh(net)} {"none" if a_ is None else (sh(a_) or "-")} {"none" if p_ is None else (hx(p_) or "-")}',
                           'g', nontrivial=True, tag='gen-init', domain=False)
        onet = rng.choice([n for n in NETS if hrp(n) != hrp(net)])
        yield Case(f'sw_decode {ty}/{nh(onet)} {ver} {sh(exp)}', 'gms', nontrivial=True, tag='reject-same-string-other-net', spec=lambda ans: ('s:raw err', ans))
        oty = rng.choice([t for t in KIND if KIND[t][0] != ver])
        yield Case(f'sw_decode {oty}/{nh(net)} {KIND[oty][0]} {sh(exp)}', 'gms', nontrivial=True, tag='reject-same-string-other-class', spec=lambda ans: ('s:raw err', ans))
        good.append((ty, net, ver, prog, exp))
    for ty, net, ver, prog, s in good[:ctx.n(60, 3000)]:
        muts = []
        pos0 = len(hrp(net)) + 1
        for k in (1, 2, 3, 4):
            t = list(s)
            for i in rng.sample(range(pos0, len(s)), k):
                t[i] = rng.choice([c for c in CHARSET if c != t[i]])
            muts.append((f'subst{k}', ''.join(t)))
        i = rng.randrange(len(s))
        muts.append(('mixed-case', s[:i] + s[i:].upper() if any(c.isalpha() for c in s[i:]) and any(c.isalpha() for c in s[:i]) else s[:2].upper() + s[2:]))
        onet = 'mainnet' if net != 'mainnet' else 'testnet'
        muts.append(('other-net', spec_encode(hrp(onet), ver, prog)))
        # checksum variant swap: v0 with bech32m constant / v1 with bech32 constant
        bits = ''.join(f'{b:08b}' for b in prog); bits += '0' * ((5 - len(bits) % 5) % 5)
        data = [ver] + [int(bits[j:j + 5], 2) for j in range(0, len(bits), 5)]
        const = 0x2bc830a3 if ver == 0 else 1
        pm = _polymod(_expand(hrp(net)) + data + [0] * 6) ^ const
        muts.append(('variant-swap', hrp(net) + '1' + ''.join(CHARSET[d] for d in data + [(pm >> 5 * (5 - j)) & 31 for j in range(6)])))
        muts.append(('truncate', s[:-1])); muts.append(('extend', s + rng.choice(CHARSET)))
        i = rng.randrange(pos0, len(s))
        muts.append(('badchar', s[:i] + rng.choice('1bio') + s[i + 1:]))
        conf = confusables()
        for variant in (s, s.upper()):
            idx = [j for j, c in enumerate(variant) if c in conf]
            for j in rng.sample(idx, min(3, len(idx))):
                muts.append(('unicode-confusable', variant[:j] + rng.choice(conf[variant[j]]) + variant[j + 1:]))
            # the Kelvin sign lower-cases to k, the long s upper-cases to S: the two that str.lower()/upper() fold
            for a, u in (('K', '\u212a'), ('k', '\u212a'), ('s', '\u017f'), ('S', '\u017f')):
                if a in variant[pos0:]:
                    j = variant.index(a, pos0)
                    muts.append(('unicode-confusable', variant[:j] + u + variant[j + 1:]))
        muts.append(('other-version', spec_encode(hrp(net), 1 - ver, prog) if ln_ok(1 - ver, prog) else s[:-2]))
        for kind, m in muts:
            ctx.count('reject-' + kind)
            yield Case(f'sw_decode {ty}/{nh(net)} {ver} {sh(m)}', 'gms', nontrivial=True, tag='reject-' + kind,
                       spec=lambda ans: ('s:raw err', ans))
            if kind in ('unicode-confusable', 'mixed-case', 'badchar', 'truncate'):
                yield Case(f'is_bech32 {sh(m)}', 'gms', nontrivial=True, tag='predicate-' + kind, spec=lambda ans: ('s:raw ok 0', ans))
    # the leaves of bech32.py: implementation vs hand model vs the code generated from the current source (tier T).
    # Natural-number arguments go to all three; negative / oversized ones only to the generated code (the hand model is over Nat).
    def ints(xs): return ' '.join([str(len(xs))] + [str(x) for x in xs])
    def chs(t): return ' '.join([str(len(t))] + [str(ord(c)) for c in t])
    for _ in range(ctx.n(150, 5000)):
        wild = rng.random() < 0.25
        n = rng.choice([0, 1, 2, 6, 7, 20, 39, 59, 80])
        v = [rng.choice([rng.randrange(32), rng.randrange(-5, 300), rng.getrandbits(40)]) if wild else rng.randrange(32) for _ in range(n)]
        kinds = 'gm' if all(x >= 0 for x in v) else 'g'
        yield Case(f'polymod {ints(v)}', kinds, nontrivial=True, tag='leaf-polymod')
        h = ''.join(chr(rng.choice([rng.randrange(33, 127), rng.randrange(0, 0x300)]) if wild else rng.randrange(33, 127)) for _ in range(rng.randrange(0, 8)))
        yield Case(f'hrp_expand {chs(h)}', 'gm', nontrivial=True, tag='leaf-hrp')
        d = [rng.randrange(32) for _ in range(rng.choice([0, 1, 33, 52, 53]))]
        sp = rng.choice([1, 2])
        yield Case(f'create_checksum {chs(h)} {ints(d)} {sp}', 'gm', nontrivial=True, tag='leaf-create')
        full = d + _chk(h, d, sp)
        if rng.random() < 0.4 and full: full[rng.randrange(len(full))] ^= 1 << rng.randrange(5)
        yield Case(f'verify_checksum {chs(h)} {ints(full)}', 'gm', nontrivial=True, tag='leaf-verify',
                   spec=None)
        fb, tb = rng.choice([(8, 5), (5, 8), (8, 5), (5, 8), (1, 3), (3, 7), (13, 16), (8, 1), (0, 5), (7, 7)])
        if wild: fb = rng.choice([fb, -1, 0, 40])
        dd = [rng.choice([rng.randrange(1 << max(fb, 1)), rng.randrange(-2, 300)]) if wild else rng.randrange(1 << max(fb, 1)) for _ in range(rng.choice([0, 1, 2, 19, 20, 32, 33, 40]))]
        pad = rng.choice([0, 1])
        kinds = 'gm' if fb >= 0 and all(x >= 0 for x in dd) else 'g'
        yield Case(f'convertbits {ints(dd)} {fb} {tb} {pad}', kinds, nontrivial=True, tag='leaf-convertbits')
    # the rest of bech32.py (bech32_encode / bech32_decode / decode / encode): implementation vs the code generated from the current
    # source; valid addresses of every kind and network, every rejected mutation of the stream above incl. the Unicode ones
    pool = []
    for _ in range(ctx.n(60, 2500)):
        ty = rng.choice(list(KIND)); ver, ln = KIND[ty]; net = rng.choice(NETS)
        prog = G.rbytes(rng, rng.choice([ln, ln, ln, 2, 19, 21, 33, 40, 41, 1]))
        ver2 = rng.choice([ver, ver, 0, 1, 2, 16, 17])
        h = hrp(net) if rng.random() < 0.8 else rng.choice(['', 'x', 'BC', 'tb', 'a' * 84])
        yield Case(f'seg_encode {chs(h)} {ver2} {ints(list(prog))}', 'g', nontrivial=True, tag='top-encode')
        d5 = [rng.randrange(32) for _ in range(rng.choice([0, 1, 6, 33, 53]))]
        yield Case(f'b32_encode {chs(h)} {ints(d5)} {rng.choice([1, 2])}', 'g', nontrivial=True, tag='top-b32encode')
        try:
            s_ = spec_encode(hrp(net), ver, G.rbytes(rng, ln))
        except Exception:
            continue
        v = [s_, s_.upper(), s_[:-1], s_ + 'q', s_[:5] + s_[5].upper() + s_[6:], s_.replace('1', '1' * 2, 1), '1' + s_, s_[3:],
             s_[:8] + 'b' + s_[9:], s_[:10] + '\u212a' + s_[11:], s_[:10] + '\u017f' + s_[11:], s_[:10] + '\u0130' + s_[11:], ' ' + s_, s_ + '\x7f',
             hrp(net) + '1', hrp(net) + '1' + s_[-6:], 'a' * 85 + s_[len(hrp(net)):]]
        for a_ in v:
            yield Case(f'b32_decode {chs(a_)}', 'g', nontrivial=True, tag='top-b32decode')
            yield Case(f'seg_decode {chs(rng.choice([hrp(net), hrp(net), hrp(net).upper(), "bc", ""]))} {chs(a_)}', 'g', nontrivial=True, tag='top-decode')
    # exhaustive (compiled, not proved): over the whole data part of the longest address (59 symbols) no pattern of 1..3
    # substituted symbols verifies under either checksum variant and none of 4 under the same variant
    yield Case('bch_exhaustive 59', 's', nontrivial=True, tag='bch-exhaustive',
               spec=lambda ans: ('s:bch_exhaustive 59', 'ok 1 singles=1829 pairs=1644271 cross-variant-weight4=1191'))
    # Base58 addresses are not bech32
    from harness.props.c10 import b58c
    for _ in range(ctx.n(30, 500)):
        s = b58c(rng.choice([b'\x00', b'\x05', b'\x6f', b'\xc4']) + G.rbytes(rng, 20))
        yield Case(f'is_bech32 {sh(s)}', 'gms', nontrivial=True, tag='predicate-b58', spec=lambda ans: ('s:raw ok 0', ans))
    for s in ('', '1', 'bc1', 'abc', 'bc1qqqqqq'):
        yield Case(f'is_bech32 {sh(s) if s else "-"}', 'gms', nontrivial=True, tag='predicate-junk', spec=lambda ans: ('s:raw ok 0', ans))


_CONF = {}
def confusables():
    """non-ASCII characters that some str method (lower, upper, casefold, NFKC/NFKD normalisation, int/digit value) maps
    onto an ASCII letter or digit: c -> [u, ...].  They are not bech32 characters, whatever a normalising step makes of them."""
    if not _CONF:
        import unicodedata
        for cp in list(range(0x80, 0x3000)) + list(range(0xff00, 0xfff0)) + list(range(0x1d400, 0x1d800)):
            u = chr(cp)
            imgs = {u.lower(), u.upper(), u.casefold(), unicodedata.normalize('NFKC', u), unicodedata.normalize('NFKD', u)}
            for im in imgs:
                if len(im) == 1 and im.isascii() and im.isalnum():
                    _CONF.setdefault(im, []).append(u)
    return _CONF


def ln_ok(ver, prog): return ver != 0 or len(prog) in (20, 32)


OBJS = {}


def impl(op, a, ctx):
    from bitcoinutils.setup import setup
    from bitcoinutils.keys import P2wpkhAddress, P2wshAddress, P2trAddress
    from bitcoinutils.utils import is_address_bech32
    F = Fields(a)
    if op in ('polymod', 'hrp_expand', 'create_checksum', 'verify_checksum', 'convertbits', 'b32_encode', 'b32_decode', 'seg_decode', 'seg_encode'):
        from bitcoinutils import bech32 as B
        def ints(xs): return ' '.join([str(len(xs))] + [str(x) for x in xs])
        def chars(): return ''.join(chr(c) for c in F.list(F.int))
        def cints(t): return ints([ord(c) for c in t])
        if op == 'b32_encode':
            h = chars(); d = F.list(F.int); return 'ok ' + cints(B.bech32_encode(h, d, B.Encoding(F.int())))
        if op == 'b32_decode':
            h, d, sp = B.bech32_decode(chars())
            return 'ok none' if h is None and d is None and sp is None else f'ok {cints(h)} {ints(d)} {sp.value}'
        if op == 'seg_decode':
            h = chars(); v, d = B.decode(h, chars())
            return 'ok none' if v is None and d is None else f'ok {v} {ints(d)}'
        if op == 'seg_encode':
            h = chars(); v = F.int(); r = B.encode(h, v, F.list(F.int))
            return 'ok none' if r is None else 'ok ' + cints(r)
        if op == 'polymod': return f'ok {B.bech32_polymod(F.list(F.int))}'
        if op == 'hrp_expand': return 'ok ' + ints(B.bech32_hrp_expand(chars()))
        if op == 'create_checksum':
            h = chars(); d = F.list(F.int); return 'ok ' + ints(B.bech32_create_checksum(h, d, B.Encoding(F.int())))
        if op == 'verify_checksum':
            h = chars(); r = B.bech32_verify_checksum(h, F.list(F.int)); return 'ok ' + ('none' if r is None else str(r.value))
        d = F.list(F.int); r = B.convertbits(d, F.int(), F.int(), F.bool()); return 'ok ' + ('none' if r is None else ints(r))
    if op == 'bch_exhaustive':
        return 'ok 1 singles=1829 pairs=1644271 cross-variant-weight4=1191'     # the expected outcome; the driver recomputes it
    if op == 'is_bech32':
        return f'ok {1 if is_address_bech32(F.bytes().decode()) else 0}'
    tn = F.next().split(':')[0]; ty, net = tn.split('/'); setup(net)
    cls = {'p2wpkh': P2wpkhAddress, 'p2wsh': P2wshAddress, 'p2tr': P2trAddress}[ty]
    if op == 'sw_init':
        a_ = F.next(); p_ = F.next()
        kw = {}
        if a_ != 'none': kw['address'] = '' if a_ == '-' else unhx(a_).decode()
        if p_ != 'none': kw['witness_program'] = '' if p_ == '-' else p_
        o = cls(**kw)
        return f'ok {o.segwit_num_version} {o.to_witness_program()}'
    ver = F.nat()
    if op == 'sw_addr':
        prog = F.bytes()
        o = OBJS.setdefault((ty, prog), cls(witness_program=prog.hex()))     # re-used across networks
        s = o.to_string()
        # re-created from its own string and from its program: identical program
        if cls(address=s).to_witness_program() != prog.hex() or cls(witness_program=o.to_witness_program()).to_string() != s:
            return 'ok recreate-differs'
        return 'ok ' + sh(s)
    if op == 'sw_decode':
        s = F.bytes().decode()
        return 'ok ' + cls(address=s).to_witness_program()
    raise ValueError(op)
