"""C17 — CompactSize and satoshi conversions"""
import struct
from decimal import Decimal
from harness.common import Case, hx, unhx

KINDS = 'mgs'
RULE = ('n exhaustively 0..70000, every boundary +-3 (252/253, 2^16, 2^32, 2^64), random 64-bit; decoders on '
        'encodings followed by random bytes, on non-canonical and truncated inputs; prepend on lengths 0..600 and '
        '65535/65536/70000; amounts as Decimal (0..8 decimals, up to 21e6 BTC), int and float (by bit pattern). '
        'non-trivial: value within +-3 of a boundary or > 2^16, or a fractional amount')
TRUSTED = ['CPython Decimal default context (28 digits) holds amount*10^8 exactly',
           'IEEE-754 binary64 of CPython floats (float branch: correspondence only, no theorem)']
ASSUMPTIONS = ['float amounts: decided by correspondence against native binary64 in the driver, not by a theorem']

BOUNDS = [253, 2 ** 16, 2 ** 32, 2 ** 64]


def cs(n):
    if n < 253: return bytes([n])
    if n < 2 ** 16: return b'\xfd' + n.to_bytes(2, 'little')
    if n < 2 ** 32: return b'\xfe' + n.to_bytes(4, 'little')
    return b'\xff' + n.to_bytes(8, 'little')


def near(n):
    return n > 2 ** 16 or any(abs(n - b) <= 3 for b in BOUNDS)


def cases(ctx):
    rng = ctx.rng
    ns = list(range(0, ctx.n(70001)))
    for b in BOUNDS:
        ns += [b + d for d in range(-3, 4)]
    ns += [-1, -2 ** 63, 2 ** 64 + 12345, 2 ** 70]
    from harness import gen as G
    ns += G.source_literals(limit=2 ** 64 + 2)
    ns += [rng.getrandbits(rng.choice([8, 16, 17, 24, 32, 33, 48, 63, 64])) for _ in range(ctx.n(3000, 200000))]
    for n in ns:
        ctx.count('cs_enc')
        yield Case(f'cs_enc {n}', 'gs', nontrivial=near(n), tag='enc')
    # decoders
    dec = []
    for n in list(range(0, 300)) + [b + d for b in BOUNDS[:3] for d in range(-3, 4)] + [2 ** 64 - 1] + \
            [rng.getrandbits(rng.choice([16, 32, 64])) for _ in range(ctx.n(2000, 100000))]:
        rest = bytes(rng.getrandbits(8) for _ in range(rng.choice([0, 0, 1, 3, 9])))
        dec.append((cs(n) + rest, True, near(n)))
    # non-canonical and truncated
    for v, k, tag in [(5, 2, 0xfd), (252, 2, 0xfd), (5, 4, 0xfe), (65535, 4, 0xfe), (7, 8, 0xff), (2 ** 32 - 1, 8, 0xff)]:
        dec.append((bytes([tag]) + v.to_bytes(k, 'little'), True, True))
    for tag, k in [(0xfd, 2), (0xfe, 4), (0xff, 8)]:
        for short in range(0, k):
            dec.append((bytes([tag]) + bytes(short), False, True))
    dec.append((b'', False, True))
    for b, full, nt in dec:
        ctx.count('cs_dec')
        yield Case(f'cs_dec {hx(b)}', 'gs', nontrivial=nt, tag='dec')
        # vi_to_int never raises on truncated input (it slices): compare with the Spec only on complete encodings
        yield Case(f'vi_dec {hx(b)}', 'gs' if full else 'g', nontrivial=nt, tag='vi',
                   spec=(lambda ans, b=b: (f's:cs_dec {hx(b)}', ans)))
    for ln in list(range(0, ctx.n(601))) + [65535, 65536, 70000]:
        d = bytes(rng.getrandbits(8) for _ in range(min(ln, 64))) + bytes(max(0, ln - 64))
        yield Case(f'prepend {hx(d)}', 'gs', nontrivial=ln >= 253, tag='prepend')
    # amounts
    for _ in range(ctx.n(3000, 200000)):
        e = rng.choice([0, 1, 2, 3, 5, 7, 8, 8, 8])
        k = rng.randrange(0, 21 * 10 ** (6 + e) + 1)
        if rng.random() < 0.1: k = rng.choice([0, 1, 21 * 10 ** (6 + e), 29 * 10 ** max(0, e - 2)])
        ctx.count(f'sat_dec_e{e}')
        yield Case(f'sat_dec {k} {e}', 'ms', nontrivial=e > 0, tag='dec')
    for _ in range(ctx.n(300, 5000)):    # more than eight decimals: outside the property, model (half-even) only
        e = rng.choice([9, 10, 12])
        k = rng.randrange(0, 10 ** (6 + e))
        yield Case(f'sat_dec {k} {e}', 'm', nontrivial=True, tag='dec9', domain=False)
    traps = [0.29, 0.1 + 0.2, 1.1, 20999999.9769, 0.00000001, 21000000.0, 0.07, 0.57, 1.15, 4.35, 8.2, 0.99999999]
    fl = [(t, round(Decimal(repr(t)) * 10 ** 8)) for t in traps]
    for _ in range(ctx.n(3000, 300000)):
        k = rng.randrange(0, 21 * 10 ** 14 + 1)
        fl.append((k / 1e8, k))
    # floats that ordinary arithmetic on eight-decimal amounts produces: sums and differences (one rounding away from
    # the eight-decimal value, like the trap 0.1 + 0.2) and the neighbours a few ulps either side.  Kept only when the
    # exact value of the float is within 0.3 satoshi of k, so that one binary64 rounding of x * 1e8 (at most 0.125
    # satoshi below 21e6 BTC) cannot carry it across the half-way point: those have a definite answer, k.
    from fractions import Fraction
    import math
    def fnear(x, k): return 0 <= x and abs(Fraction(x) * 10 ** 8 - k) < Fraction(3, 10)
    for _ in range(ctx.n(3000, 300000)):
        mode = rng.randrange(4)
        if mode == 0:      # two-decimal sums / differences (0.01 + 0.09, 0.3 - 0.1, 1.0 - 0.9 …)
            a, b = rng.randrange(0, 201), rng.randrange(0, 201)
            if rng.random() < 0.5: x, k = a / 100 + b / 100, (a + b) * 10 ** 6
            else: a, b = max(a, b), min(a, b); x, k = a / 100 - b / 100, (a - b) * 10 ** 6
        elif mode == 1:    # eight-decimal sums / differences over the whole range
            a, b = rng.randrange(0, 10 ** rng.randrange(1, 16)), rng.randrange(0, 10 ** rng.randrange(1, 16))
            if rng.random() < 0.5: x, k = a / 1e8 + b / 1e8, a + b
            else: a, b = max(a, b), min(a, b); x, k = a / 1e8 - b / 1e8, a - b
            if k > 21 * 10 ** 14: continue
        elif mode == 2:    # products by a small integer (fee rate times size and the like)
            a, m = rng.randrange(0, 10 ** rng.randrange(1, 12)), rng.randrange(1, 1000)
            x, k = (a / 1e8) * m, a * m
            if k > 21 * 10 ** 14: continue
        else:              # neighbours, 1..3 ulps away
            k = rng.randrange(0, 21 * 10 ** rng.choice([2, 6, 8, 10, 12, 14]) + 1)
            x = k / 1e8
            for _ in range(rng.randrange(1, 4)): x = math.nextafter(x, rng.choice([0.0, 1e9]))
        if fnear(x, k):
            ctx.count('sat_f64_arith')
            fl.append((x, k))
    for x, k in fl:
        bits = struct.unpack('<Q', struct.pack('<d', x))[0]
        ctx.count('sat_f64')
        yield Case(f'sat_f64 {bits}', 'ms', nontrivial=True, tag='f64',
                   spec=(lambda ans, k=k: (f's:sat_dec {int(k)} 8', ans)))


def impl(op, a, ctx):
    from bitcoinutils.utils import encode_varint, parse_compact_size, vi_to_int, prepend_compact_size, to_satoshis
    if op == 'cs_enc':
        return 'ok ' + hx(encode_varint(int(a[0])))
    if op == 'cs_dec':
        r = parse_compact_size(unhx(a[0]))
        return f'ok {r[0]} {r[1]}'
    if op == 'vi_dec':
        r = vi_to_int(unhx(a[0]))
        return f'ok {r[0]} {r[1]}'
    if op == 'prepend':
        return 'ok ' + hx(prepend_compact_size(unhx(a[0])))
    if op == 'sat_dec':
        k, e = int(a[0]), int(a[1])
        if e == 0 and ctx.rng.random() < 0.5:
            return f'ok {to_satoshis(k)}'          # int amount
        return f'ok {to_satoshis(Decimal(k).scaleb(-e))}'
    if op == 'sat_f64':
        x = struct.unpack('<d', struct.pack('<Q', int(a[0])))[0]
        return f'ok {to_satoshis(x)}'
    raise ValueError(op)
