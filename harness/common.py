"""Shared plumbing of the correspondence harness: PRNG, line protocol, drivers, canonicalisation,
evidence writer, replay files.  Runs under /venv/bin/python with PYTHONPATH=/repo so that the
*working tree* of the library is what gets exercised, in-process."""
import os, sys, json, time, random, subprocess, hashlib, re, fcntl, traceback

VERIF = os.path.dirname(os.path.dirname(os.path.abspath(__file__)))
REPO = os.environ.get('BU_REPO', '/repo')
LEAN = os.path.join(VERIF, 'lean')
DRIVER = os.path.join(LEAN, '.lake', 'build', 'bin', 'budriver')
DEFAULT_SEED = 20260929
sys.dont_write_bytecode = True
if REPO not in sys.path:
    sys.path.insert(0, REPO)

ALLOWED_AXIOMS = {'propext', 'Classical.choice', 'Quot.sound'}


class MachineryFault(Exception):
    """something in the verification machinery itself is broken: exit 2, never a VIOLATION"""


# ---------------------------------------------------------------- line protocol helpers
def hx(b):
    if isinstance(b, str):
        b = bytes.fromhex(b)
    return b.hex() if b else '-'


def unhx(s):
    return b'' if s == '-' else bytes.fromhex(s)


def tok_str(t):
    """python-bitcoin-utils script token -> protocol token"""
    if isinstance(t, bool):
        raise TypeError('bool token')
    if isinstance(t, int):
        return f'i:{t}'
    if isinstance(t, str):
        if t.startswith('OP_'):
            return 'o:' + t
        return 'd:' + hx(t)
    raise TypeError(f'token {t!r}')


def toks_str(ts):
    return ' '.join([str(len(ts))] + [tok_str(t) for t in ts])


def parse_tok(s):
    if s.startswith('o:'): return s[2:]
    if s.startswith('i:'): return int(s[2:])
    if s.startswith('d:'): return unhx(s[2:]).hex()
    raise ValueError(s)


class Fields:
    """reader over the fields of a request line (mirror of Driver.R)"""
    def __init__(self, fields): self.f = list(fields); self.i = 0
    def next(self):
        v = self.f[self.i]; self.i += 1; return v
    def nat(self): return int(self.next())
    def int(self): return int(self.next())
    def bytes(self): return unhx(self.next())
    def bool(self): return self.next() == '1'
    def list(self, p): return [p() for _ in range(self.nat())]
    def tok(self): return parse_tok(self.next())
    def toks(self): return self.list(self.tok)
    def done(self): assert self.i == len(self.f), 'trailing fields'


def tx_to_line(tx):
    """bitcoinutils Transaction -> protocol fields"""
    out = [hx(tx.version), hx(tx.locktime), '1' if tx.has_segwit else '0', str(len(tx.inputs))]
    for i in tx.inputs:
        out += [hx(i.txid), str(i.txout_index), toks_str(i.script_sig.script), hx(i.sequence)]
    out.append(str(len(tx.outputs)))
    for o in tx.outputs:
        out += [str(o.amount), toks_str(o.script_pubkey.script)]
    out.append(str(len(tx.witnesses)))
    for w in tx.witnesses:
        out += [str(len(w.stack))] + [hx(x) for x in w.stack]
    return ' '.join(out)


def line_to_tx(F):
    from bitcoinutils.transactions import Transaction, TxInput, TxOutput, TxWitnessInput
    from bitcoinutils.script import Script
    version = F.bytes(); locktime = F.bytes(); seg = F.bool()
    ins = []
    for _ in range(F.nat()):
        txid = F.bytes().hex(); idx = F.int(); s = F.toks(); seq = F.bytes()
        ins.append(TxInput(txid, idx, Script(s), seq))
    outs = []
    for _ in range(F.nat()):
        amt = F.int(); s = F.toks()
        outs.append(TxOutput(amt, Script(s)))
    wits = []
    for _ in range(F.nat()):
        wits.append(TxWitnessInput([b.hex() for b in F.list(F.bytes)]))
    return Transaction(ins, outs, locktime, version, seg, wits)


def tables_line():
    from bitcoinutils.script import OP_CODES, CODE_OPS
    parts = ['tables', str(len(OP_CODES))]
    for k, v in OP_CODES.items(): parts += [k, hx(v)]
    parts.append(str(len(CODE_OPS)))
    for k, v in CODE_OPS.items(): parts += [hx(k), v]
    return ' '.join(parts)


# ---------------------------------------------------------------- drivers
def run_driver(lines, gen=False, timeout=3600, prefix=None, parallel=True):
    """pipe request lines through the compiled driver (or the interpreted Gen driver); returns answers.
    Stateless requests are spread over up to 16 driver processes (each first receives `prefix`, the tables line)."""
    if not lines:
        return []
    nproc = min(16, os.cpu_count() or 1)
    if parallel and not gen and len(lines) >= 4 and nproc > 1:
        from concurrent.futures import ThreadPoolExecutor
        # contiguous chunks of roughly equal total request size
        total = sum(len(l) for l in lines) + 200 * len(lines)
        chunks, cur, acc = [], [], 0
        for l in lines:
            cur.append(l); acc += len(l) + 200
            if acc >= total / nproc:
                chunks.append(cur); cur, acc = [], 0
        if cur: chunks.append(cur)
        def work(ch):
            pre = [prefix] if prefix else []
            out = run_driver(pre + ch, gen=False, timeout=timeout, parallel=False)
            return out[len(pre):]
        with ThreadPoolExecutor(max_workers=nproc) as ex:
            parts = list(ex.map(work, chunks))
        return [o for part in parts for o in part]
    if prefix:
        return run_driver([prefix] + lines, gen=gen, timeout=timeout, parallel=False)[1:]
    data = ('\n'.join(lines) + '\n').encode()
    if gen:
        cmd = ['lake', 'env', 'lean', '--run', 'GenMain.lean']
    else:
        cmd = [DRIVER]
    p = subprocess.run(cmd, input=data, stdout=subprocess.PIPE, stderr=subprocess.PIPE, cwd=LEAN, timeout=timeout)
    out = p.stdout.decode().split('\n')
    if out and out[-1] == '': out.pop()
    if p.returncode != 0 or len(out) != len(lines):
        raise DriverFailure(f'driver {"gen" if gen else "model"} rc={p.returncode} answered {len(out)}/{len(lines)} lines: '
                            + p.stderr.decode()[-2000:])
    return out


class DriverFailure(Exception):
    pass


# ---------------------------------------------------------------- cases
class Case:
    """one request.  `line` = op + args without prefix.  kinds: which of m (hand model), g (generated code),
    s (spec) answer it.  `spec` may override the spec request: callable(impl_answer) -> (line, expected)."""
    __slots__ = ('line', 'kinds', 'nontrivial', 'tag', 'domain', 'spec', 'setup', 'note', 'model')

    def __init__(self, line, kinds='ms', nontrivial=False, tag='', domain=True, spec=None, setup=None, note=None, model=None):
        self.line = line; self.kinds = kinds; self.nontrivial = nontrivial; self.tag = tag
        self.domain = domain; self.spec = spec; self.setup = setup; self.note = note
        self.model = model     # optional callable(impl_answer) -> (model request line, expected model answer)


class Ctx:
    def __init__(self, prop, tier, seed, scale=1):
        self.prop = prop; self.tier = tier; self.seed = seed; self.scale = scale
        self.rng = random.Random((seed * 1000003) ^ int(hashlib.sha256(prop.encode()).hexdigest()[:8], 16))
        self.thorough = tier == 'thorough'
        self.dist = {}

    def n(self, quick, thorough=None):
        """stream size for this tier, scaled during the failing-input search"""
        base = (thorough if (self.thorough and thorough is not None) else quick)
        return max(1, int(base * self.scale))

    def count(self, key, k=1):
        self.dist[key] = self.dist.get(key, 0) + k


def impl_answer(fn, *a):
    """run the implementation; exceptions are `err` (tags are logged by the caller, not compared)"""
    try:
        r = fn(*a)
    except Exception as ex:   # noqa: the library raises many kinds
        return 'err', type(ex).__name__
    return r, None


# ---------------------------------------------------------------- known findings
def load_known(prop):
    """KNOWN_FINDINGS.txt: `finding: property=C10 match=<regex on the request line> <text>` lines are
    suppressed as KNOWN-FINDING; `fixed:` lines suppress nothing."""
    out = []
    path = os.path.join(VERIF, 'KNOWN_FINDINGS.txt')
    if os.path.exists(path):
        for l in open(path):
            l = l.strip()
            m = re.match(r'finding:\s+property=(\S+)\s+match=(\S+)\s+(.*)', l)
            if m and m.group(1) == prop:
                out.append((re.compile(m.group(2)), m.group(3)))
    return out


def now():
    return time.time()
