"""script trees: generation, line encoding, conversion to the library's nested lists"""
from harness.common import toks_str
from harness import gen as G


def shapes(n):
    """all full binary tree shapes with n leaves, as nested tuples ('L',) / ('T', l, r)"""
    if n == 1:
        return [('L',)]
    out = []
    for k in range(1, n):
        for l in shapes(k):
            for r in shapes(n - k):
                out.append(('T', l, r))
    return out


def fill(shape, leaf_iter, wrap=None):
    """attach leaf scripts (token lists); wrap(rng) decides whether to add a one-element list wrapper"""
    if shape[0] == 'L':
        t = ('L', next(leaf_iter))
    elif shape[0] == 'O':
        t = ('O', fill(shape[1], leaf_iter, wrap))
    else:
        t = ('T', fill(shape[1], leaf_iter, wrap), fill(shape[2], leaf_iter, wrap))
    if wrap and wrap():
        t = ('O', t)
    return t


def line(t):
    if t[0] == 'L': return 'L ' + toks_str(t[1])
    if t[0] == 'O': return 'O ' + line(t[1])
    return 'T ' + line(t[1]) + ' ' + line(t[2])


_SCRIPTS = {}


def to_py(t):
    from bitcoinutils.script import Script
    if t[0] == 'L':
        # equal leaves are the *same* Script object (as when a user puts one script at two positions)
        key = tuple(t[1])
        return _SCRIPTS.setdefault(key, Script(list(t[1])))
    if t[0] == 'O': return [to_py(t[1])]
    return [to_py(t[1]), to_py(t[2])]


def leaves(t):
    if t[0] == 'L': return [t[1]]
    if t[0] == 'O': return leaves(t[1])
    return leaves(t[1]) + leaves(t[2])


def parse(F):
    k = F.next()
    if k == 'L': return ('L', F.toks())
    if k == 'O': return ('O', parse(F))
    if k == 'T':
        l = parse(F); r = parse(F); return ('T', l, r)
    raise ValueError(k)


def random_shape(rng, depth):
    if depth == 0 or rng.random() < 0.3: return ('L',)
    return ('T', random_shape(rng, depth - 1), random_shape(rng, depth - 1))


def leaf_script(rng, big=False):
    r = rng.random()
    if big and r < 0.1:
        return [G.rbytes(rng, rng.choice([252, 253, 65535, 65536, 70000])).hex(), 'OP_DROP', 'OP_1']
    if big and r < 0.3:
        # total encoded script length exactly 251..254 / 65534..65537
        total = rng.choice([251, 252, 253, 254, 65534, 65535, 65536, 65537] + [v for v in G.source_literals() if v >= 80])
        body = total - 2
        ln = body - (2 if body - 2 <= 255 else 3 if body - 3 <= 65535 else 5)
        return [G.rbytes(rng, ln).hex(), 'OP_DROP', 'OP_1']
    if r < 0.6: return [G.rbytes(rng, 32).hex(), 'OP_CHECKSIG']
    if r < 0.8: return ['OP_1']
    return [rng.randrange(1, 1000), 'OP_CHECKSEQUENCEVERIFY', 'OP_DROP', G.rbytes(rng, 32).hex(), 'OP_CHECKSIG']


def scripts_line(s):
    if s is None: return 'N'
    if isinstance(s, bytes): return 'R ' + (s.hex() or '-')
    return 'S ' + line(s)


def scripts_py(s):
    if s is None or isinstance(s, bytes): return s
    return to_py(s)


def parse_scripts(F):
    k = F.next()
    if k == 'N': return None
    if k == 'R': return F.bytes()
    return parse(F)
