"""The three mainnet block fixtures of /repo/tests, sliced into raw transactions by an
independent reader (this file's own wire parser, not the library's)."""
import os, hashlib
from harness.common import REPO

FILES = {'legacy': 'legacy_block.txt', 'v0': 'segwit_v0_block.txt', 'v1': 'segwit_v1_block.txt'}
_cache = {}


def dsha(b): return hashlib.sha256(hashlib.sha256(b).digest()).digest()


def rd_cs(b, o):
    x = b[o]
    if x < 253: return x, o + 1
    if x == 253: return int.from_bytes(b[o + 1:o + 3], 'little'), o + 3
    if x == 254: return int.from_bytes(b[o + 1:o + 5], 'little'), o + 5
    return int.from_bytes(b[o + 1:o + 9], 'little'), o + 9


def parse_tx(b, o):
    """returns (end offset, dict) — fields as raw bytes"""
    start = o
    version = b[o:o + 4]; o += 4
    seg = b[o] == 0 and b[o + 1] == 1
    if seg: o += 2
    nin, o = rd_cs(b, o)
    ins = []
    for _ in range(nin):
        prev = b[o:o + 32]; idx = int.from_bytes(b[o + 32:o + 36], 'little'); o += 36
        n, o = rd_cs(b, o); script = b[o:o + n]; o += n
        seq = b[o:o + 4]; o += 4
        ins.append({'prev': prev, 'index': idx, 'script': script, 'sequence': seq})
    nout, o = rd_cs(b, o)
    outs = []
    for _ in range(nout):
        val = int.from_bytes(b[o:o + 8], 'little'); o += 8
        n, o = rd_cs(b, o); script = b[o:o + n]; o += n
        outs.append({'value': val, 'script': script})
    wits = []
    strip_end = o
    if seg:
        for _ in range(nin):
            k, o = rd_cs(b, o); st = []
            for _ in range(k):
                n, o = rd_cs(b, o); st.append(b[o:o + n]); o += n
            wits.append(st)
    lock = b[o:o + 4]; o += 4
    raw = b[start:o]
    stripped = raw if not seg else version + raw[6:6 + (strip_end - start - 6)] + lock
    return o, {'raw': raw, 'version': version, 'seg': seg, 'ins': ins, 'outs': outs, 'wits': wits, 'locktime': lock,
               'txid': dsha(stripped)[::-1], 'wtxid': dsha(raw)[::-1], 'stripped': stripped}


def block(name):
    if name in _cache: return _cache[name]
    data = bytes.fromhex(open(os.path.join(REPO, 'tests', FILES[name])).read().strip())
    magic = data[0:4]; size = int.from_bytes(data[4:8], 'little'); header = data[8:88]
    n, o = rd_cs(data, 88)
    txs = []
    for _ in range(n):
        o, t = parse_tx(data, o)
        txs.append(t)
    assert o == len(data), (name, o, len(data))
    _cache[name] = {'raw': data, 'magic': magic, 'size': size, 'header': header, 'txs': txs}
    return _cache[name]


def all_txs():
    for name in FILES:
        for i, t in enumerate(block(name)['txs']):
            yield name, i, t


def merkle_root(hashes):
    """Bitcoin merkle root over internal-order 32-byte hashes"""
    if not hashes: return bytes(32)
    lvl = list(hashes)
    while len(lvl) > 1:
        if len(lvl) % 2: lvl.append(lvl[-1])
        lvl = [dsha(lvl[i] + lvl[i + 1]) for i in range(0, len(lvl), 2)]
    return lvl[0]
