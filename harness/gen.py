"""Structured generators shared by the property modules (scripts, transactions).  Every random choice
comes from the ctx PRNG so a run replays exactly."""
from harness.common import hx

PUSH_BOUNDS = [0, 1, 75, 76, 255, 256, 65535, 65536]


def op_names():
    from bitcoinutils.script import OP_CODES
    return [k for k in OP_CODES if k not in ('OP_PUSHDATA1', 'OP_PUSHDATA2', 'OP_PUSHDATA4')]


def rbytes(rng, n):
    """n pseudo-random bytes, cheap for large n"""
    if n <= 64:
        return bytes(rng.getrandbits(8) for _ in range(n))
    head = bytes(rng.getrandbits(8) for _ in range(32))
    return (head * (n // 32 + 1))[:n]


def data_len(rng, big=True):
    r = rng.random()
    if r < 0.55: return rng.randrange(1, 76)
    if r < 0.70: return rng.choice([20, 32, 33, 64, 65, 71, 72, 73])
    if r < 0.80: return rng.choice([0, 1, 75, 76, 77, 252, 253, 254, 255, 256, 257])
    if r < 0.93: return rng.randrange(76, 600)
    if not big: return rng.randrange(76, 600)
    if r < 0.97: return rng.choice([65535, 65536, 65537])
    return rng.randrange(600, 70001)


def token(rng, names, big=True):
    r = rng.random()
    if r < 0.45: return rng.choice(names)
    if r < 0.55: return rng.randrange(0, 17)
    if r < 0.70:
        bits = rng.choice([5, 7, 8, 15, 16, 23, 24, 31, 32, 40, 63])
        k = rng.getrandbits(bits)
        if rng.random() < 0.3: k = rng.choice([17, 127, 128, 255, 256, 32767, 32768, 65535, 65536, 2 ** 31, 2 ** 63])
        return k
    return rbytes(rng, data_len(rng, big)).hex()


def script_tokens(rng, names, maxlen=12, big=True):
    n = rng.choice([0, 1, 1, 2, 2, 3, 4, 5, 6, 8, maxlen])
    return [token(rng, names, big) for _ in range(n)]


def std_script(rng, names):
    """a typical locking/unlocking script or a random one"""
    r = rng.random()
    h20 = rbytes(rng, 20).hex(); h32 = rbytes(rng, 32).hex()
    if r < 0.15: return ['OP_DUP', 'OP_HASH160', h20, 'OP_EQUALVERIFY', 'OP_CHECKSIG']
    if r < 0.25: return ['OP_HASH160', h20, 'OP_EQUAL']
    if r < 0.35: return ['OP_0', h20]
    if r < 0.42: return ['OP_0', h32]
    if r < 0.50: return ['OP_1', h32]
    if r < 0.60: return [rbytes(rng, rng.choice([71, 72, 73])).hex(), rbytes(rng, 33).hex()]
    if r < 0.65: return []
    return script_tokens(rng, names, 8, big=rng.random() < 0.15)


def gen_tx(rng, names, kind=None, max_in=8, max_out=8, min_out=0, big=True):
    """returns a bitcoinutils Transaction built through the object API.
    kind: 'legacy' | 'segwit' | 'mixed' | 'coinbase' | None (random)"""
    from bitcoinutils.transactions import Transaction, TxInput, TxOutput, TxWitnessInput
    from bitcoinutils.script import Script
    kind = kind or rng.choice(['legacy', 'segwit', 'segwit', 'mixed', 'coinbase'])
    def count(mx, mn):
        r = rng.random()
        if r < 0.5: return rng.randrange(mn, min(mx, 3) + 1) if mx >= mn else mn
        return rng.randrange(mn, mx + 1)
    nin = max(1, count(max_in, 1)); nout = count(max_out, min_out)
    ins = []
    for i in range(nin):
        if kind == 'coinbase' and i == 0:
            txid = '00' * 32; idx = rng.choice([0xffffffff, 0xffffffff, 0, 1, rng.randrange(0, 2 ** 32)])
            s = Script([rbytes(rng, rng.choice([2, 8, 40, 100])).hex()])
        else:
            txid = rbytes(rng, 32).hex()
            if txid == '00' * 32: txid = '11' * 32
            idx = rng.choice([0, 1, 2, rng.randrange(0, 2 ** 32), 2 ** 32 - 1, rng.randrange(0, 1000)])
            if kind in ('segwit',) and rng.random() < 0.7: s = Script([])
            else: s = Script(std_script(rng, names))
        seq = rng.choice([b'\xff\xff\xff\xff', b'\xfe\xff\xff\xff', b'\x00\x00\x00\x00', b'\x01\x00\x00\x00', rbytes(rng, 4)])
        ins.append(TxInput(txid, idx, s, seq))
    outs = []
    for _ in range(nout):
        amt = rng.choice([0, 1, 546, 2 ** 63 - 1, rng.randrange(0, 21 * 10 ** 14), rng.randrange(0, 2 ** 63)])
        outs.append(TxOutput(amt, Script(std_script(rng, names))))
    seg = kind in ('segwit', 'mixed') or (kind == 'coinbase' and rng.random() < 0.5)
    wits = []
    if seg:
        for i in range(nin):
            r = rng.random()
            if kind == 'mixed' and r < 0.4: st = []
            elif r < 0.15: st = []
            elif r < 0.6: st = [rbytes(rng, rng.choice([64, 65, 71, 72])).hex(), rbytes(rng, 33).hex()]
            else:
                k = rng.choice([1, 2, 3, 4, 5])
                st = [rbytes(rng, rng.choice([0, 0, 1, 32, 64, 75, 76, 252, 253, 300]) if not (big and rng.random() < 0.02)
                             else rng.choice([65535, 65536, 70000])).hex() for _ in range(k)]
            wits.append(TxWitnessInput(st))
        # force an empty stack next to a non-empty one now and then
        if nin >= 2 and rng.random() < 0.5:
            j = rng.randrange(0, nin - 1)
            wits[j] = TxWitnessInput([]); wits[j + 1] = TxWitnessInput([rbytes(rng, 64).hex()])
    version = rng.choice([b'\x01\x00\x00\x00', b'\x02\x00\x00\x00', b'\x02\x00\x00\x00', rbytes(rng, 4)])
    locktime = rng.choice([b'\x00\x00\x00\x00', b'\x00\x00\x00\x00', rbytes(rng, 4), (500000000).to_bytes(4, 'little')])
    return Transaction(ins, outs, locktime, version, seg, wits)


def is_nontrivial_tx(tx):
    if len(tx.inputs) >= 2 or (tx.has_segwit and any(w.stack for w in tx.witnesses)): return True
    for s in [i.script_sig for i in tx.inputs] + [o.script_pubkey for o in tx.outputs]:
        for t in s.script:
            if isinstance(t, str) and not t.startswith('OP_') and len(t) > 150: return True
    return len(tx.inputs) >= 253 or len(tx.outputs) >= 253


# ---------------------------------------------------------------- in-place mutation of a Transaction through public attributes
def random_mutations(rng, tx, names, n=None):
    """a list of mutation descriptors applicable to `tx` (see apply_mutations)"""
    muts = []
    for _ in range(n if n is not None else rng.choice([1, 1, 2, 3])):
        r = rng.random()
        ni, no = len(tx.inputs) + sum(1 for m in muts if m[0] == 'addin'), len(tx.outputs) + sum(1 for m in muts if m[0] == 'addout')
        nw = len(tx.witnesses)
        # in-place edits that keep every count the same (a placeholder signature replaced by the real one, a token appended)
        if nw and rng.random() < 0.3:
            i = rng.randrange(nw); st = tx.witnesses[i].stack
            k = rng.random()
            if st and k < 0.5: muts.append(('wit_item', i, rng.randrange(len(st)), rbytes(rng, rng.choice([0, 1, 20, 33, 64, 65, 71, 72, 73, 80])).hex()))
            elif k < 0.75: muts.append(('wit_push', i, rbytes(rng, rng.randrange(0, 80)).hex()))
            else: muts.append(('wit_set', i, [rbytes(rng, rng.randrange(0, 80)).hex() for _ in range(len(st))]))
            continue
        if rng.random() < 0.15:
            if len(tx.outputs) and rng.random() < 0.5: muts.append(('spk_app', rng.randrange(len(tx.outputs)), token(rng, names, big=False)))
            else: muts.append(('sig_app', rng.randrange(len(tx.inputs)), token(rng, names, big=False)))
            continue
        if r < 0.2: muts.append(('seq', rng.randrange(ni), rbytes(rng, 4).hex()))
        elif r < 0.4 and no: muts.append(('amt', rng.randrange(no), rng.randrange(0, 21 * 10 ** 14)))
        elif r < 0.55: muts.append(('addout', rng.randrange(0, 10 ** 12), std_script(rng, names)))
        elif r < 0.65: muts.append(('addin', rbytes(rng, 32).hex(), rng.randrange(0, 5)))
        elif r < 0.8: muts.append(('sig', rng.randrange(ni), std_script(rng, names)))
        elif r < 0.9: muts.append(('lock', rbytes(rng, 4).hex()))
        elif no: muts.append(('spk', rng.randrange(no), std_script(rng, names)))
        else: muts.append(('lock', rbytes(rng, 4).hex()))
    return muts


def apply_mutations(tx, muts):
    from bitcoinutils.transactions import TxInput, TxOutput, TxWitnessInput
    from bitcoinutils.script import Script
    for m in muts:
        if m[0] == 'seq': tx.inputs[m[1]].sequence = bytes.fromhex(m[2])
        elif m[0] == 'amt': tx.outputs[m[1]].amount = m[2]
        elif m[0] == 'addout': tx.outputs.append(TxOutput(m[1], Script(list(m[2]))))
        elif m[0] == 'addin':
            tx.inputs.append(TxInput(m[1], m[2]))
            if tx.has_segwit: tx.witnesses.append(TxWitnessInput([]))
        elif m[0] == 'sig': tx.inputs[m[1]].script_sig = Script(list(m[2]))
        elif m[0] == 'lock': tx.locktime = bytes.fromhex(m[1])
        elif m[0] == 'spk': tx.outputs[m[1]].script_pubkey = Script(list(m[2]))
        elif m[0] == 'wit_item': tx.witnesses[m[1]].stack[m[2]] = m[3]
        elif m[0] == 'wit_push': tx.witnesses[m[1]].stack.append(m[2])
        elif m[0] == 'wit_set': tx.witnesses[m[1]] = TxWitnessInput(list(m[2]))
        elif m[0] == 'sig_app': tx.inputs[m[1]].script_sig.script.append(m[2])
        elif m[0] == 'spk_app': tx.outputs[m[1]].script_pubkey.script.append(m[2])


def muts_line(muts):
    from harness.common import toks_str
    out = [str(len(muts))]
    for m in muts:
        if m[0] in ('addout', 'sig', 'spk'): out += [m[0], str(m[1]), toks_str(m[2])]
        elif m[0] == 'wit_item': out += [m[0], str(m[1]), str(m[2]), m[3] or '-']
        elif m[0] == 'wit_push': out += [m[0], str(m[1]), m[2] or '-']
        elif m[0] == 'wit_set': out += [m[0], str(m[1]), str(len(m[2]))] + [x or '-' for x in m[2]]
        elif m[0] in ('sig_app', 'spk_app'):
            from harness.common import tok_str
            out += [m[0], str(m[1]), tok_str(m[2])]
        else: out += [m[0]] + [str(x) for x in m[1:]]
    return ' '.join(out)


def parse_muts(F):
    muts = []
    for _ in range(F.nat()):
        k = F.next()
        if k == 'seq': muts.append((k, F.nat(), F.next()))
        elif k == 'amt': muts.append((k, F.nat(), F.int()))
        elif k == 'addout': muts.append((k, F.int(), F.toks()))
        elif k == 'addin': muts.append((k, F.next(), F.nat()))
        elif k in ('sig', 'spk'): muts.append((k, F.nat(), F.toks()))
        elif k == 'lock': muts.append((k, F.next()))
        elif k == 'wit_item': muts.append((k, F.nat(), F.nat(), F.bytes().hex()))
        elif k == 'wit_push': muts.append((k, F.nat(), F.bytes().hex()))
        elif k == 'wit_set': muts.append((k, F.nat(), [b.hex() for b in F.list(F.bytes)]))
        elif k in ('sig_app', 'spk_app'): muts.append((k, F.nat(), F.tok()))
        else: raise ValueError(k)
    return muts


def exercise(tx):
    """call every method that might cache something on the object (results discarded)"""
    from bitcoinutils.script import Script
    code = Script(['OP_1'])
    for f in (lambda: tx.get_txid(), lambda: tx.get_wtxid(), lambda: tx.get_size(), lambda: tx.get_vsize(), lambda: tx.to_hex(),
              lambda: tx.get_transaction_digest(0, code, 1), lambda: tx.get_transaction_segwit_digest(0, code, 1000, 1),
              lambda: tx.get_transaction_segwit_digest(0, code, 1000, 3), lambda: tx.get_transaction_segwit_digest(0, code, 1000, 0x81),
              lambda: tx.get_transaction_taproot_digest(0, [Script(['OP_1'])] * len(tx.inputs), [1000] * len(tx.inputs), 0, sighash=0),
              lambda: tx.get_transaction_taproot_digest(0, [Script(['OP_1'])] * len(tx.inputs), [1000] * len(tx.inputs), 0, sighash=2)):
        try: f()
        except Exception: pass


# ---------------------------------------------------------------- literal-directed boundaries
_LITS = None


def source_literals(limit=70001):
    """every integer literal that appears in a comparison (or as a slice/shift bound) anywhere in the *current*
    bitcoinutils sources, with its neighbours: candidate lengths / counts / values.  An edited or newly introduced
    comparison constant is thereby probed on both sides without anyone having to anticipate it."""
    global _LITS
    if _LITS is None:
        import ast, glob, os
        from harness.common import REPO
        vals = set()
        for f in glob.glob(os.path.join(REPO, 'bitcoinutils', '*.py')):
            try:
                tree = ast.parse(open(f).read())
            except SyntaxError:
                continue
            for node in ast.walk(tree):
                if isinstance(node, ast.Compare):
                    for c in [node.left] + list(node.comparators):
                        for k in ast.walk(c):
                            if isinstance(k, ast.Constant) and isinstance(k.value, int) and not isinstance(k.value, bool):
                                vals.add(k.value)
        out = set()
        for v in vals:
            for d in (-1, 0, 1):
                if 0 <= v + d: out.add(v + d)
        _LITS = sorted(out)
    return [v for v in _LITS if v < limit]


_TELLING = None


def telling_secrets():
    """small secret exponents whose public point has a telling byte pattern: x or y with one or two leading zero bytes, x or y
    ending in 0x00, x starting with a SEC prefix byte (02/03/04) or a version byte (0x80, 0xef, 0x6f, 0x05, 0xc4).  Found by
    scanning d = 2, 3, ... with libsecp256k1 (deterministic).  -> list of (kind, d)"""
    global _TELLING
    if _TELLING is not None: return _TELLING
    import coincurve
    want = {'x00': 3, 'y00': 3, 'x0000': 1, 'y0000': 1, 'x..00': 2, 'y..00': 2,
            'x02': 1, 'x03': 1, 'x04': 1, 'x80': 1, 'xef': 1, 'x6f': 1, 'x05': 1, 'xc4': 1}
    out = []
    d = 1
    while want and d < 200000:
        d += 1
        P = coincurve.PrivateKey(d.to_bytes(32, 'big')).public_key.format(compressed=False)
        x, y = P[1:33], P[33:]
        kinds = []
        if x[0] == 0: kinds.append('x00')
        if y[0] == 0: kinds.append('y00')
        if x[:2] == b'\0\0': kinds.append('x0000')
        if y[:2] == b'\0\0': kinds.append('y0000')
        if x[-1] == 0: kinds.append('x..00')
        if y[-1] == 0: kinds.append('y..00')
        for b, nm in ((2, 'x02'), (3, 'x03'), (4, 'x04'), (0x80, 'x80'), (0xef, 'xef'), (0x6f, 'x6f'), (5, 'x05'), (0xc4, 'xc4')):
            if x[0] == b: kinds.append(nm)
        for k in kinds:
            if k in want:
                out.append((k, d)); want[k] -= 1
                if want[k] == 0: del want[k]
    _TELLING = out
    return out
