#!/bin/sh
# Build the Lean development (proof library + compiled driver) from files on disk only.
set -e
cd "$(dirname "$0")"
PYTHONDONTWRITEBYTECODE=1 /venv/bin/python gen/py2lean.py /repo lean/BU/Gen
cd lean && lake build BU budriver
