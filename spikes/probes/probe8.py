# quick extra probes to pin a few semantics the design relies on
from bitcoinutils.setup import setup
setup('testnet')
from bitcoinutils.script import Script
from bitcoinutils.transactions import *
def t(name,f):
    try: print(name,'->',f())
    except Exception as e: print(name,'EXC',type(e).__name__,e)
t('bare PUSHDATA1 roundtrip', lambda: (Script(['OP_PUSHDATA1']).to_bytes().hex(), Script.from_raw('4c').script, Script.from_raw('4c').to_bytes().hex()))
t('alias names', lambda: (Script.from_raw(Script(['OP_FALSE','OP_TRUE','OP_NOP2','OP_NOP3']).to_hex()).script))
t('legacy digest null txid other input', lambda: Transaction([TxInput('00'*32,0),TxInput('aa'*32,1)],[TxOutput(1,Script([]))]).get_transaction_digest(1,Script(['OP_1'])).hex()[:8])
t('single out of range', lambda: Transaction([TxInput('bb'*32,0),TxInput('aa'*32,1)],[TxOutput(1,Script([]))]).get_transaction_digest(1,Script(['OP_1']),3).hex()[:8])
t('neg amount', lambda: TxOutput(-1,Script([])).to_bytes().hex())
t('amount 2^63', lambda: TxOutput(2**63,Script([])).to_bytes().hex())
t('seg tx zero inputs', lambda: Transaction.from_raw(Transaction([], [TxOutput(1,Script([])),TxOutput(1,Script([]))]).to_hex()).to_hex())
t('int token 17 reparse', lambda: Script.from_raw(Script([17, 1000, 2**31]).to_hex()).script)
t('uppercase hex token', lambda: Script(['AABB']).to_bytes().hex())
