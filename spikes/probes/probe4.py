import hashlib, struct, traceback, base64
from bitcoinutils.setup import setup
setup('testnet')
from bitcoinutils.transactions import *
from bitcoinutils.script import Script
from bitcoinutils.keys import *
from bitcoinutils.utils import *
from bitcoinutils.constants import *
import base58check
def t(name, f):
    try: print(name, '->', f())
    except Exception as e: print(name, 'EXC', type(e).__name__, e)
def b58c(raw): 
    return base58check.b58encode(raw+hashlib.sha256(hashlib.sha256(raw).digest()).digest()[:4]).decode()
# C10
h=bytes(range(20))
a=P2pkhAddress(hash160=h.hex())
t('p2pkh str', lambda: (a.to_string(), a.to_string()==b58c(b'\x6f'+h)))
t('p2pkh decode', lambda: P2pkhAddress(address=a.to_string()).to_hash160()==h.hex())
t('19-byte payload', lambda: P2pkhAddress(address=b58c(b'\x6f'+h[:19])).to_hash160())
t('21-byte payload', lambda: P2pkhAddress(address=b58c(b'\x6f'+h+b'\x01')).to_hash160())
t('p2sh version in p2pkh', lambda: P2pkhAddress(address=b58c(b'\xc4'+h)).to_hash160())
t('mainnet version', lambda: P2pkhAddress(address=b58c(b'\x00'+h)).to_hash160())
t('zero hash', lambda: (P2pkhAddress(hash160='00'*20).to_string(), P2pkhAddress(address=P2pkhAddress(hash160='00'*20).to_string()).to_hash160()))
setup('mainnet')
t('zero hash mainnet', lambda: (P2pkhAddress(hash160='00'*20).to_string(), len(P2pkhAddress(hash160='00'*20).to_string()), P2pkhAddress(address=P2pkhAddress(hash160='00'*20).to_string()).to_hash160()))
setup('testnet')
t('hash160 uppercase/odd', lambda: P2pkhAddress(hash160='0x'+'ab'*19).to_string())
t('hash160 with spaces', lambda: P2pkhAddress(hash160=' '+'ab'*19+' ').to_string())
# C11
prog20='ab'*20; prog32='cd'*32
w=P2wpkhAddress(witness_program=prog20)
t('p2wpkh', lambda: (w.to_string(), P2wpkhAddress(address=w.to_string()).to_witness_program()==prog20))
t('p2wsh from program', lambda: P2wshAddress(witness_program=prog32).to_string())
ws=P2wshAddress(script=Script(['OP_1']))
t('p2wsh from address', lambda: P2wshAddress(address=ws.to_string()).to_witness_program()==ws.to_witness_program())
tr=P2trAddress(witness_program=prog32)
t('p2tr', lambda: (tr.to_string(), P2trAddress(address=tr.to_string()).to_witness_program()==prog32))
t('p2wpkh from p2wsh addr', lambda: P2wpkhAddress(address=ws.to_string()).to_witness_program())
t('p2wpkh bad program len', lambda: P2wpkhAddress(witness_program='ab'*5).to_string())
t('p2tr from v0 addr', lambda: P2trAddress(address=w.to_string()).to_witness_program())
t('is_bech32 valid', lambda: (is_address_bech32(w.to_string()), is_address_bech32(tr.to_string()), is_address_bech32(a.to_string())))
t('is_bech32 upper', lambda: is_address_bech32(w.to_string().upper()))
setup('regtest')
w2=P2wpkhAddress(witness_program=prog20)
t('regtest addr', lambda: (w2.to_string(), is_address_bech32(w2.to_string())))
setup('testnet')
# C14
k=PrivateKey(secret_exponent=999)
for msg in ['hello','', 'héllo wörld ✓', 'a'*252, 'a'*253, 'é'*200]:
    def f():
        sig=k.sign_message(msg)
        addr=k.get_public_key().get_address().to_string()
        ok=PublicKey.verify_message(addr,sig,msg)
        mm=add_magic_prefix(msg)
        core=b"\x18Bitcoin Signed Message:\n"+encode_varint(len(msg.encode()))+msg.encode()
        return ok, mm==core
    t('msg %r'%msg[:10], f)
sig=k.sign_message('hello')
raw=bytearray(base64.b64decode(sig))
for hdr in [26,27,35,36]:
    raw2=bytes([hdr])+bytes(raw[1:])
    t('header %d'%hdr, lambda: PublicKey.verify_message(k.get_public_key().get_address().to_string(), base64.b64encode(raw2).decode(), 'hello'))
raw3=bytes(raw[:1])+b'\0'*32+bytes(raw[33:])
t('r=0', lambda: PublicKey.verify_message(k.get_public_key().get_address().to_string(), base64.b64encode(raw3).decode(), 'hello'))
raw3=bytes(raw[:33])+b'\0'*32
t('s=0', lambda: PublicKey.verify_message(k.get_public_key().get_address().to_string(), base64.b64encode(raw3).decode(), 'hello'))
raw3=bytes(raw[:1])+b'\xff'*32+bytes(raw[33:])
t('r=ff', lambda: PublicKey.verify_message(k.get_public_key().get_address().to_string(), base64.b64encode(raw3).decode(), 'hello'))
t('uncompressed sign', lambda: PublicKey.verify_message(k.get_public_key().get_address(compressed=False).to_string(), k.sign_message('hello', compressed=False), 'hello'))
t('recover', lambda: PublicKey(message='hello', signature=base64.b64decode(sig)).to_hex()==k.get_public_key().to_hex())
t('recover uncompressed sig', lambda: PublicKey(message='hello', signature=base64.b64decode(k.sign_message('hello', compressed=False))).to_hex()==k.get_public_key().to_hex())
# C17
from decimal import Decimal
for v in [0.29, 0.1+0.2, 1.1, 20999999.9769, Decimal('0.29'), 1, 21000000, 0.00000001, 20999999.99999999]:
    t('sat %r'%v, lambda: to_satoshis(v))
t('varint -1', lambda: encode_varint(-1))
t('varint 2^64', lambda: encode_varint(2**64))
t('varint 2^64-1', lambda: encode_varint(2**64-1).hex())
t('parse trunc', lambda: parse_compact_size(b'\xfd\x01'))
t('vi trunc', lambda: vi_to_int(b'\xfd\x01'))
t('parse nonminimal', lambda: parse_compact_size(b'\xfd\x01\x00'))
# C18
t('seq 0', lambda: Sequence(TYPE_RELATIVE_TIMELOCK,0))
t('seq 65536', lambda: Sequence(TYPE_RELATIVE_TIMELOCK,65536))
t('seq 65535 time', lambda: (Sequence(TYPE_RELATIVE_TIMELOCK,65535,False).for_input_sequence().hex(), Sequence(TYPE_RELATIVE_TIMELOCK,65535,False).for_script()))
t('abs', lambda: (Sequence(TYPE_ABSOLUTE_TIMELOCK,500).for_input_sequence().hex(), Sequence(TYPE_ABSOLUTE_TIMELOCK,500).for_script()))
t('lock', lambda: (Locktime(500000000).for_transaction().hex(), ))
t('lock 2^32', lambda: (Locktime(2**32).for_transaction().hex(), ))
