import hashlib, collections
from bitcoinutils.setup import setup
setup('mainnet')
from bitcoinutils.transactions import *
from bitcoinutils.script import Script
from bitcoinutils.utils import *
from bitcoinutils.ripemd160 import ripemd160
from ecdsa.util import sigencode_der
import coincurve
N=Secp256k1Params._order
def lax(sig):
    # sig without hashtype; lax DER parse
    assert sig[0]==0x30
    i=2
    assert sig[i]==2; lr=sig[i+1]; r=int.from_bytes(sig[i+2:i+2+lr],'big'); i+=2+lr
    assert sig[i]==2; ls=sig[i+1]; s=int.from_bytes(sig[i+2:i+2+ls],'big')
    return r,s
stats=collections.Counter()
raw = bytes.fromhex(open('/repo/tests/legacy_block.txt').read().strip())
off = 88; n,s = parse_compact_size(raw[88:]); off+=s
for i in range(n):
    L = get_transaction_length(raw[off:]); t=Transaction.from_raw(raw[off:off+L].hex()); off+=L
    if i==0: continue
    for idx,inp in enumerate(t.inputs):
        ss=inp.script_sig.script
        if len(ss)==2 and len(ss[1]) in (66,130) and ss[0][:2]=='30':
            sig=bytes.fromhex(ss[0]); pub=bytes.fromhex(ss[1]); ht=sig[-1]
            code=Script(['OP_DUP','OP_HASH160',ripemd160(hashlib.sha256(pub).digest()).hex(),'OP_EQUALVERIFY','OP_CHECKSIG'])
            d=t.get_transaction_digest(idx,code,ht)
            r,s_=lax(sig[:-1]); hi=s_>N//2
            if hi: s_=N-s_
            ok=coincurve.PublicKey(pub).verify(sigencode_der(r,s_,N), d, hasher=None)
            stats[(ht,hi,ok)]+=1
print(stats)
