import hashlib, struct, traceback
from bitcoinutils.setup import setup
setup('testnet')
from bitcoinutils.transactions import *
from bitcoinutils.script import Script
from bitcoinutils.keys import *
from bitcoinutils.utils import *
from bitcoinutils.constants import *
def t(name, f):
    try: print(name, '->', f())
    except Exception as e: print(name, 'EXC', type(e).__name__, e)
txid='aa'*32
def mk(nin=1,nout=1,outlen=25):
    ins=[TxInput(txid,i) for i in range(nin)]
    outs=[TxOutput(1000+i, Script(['bb'*outlen])) for i in range(nout)]
    return Transaction(ins,outs,has_segwit=True)
tx=mk()
for L in [100,252,253,255,256,300]:
    sc=Script(['cc'*L])
    t('segwit digest scriptcode len %d'%len(sc.to_bytes()), lambda: tx.get_transaction_segwit_digest(0, sc, 5000).hex()[:16])
for L in [240,250,251,252,253,300]:
    tx2=mk(outlen=L)
    t('segwit digest outscript len %d'%len(tx2.outputs[0].script_pubkey.to_bytes()), lambda: tx2.get_transaction_segwit_digest(0, Script(['OP_1']), 5000).hex()[:16])
    t('taproot digest outscript', lambda: tx2.get_transaction_taproot_digest(0, [Script(['OP_1','aa'*32])],[5000]).hex()[:16])
for L in [250,251,253,300]:
    t('taproot spk len %d'%L, lambda: tx.get_transaction_taproot_digest(0, [Script(['dd'*L])],[5000]).hex()[:16])
# C16 vsize
for n in [0,1,127,128,252,253,300]:
    txw=Transaction([TxInput(txid,0)],[TxOutput(1,Script(['OP_1']))],has_segwit=True,witnesses=[TxWitnessInput(['aa']*n)])
    full=len(txw.to_bytes(True)); stripped=len(txw.to_bytes(False))
    exp=-(-(3*stripped+full)//4)
    t('vsize n=%d exp=%d'%(n,exp), lambda: txw.get_vsize())
# C09
t('secret_exponent=0', lambda: PrivateKey(secret_exponent=0).to_bytes().hex())
t('b=empty', lambda: PrivateKey(b=b'').to_bytes().hex()[:8])
t('b=zero32', lambda: PrivateKey(b=b'\0'*32).to_bytes().hex()[:8])
n=Secp256k1Params._order
t('secret n', lambda: PrivateKey(secret_exponent=n).to_bytes().hex()[:8])
t('secret n+1', lambda: PrivateKey(secret_exponent=n+1).to_bytes().hex()[:8])
k=PrivateKey(secret_exponent=12345)
pub=k.get_public_key()
xo=pub.to_x_only_hex()
t('xonly parse', lambda: (PublicKey(xo).to_x_only_hex()==xo, PublicKey(xo).to_x_only_hex(), xo))
t('compressed parse', lambda: PublicKey(pub.to_hex()).to_hex(False)==pub.to_hex(False))
t('offcurve compressed', lambda: PublicKey('02'+'00'*31+'05').to_hex())
t('offcurve uncompressed', lambda: PublicKey('04'+'00'*31+'05'+'00'*31+'07').to_hex())
t('prefix 05', lambda: PublicKey('05'+pub.to_hex()[2:]).to_hex())
t('uncompressed with prefix 07', lambda: PublicKey('07'+pub.to_hex(False)[2:]).to_hex())
# wif
w=k.to_wif()
t('wif roundtrip', lambda: PrivateKey(wif=w).to_bytes()==k.to_bytes())
setup('mainnet')
t('wif wrong net', lambda: PrivateKey(wif=w).to_bytes().hex()[:8])
setup('testnet')
# wif with bad compression flag
import base58check
raw=b'\xef'+k.to_bytes()+b'\x02'
chk=hashlib.sha256(hashlib.sha256(raw).digest()).digest()[:4]
t('wif compression flag 02', lambda: PrivateKey(wif=base58check.b58encode(raw+chk).decode()).to_bytes()==k.to_bytes())
raw=b'\xef'+k.to_bytes()[:31]
chk=hashlib.sha256(hashlib.sha256(raw).digest()).digest()[:4]
t('wif 31 bytes', lambda: PrivateKey(wif=base58check.b58encode(raw+chk).decode()).to_bytes().hex())
raw=b'\xef'+k.to_bytes()+b'\x01\x01'
chk=hashlib.sha256(hashlib.sha256(raw).digest()).digest()[:4]
t('wif 34 bytes', lambda: PrivateKey(wif=base58check.b58encode(raw+chk).decode()).to_bytes().hex())
