import hashlib, random, itertools
from bitcoinutils.setup import setup
setup('testnet')
from bitcoinutils.transactions import *
from bitcoinutils.script import Script
from bitcoinutils.keys import *
from bitcoinutils.utils import *
from bitcoinutils import schnorr
import coincurve
def th(tag,b):
    t=hashlib.sha256(tag.encode()).digest(); return hashlib.sha256(t+t+b).digest()
def cs(n):
    return bytes([n]) if n<253 else b'\xfd'+n.to_bytes(2,'little') if n<65536 else b'\xfe'+n.to_bytes(4,'little')
def leafh(s): b=s.to_bytes(); return th('TapLeaf', b'\xc0'+cs(len(b))+b)
def root(t):
    if not isinstance(t,list): return leafh(t)
    if len(t)==1: return root(t[0])
    a,b=root(t[0]),root(t[1]); 
    if b<a: a,b=b,a
    return th('TapBranch',a+b)
def leaves(t):
    if not isinstance(t,list): return [t]
    return [x for c in t for x in leaves(c)]
def shapes(n, mk):
    # all full binary trees with n leaves; leaves created by mk()
    if n==1:
        yield mk(); return
    for k in range(1,n):
        for l in shapes(k,mk):
            for r in shapes(n-k,mk):
                yield [l,r]
def verify_cb(cb, script, prog):
    # BIP341 script path verification
    p=cb[1:33]; k=leafh(script)
    m=(len(cb)-33)//32
    for j in range(m):
        e=cb[33+32*j:65+32*j]
        k=th('TapBranch', k+e) if k<e else th('TapBranch', e+k)
    t=int.from_bytes(th('TapTweak',p+k),'big')
    P=schnorr.lift_x(int.from_bytes(p,'big'))
    Q=schnorr.point_add(P, schnorr.point_mul(schnorr.G,t))
    return Q[0].to_bytes(32,'big')==prog and (cb[0]&1)==(Q[1]&1)
rnd=random.Random(7)
n_=Secp256k1Params._order
ctr=[0]
def mk():
    ctr[0]+=1
    return Script(['%02x'%(ctr[0]%256)*rnd.choice([1,5,33,80]), 'OP_CHECKSIG'])
bad=0; tot=0; par={0:0,1:0}
for nl in range(1,6):
    for sh in shapes(nl, mk):
        tree = sh if isinstance(sh,list) else [sh]
        for wrap in (0,1):
            tr = [tree] if wrap else tree
            k=PrivateKey(secret_exponent=rnd.randrange(1,n_)); pub=k.get_public_key()
            addr=pub.get_taproot_address(tr)
            prog=bytes.fromhex(addr.to_witness_program())
            # reference program
            px=bytes.fromhex(pub.to_x_only_hex()); r=root(tr)
            t=int.from_bytes(th('TapTweak',px+r),'big')
            Q=schnorr.point_add(schnorr.lift_x(int.from_bytes(px,'big')), schnorr.point_mul(schnorr.G,t))
            if Q[0].to_bytes(32,'big')!=prog or addr.is_odd()!=bool(Q[1]&1): bad+=1; print('ADDR BAD',tr)
            par[Q[1]&1]+=1
            ls=leaves(tr)
            for i,l in enumerate(ls):
                tot+=1
                cb=ControlBlock(pub,tr,i,is_odd=addr.is_odd()).to_bytes()
                if not verify_cb(cb,l,prog): bad+=1; print('CB BAD', nl, i, tr)
            # key path sig
            tx=Transaction([TxInput('aa'*32,0)],[TxOutput(5,Script(['OP_1']))],has_segwit=True)
            spk=addr.to_script_pub_key()
            for shh in [0,1,0x83]:
                sig=bytes.fromhex(k.sign_taproot_input(tx,0,[spk],[10],False,tapleaf_scripts=tr,sighash=shh))
                dg=tx.get_transaction_taproot_digest(0,[spk],[10],0,sighash=shh)
                ok=coincurve.PublicKeyXOnly(prog).verify(sig[:64],dg)
                if not ok or (len(sig)!=(64 if shh==0 else 65)): bad+=1; print('SIG BAD')
print('tot cb',tot,'bad',bad,par)
# dup leaves
A=Script(['OP_1']); 
tr=[[A,A],A]
k=PrivateKey(secret_exponent=5); pub=k.get_public_key(); addr=pub.get_taproot_address(tr); prog=bytes.fromhex(addr.to_witness_program())
for i in range(3):
    print('dup',i,verify_cb(ControlBlock(pub,tr,i,is_odd=addr.is_odd()).to_bytes(),A,prog))
# raw root bytes
addr=pub.get_taproot_address(b'\x11'*32); print('raw root', addr.to_witness_program()[:8])
# single script not in list
addr=pub.get_taproot_address(A); print('single', addr.to_witness_program()[:8], root(A).hex()[:8])
try: print(ControlBlock(pub,A,0,is_odd=addr.is_odd()).to_bytes().hex()[:10])
except Exception as e: print('CB single EXC',e)
