import hashlib, struct, traceback, base64, random
from bitcoinutils.setup import setup
setup('testnet')
from bitcoinutils.transactions import *
from bitcoinutils.script import Script
from bitcoinutils.keys import *
from bitcoinutils.utils import *
from bitcoinutils.constants import *
import coincurve
rnd=random.Random(1)
n=Secp256k1Params._order
# recovery ordering
bad=0; tot=0; none=0
for i in range(300):
    k=PrivateKey(secret_exponent=rnd.randrange(1,n))
    msg='m%d'%i
    sig=k.sign_message(msg)
    if sig is None: none+=1; continue
    tot+=1
    try:
        rec=PublicKey(message=msg, signature=base64.b64decode(sig)).to_hex()
    except Exception as e:
        rec='EXC '+repr(e)
    if rec!=k.get_public_key().to_hex(): bad+=1
print('recovery mismatches', bad, 'of', tot, 'none', none)
# C06: DER strictness over many sigs
def is_strict_der(sig):
    # Bitcoin Core IsValidSignatureEncoding (sig incl hashtype)
    if len(sig)<9 or len(sig)>73: return False
    if sig[0]!=0x30: return False
    if sig[1]!=len(sig)-3: return False
    lenR=sig[3]
    if 5+lenR>=len(sig): return False
    lenS=sig[5+lenR]
    if lenR+lenS+7!=len(sig): return False
    if sig[2]!=0x02: return False
    if lenR==0: return False
    if sig[4]&0x80: return False
    if lenR>1 and sig[4]==0 and not (sig[5]&0x80): return False
    if sig[lenR+4]!=0x02: return False
    if lenS==0: return False
    if sig[lenR+6]&0x80: return False
    if lenS>1 and sig[lenR+6]==0 and not (sig[lenR+7]&0x80): return False
    return True
k=PrivateKey(secret_exponent=424242)
pub=coincurve.PublicKey(bytes.fromhex(k.get_public_key().to_hex()))
cnt=0; nonstrict=0; highs=0; badverify=0; lens={}
for i in range(3000):
    d=hashlib.sha256(b'd%d'%i).digest()
    s=bytes.fromhex(k._sign_input(d, 1))
    cnt+=1
    lens[len(s)]=lens.get(len(s),0)+1
    if not is_strict_der(s): nonstrict+=1; ex=s.hex()
    lr=s[3]; S=int.from_bytes(s[6+lr:-1],'big')
    if S>n//2: highs+=1
    try:
        if not pub.verify(s[:-1], d, hasher=None): badverify+=1
    except Exception as e: badverify+=1
print('sigs',cnt,'nonstrict',nonstrict,'highS',highs,'badverify',badverify,lens)
if nonstrict: print(ex)
