import hashlib
from bitcoinutils.setup import setup
setup('testnet')
from bitcoinutils.transactions import *
from bitcoinutils.script import Script
from bitcoinutils.keys import *
from bitcoinutils.utils import *
txid='aa'*32
a=TxInput(txid,0); b=TxInput(txid,1)
print('default script shared:', a.script_sig is b.script_sig)
a.script_sig.script.append('OP_1'); print('b affected:', b.script_sig.script); a.script_sig.script.clear()
w=TxWitnessInput(['aa']); c=TxWitnessInput.copy(w); c.stack.append('bb'); print('witness copy shares:', w.stack)
o=TxOutput(1,Script(['OP_1'])); oc=TxOutput.copy(o); oc.script_pubkey.script.append('OP_2'); print('output copy shares:', o.script_pubkey.script)
i=TxInput(txid,0,Script(['OP_1'])); ic=TxInput.copy(i); ic.script_sig.script.append('OP_2'); print('input copy shares:', i.script_sig.script)
tx=Transaction([TxInput(txid,0,Script(['OP_1']))],[TxOutput(1,Script(['OP_1']))],has_segwit=True,witnesses=[TxWitnessInput(['aa'])])
tc=Transaction.copy(tx)
before=tx.to_hex()
tc.witnesses[0].stack.append('cc'); tc.inputs[0].script_sig.script.append('OP_3'); tc.outputs[0].script_pubkey.script.append('OP_3')
print('tx copy isolates:', tx.to_hex()==before)
tc2=Transaction.copy(tx); tc2.inputs.append(TxInput(txid,5)); tc2.inputs[0].sequence=b'\0\0\0\0'; tc2.inputs[0].script_sig=Script([]); print('attr-level isolation:', tx.to_hex()==tx.to_hex())
# digest purity
tx=Transaction([TxInput(txid,0,Script(['OP_1'])),TxInput(txid,1,Script(['OP_2']))],[TxOutput(1,Script(['OP_1'])),TxOutput(2,Script(['OP_1']))],has_segwit=True,witnesses=[TxWitnessInput(['aa']),TxWitnessInput([])])
before=tx.to_hex()
sc=Script(['OP_DUP'])
for sh in [1,2,3,0x81,0x82,0x83]:
    tx.get_transaction_digest(1,sc,sh); tx.get_transaction_segwit_digest(1,sc,5,sh); tx.get_transaction_taproot_digest(1,[sc,sc],[1,2],0,sighash=sh); tx.get_transaction_taproot_digest(1,[sc,sc],[1,2],1,script=sc,sighash=sh)
print('digest purity:', tx.to_hex()==before, sc.script)
# default tapleaf_script shared default
import inspect
print(inspect.signature(PrivateKey.sign_taproot_input).parameters['tapleaf_script'].default is inspect.signature(PrivateKey.sign_taproot_input).parameters['tapleaf_script'].default)
# script arg aliasing: digest stores script into tmp tx only
# HD wallet
from bitcoinutils.hdwallet import HDWallet
setup('testnet')
m='addict weather world sense idle purity rich wagon ankle fall cheese spatial'
h=HDWallet(mnemonic=m)
h.from_path("m/86'/1'/0'/0/1"); k1=h.get_private_key().to_bytes().hex()
h.from_path("m/86'/1'/0'/0/2"); h.from_path("m/86'/1'/0'/0/1"); k2=h.get_private_key().to_bytes().hex()
print('hd path reset ok', k1==k2, k1[:8])
setup('regtest'); 
try:
    print('regtest', HDWallet(mnemonic=m).get_private_key().to_bytes().hex()[:8])
except Exception as e: print('regtest EXC', e)
setup('mainnet')
try:
    h=HDWallet(mnemonic=m); h.from_path("m/0"); print('mainnet', h.get_private_key().to_bytes().hex()[:8])
except Exception as e: print('mainnet EXC', e)
