import sys, hashlib, io, contextlib, struct
from bitcoinutils.setup import setup
setup('mainnet')
from bitcoinutils.transactions import *
from bitcoinutils.script import Script, CODE_OPS
from bitcoinutils.block import Block
from bitcoinutils.utils import *
def dsha(b): return hashlib.sha256(hashlib.sha256(b).digest()).digest()
def merkle(hs):
    hs=list(hs)
    while len(hs)>1:
        if len(hs)%2: hs.append(hs[-1])
        hs=[dsha(hs[i]+hs[i+1]) for i in range(0,len(hs),2)]
    return hs[0]
for name in ['legacy_block','segwit_v0_block','segwit_v1_block']:
    raw = bytes.fromhex(open('/repo/tests/%s.txt'%name).read().strip())
    f=io.StringIO()
    with contextlib.redirect_stdout(f):
        blk = Block.from_raw(raw)
    print(name, len(raw), 'count', blk.transaction_count, 'parsed', len(blk.transactions), 'printed', repr(f.getvalue()[:100]))
    # independent slicing
    off = 88; n,s = parse_compact_size(raw[88:]); off+=s
    bad=0; kinds={}
    txids=[]; wtxids=[]
    for i in range(n):
        L = get_transaction_length(raw[off:])
        txb = raw[off:off+L]; off+=L
        try:
            tx = Transaction.from_raw(txb.hex())
            ok = tx.to_bytes(tx.has_segwit)==txb
        except Exception as e:
            ok=False; tx=None
            kinds.setdefault('exc:'+type(e).__name__,[]).append(i)
        if not ok:
            bad+=1
            if tx is not None:
                # classify
                k=[]
                if tx.has_segwit and len(tx.witnesses)!=len(tx.inputs): k.append('emptywit')
                else: k.append('script')
                kinds.setdefault(','.join(k),[]).append(i)
    print('  end offset', off, 'of', len(raw), 'bad', bad, {k:(len(v),v[:5]) for k,v in kinds.items()})
