import hashlib, io, contextlib, collections
from bitcoinutils.setup import setup
setup('mainnet')
from bitcoinutils.transactions import *
from bitcoinutils.script import Script
from bitcoinutils.utils import *
import coincurve
def h160(b): 
    from bitcoinutils.ripemd160 import ripemd160
    return ripemd160(hashlib.sha256(b).digest())
stats=collections.Counter()
for name in ['legacy_block','segwit_v0_block','segwit_v1_block']:
    raw = bytes.fromhex(open('/repo/tests/%s.txt'%name).read().strip())
    off = 88; n,s = parse_compact_size(raw[88:]); off+=s
    txs=[]
    for i in range(n):
        L = get_transaction_length(raw[off:]); txs.append(Transaction.from_raw(raw[off:off+L].hex())); off+=L
    bytxid={t.get_txid():t for t in txs}
    for t in txs[1:]:
        prev=[bytxid.get(i.txid) for i in t.inputs]
        for idx,inp in enumerate(t.inputs):
            ss=inp.script_sig.script
            wit=t.witnesses[idx].stack if t.has_segwit and idx<len(t.witnesses) else []
            # P2PKH
            if len(ss)==2 and len(ss[1]) in (66,130) and len(ss[0])>=18 and ss[0][:2]=='30' and not wit:
                sig=bytes.fromhex(ss[0]); pub=bytes.fromhex(ss[1]); ht=sig[-1]
                code=Script(['OP_DUP','OP_HASH160',h160(pub).hex(),'OP_EQUALVERIFY','OP_CHECKSIG'])
                try:
                    d=t.get_transaction_digest(idx,code,ht)
                    ok=coincurve.PublicKey(pub).verify(coincurve.ecdsa.der_to_cdata and sig[:-1], d, hasher=None)
                except Exception as e:
                    ok=False
                stats[(name,'p2pkh',ht,ok)]+=1
            # P2WPKH with in-block prevout
            elif len(wit)==2 and len(wit[1])==66 and not ss and prev[idx] is not None:
                po=prev[idx].outputs[inp.txout_index]
                spk=po.script_pubkey.to_bytes()
                if len(spk)==22 and spk[:2]==b'\x00\x14':
                    sig=bytes.fromhex(wit[0]); pub=bytes.fromhex(wit[1]); ht=sig[-1]
                    code=Script(['OP_DUP','OP_HASH160',h160(pub).hex(),'OP_EQUALVERIFY','OP_CHECKSIG'])
                    d=t.get_transaction_segwit_digest(idx,code,po.amount,ht)
                    try: ok=coincurve.PublicKey(pub).verify(sig[:-1], d, hasher=None)
                    except Exception: ok=False
                    stats[(name,'p2wpkh',ht,ok)]+=1
            # taproot key path: all prevouts in block
            elif len(wit)==1 and len(wit[0]) in (128,130) and all(p is not None for p in prev):
                pos=[prev[j].outputs[t.inputs[j].txout_index] for j in range(len(t.inputs))]
                spk=pos[idx].script_pubkey.to_bytes()
                if len(spk)==34 and spk[:2]==b'\x51\x20':
                    sig=bytes.fromhex(wit[0]); ht=sig[64] if len(sig)==65 else 0
                    d=t.get_transaction_taproot_digest(idx,[p.script_pubkey for p in pos],[p.amount for p in pos],0,sighash=ht)
                    ok=coincurve.PublicKeyXOnly(spk[2:]).verify(sig[:64], d)
                    stats[(name,'p2tr-key',ht,ok)]+=1
for k,v in sorted(stats.items(), key=str): print(k,v)
