import sys, hashlib, traceback
from bitcoinutils.setup import setup
setup('mainnet')
from bitcoinutils.transactions import *
from bitcoinutils.script import Script
from bitcoinutils.block import Block
from bitcoinutils.utils import *

def dsha(b): return hashlib.sha256(hashlib.sha256(b).digest()).digest()

# C02 boundaries
for n in [0,1,75,76,254,255,256,65534,65535,65536]:
    b = Script(['aa'*n]).to_bytes() if n else Script(['']).to_bytes()
    print('push',n,b[:6].hex())
    for sw in (False,True):
        try:
            s = Script.from_raw(b.hex(), has_segwit=sw)
            rb = s.to_bytes()
            print('   segwit',sw,'roundtrip', rb==b, [ (t if len(t)<20 else t[:10]+'..') for t in s.script][:4])
        except Exception as e:
            print('   segwit',sw,'EXC',repr(e))
# ints
for i in [0,1,16,17,127,128,255,256,32767,32768,2**31-1,2**31,2**63]:
    print('int',i,Script([i]).to_bytes().hex())
