abbrev Bytes := List UInt8
abbrev Ref := Nat

inductive Obj
  | toks (items : List Bytes)                    -- a Python list of tokens / witness items
  | script (lst : Ref)                           -- Script.script -> list
  | txin (txid : Bytes) (idx : Nat) (sig : Ref) (seq : Bytes)
  | wit (stack : Ref)
  | refs (items : List Ref)                      -- a Python list of objects
  | tx (ins wits : Ref)
deriving Repr

structure Heap where
  objs : List Obj
def Heap.next (h : Heap) : Ref := h.objs.length
def Heap.alloc (h : Heap) (o : Obj) : Heap × Ref := (⟨h.objs ++ [o]⟩, h.objs.length)
def Heap.get? (h : Heap) (r : Ref) : Option Obj := h.objs[r]?

@[simp] theorem alloc_next (h : Heap) (o : Obj) : (h.alloc o).1.next = h.next + 1 := by
  simp [Heap.alloc, Heap.next]
@[simp] theorem alloc_ref (h : Heap) (o : Obj) : (h.alloc o).2 = h.next := rfl
theorem alloc_get_old (h : Heap) (o : Obj) (r : Ref) (hr : r < h.next) :
    (h.alloc o).1.get? r = h.get? r := by
  simp [Heap.alloc, Heap.get?, Heap.next] at *; simp [List.getElem?_append_left hr]
theorem alloc_get_new (h : Heap) (o : Obj) : (h.alloc o).1.get? h.next = some o := by
  simp [Heap.alloc, Heap.get?, Heap.next]

/-- mutable cells reachable from a Script / TxInput object (type-directed) -/
def reachScript (h : Heap) (r : Ref) : List Ref :=
  match h.get? r with
  | some (.script l) => [r, l]
  | _ => [r]
def reachTxin (h : Heap) (r : Ref) : List Ref :=
  match h.get? r with
  | some (.txin _ _ s _) => r :: reachScript h s
  | _ => [r]

/-- Script.copy (deepcopy of the list, new Script) -/
def scriptCopy (h : Heap) (r : Ref) : Option (Heap × Ref) :=
  match h.get? r with
  | some (.script l) =>
    match h.get? l with
    | some (.toks items) =>
      let (h1, l') := h.alloc (.toks items)
      let (h2, s') := h1.alloc (.script l')
      some (h2, s')
    | _ => none
  | _ => none

/-- TxInput.copy as it is today: shares script_sig -/
def txinCopyShallow (h : Heap) (r : Ref) : Option (Heap × Ref) :=
  match h.get? r with
  | some (.txin t i s q) => some (h.alloc (.txin t i s q))
  | _ => none

/-- TxInput.copy after the repair: copies the script -/
def txinCopyDeep (h : Heap) (r : Ref) : Option (Heap × Ref) :=
  match h.get? r with
  | some (.txin t i s q) =>
    match scriptCopy h s with
    | some (h1, s') => some (h1.alloc (.txin t i s' q))
    | none => none
  | _ => none

theorem scriptCopy_fresh (h h' : Heap) (r c : Ref) (hc : scriptCopy h r = some (h', c)) :
    ∀ x ∈ reachScript h' c, h.next ≤ x := by
  unfold scriptCopy at hc
  split at hc <;> try contradiction
  split at hc <;> try contradiction
  rename_i l _ items _
  simp only [Option.some.injEq, Prod.mk.injEq] at hc
  obtain ⟨rfl, rfl⟩ := hc
  intro x hx
  simp only [reachScript, alloc_ref, alloc_next] at hx
  rw [show ((h.alloc (Obj.toks items)).1.alloc (Obj.script h.next)).1.get? (h.next + 1)
        = some (Obj.script h.next) from by
        have := alloc_get_new (h.alloc (Obj.toks items)).1 (Obj.script h.next)
        simpa using this] at hx
  simp at hx; omega

theorem txinCopyDeep_fresh (h h' : Heap) (r c : Ref) (hc : txinCopyDeep h r = some (h', c)) :
    ∀ x ∈ reachTxin h' c, h.next ≤ x := by
  unfold txinCopyDeep at hc
  split at hc <;> try contradiction
  split at hc <;> try contradiction
  rename_i t i s q _ h1 s' hs
  simp only [Option.some.injEq, Prod.mk.injEq] at hc
  obtain ⟨rfl, rfl⟩ := hc
  have hfr := scriptCopy_fresh h h1 s s' hs
  sorry

/-- the shallow copy is provably NOT fresh: concrete witness -/
example : ∃ h r h' c, txinCopyShallow h r = some (h', c) ∧ ∃ x ∈ reachTxin h' c, x < h.next := by
  refine ⟨⟨[.toks [], .script 0, .txin [] 0 1 []]⟩, 2, _, _, rfl, 1, ?_, by decide⟩
  decide
