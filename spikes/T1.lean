abbrev Bytes := List UInt8
inductive PyErr | valueError | overflowError | structError | indexError | typeError
deriving Repr, DecidableEq

def leBytes : Nat → Nat → Bytes
  | 0, _ => []
  | k+1, n => UInt8.ofNat (n % 256) :: leBytes k (n / 256)

def ofLE : Bytes → Nat
  | [] => 0
  | b :: bs => b.toNat + 256 * ofLE bs

@[simp] theorem leBytes_length (k n : Nat) : (leBytes k n).length = k := by
  induction k generalizing n <;> simp [leBytes, *]

theorem ofLE_leBytes (k n : Nat) (h : n < 256 ^ k) : ofLE (leBytes k n) = n := by
  induction k generalizing n with
  | zero => simp at h; simp [leBytes, ofLE, h]
  | succ k ih =>
    simp only [leBytes, ofLE]
    rw [ih]
    · simp [UInt8.toNat_ofNat']; omega
    · rw [Nat.pow_succ] at h; omega

def intToBytesLE (i : Int) (k : Nat) : Except PyErr Bytes :=
  if i < 0 then .error .overflowError
  else if i.toNat ≥ 256 ^ k then .error .overflowError
  else .ok (leBytes k i.toNat)

def pyBytes1 (i : Int) : Except PyErr Bytes :=
  if 0 ≤ i ∧ i < 256 then .ok [UInt8.ofNat i.toNat] else .error .valueError

def encode_varint (i : Int) : Except PyErr Bytes := do
  if i < 253 then
    return (← pyBytes1 i)
  else if i < 0x10000 then
    return [0xfd] ++ (← intToBytesLE i 2)
  else if i < 0x100000000 then
    return [0xfe] ++ (← intToBytesLE i 4)
  else if i < 0x10000000000000000 then
    return [0xff] ++ (← intToBytesLE i 8)
  else
    throw .valueError

def compactSize (n : Nat) : Bytes :=
  if n < 253 then [UInt8.ofNat n]
  else if n < 2^16 then 0xfd :: leBytes 2 n
  else if n < 2^32 then 0xfe :: leBytes 4 n
  else 0xff :: leBytes 8 n

theorem encode_varint_spec (n : Nat) (h : n < 2^64) :
    encode_varint (n : Int) = .ok (compactSize n) := by
  unfold encode_varint compactSize pyBytes1 intToBytesLE
  by_cases h1 : n < 253
  · have : (n:Int) < 253 := by omega
    have : (n:Int) < 256 := by omega
    simp [*]
  · have a : ¬ (n:Int) < 253 := by omega
    by_cases h2 : n < 2^16
    · have b : (n:Int) < 0x10000 := by omega
      have c : ¬ (256^2 ≤ n) := by omega
      simp [h1, h2, a, b, c]; rfl
    · have b : ¬ (n:Int) < 0x10000 := by omega
      by_cases h3 : n < 2^32
      · have b' : (n:Int) < 0x100000000 := by omega
        have c : ¬ (256^4 ≤ n) := by omega
        simp [h1, h2, h3, a, b, b', c]; rfl
      · have b' : ¬ (n:Int) < 0x100000000 := by omega
        have b'' : (n:Int) < 0x10000000000000000 := by omega
        have c : ¬ (256^8 ≤ n) := by omega
        simp [h1, h2, h3, a, b, b', b'', c]; rfl

theorem encode_varint_rejects (i : Int) (h : i < 0 ∨ 2^64 ≤ i) : ∃ e, encode_varint i = .error e := by
  unfold encode_varint pyBytes1 intToBytesLE
  rcases h with h | h
  · have : i < 253 := by omega
    have : ¬ (0 ≤ i) := by omega
    simp [*]
  · have a : ¬ i < 253 := by omega
    have b : ¬ i < 0x10000 := by omega
    have c : ¬ i < 0x100000000 := by omega
    have d : ¬ i < 0x10000000000000000 := by omega
    simp [*]; exact ⟨_, rfl⟩

#print axioms encode_varint_spec
#print axioms encode_varint_rejects
