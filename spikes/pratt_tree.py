import sys, time
from sympy import factorint, isprime, primitive_root
sys.setrecursionlimit(10000)
p = 0xFFFFFFFFFFFFFFFFFFFFFFFFFFFFFFFFFFFFFFFFFFFFFFFFFFFFFFFEFFFFFC2F
n = 0xFFFFFFFFFFFFFFFFFFFFFFFFFFFFFFFEBAAEDCE6AF48A03BBFD25E8CD0364141
seen = {}
def cert(q, depth=0):
    if q in seen or q < 1000: return
    t=time.time()
    f = factorint(q-1)
    print('  '*depth, q.bit_length(), 'bits; factored q-1 in %.1fs:'%(time.time()-t), {k.bit_length():v for k,v in f.items()}, flush=True)
    # witness
    for a in range(2, 200):
        if pow(a, q-1, q)==1 and all(pow(a,(q-1)//r,q)!=1 for r in f): break
    seen[q]=(a, f)
    for r in f: cert(r, depth+1)
for name,q in (('p',p),('n',n)):
    print(name); cert(q)
print('primes needing certificates:', len(seen))
