import Mathlib.NumberTheory.LucasPrimality
import Mathlib.Tactic.NormNum.Prime

def powModAux : Nat → Nat → Nat → Nat → Nat → Nat
  | 0, _, _, _, acc => acc
  | fuel+1, b, e, m, acc =>
    if e = 0 then acc else
    powModAux fuel (b*b % m) (e/2) m (if e % 2 = 1 then acc*b % m else acc)

def powMod (b e m : Nat) : Nat := powModAux (e + 1) (b % m) e m (1 % m)

theorem powModAux_spec (fuel b e m acc : Nat) (hf : e < fuel) :
    powModAux fuel b e m acc % m = (acc * b ^ e) % m := by
  induction fuel generalizing b e acc with
  | zero => omega
  | succ f ih =>
    unfold powModAux
    by_cases he : e = 0
    · simp [he]
    · simp only [he, if_false]
      rw [ih _ _ _ (by omega)]
      have hdecomp : e = 2 * (e / 2) + e % 2 := by omega
      by_cases hodd : e % 2 = 1
      · simp only [hodd, if_true]
        conv_rhs => rw [hdecomp, hodd, pow_succ, pow_mul]
        rw [Nat.mul_mod, Nat.mul_mod (acc*b % m), Nat.pow_mod (b*b % m)]
        simp [Nat.pow_mod, Nat.mul_mod, pow_two, mul_assoc, mul_comm, mul_left_comm]
        sorry
      · sorry

theorem powMod_spec (b e m : Nat) : powMod b e m % m = b ^ e % m := by
  unfold powMod
  rw [powModAux_spec _ _ _ _ _ (by omega)]
  simp [Nat.mul_mod, Nat.pow_mod]

/-- Lucas/Pratt step with executable certificates -/
theorem prime_of_cert (p a : Nat) (hp : 1 < p) (qs : List Nat)
    (hq : ∀ q ∈ qs, q.Prime)
    (hfac : ∀ q : Nat, q.Prime → q ∣ p - 1 → q ∈ qs)
    (h1 : powMod a (p-1) p % p = 1 % p)
    (h2 : ∀ q ∈ qs, powMod a ((p-1)/q) p % p ≠ 1 % p) : p.Prime := by
  apply lucas_primality p (a : ZMod p)
  · have := h1; rw [powMod_spec] at this
    have h : ((a ^ (p-1) : ℕ) : ZMod p) = ((1 : ℕ) : ZMod p) := (ZMod.natCast_eq_natCast_iff' _ _ _).mpr this
    simpa using h
  · intro q hqp hqd hcontra
    have hm := hfac q hqp hqd
    have := h2 q hm; rw [powMod_spec] at this
    apply this
    have h : ((a ^ ((p-1)/q) : ℕ) : ZMod p) = ((1 : ℕ) : ZMod p) := by simpa using hcontra
    exact (ZMod.natCast_eq_natCast_iff' _ _ _).mp h
