import Mathlib.Algebra.Module.Basic
import Mathlib.Data.ZMod.Basic
import Mathlib.Tactic.FieldSimp
import Mathlib.Tactic.Ring
import Mathlib.Tactic.LinearCombination

variable {n : ℕ} [Fact n.Prime] {E : Type} [AddCommGroup E] [Module (ZMod n) E]

/-- abstract ECDSA: R = k•G, r = f R, s = k⁻¹(z + r d) -/
theorem ecdsa_verify_eq (G : E) (d k z r : ZMod n) (hk : k ≠ 0) (s : ZMod n)
    (hs : s = k⁻¹ * (z + r * d)) (hs0 : s ≠ 0) :
    (z * s⁻¹) • G + (r * s⁻¹) • (d • G) = k • G := by
  rw [smul_smul, ← add_smul]
  congr 1
  have hzr : z + r * d = k * s := by rw [hs]; field_simp
  have : z * s⁻¹ + r * s⁻¹ * d = (z + r*d) * s⁻¹ := by ring
  rw [this, hzr]; field_simp

theorem schnorr_verify_eq (G : E) (d k e : ZMod n) :
    (k + e * d) • G + (-e) • (d • G) = k • G := by
  rw [smul_smul, ← add_smul]; congr 1; ring
#print axioms ecdsa_verify_eq
