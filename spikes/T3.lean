abbrev Bytes := List UInt8

def leBytes : Nat → Nat → Bytes
  | 0, _ => []
  | k+1, n => UInt8.ofNat (n % 256) :: leBytes k (n / 256)
def ofLE : Bytes → Nat
  | [] => 0
  | b :: bs => b.toNat + 256 * ofLE bs
@[simp] theorem leBytes_length (k n : Nat) : (leBytes k n).length = k := by
  induction k generalizing n <;> simp [leBytes, *]
theorem ofLE_leBytes (k n : Nat) (h : n < 256 ^ k) : ofLE (leBytes k n) = n := by
  induction k generalizing n with
  | zero => simp at h; simp [leBytes, ofLE, h]
  | succ k ih =>
    simp only [leBytes, ofLE]
    rw [ih]
    · simp [UInt8.toNat_ofNat']; omega
    · rw [Nat.pow_succ] at h; omega

/-- stand-in for `bytes([b]) in CODE_OPS` -/
def isOp (b : UInt8) : Bool := b == 0 || (b ≥ 0x4c && b ≤ 0x60 && b != 0x50) || b ≥ 0x61 && b ≤ 0xba

inductive Tok | op (b : UInt8) | data (d : Bytes)
deriving DecidableEq, Repr

def minimalPush (d : Bytes) : Bytes :=
  if d.length < 0x4c then UInt8.ofNat d.length :: d
  else if d.length ≤ 0xff then 0x4c :: UInt8.ofNat d.length :: d
  else if d.length ≤ 0xffff then 0x4d :: (leBytes 2 d.length ++ d)
  else 0x4e :: (leBytes 4 d.length ++ d)

def enc : Tok → Bytes
  | .op b => [b]
  | .data d => minimalPush d

/-- mirrors Script.from_raw (after fix): index-free, on the remaining suffix -/
def fromRaw (bs : Bytes) : List Tok :=
  match bs with
  | [] => []
  | b :: rest =>
    if isOp b then
      if b = 0x4c then
        let n := ofLE (rest.take 1)
        .data ((rest.drop 1).take n) :: fromRaw ((rest.drop 1).drop n)
      else if b = 0x4d then
        let n := ofLE (rest.take 2)
        .data ((rest.drop 2).take n) :: fromRaw ((rest.drop 2).drop n)
      else if b = 0x4e then
        let n := ofLE (rest.take 4)
        .data ((rest.drop 4).take n) :: fromRaw ((rest.drop 4).drop n)
      else .op b :: fromRaw rest
    else
      -- vi_to_int on scriptraw[index:index+8]; direct pushes are b < 253 → (b,1)
      if b.toNat < 253 then
        .data (rest.take b.toNat) :: fromRaw (rest.drop b.toNat)
      else
        let size := if b = 253 then 2 else if b = 254 then 4 else 8
        let n := ofLE (rest.take size)
        .data ((rest.drop size).take n) :: fromRaw ((rest.drop size).drop n)
termination_by bs.length
decreasing_by all_goals (simp [List.length_drop]; omega)

/-- what disassembly returns for a token -/
def norm : Tok → Tok
  | .op b => .op b
  | .data d => if d = [] then .op 0 else .data d

def WF : Tok → Prop
  | .op b => isOp b = true ∧ b ≠ 0x4c ∧ b ≠ 0x4d ∧ b ≠ 0x4e
  | .data d => d.length < 2^32

theorem fromRaw_enc (t : Tok) (h : WF t) (rest : Bytes) :
    fromRaw (enc t ++ rest) = norm t :: fromRaw rest := by
  cases t with
  | op b =>
    obtain ⟨h1, h2, h3, h4⟩ := h
    simp [enc]; rw [fromRaw]; simp [h1, h2, h3, h4, norm]
  | data d =>
    simp only [WF] at h
    simp only [enc, minimalPush]
    split
    · -- direct push
      rename_i hl
      by_cases hd : d = []
      · subst hd; simp [norm]; rw [fromRaw]; simp [isOp]
      · have hpos : 0 < d.length := List.length_pos_iff.mpr hd
        rw [List.cons_append, fromRaw]
        have hb : (UInt8.ofNat d.length).toNat = d.length := by simp [UInt8.toNat_ofNat']; omega
        have hnop : isOp (UInt8.ofNat d.length) = false := by
          simp only [isOp, Bool.or_eq_false_iff, Bool.and_eq_false_iff, beq_eq_false_iff_ne, ne_eq,
            decide_eq_false_iff_not, UInt8.not_le, bne_eq_false_iff_eq, UInt8.le_iff_toNat_le, UInt8.lt_iff_toNat_lt, ← UInt8.toNat_inj, hb]
          simp; omega
        simp [hnop, hb, norm, hd]; omega
    · sorry

