import Py
open Py
namespace Gen

def encode_varint (i : Int) : Except PyErr (Bytes) := do
  if (decide (i < (253 : Int))) then
    let t1 ← Py.bytesOfInts [i]
    return t1
  else
    if (decide (i < (65536 : Int))) then
      let t2 ← Py.toBytes i (2 : Int) Py.Order.little
      return ([0xfd] ++ t2)
    else
      if (decide (i < (4294967296 : Int))) then
        let t3 ← Py.toBytes i (4 : Int) Py.Order.little
        return ([0xfe] ++ t3)
      else
        if (decide (i < (18446744073709551616 : Int))) then
          let t4 ← Py.toBytes i (8 : Int) Py.Order.little
          return ([0xff] ++ t4)
        else
          throw PyErr.valueError
  throw PyErr.fellThrough

def prepend_compact_size (data : Bytes) : Except PyErr (Bytes) := do
  let t1 ← encode_varint (Py.len data)
  let mut varint_bytes := t1
  return (varint_bytes ++ data)

def parse_compact_size (data : Bytes) : Except PyErr (Int × Int) := do
  let t1 ← Py.index data (0 : Int)
  let mut first_byte := t1
  if (decide (first_byte < (253 : Int))) then
    return (first_byte, (1 : Int))
  else
    if (first_byte == (253 : Int)) then
      let t2 ← Py.unpack1 "<H" (Py.slice data (1 : Int) (3 : Int))
      return (t2, (3 : Int))
    else
      if (first_byte == (254 : Int)) then
        let t3 ← Py.unpack1 "<I" (Py.slice data (1 : Int) (5 : Int))
        return (t3, (5 : Int))
      else
        if (first_byte == (255 : Int)) then
          let t4 ← Py.unpack1 "<Q" (Py.slice data (1 : Int) (9 : Int))
          return (t4, (9 : Int))
  throw PyErr.fellThrough

def vi_to_int (byteint : Bytes) : Except PyErr (Int × Int) := do
  if (!true) then
    throw PyErr.other
  let t1 ← Py.index byteint (0 : Int)
  let mut ni := t1
  if (decide (ni < (253 : Int))) then
    return (ni, (1 : Int))
  let mut size := (0 : Int)
  if (ni == (253 : Int)) then
    size := (2 : Int)
  else
    if (ni == (254 : Int)) then
      size := (4 : Int)
    else
      size := (8 : Int)
  return ((Py.fromBytes (List.reverse (Py.slice byteint (1 : Int) ((1 : Int) + size))) Py.Order.big), (size + (1 : Int)))

def op_push_data (data : Bytes) : Except PyErr (Bytes) := do
  let mut data_bytes := data
  if (decide ((Py.len data_bytes) < (76 : Int))) then
    let t1 ← Py.bytesOfInts [(Py.len data_bytes)]
    return (t1 ++ data_bytes)
  else
    if (decide ((Py.len data_bytes) < (255 : Int))) then
      let t2 ← Py.bytesOfInts [(Py.len data_bytes)]
      return (([0x4c] ++ t2) ++ data_bytes)
    else
      if (decide ((Py.len data_bytes) < (65535 : Int))) then
        let t3 ← Py.pack "<H" (Py.len data_bytes)
        return (([0x4d] ++ t3) ++ data_bytes)
      else
        if (decide ((Py.len data_bytes) < (4294967295 : Int))) then
          let t4 ← Py.pack "<I" (Py.len data_bytes)
          return (([0x4e] ++ t4) ++ data_bytes)
        else
          throw PyErr.valueError
  throw PyErr.fellThrough

def push_integer (integer : Int) : Except PyErr (Bytes) := do
  if (decide (integer < (0 : Int))) then
    throw PyErr.valueError
  let mut number_of_bytes := (((Py.bitLength integer) + (7 : Int)) / (8 : Int))
  let t1 ← Py.toBytes integer number_of_bytes Py.Order.little
  let mut integer_bytes := t1
  if ((Py.land integer (Py.shl (1 : Int) ((number_of_bytes * (8 : Int)) - (1 : Int)))) != 0) then
    integer_bytes := (integer_bytes ++ [0x00])
  let t2 ← op_push_data integer_bytes
  return t2

def locktime_for_transaction (self_value : Int) : Except PyErr (Bytes) := do
  let t1 ← Py.toBytes self_value (4 : Int) Py.Order.little
  let mut locktime_bytes := t1
  return locktime_bytes

def sequence_init_check (self_seq_type : Int) (self_value : Int) (self_is_type_block : Bool) : Except PyErr (Unit) := do
  if !true then throw PyErr.assertion
  if ((self_seq_type == (513 : Int)) && ((decide (self_value < (1 : Int))) || (decide (self_value > (65535 : Int))))) then
    throw PyErr.valueError
  return ()

def sequence_for_input (self_seq_type : Int) (self_value : Int) (self_is_type_block : Bool) : Except PyErr (Option Bytes) := do
  if (self_seq_type == (257 : Int)) then
    return (some [0xfe, 0xff, 0xff, 0xff])
  else
    if (self_seq_type == (769 : Int)) then
      return (some [0x01, 0x00, 0x00, 0x00])
    else
      if (self_seq_type == (513 : Int)) then
        let mut seq := (0 : Int)
        if (!self_is_type_block) then
          seq := (Py.lor seq (Py.shl (1 : Int) (22 : Int)))
        seq := (Py.lor seq self_value)
        let t1 ← Py.toBytes seq (4 : Int) Py.Order.little
        let mut seq_bytes := t1
        return (some seq_bytes)
  return none

def sequence_for_script (self_seq_type : Int) (self_value : Int) (self_is_type_block : Bool) : Except PyErr (Int) := do
  if (self_seq_type == (769 : Int)) then
    throw PyErr.valueError
  let mut script_integer := self_value
  if ((self_seq_type == (513 : Int)) && (!self_is_type_block)) then
    script_integer := (Py.lor script_integer (Py.shl (1 : Int) (22 : Int)))
  return script_integer

end Gen

open Gen
#eval encode_varint 253
#eval encode_varint 70000
#eval parse_compact_size [0xfd, 0xfd, 0x00, 0x01]
#eval vi_to_int [0xfe, 1,0,1,0]
#eval op_push_data (List.replicate 255 0xaa) |>.map (·.take 4)
#eval push_integer 32768
#eval push_integer 17
#eval sequence_for_input 513 65535 false
#eval sequence_init_check 513 65536 true
#eval locktime_for_transaction 500000000
