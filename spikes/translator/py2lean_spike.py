"""Spike: translate a whitelisted set of leaf functions of /repo/bitcoinutils to Lean `do` blocks.
Typed by a small signature table; anything outside the subset raises Unsupported(loc)."""
import ast, sys, textwrap
REPO = sys.argv[1] if len(sys.argv) > 1 else '/repo'

class Unsupported(Exception): pass

# name -> (file, qualname, params [(name, leanType)], return lean type, options)
SIG = {
 'encode_varint':        ('utils.py', 'encode_varint', [('i','Int')], 'Bytes', {}),
 'prepend_compact_size': ('utils.py', 'prepend_compact_size', [('data','Bytes')], 'Bytes', {}),
 'parse_compact_size':   ('utils.py', 'parse_compact_size', [('data','Bytes')], 'Int × Int', {}),
 'vi_to_int':            ('utils.py', 'vi_to_int', [('byteint','Bytes')], 'Int × Int', {}),
 'op_push_data':         ('script.py', 'Script._op_push_data', [('data','Bytes')], 'Bytes', {'self': True}),
 'push_integer':         ('script.py', 'Script._push_integer', [('integer','Int')], 'Bytes', {'self': True}),
 'locktime_for_transaction': ('transactions.py', 'Locktime.for_transaction', [('self_value','Int')], 'Bytes', {'self': True}),
 'sequence_init_check':  ('transactions.py', 'Sequence.__init__', [('seq_type','Int'),('value','Int'),('is_type_block','Bool')], 'Unit', {'self': True, 'init': True}),
 'sequence_for_input':   ('transactions.py', 'Sequence.for_input_sequence', [('self_seq_type','Int'),('self_value','Int'),('self_is_type_block','Bool')], 'Option Bytes', {'self': True}),
 'sequence_for_script':  ('transactions.py', 'Sequence.for_script', [('self_seq_type','Int'),('self_value','Int'),('self_is_type_block','Bool')], 'Int', {'self': True}),
}
CALLS = {'encode_varint':'encode_varint','prepend_compact_size':'prepend_compact_size','_op_push_data':'op_push_data'}
IDENT = {'h_to_b','b_to_h'}           # hex strings are modelled as the bytes they denote
CONSTS = {}                            # filled from evaluated modules

def find(tree, qual):
    parts = qual.split('.')
    body = tree.body
    node = None
    for p in parts:
        node = next(n for n in body if isinstance(n,(ast.FunctionDef,ast.ClassDef)) and n.name==p)
        body = node.body
    return node

class Tr:
    def __init__(s, name): s.name=name; s.tmp=0; s.pre=[]; s.declared=set()
    def fail(s, n, why): raise Unsupported(f'{s.name}: line {getattr(n,"lineno","?")}: {why}: {ast.dump(n)[:80]}')
    # ---- expressions; returns lean term; effectful sub-terms are hoisted into s.pre as `let t ← …`
    def eff(s, term):
        s.tmp+=1; v=f't{s.tmp}'; s.pre.append(f'let {v} ← {term}'); return v
    def e(s, n):
        if isinstance(n, ast.Constant):
            if isinstance(n.value,bool): return 'true' if n.value else 'false'
            if isinstance(n.value,int): return f'({n.value} : Int)'
            if isinstance(n.value,bytes): return '[' + ', '.join(f'0x{b:02x}' for b in n.value) + ']'
            if n.value is None: return 'none'
            s.fail(n,'constant')
        if isinstance(n, ast.Name):
            if n.id in CONSTS: return CONSTS[n.id]
            return n.id
        if isinstance(n, ast.Attribute) and isinstance(n.value, ast.Name) and n.value.id=='self':
            return 'self_'+n.attr
        if isinstance(n, ast.BinOp):
            a,b=s.e(n.left),s.e(n.right)
            op={ast.Add:'+',ast.Sub:'-',ast.Mult:'*',ast.FloorDiv:'/',ast.Mod:'%'}.get(type(n.op))
            if op=='+' and s.isbytes(n.left): return f'({a} ++ {b})'
            if op: return f'({a} {op} {b})'
            if isinstance(n.op, ast.LShift): return f'(Py.shl {a} {b})'
            if isinstance(n.op, ast.RShift): return f'(Py.shr {a} {b})'
            if isinstance(n.op, ast.BitAnd): return f'(Py.land {a} {b})'
            if isinstance(n.op, ast.BitOr): return f'(Py.lor {a} {b})'
            s.fail(n,'binop')
        if isinstance(n, ast.Compare) and len(n.ops)==1:
            a,b=s.e(n.left),s.e(n.comparators[0])
            op={ast.Lt:'<',ast.LtE:'≤',ast.Gt:'>',ast.GtE:'≥',ast.Eq:'==',ast.NotEq:'!='}.get(type(n.ops[0]))
            if isinstance(n.ops[0], ast.IsNot) and b=='none': return 'true'
            if op in ('==','!='): return f'({a} {op} {b})'
            if op: return f'(decide ({a} {op} {b}))'
            s.fail(n,'compare')
        if isinstance(n, ast.BoolOp):
            j=' && ' if isinstance(n.op,ast.And) else ' || '
            return '('+j.join(s.cond(v) for v in n.values)+')'
        if isinstance(n, ast.UnaryOp) and isinstance(n.op, ast.Not): return f'(!{s.cond(n.operand)})'
        if isinstance(n, ast.Subscript):
            v=s.e(n.value)
            if isinstance(n.slice, ast.Slice):
                if n.slice.step is not None:
                    if isinstance(n.slice.step,ast.UnaryOp) and n.slice.lower is None and n.slice.upper is None: return f'(List.reverse {v})'
                    s.fail(n,'slice step')
                lo = s.e(n.slice.lower) if n.slice.lower else '(0:Int)'
                hi = s.e(n.slice.upper) if n.slice.upper else 'Py.slEnd'
                return f'(Py.slice {v} {lo} {hi})'
            if isinstance(n.value, ast.Call): # struct.unpack(...)[0]
                return v
            return s.eff(f'Py.index {v} {s.e(n.slice)}')
        if isinstance(n, ast.Tuple): return '('+', '.join(s.e(x) for x in n.elts)+')'
        if isinstance(n, ast.Call): return s.call(n)
        s.fail(n,'expr')
    def isbytes(s,n):
        if isinstance(n,ast.Constant): return isinstance(n.value,bytes)
        if isinstance(n,ast.Name): return n.id in s.bytesvars
        if isinstance(n,ast.BinOp) and isinstance(n.op,ast.Add): return s.isbytes(n.left) or s.isbytes(n.right)
        if isinstance(n,ast.Call):
            f=n.func
            nm = f.attr if isinstance(f,ast.Attribute) else getattr(f,'id','')
            return nm in ('to_bytes','pack','bytes','encode_varint','h_to_b','_op_push_data','prepend_compact_size')
        if isinstance(n,ast.Subscript): return s.isbytes(n.value)
        return False
    def cond(s,n):
        t=s.e(n)
        # python truthiness of ints
        if isinstance(n,(ast.BinOp,)) or (isinstance(n,ast.Name) and n.id not in s.boolvars) : return f'({t} != 0)'
        if isinstance(n,ast.Attribute) and 'self_'+n.attr not in s.boolvars: return f'({t} != 0)'
        return t
    def call(s,n):
        f=n.func; args=[*n.args]; kw={k.arg:k.value for k in n.keywords}
        if isinstance(f,ast.Name):
            if f.id in IDENT: return s.e(args[0])
            if f.id=='len': return f'(Py.len {s.e(args[0])})'
            if f.id=='int' and len(args)==1: return s.e(args[0])
            if f.id=='bytes' and isinstance(args[0],ast.List): return s.eff('Py.bytesOfInts ['+', '.join(s.e(x) for x in args[0].elts)+']')
            if f.id in CALLS: return s.eff(f'{CALLS[f.id]} '+' '.join(s.e(a) for a in args))
            if f.id=='isinstance': return 'true'
        if isinstance(f,ast.Attribute):
            if isinstance(f.value,ast.Name) and f.value.id=='self' and f.attr in CALLS:
                return s.eff(f'{CALLS[f.attr]} '+' '.join(s.e(a) for a in args))
            if f.attr=='to_bytes':
                order = kw.get('byteorder', args[1] if len(args)>1 else None)
                return s.eff(f'Py.toBytes {s.e(f.value)} {s.e(args[0])} Py.Order.{order.value}')
            if f.attr=='from_bytes': return f'(Py.fromBytes {s.e(args[0])} Py.Order.{args[1].value})'
            if f.attr=='bit_length': return f'(Py.bitLength {s.e(f.value)})'
            if isinstance(f.value,ast.Name) and f.value.id=='struct' and f.attr=='pack':
                return s.eff(f'Py.pack "{args[0].value}" {s.e(args[1])}')
            if isinstance(f.value,ast.Name) and f.value.id=='struct' and f.attr=='unpack':
                return s.eff(f'Py.unpack1 "{args[0].value}" {s.e(args[1])}')
        s.fail(n,'call')
    # ---- statements
    def block(s, stmts, ind):
        out=[]
        for st in stmts: out+=s.stmt(st, ind)
        return out or [ind+'pure ()']
    def flush(s, ind):
        r=[ind+p for p in s.pre]; s.pre=[]; return r
    def stmt(s, st, ind):
        if isinstance(st, ast.Expr) and isinstance(st.value, ast.Constant): return []      # docstring
        if isinstance(st, ast.Return):
            t = s.e(st.value) if st.value else '()'
            if s.ret.startswith('Option') and t!='none': t=f'(some {t})'
            return s.flush(ind)+[f'{ind}return {t}']
        if isinstance(st, ast.Raise): return [f'{ind}throw PyErr.{s.exc(st.exc)}']
        if isinstance(st, ast.Assert):
            c=s.cond(st.test); return s.flush(ind)+[f'{ind}if !{c} then throw PyErr.assertion']
        if isinstance(st, ast.Assign) and len(st.targets)==1:
            tg=st.targets[0]
            if isinstance(tg, ast.Attribute): return []   # self.x = x in __init__: fields are the params
            v=s.e(st.value); name=tg.id
            if s.isbytes(st.value): s.bytesvars.add(name)
            kw = '' if name in s.declared else 'let mut '
            s.declared.add(name)
            return s.flush(ind)+[f'{ind}{kw}{name} := {v}']
        if isinstance(st, ast.AugAssign):
            v=s.e(ast.BinOp(left=st.target, op=st.op, right=st.value)); return s.flush(ind)+[f'{ind}{st.target.id} := {v}']
        if isinstance(st, ast.If):
            c=s.cond(st.test); pre=s.flush(ind)
            out=pre+[f'{ind}if {c} then']+s.block(st.body, ind+'  ')
            if st.orelse: out+= [f'{ind}else']+s.block(st.orelse, ind+'  ')
            return out
        s.fail(st,'stmt')
    def exc(s,n):
        nm = n.func.id if isinstance(n,ast.Call) else n.id
        return {'ValueError':'valueError','Exception':'other','TypeError':'typeError'}.get(nm,'other')
    def fn(s, node, params, ret, opts):
        s.ret=ret; s.bytesvars={p for p,t in params if t=='Bytes'}; s.boolvars={p for p,t in params if t=='Bool'}
        s.declared={p for p,_ in params}
        ps=' '.join(f'({p} : {t})' for p,t in params)
        body=s.block(node.body,'  ')
        # implicit `return None` at the end of a Python function
        last=node.body[-1]
        if not isinstance(last,(ast.Return,ast.Raise)):
            body.append('  throw PyErr.fellThrough' if not ret.startswith('Option') and ret!='Unit' else ('  return none' if ret!='Unit' else '  return ()'))
        return f'def {s.name} {ps} : Except PyErr ({ret}) := do\n'+'\n'.join(body)+'\n'

def main():
    import importlib
    sys.path.insert(0, REPO)
    consts = importlib.import_module('bitcoinutils.constants')
    for k in ('TYPE_ABSOLUTE_TIMELOCK','TYPE_RELATIVE_TIMELOCK','TYPE_REPLACE_BY_FEE'):
        CONSTS[k]=f'({getattr(consts,k)} : Int)'
    for k in ('ABSOLUTE_TIMELOCK_SEQUENCE','REPLACE_BY_FEE_SEQUENCE'):
        CONSTS[k]='['+', '.join(f'0x{b:02x}' for b in getattr(consts,k))+']'
    trees={}
    print('import Py\nopen Py\nnamespace Gen\n')
    for name,(file,qual,params,ret,opts) in SIG.items():
        if file not in trees: trees[file]=ast.parse(open(f'{REPO}/bitcoinutils/{file}').read())
        node=find(trees[file], qual)
        print(Tr(name).fn(node, params, ret, opts))
    print('end Gen')
main()
