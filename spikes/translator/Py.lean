abbrev Bytes := List UInt8
inductive PyErr | valueError | overflowError | structError | indexError | typeError | assertion | fellThrough | other
deriving Repr, DecidableEq
namespace Py
inductive Order | little | big deriving Repr, DecidableEq
def leBytes : Nat → Nat → Bytes
  | 0, _ => []
  | k+1, n => UInt8.ofNat (n % 256) :: leBytes k (n / 256)
def ofLE : Bytes → Nat
  | [] => 0
  | b :: bs => b.toNat + 256 * ofLE bs
def len (b : Bytes) : Int := b.length
def slEnd : Int := 0x7fffffffffffffff
/-- Python b[lo:hi] for non-negative bounds (negative bounds are outside the translated subset) -/
def slice (b : Bytes) (lo hi : Int) : Bytes := (b.drop lo.toNat).take (hi.toNat - lo.toNat)
def index (b : Bytes) (i : Int) : Except PyErr Int :=
  if i < 0 then .error .indexError else match b[i.toNat]? with | some x => .ok x.toNat | none => .error .indexError
def bytesOfInts (xs : List Int) : Except PyErr Bytes :=
  xs.mapM fun i => if 0 ≤ i ∧ i < 256 then .ok (UInt8.ofNat i.toNat) else .error .valueError
def toBytes (i : Int) (k : Int) (o : Order) : Except PyErr Bytes :=
  if i < 0 ∨ k < 0 then .error .overflowError
  else if i.toNat ≥ 256 ^ k.toNat then .error .overflowError
  else .ok (match o with | .little => leBytes k.toNat i.toNat | .big => (leBytes k.toNat i.toNat).reverse)
def fromBytes (b : Bytes) (o : Order) : Int := match o with | .little => ofLE b | .big => ofLE b.reverse
def fmtSize : String → Option (Nat × Bool)   -- (bytes, signed)
  | "B" => some (1,false) | "<H" => some (2,false) | "<I" => some (4,false) | "<L" => some (4,false)
  | "<Q" => some (8,false) | "<q" => some (8,true) | "<i" => some (4,true) | _ => none
def pack (fmt : String) (i : Int) : Except PyErr Bytes :=
  match fmtSize fmt with
  | some (k, false) => if 0 ≤ i ∧ i.toNat < 256^k then .ok (leBytes k i.toNat) else .error .structError
  | some (k, true) => if -(256^k/2 : Int) ≤ i ∧ i < (256^k/2 : Int) then .ok (leBytes k (i % (256^k : Int)).toNat) else .error .structError
  | none => .error .other
def unpack1 (fmt : String) (b : Bytes) : Except PyErr Int :=
  match fmtSize fmt with
  | some (k, false) => if b.length = k then .ok (ofLE b) else .error .structError
  | some (k, true) => if b.length = k then .ok (let v : Int := ofLE b; if v ≥ (256^k/2 : Int) then v - (256^k : Int) else v) else .error .structError
  | none => .error .other
def bitLength (i : Int) : Int := if i = 0 then 0 else (Nat.log2 i.natAbs + 1 : Nat)
def shl (a b : Int) : Int := a * 2 ^ b.toNat
def shr (a b : Int) : Int := a / 2 ^ b.toNat
def land : Int → Int → Int
  | .ofNat a, .ofNat b => ((a &&& b : Nat) : Int)
  | .ofNat a, .negSucc b => ((a - (a &&& b) : Nat) : Int)
  | .negSucc a, .ofNat b => ((b - (b &&& a) : Nat) : Int)
  | .negSucc a, .negSucc b => .negSucc (a ||| b)
def lor : Int → Int → Int
  | .ofNat a, .ofNat b => ((a ||| b : Nat) : Int)
  | .ofNat a, .negSucc b => .negSucc (b - (b &&& a))
  | .negSucc a, .ofNat b => .negSucc (a - (a &&& b))
  | .negSucc a, .negSucc b => .negSucc (a &&& b)
end Py
