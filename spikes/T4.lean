abbrev Bytes := List UInt8
inductive Tree | leaf (s : Bytes) | one (t : Tree) | two (l r : Tree)

section
variable (leafH : Bytes → Bytes) (branchH : Bytes → Bytes → Bytes)

def root : Tree → Bytes
  | .leaf s => leafH s
  | .one t => root t
  | .two l r => branchH (root l) (root r)

def leaves : Tree → Nat
  | .leaf _ => 1 | .one t => leaves t | .two l r => leaves l + leaves r

def leafAt : Tree → Nat → Option Bytes
  | .leaf s, k => if k = 0 then some s else none
  | .one t, k => leafAt t k
  | .two l r, k => if k < leaves l then leafAt l k else leafAt r (k - leaves l)

/-- `_generate_merkle_path.traverse_level` with the `nonlocal traversed` counter threaded.
    Path kept as a list of sibling hashes (the code concatenates them). -/
def trav (target : Nat) : Tree → Nat → (List Bytes × Bytes × Bool) × Nat
  | .leaf s, c => if c = target then (([], [], true), c+1) else (([], leafH s, false), c+1)
  | .one t, c => trav target t c
  | .two l r, c =>
    let (a, c1) := trav target l c
    let (b, c2) := trav target r c1
    if a.2.2 then ((a.1 ++ [b.2.1], [], true), c2)
    else if b.2.2 then ((b.1 ++ [a.2.1], [], true), c2)
    else (([], branchH a.2.1 b.2.1, false), c2)

theorem trav_counter (target : Nat) (t : Tree) (c : Nat) :
    (trav leafH branchH target t c).2 = c + leaves t := by
  induction t generalizing c with
  | leaf s => simp [trav, leaves]; split <;> rfl
  | one t ih => simpa [trav, leaves] using ih c
  | two l r ihl ihr =>
    simp only [trav, leaves]
    have := ihl c; have := ihr (trav leafH branchH target l c).2
    split <;> (try split) <;> simp_all <;> omega

theorem trav_miss (target : Nat) (t : Tree) (c : Nat) (h : target < c ∨ c + leaves t ≤ target) :
    (trav leafH branchH target t c).1 = ([], root leafH branchH t, false) := by
  induction t generalizing c with
  | leaf s => simp [trav, leaves, root] at *; split <;> first | omega | rfl
  | one t ih => simpa [trav, leaves, root] using ih c (by simpa [leaves] using h)
  | two l r ihl ihr =>
    simp only [leaves] at h
    have hc := trav_counter leafH branchH target l c
    have h1 := ihl c (by omega)
    have h2 := ihr (c + leaves l) (by omega)
    simp only [trav, root]
    rw [hc] at *
    simp [h1, h2, hc]

variable (hsym : ∀ a b, branchH a b = branchH b a)
include hsym

theorem trav_hit (target : Nat) (t : Tree) (c : Nat) (h : c ≤ target ∧ target < c + leaves t) :
    ∃ p s, (trav leafH branchH target t c).1 = (p, [], true) ∧
      leafAt t (target - c) = some s ∧
      p.foldl (fun k e => branchH k e) (leafH s) = root leafH branchH t := by
  induction t generalizing c with
  | leaf s =>
    simp [leaves] at h
    have : c = target := by omega
    subst this
    exact ⟨[], s, by simp [trav], by simp [leafAt], by simp [root]⟩
  | one t ih =>
    obtain ⟨p, s, h1, h2, h3⟩ := ih c (by simpa [leaves] using h)
    exact ⟨p, s, by simpa [trav] using h1, by simpa [leafAt] using h2, by simpa [root] using h3⟩
  | two l r ihl ihr =>
    simp only [leaves] at h
    have hc := trav_counter leafH branchH target l c
    by_cases hl : target < c + leaves l
    · obtain ⟨p, s, h1, h2, h3⟩ := ihl c ⟨h.1, hl⟩
      have hm := trav_miss leafH branchH target r (c + leaves l) (Or.inl hl)
      refine ⟨p ++ [root leafH branchH r], s, ?_, ?_, ?_⟩
      · simp only [trav]; rw [hc]; simp [h1, hm]
      · simp only [leafAt]; have : target - c < leaves l := by omega
        simp [this, h2]
      · simp [List.foldl_append, h3, root]
    · obtain ⟨p, s, h1, h2, h3⟩ := ihr (c + leaves l) (by omega)
      have hm := trav_miss leafH branchH target l c (Or.inr (by omega))
      refine ⟨p ++ [root leafH branchH l], s, ?_, ?_, ?_⟩
      · simp only [trav]; rw [hc]; simp [h1, hm]
      · simp only [leafAt]; have : ¬ target - c < leaves l := by omega
        have e : target - c - leaves l = target - (c + leaves l) := by omega
        simp [this, e, h2]
      · simp [List.foldl_append, h3, root]; exact hsym _ _
end
#print axioms trav_hit
