import Mathlib.NumberTheory.LucasPrimality

def powModAux : Nat → Nat → Nat → Nat → Nat → Nat
  | 0, _, _, _, acc => acc
  | fuel+1, b, e, m, acc =>
    if e = 0 then acc else
    powModAux fuel (b*b % m) (e/2) m (if e % 2 = 1 then acc*b % m else acc)

def powMod (b e m : Nat) : Nat := powModAux (e.log2 + 1) (b % m) e m (1 % m)

def P : Nat := 0xFFFFFFFFFFFFFFFFFFFFFFFFFFFFFFFFFFFFFFFFFFFFFFFFFFFFFFFEFFFFFC2F

set_option maxRecDepth 100000 in
theorem t1 : powMod 3 (P-1) P = 1 := by decide +kernel

#print axioms t1
